(* C19 -- what GetAppResource / GetValidDosEx answer in the rebuilt state is the from-scratch
   specification; properties of the specification itself (one signature in force per tag). *)
From Coq Require Import List ZArith String Ascii Bool Lia Permutation.
From NIC Require Import Base.SMap AppProtect.Model AppProtect.Spec AppProtect.ProofsBase AppProtect.ProofsSig
     AppProtect.ProofsInv.
Import ListNotations.
Open Scope string_scope.
Open Scope list_scope.

Section V.
Context {fx : bool}.
Open Scope Z_scope.

Lemma existsb_map {A B} (f : B -> bool) (g : A -> B) (l : list A) :
  existsb f (map g l) = existsb (fun x => f (g x)) l.
Proof. induction l as [|x r IH]; cbn; [reflexivity|]. rewrite IH. reflexivity. Qed.

Lemma existsb_ext_in {A} (f g : A -> bool) (l : list A) :
  (forall x, In x l -> f x = g x) -> existsb f l = existsb g l.
Proof.
  induction l as [|x r IH]; cbn; intros H; [reflexivity|].
  rewrite (H x (or_introl eq_refl)), IH; [reflexivity|]. intros y Hy. apply H. right. exact Hy.
Qed.

Lemma forallb_ext_in {A} (f g : A -> bool) (l : list A) :
  (forall x, In x l -> f x = g x) -> forallb f l = forallb g l.
Proof.
  induction l as [|x r IH]; cbn; intros H; [reflexivity|].
  rewrite (H x (or_introl eq_refl)), IH; [reflexivity|]. intros y Hy. apply H. right. exact Hy.
Qed.

(* ------------------------------------------------------------------------------------------ *)
(* signatures *)

Lemma sig_answer_spec S k :
  get_app_resource {| policies := []; logconfs := []; usersigs := mapk (spec_sig_ex S) S |} KUserSig k =
  spec_sig_answer S k.
Proof.
  unfold get_app_resource, spec_sig_answer. cbn [usersigs]. rewrite lookup_mapk.
  destruct (lookup k S) as [o|]; [|reflexivity]. cbn [option_map].
  unfold spec_sig_ex, in_force, sig_competes, sig_wf, sig_base, create_usersig_ex.
  destruct o as [uid ts v tag rv]. cbn [so_valid so_rev so_tag].
  destruct v; [|reflexivity]. destruct rv; cbn [tf_bad negb andb]; try reflexivity.
  - destruct (String.eqb tag ""); cbn [negb orb andb]; [reflexivity|].
    match goal with |- context [forallb ?f S] => destruct (forallb f S) end; reflexivity.
  - destruct (String.eqb tag ""); cbn [negb orb andb]; [reflexivity|].
    match goal with |- context [forallb ?f S] => destruct (forallb f S) end; reflexivity.
Qed.

(* one in-force signature meets a requirement in the model iff it does in the specification *)
Lemma sig_meets_model S t (r : reqobj) k o :
  is_req_satisfied_by_user_sig fx {| sr_tag := t; sr_rev := Some (tf_opt (rq_min r), tf_opt (rq_max r)) |}
                               (spec_sig_ex S k o) && s_valid (spec_sig_ex S k o) =
  sig_meets (acceptable_for fx) S t r (k, o).
Proof.
  unfold sig_meets. cbn [fst snd].
  destruct (sig_competes o) eqn:C.
  - rewrite (spec_ex_competes _ _ _ C). destruct (in_force S k o); cbn [andb].
    + rewrite andb_true_r. unfold is_req_satisfied_by_user_sig, wf_ex. cbn [s_tag s_rev sr_tag sr_rev].
      pose proof (competes_tag _ C) as Ht. apply String.eqb_neq in Ht. rewrite Ht. cbn [orb].
      destruct (String.eqb (so_tag o) t) eqn:Et; cbn [negb andb]; [|reflexivity].
      destruct (tf_opt (so_rev o)) as [rv|]; [|destruct fx; reflexivity].
      unfold acceptable_for, acceptable_as_coded, acceptable.
      destruct (tf_opt (rq_min r)) as [a|]; destruct (tf_opt (rq_max r)) as [b|]; destruct fx; cbn.
      * apply andb_comm.
      * apply andb_comm.
      * rewrite andb_true_r. destruct (a <? rv); reflexivity.
      * rewrite andb_true_r. destruct (a <? rv); reflexivity.
      * destruct (rv <? b); reflexivity.
      * destruct (rv <? b); reflexivity.
      * reflexivity.
      * reflexivity.
    + apply andb_false_r.
  - rewrite andb_false_r. cbn [andb].
    unfold spec_sig_ex. rewrite C. unfold sig_base, create_usersig_ex.
    unfold sig_competes, sig_wf in C.
    destruct (so_valid o); cbn [andb negb] in *; [|first [reflexivity|apply andb_false_r]].
    destruct (so_rev o); cbn [tf_bad andb negb] in *; try (first [reflexivity|apply andb_false_r]).
    + apply negb_false_iff in C. unfold is_req_satisfied_by_user_sig. cbn [fst s_tag]. rewrite C. reflexivity.
    + apply negb_false_iff in C. unfold is_req_satisfied_by_user_sig. cbn [fst s_tag]. rewrite C. reflexivity.
Qed.

Lemma req_sat_model S t (r : reqobj) :
  is_req_satisfied_by_user_sigs fx {| sr_tag := t; sr_rev := Some (tf_opt (rq_min r), tf_opt (rq_max r)) |}
                                (mapk (spec_sig_ex S) S) =
  existsb (sig_meets (acceptable_for fx) S t r) S.
Proof.
  unfold is_req_satisfied_by_user_sigs, mapk. rewrite existsb_map.
  apply existsb_ext_in. intros [k o] _. cbn [fst snd]. apply sig_meets_model.
Qed.

(* ------------------------------------------------------------------------------------------ *)
(* policies *)

Lemma build_reqs_spec S (l : list reqobj) :
  match build_reqs l with
  | None => forallb req_times_ok l = false
  | Some reqs =>
      forallb req_times_ok l = true /\
      forallb (fun rq => is_req_satisfied_by_user_sigs fx rq (mapk (spec_sig_ex S) S)) reqs =
      forallb (req_satisfied (acceptable_for fx) S) l
  end.
Proof.
  induction l as [|r l IH]; cbn [build_reqs forallb]; [split; reflexivity|].
  destruct (rq_tag r) as [t|] eqn:T.
  - assert (Hok : req_times_ok r = negb (tf_bad (rq_min r)) && negb (tf_bad (rq_max r)))
      by (unfold req_times_ok; rewrite T; reflexivity).
    assert (Hsat : req_satisfied (acceptable_for fx) S r = existsb (sig_meets (acceptable_for fx) S t r) S)
      by (unfold req_satisfied; rewrite T; reflexivity).
    rewrite Hok, Hsat. clear Hok Hsat. pose proof (req_sat_model S t r) as Q. unfold build_rev_times.
    destruct (rq_min r) eqn:Emin; cbn [tf_bad negb andb]; try reflexivity;
      destruct (rq_max r) eqn:Emax; cbn [tf_bad negb andb]; try reflexivity;
      (destruct (build_reqs l) as [reqs|]; [destruct IH as [IH1 IH2]; split; [exact IH1|];
        cbn [forallb]; rewrite IH2; f_equal; exact Q
       |exact IH]).
  - assert (Hok : req_times_ok r = true) by (unfold req_times_ok; rewrite T; reflexivity).
    assert (Hsat : req_satisfied (acceptable_for fx) S r = true) by (unfold req_satisfied; rewrite T; reflexivity).
    rewrite Hok, Hsat. cbn [andb]. exact IH.
Qed.

Lemma pol_answer_spec ob k :
  get_app_resource (spec_waf fx ob) KPolicy k = spec_pol_answer (acceptable_for fx) ob k.
Proof.
  rewrite spec_waf_eq. unfold get_app_resource, spec_pol_answer. cbn [policies]. rewrite lookup_mapk.
  destruct (lookup k (ob_pol ob)) as [o|]; [|reflexivity]. cbn [option_map].
  unfold spec_pol_ex, create_policy_ex, pol_class.
  destruct (po_valid o); cbn [negb]; [|reflexivity].
  destruct (po_reqs o) as [l|]; [|reflexivity].
  pose proof (build_reqs_spec (ob_sig ob) l) as B.
  destruct (build_reqs l) as [reqs|].
  - destruct B as [B1 B2]. rewrite B1. cbn [fst p_valid].
    assert (V : verify_policy_against_user_sigs fx (mapk (spec_sig_ex (ob_sig ob)) (ob_sig ob))
                  {| p_obj := o; p_reqs := reqs; p_valid := true; p_err := ENone |} =
                forallb (req_satisfied (acceptable_for fx) (ob_sig ob)) l)
      by (unfold verify_policy_against_user_sigs; cbn [p_reqs]; exact B2).
    rewrite V. destruct (forallb (req_satisfied (acceptable_for fx) (ob_sig ob)) l); reflexivity.
  - rewrite B. reflexivity.
Qed.

Lemma log_answer_spec ob k : get_app_resource (spec_waf fx ob) KLogConf k = spec_log_answer ob k.
Proof.
  rewrite spec_waf_eq. unfold get_app_resource, spec_log_answer. cbn [logconfs]. rewrite lookup_mapk.
  destruct (lookup k (ob_log ob)) as [o|]; [|reflexivity]. cbn [option_map].
  unfold create_logconf_ex. destruct (lo_valid o); reflexivity.
Qed.

Lemma usersig_answer_spec ob k :
  get_app_resource (spec_waf fx ob) KUserSig k = spec_sig_answer (ob_sig ob) k.
Proof. rewrite <- sig_answer_spec. reflexivity. Qed.

Theorem waf_answer_spec ob kd k :
  get_app_resource (spec_waf fx ob) kd k = spec_answer (acceptable_for fx) ob kd k.
Proof.
  destruct kd; cbn [spec_answer];
    [apply pol_answer_spec|apply log_answer_spec|apply usersig_answer_spec|reflexivity..].
Qed.

(* ------------------------------------------------------------------------------------------ *)
(* DoS *)

Lemma dos_ref_pol en ob ns ref :
  (if String.eqb ref "" then GOk else get_dos_policy (spec_dos en ob) (resolve_ref ns ref)) =
  spec_ref dp_valid (ob_dpol ob) ns ref.
Proof.
  unfold spec_ref. destruct (String.eqb ref ""); [reflexivity|].
  unfold get_dos_policy. rewrite spec_dos_eq2. cbn [dpols]. rewrite lookup_mapk.
  destruct (lookup _ (ob_dpol ob)); reflexivity.
Qed.

Lemma dos_ref_log en ob ns ref :
  (if String.eqb ref "" then GOk else get_dos_logconf (spec_dos en ob) (resolve_ref ns ref)) =
  spec_ref dl_valid (ob_dlog ob) ns ref.
Proof.
  unfold spec_ref. destruct (String.eqb ref ""); [reflexivity|].
  unfold get_dos_logconf. rewrite spec_dos_eq2. cbn [dlogs]. rewrite lookup_mapk.
  destruct (lookup _ (ob_dlog ob)); reflexivity.
Qed.

Theorem dos_by_key_spec en ob key : dos_ex_by_key (spec_dos en ob) key = spec_dos_by_key en ob key.
Proof.
  unfold dos_ex_by_key, spec_dos_by_key.
  replace (d_enabled (spec_dos en ob)) with en by reflexivity.
  destruct en; cbn [negb]; [|reflexivity].
  replace (dprs (spec_dos true ob)) with (mapk mk_pr (ob_dpr ob)) by reflexivity.
  rewrite lookup_mapk. destruct (lookup key (ob_dpr ob)) as [o|]; [|reflexivity]. cbn [option_map].
  unfold mk_pr, create_dos_pr_ex. cbn [dre_valid dre_obj].
  destruct (pr_valid o); cbn [negb]; [|reflexivity].
  rewrite dos_ref_pol. destruct (spec_ref dp_valid (ob_dpol ob) (pr_ns o) (pr_pol o)); try reflexivity.
  destruct (pr_log o) as [lref|]; [|reflexivity].
  pose proof (dos_ref_log true ob (pr_ns o) lref) as Q.
  destruct (String.eqb lref "") eqn:E.
  - rewrite <- Q. reflexivity.
  - rewrite <- Q. reflexivity.
Qed.

Theorem dos_answer_spec en ob ns nm :
  get_valid_dos_ex (spec_dos en ob) ns nm = spec_dos_answer en ob ns nm.
Proof. apply dos_by_key_spec. Qed.

Theorem answers_spec_state en ob wkeys pkeys :
  model_answers (spec_state fx en ob) wkeys pkeys = spec_answers (acceptable_for fx) en ob wkeys pkeys.
Proof.
  unfold model_answers, spec_answers.
  change (waf (spec_state fx en ob)) with (spec_waf fx ob). change (dos (spec_state fx en ob)) with (spec_dos en ob).
  f_equal; [|f_equal; [|f_equal]]; apply map_ext; intros x.
  - rewrite waf_answer_spec. reflexivity.
  - rewrite waf_answer_spec. reflexivity.
  - rewrite waf_answer_spec. reflexivity.
  - rewrite dos_answer_spec. reflexivity.
Qed.

(* ------------------------------------------------------------------------------------------ *)
(* natural reading of "acceptable revision time": equal to the coded one unless a requirement
   without any bound meets a signature with the same tag that declares a revision time (F21) *)

Definition f21_free (ob : objects) : Prop :=
  forall kp po l r t ks so,
    lookup kp (ob_pol ob) = Some po -> po_reqs po = Some l -> In r l -> rq_tag r = Some t ->
    tf_opt (rq_min r) = None -> tf_opt (rq_max r) = None ->
    In (ks, so) (ob_sig ob) -> so_tag so = t -> tf_opt (so_rev so) = None.

Lemma acceptable_coded_natural mn mx rv :
  fx = true \/ (mn = None -> mx = None -> rv = None) -> (acceptable_for fx) mn mx rv = acceptable mn mx rv.
Proof.
  intros [->|H]; [reflexivity|]. unfold acceptable_for. destruct fx; [reflexivity|].
  unfold acceptable_as_coded. destruct rv as [r|]; [|reflexivity].
  destruct mn; destruct mx; try reflexivity. discriminate (H eq_refl eq_refl).
Qed.

(* with fixes/F21.diff applied the natural reading holds for every object set; without it, for
   the object sets that contain no (unbounded requirement, dated signature) pair *)
Theorem natural_answer ob kd k : fx = true \/ f21_free ob ->
  spec_answer (acceptable_for fx) ob kd k = spec_answer acceptable ob kd k.
Proof.
  intros F. destruct kd; cbn [spec_answer]; try reflexivity.
  unfold spec_pol_answer. destruct (lookup k (ob_pol ob)) as [po|] eqn:L; [|reflexivity].
  destruct (pol_class po); try reflexivity.
  destruct (po_reqs po) as [l|] eqn:R; [|reflexivity].
  rewrite (forallb_ext_in (req_satisfied (acceptable_for fx) (ob_sig ob)) (req_satisfied acceptable (ob_sig ob))); [reflexivity|].
  intros r Hr. unfold req_satisfied. destruct (rq_tag r) as [t|] eqn:T; [|reflexivity].
  apply existsb_ext_in. intros [ks so] Hs. unfold sig_meets. cbn [fst snd].
  destruct (String.eqb (so_tag so) t) eqn:Et; [|rewrite !andb_false_r; reflexivity].
  apply String.eqb_eq in Et. f_equal. apply acceptable_coded_natural.
  destruct F as [F|F]; [left; exact F|right]. intros H1 H2. eapply F; eauto.
Qed.

(* ------------------------------------------------------------------------------------------ *)
(* the specification itself: among the well-formed signatures declaring a tag exactly one is in
   force, and it is the oldest *)

Theorem in_force_is_oldest S k o :
  in_force S k o = true -> sig_competes o = true ->
  forall k' o', In (k', o') S -> k' <> k -> sig_competes o' = true -> so_tag o' = so_tag o -> older o o' = true.
Proof.
  unfold in_force. intros H C k' o' Hin Hne C' Et. rewrite C in H. cbn in H.
  apply andb_true_iff in H. destruct H as [_ H]. rewrite forallb_forall in H.
  specialize (H (k', o') Hin). cbn [snd] in H.
  assert (R : rival k o (k', o') = true).
  { unfold rival. cbn [fst snd]. rewrite C', Et, String.eqb_refl.
    apply String.eqb_neq in Hne. rewrite Hne. reflexivity. }
  rewrite R in H. exact H.
Qed.

Theorem at_most_one_in_force S k1 o1 k2 o2 :
  In (k1, o1) S -> In (k2, o2) S -> sig_competes o1 = true -> sig_competes o2 = true ->
  so_tag o1 = so_tag o2 -> in_force S k1 o1 = true -> in_force S k2 o2 = true -> k1 = k2.
Proof.
  intros H1 H2 C1 C2 Et F1 F2. destruct (string_dec k1 k2) as [E|Hne]; [exact E|exfalso].
  pose proof (in_force_is_oldest S k1 o1 F1 C1 k2 o2 H2 (fun e => Hne (eq_sym e)) C2 (eq_sym Et)) as A.
  pose proof (in_force_is_oldest S k2 o2 F2 C2 k1 o1 H1 Hne C1 Et) as B.
  rewrite older_is_obj_less in A, B. rewrite (obj_less_asym _ _ A) in B. discriminate.
Qed.

Theorem some_in_force S : wf S -> sigs_distinct S ->
  forall k0 o0, In (k0, o0) S -> sig_competes o0 = true ->
  exists k o, In (k, o) S /\ sig_competes o = true /\ so_tag o = so_tag o0 /\ in_force S k o = true.
Proof.
  intros W K1 k0 o0 Hin C.
  set (fl := fun (_ : string) (_ : sigobj) => true).
  pose proof (competes_tag _ C) as Ht.
  assert (Hg : In (k0, pert fl k0 o0) (filter (in_group (so_tag o0)) (mapk (pert fl) S))).
  { apply (g_member S fl _ Ht). exists o0. auto. }
  assert (Hne : filter (in_group (so_tag o0)) (mapk (pert fl) S) <> []) by (intros E; rewrite E in Hg; exact Hg).
  destruct (nonempty_sorted _ Hne) as [w [rest Hsort]].
  pose proof (w_in_g S fl (so_tag o0) w rest Hsort) as Hw.
  rewrite (surjective_pairing w) in Hw. apply (g_member S fl _ Ht) in Hw.
  destruct Hw as [ow [W1 [W2 [W3 W4]]]].
  exists (fst w), ow. repeat split; auto.
  eapply winner_in_force; eauto.
Qed.

End V.
