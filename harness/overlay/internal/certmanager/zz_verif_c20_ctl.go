//go:build verif

package certmanager

import (
	"context"
	"fmt"

	cm_clientset "github.com/cert-manager/cert-manager/pkg/client/clientset/versioned"
	cm_informers "github.com/cert-manager/cert-manager/pkg/client/informers/externalversions"
	controllerpkg "github.com/cert-manager/cert-manager/pkg/controller"
	"k8s.io/apimachinery/pkg/types"
	"k8s.io/client-go/tools/cache"
	"k8s.io/client-go/tools/record"
	"k8s.io/client-go/util/workqueue"

	k8s_nginx "github.com/nginx/kubernetes-ingress/pkg/client/clientset/versioned"
	vsinformers "github.com/nginx/kubernetes-ingress/pkg/client/informers/externalversions"
)

// VerifCtl is the event-handler / work-queue layer of the cert-manager controller for the C20
// delivery family.  NewCmController cannot be used (it builds a real cert-manager clientset from a
// rest.Config and stores it in a field of the concrete type), so the struct is assembled the way
// NewCmController / newNamespacedInformer / register do, with the fake clientsets, and the
// production addHandlers wires handlers, listers and mustSync.  The informers are not started; the
// harness feeds their indexers and calls the handlers the way a running informer does.  The two
// handler values are built exactly as addHandlers builds the ones it registers.
type VerifCtl struct {
	c                     *CmController
	VS, Derived           cache.ResourceEventHandler
	VSStore, DerivedStore cache.Indexer
}

func VerifNewCtl(ctx context.Context, rec record.EventRecorder, cmClient cm_clientset.Interface, vsClient k8s_nginx.Interface) *VerifCtl {
	c := &CmController{
		ctx:           ctx,
		queue:         workqueue.NewTypedRateLimitingQueueWithConfig(controllerpkg.DefaultItemBasedRateLimiter(), workqueue.TypedRateLimitingQueueConfig[types.NamespacedName]{Name: ControllerName}),
		informerGroup: map[string]*namespacedInformer{},
		recorder:      rec,
		vsClient:      vsClient,
	}
	nsi := &namespacedInformer{}
	nsi.stopCh = make(chan struct{})
	nsi.cmSharedInformerFactory = cm_informers.NewSharedInformerFactoryWithOptions(cmClient, resyncPeriod, cm_informers.WithNamespace(""))
	nsi.vsSharedInformerFactory = vsinformers.NewSharedInformerFactoryWithOptions(vsClient, resyncPeriod, vsinformers.WithNamespace(""))
	c.addHandlers(nsi)
	c.informerGroup[""] = nsi
	c.sync = SyncFnFor(c.recorder, cmClient, c.informerGroup)
	return &VerifCtl{
		c:            c,
		VS:           &controllerpkg.QueuingEventHandler{Queue: c.queue},
		Derived:      &controllerpkg.BlockingEventHandler{WorkFunc: certificateHandler(c.queue)},
		VSStore:      nsi.vsSharedInformerFactory.K8s().V1().VirtualServers().Informer().GetIndexer(),
		DerivedStore: nsi.cmSharedInformerFactory.Certmanager().V1().Certificates().Informer().GetIndexer(),
	}
}

func (v *VerifCtl) QueueLen() int { return v.c.queue.Len() }

// ProcessNext: see externaldns.VerifCtl.ProcessNext.
func (v *VerifCtl) ProcessNext(ctx context.Context) (key string, err error, ok bool) {
	if v.c.queue.Len() == 0 {
		return "", nil, false
	}
	k, shutdown := v.c.queue.Get()
	if shutdown {
		return "", nil, false
	}
	defer v.c.queue.Done(k)
	err = v.c.processItem(ctx, k)
	v.c.queue.Forget(k)
	return fmt.Sprintf("%s/%s", k.Namespace, k.Name), err, true
}

func (v *VerifCtl) Requeue(namespace, name string) {
	v.c.queue.Add(types.NamespacedName{Namespace: namespace, Name: name})
}

func (v *VerifCtl) Shutdown() { v.c.queue.ShutDown() }
