(* Tmpl/ValidatorsProofs.v -- what each validator language of Validators.v guarantees at the site
   where /repo renders the validated value.  Every positive theorem is  forall s, matches R s = true
   -> ...  and is closed by the proved certificate checker (RegexProofs.incl_check_sound /
   incl_check_strict_sound / bytes_in_sound) plus one vm_compute; every refutation exhibits a
   concrete accepted string (re-checked by vm_compute) together with the offending byte.

   POSITIVE
     vs_path_bare_safe        a VirtualServer path read at token start emits NO event and ends in a
                              bare word (QBare / QVar);   vs_path_in_baretok : it is a CBareTok value
     escaped_dq_safe, realm_dq_safe, jwt_token_dq_safe, return_type_dq_safe
                              inside double quotes: run QDQ s = (QDQ, [])
     escaped_in_cdq ...       hence members of class CDQ
     size_word, offset_word, rate_word      these languages are inside CWord
     proxy_buffers_safe       two words: structurally empty from token start, ends in QBare
     time_safe                structurally empty from token start
     ing_rewrite_safe         the rewrite path of nginx.org/rewrites, glued into a bare word, emits no event
                              and stays in the bare word (holds since the repair of F27 in /repo)
     limit_req_key_bare_safe  nginx.org/limit-req-key at token start: one non-empty bare word, no event
     ing_rate_word, http_header_name_word     inside CWord
     grpc_service_fixed_safe, ts_hash_fixed_safe, sticky_fixed_safe
                              the languages a repair of F54 / F29 / F28 would use are safe at their sites
   REFUTED (findings)
     ing_path_refuted         F06: slash left-brace is accepted and emits Open after  location
     ing_path_refuted_bs      F06: slash x backslash ends with an escape pending (the next byte is taken
                              literally; after  location  that byte is a space, so the structure survives)
     realm_bare_refuted       F28: the realm language is dq-safe but NOT bare-safe (a left-brace emits Open)
     ts_hash_refuted_semi / ts_hash_refuted_open    F29:  hash x;y  and  hash x left-brace
     grpc_service_refuted     the grpc service language accepts a trailing backslash in a bare word
   Each refutation also comes in the form  ~ (forall s, matches R s = true -> safe ...)  (the _not_safe
   corollaries), through [violates_not_safe]. *)
From Coq Require Import List String Ascii Bool.
From NIC Require Import Lex.Lexer Tmpl.Syntax Tmpl.LexAux Tmpl.Classes Tmpl.ClassesProofs
     Tmpl.Regex Tmpl.RegexProofs Tmpl.Validators.
Import ListNotations.
Open Scope list_scope.
Open Scope string_scope.

(* the site kinds *)
Definition bare_states : list lstate := [QBare; QVar].

(* safe R q l: every string of L(R), read from q, emits no structural event and ends in l *)
Definition safe (R : re) (q : lstate) (l : list lstate) : Prop :=
  forall s, matches R s = true ->
  exists q' e, run q s = (q', e) /\ structural e = [] /\ In q' l.

(* strictly safe: no event at all *)
Definition safe_strict (R : re) (q : lstate) (l : list lstate) : Prop :=
  forall s, matches R s = true -> exists q', run q s = (q', []) /\ In q' l.

Lemma safe_by_check : forall R q l, incl_check R q (ok_in l) = true -> safe R q l.
Proof. intros R q l H. exact (incl_check_in R q l H). Qed.

Lemma safe_strict_by_check : forall R q l, incl_check_strict R q (ok_in l) = true -> safe_strict R q l.
Proof.
  intros R q l H s Hm. destruct (incl_check_strict_sound R q _ H s Hm) as (q' & H1 & H2).
  exists q'. split; [assumption|now apply mem_st_In].
Qed.

Lemma safe_strict_safe : forall R q l, safe_strict R q l -> safe R q l.
Proof. intros R q l H s Hm. destruct (H s Hm) as (q' & H1 & H2). exists q', []. auto. Qed.

(* a concrete accepted string that misbehaves refutes safety *)
Lemma violates_not_safe : forall R q l s,
    violates R q (ok_in l) s = true -> ~ safe R q l.
Proof.
  intros R q l s Hv Hs. unfold violates in Hv. apply andb_true_iff in Hv. destruct Hv as [Hm Hb].
  destruct (Hs s Hm) as (q' & e & Hr & Hn & Hin). rewrite Hr in Hb.
  rewrite Hn in Hb. cbn [is_nil negb orb] in Hb.
  apply mem_st_In in Hin. unfold ok_in in Hb. now rewrite Hin in Hb.
Qed.

(* ---------------------------------------------------------------- positive: bare sites *)

Theorem vs_path_bare_safe : safe_strict vs_path QBetween bare_states.
Proof. apply safe_strict_by_check. vm_compute. reflexivity. Qed.

Lemma star_cls_forall : forall f (g : ascii -> bool) s,
    forallb (fun c => negb (cs_mem f c) || g c) all_bytes = true ->
    matches (RStar (RCls f)) s = true -> str_forall g s = true.
Proof.
  intros f g s Hfg Hm. apply (bytes_in_sound g (RStar (RCls f)) s); [exact Hfg|exact Hm].
Qed.

Theorem vs_path_in_baretok : forall s, matches vs_path s = true -> in_class CBareTok s.
Proof.
  intros s Hm. destruct s as [|c s]; [discriminate Hm|].
  unfold in_class. cbn [in_class_b first_rest].
  unfold vs_path in Hm. cbn [matches deriv nullable] in Hm.
  destruct (Ascii.eqb c "/"%char) eqn:E.
  - apply Ascii.eqb_eq in E. subst c. cbn [mkCat] in Hm.
    apply andb_true_iff. split; [reflexivity|].
    apply (star_cls_forall _ bare_rest s) in Hm; [exact Hm|]. vm_compute. reflexivity.
  - cbn [mkCat] in Hm. now rewrite matches_empty in Hm.
Qed.

Theorem proxy_buffers_safe : safe proxy_buffers QBetween [QBare].
Proof. apply safe_by_check. vm_compute. reflexivity. Qed.

Theorem time_safe : safe time QBetween [QBetween; QBare].
Proof. apply safe_by_check. vm_compute. reflexivity. Qed.

(* ---------------------------------------------------------------- positive: inside double quotes *)

Theorem escaped_dq_safe : forall s, matches escaped s = true -> run QDQ s = (QDQ, []).
Proof.
  intros s Hm.
  assert (H : safe_strict escaped QDQ [QDQ]) by (apply safe_strict_by_check; vm_compute; reflexivity).
  destruct (H s Hm) as (q' & Hr & [<-|[]]). exact Hr.
Qed.

Theorem realm_dq_safe : forall s, matches realm s = true -> run QDQ s = (QDQ, []).
Proof.
  intros s Hm.
  assert (H : safe_strict realm QDQ [QDQ]) by (apply safe_strict_by_check; vm_compute; reflexivity).
  destruct (H s Hm) as (q' & Hr & [<-|[]]). exact Hr.
Qed.

Theorem jwt_token_dq_safe : forall s, matches jwt_token s = true -> run QDQ s = (QDQ, []).
Proof.
  intros s Hm.
  assert (H : safe_strict jwt_token QDQ [QDQ]) by (apply safe_strict_by_check; vm_compute; reflexivity).
  destruct (H s Hm) as (q' & Hr & [<-|[]]). exact Hr.
Qed.

Theorem return_type_dq_safe : forall s, matches return_type s = true -> run QDQ s = (QDQ, []).
Proof.
  intros s Hm.
  assert (H : safe_strict return_type QDQ [QDQ]) by (apply safe_strict_by_check; vm_compute; reflexivity).
  destruct (H s Hm) as (q' & Hr & [<-|[]]). exact Hr.
Qed.

(* validators inside classes *)
Theorem escaped_in_cdq : forall s, matches escaped s = true -> in_class CDQ s.
Proof. intros s H. apply dq_complete, escaped_dq_safe, H. Qed.

Theorem realm_in_cdq : forall s, matches realm s = true -> in_class CDQ s.
Proof. intros s H. apply dq_complete, realm_dq_safe, H. Qed.

Theorem jwt_token_in_cdq : forall s, matches jwt_token s = true -> in_class CDQ s.
Proof. intros s H. apply dq_complete, jwt_token_dq_safe, H. Qed.

Theorem return_type_in_cdq : forall s, matches return_type s = true -> in_class CDQ s.
Proof. intros s H. apply dq_complete, return_type_dq_safe, H. Qed.

(* ---------------------------------------------------------------- positive: words *)

Theorem size_word : forall s, matches size s = true -> in_class CWord s.
Proof. intros s. apply bytes_in_sound. vm_compute. reflexivity. Qed.

Theorem offset_word : forall s, matches offset s = true -> in_class CWord s.
Proof. intros s. apply bytes_in_sound. vm_compute. reflexivity. Qed.

Theorem rate_word : forall s, matches rate s = true -> in_class CWord s.
Proof. intros s. apply bytes_in_sound. vm_compute. reflexivity. Qed.

(* ---------------------------------------------------------------- the repaired languages *)

(* nginx.org/rewrites: glued after  proxy_pass http://upstream  (state QBare) *)
Theorem ing_rewrite_safe : safe_strict ing_rewrite QBare [QBare].
Proof. apply safe_strict_by_check. vm_compute. reflexivity. Qed.

(* the same value followed by the template's terminator: exactly one Semi, whatever the value *)
Corollary ing_rewrite_then_semi : forall s, matches ing_rewrite s = true ->
    run QBare (s ++ ";") = (QBetween, [TokEnd; Semi]).
Proof.
  intros s Hm. destruct (ing_rewrite_safe s Hm) as (q' & Hr & [<-|[]]).
  rewrite (run_app_eq s ";" QBare QBare [] QBetween [TokEnd; Semi] Hr); reflexivity.
Qed.

(* ---------------------------------------------------------------- parsers: upper bounds *)

Lemma vs_path_glued_safe : safe_strict vs_path QBare bare_states.
Proof. apply safe_strict_by_check. vm_compute. reflexivity. Qed.

(* accessControl allow / deny entries are plain words *)
Theorem ip_or_cidr_word : forall s, matches ip_or_cidr_upper s = true -> in_class CWord s.
Proof. intros s. apply bytes_in_sound. vm_compute. reflexivity. Qed.

(* dropping a leading ordinary byte keeps a string neutral inside double quotes *)
Lemma dq_tail : forall c r, Ascii.eqb c ch_dq = false -> Ascii.eqb c ch_bs = false ->
    run QDQ (String c r) = (QDQ, []) -> run QDQ r = (QDQ, []).
Proof.
  intros c r Hq Hb H. cbn [run step] in H. rewrite Hb, Hq in H.
  destruct (run QDQ r) as [q e]. cbn in H. exact H.
Qed.

Lemma dq_strip_space : forall r, run QDQ r = (QDQ, []) -> run QDQ (strip_space r) = (QDQ, []).
Proof.
  intros r H. destruct r as [|c r]; [exact H|]. cbn [strip_space].
  destruct c as [[] [] [] [] [] [] [] []]; try exact H.
  apply (dq_tail " "%char r); [reflexivity|reflexivity|exact H].
Qed.

Lemma quoted_after : forall pre body,
    run QBetween pre = (QDQ, [TokEnd]) -> run QDQ body = (QDQ, []) ->
    run QBetween (pre ++ body ++ dq1) = (QNeedSpace, [TokEnd; TokEnd]).
Proof.
  intros pre body Hp Hb.
  rewrite (run_app_eq pre (body ++ dq1) QBetween QDQ [TokEnd] QNeedSpace [TokEnd] Hp); [reflexivity|].
  rewrite (run_app_eq body dq1 QDQ QDQ [] QNeedSpace [TokEnd] Hb); reflexivity.
Qed.

(* a regular-expression route path (escaped string beginning with the tilde), as generatePath writes it after
   location : the modifier word, then ONE quoted word, whatever the expression contains and whether or not a space
   follows the modifier in the resource *)
Theorem regex_path_quoted : forall r,
    matches escaped (String "~" r) = true ->
    run QBetween (gen_path (String "~" r)) = (QNeedSpace, [TokEnd; TokEnd]).
Proof.
  intros r Hm. pose proof (escaped_dq_safe _ Hm) as H.
  apply (dq_tail "~"%char r) in H; [|reflexivity|reflexivity].
  destruct r as [|c r'].
  - cbn. reflexivity.
  - destruct (Ascii.eqb c "*"%char) eqn:E.
    + apply Ascii.eqb_eq in E. subst c.
      apply (dq_tail "*"%char r') in H; [|reflexivity|reflexivity].
      cbn [gen_path]. rewrite <- append_assoc.
      apply (quoted_after ("~* " ++ dq1) (strip_space r')); [reflexivity|now apply dq_strip_space].
    + assert (G : gen_path (String "~" (String c r')) = (("~ " ++ dq1) ++ strip_space (String c r') ++ dq1)%string).
      { cbn [gen_path]. destruct c as [[] [] [] [] [] [] [] []]; try reflexivity. discriminate E. }
      rewrite G. apply quoted_after; [reflexivity|now apply dq_strip_space].
Qed.

(* every route path the validator can accept, as generatePath writes it after  location : no structural event *)
Theorem route_path_location_safe : forall p, matches route_path_upper p = true ->
    exists q' e, run QBetween (gen_path p) = (q', e) /\ structural e = [] /\ In q' [QBare; QVar; QNeedSpace].
Proof.
  intros p Hm. unfold route_path_upper in Hm.
  apply matches_lang in Hm. apply lang_alt in Hm. destruct Hm as [H|H].
  - apply matches_lang in H.
    assert (G : gen_path p = p).
    { destruct p as [|c r]; [reflexivity|]. unfold vs_path in H. cbn [matches deriv nullable] in H.
      destruct (Ascii.eqb c "/"%char) eqn:E; [apply Ascii.eqb_eq in E; subst c; reflexivity|].
      cbn [mkCat] in H. now rewrite matches_empty in H. }
    rewrite G. destruct (vs_path_bare_safe p H) as (q' & Hr & Hin). exists q', []. repeat split; auto.
    destruct Hin as [<-|[<-|[]]]; cbn; auto.
  - apply lang_alt in H. destruct H as [H|H].
    + apply lang_cat in H. destruct H as (a & b & -> & Ha & Hb).
      apply matches_lang in Hb.
      assert (a = "="%string) as ->.
      { inversion Ha; subst; reflexivity. }
      cbn [append gen_path].
      destruct (vs_path_glued_safe b Hb) as (q' & Hr & Hin).
      exists q', []. cbn [run step step_between is_ws]. cbn. rewrite Hr. repeat split; auto.
      destruct Hin as [<-|[<-|[]]]; cbn; auto.
    + assert (Hm : matches (RCat (RChr "~") escaped) p = true) by now apply matches_lang.
      destruct p as [|c r]; [discriminate Hm|].
      cbn [matches deriv nullable] in Hm. destruct (Ascii.eqb c "~"%char) eqn:E.
      * apply Ascii.eqb_eq in E. subst c.
        assert (He : matches escaped (String "~" r) = true).
        { cbn [mkCat] in Hm. apply matches_lang. apply matches_lang in Hm.
          apply matches_lang. apply matches_lang in Hm. rewrite matches_cons.
          (* deriv escaped tilde = escaped (tilde is an ordinary byte) *)
          exact Hm. }
        exists QNeedSpace, [TokEnd; TokEnd]. rewrite (regex_path_quoted r He). repeat split; cbn; auto.
      * cbn [mkCat] in Hm. now rewrite matches_empty in Hm.
Qed.

(* ---------------------------------------------------------------- the selector table of rewritePath *)


(* every row but the two of F65: the language the validator selects is neutral at the site the generator
   selects -- in particular the EXACT-match row at top level: strict language, bare site *)
Theorem rewrite_path_safe : forall k l s,
    rewrite_path_row_ok k l = true -> matches (rewrite_path_lang k l) s = true ->
    exists q', run (site_state (rewrite_path_site k l)) s = (q', []) /\ In q' (site_ends (rewrite_path_site k l)).
Proof.
  intros k l s Hok Hm.
  destruct k, l; cbn in Hok; try discriminate Hok; cbn in Hm |- *;
    first [ exists QDQ; split; [apply escaped_dq_safe; exact Hm | now left]
          | exact (vs_path_glued_safe s Hm) ].
Qed.

Corollary rewrite_path_exact_top : forall s, matches (rewrite_path_lang PKExact LTop) s = true ->
    exists q', run QBare s = (q', []) /\ In q' [QBare; QVar].
Proof. intros s Hm. exact (rewrite_path_safe PKExact LTop s eq_refl Hm). Qed.

(* F65: the default action of a route with matches is validated with the bare-word language, which accepts a
   double quote, and rendered inside double quotes *)
Theorem rewrite_path_default_action_refuted : forall k, is_regex_kind k = false ->
    exists s, rewrite_path_accepts k LTopWithMatches s = true /\
              rewrite_path_site k LTopWithMatches = SInDQ /\
              run QDQ s = (QNeedSpace, [TokEnd]).
Proof.
  intros k Hk. exists ("/rw" ++ String ch_dq EmptyString).
  destruct k; try discriminate Hk; vm_compute; repeat split; reflexivity.
Qed.

(* nginx.org/limit-req-key: printed at token start after  limit_req_zone  *)
Theorem limit_req_key_bare_safe : safe_strict limit_req_key QBetween bare_states.
Proof. apply safe_strict_by_check. vm_compute. reflexivity. Qed.

Theorem ing_rate_word : forall s, matches ing_rate s = true -> in_class CWord s.
Proof. intros s. apply bytes_in_sound. vm_compute. reflexivity. Qed.

Theorem http_header_name_word : forall s, matches http_header_name s = true -> in_class CWord s.
Proof. intros s. apply bytes_in_sound. vm_compute. reflexivity. Qed.

Theorem grpc_service_fixed_safe : safe_strict grpc_service_fixed QBare bare_states.
Proof. apply safe_strict_by_check. vm_compute. reflexivity. Qed.

Theorem ts_hash_fixed_safe : safe ts_hash_fixed QBetween bare_states.
Proof. apply safe_by_check. vm_compute. reflexivity. Qed.

Theorem sticky_fixed_safe : safe_strict sticky_fixed QBare [QBare].
Proof. apply safe_strict_by_check. vm_compute. reflexivity. Qed.

(* ---------------------------------------------------------------- refutations *)

Definition bs1 : string := String ch_bs EmptyString.

(* F06.  ing_path accepts the left brace and backslash; the value is printed after  location . *)
Theorem ing_path_refuted :
  exists s, matches ing_path s = true /\ structural (snd (run QBetween s)) = [Open].
Proof. exists "/{". vm_compute. split; reflexivity. Qed.

(* the backslash: the value ends with an escape pending (not a bare-word state), so the byte the
   template prints next is taken literally.  After  location  that byte is a space, the brace that
   follows still opens the block: here the escape only changes the argument, not the structure. *)
Theorem ing_path_refuted_bs :
  exists s, matches ing_path s = true /\ run QBetween s = (QBareEsc, []) /\
            structural (snd (run QBetween (s ++ ";"))) = [] /\
            structural (snd (run QBetween (s ++ " {"))) = [Open].
Proof. exists ("/x" ++ bs1). vm_compute. repeat split; reflexivity. Qed.

Corollary ing_path_not_safe : ~ safe ing_path QBetween bare_states.
Proof. apply violates_not_safe with "/{". vm_compute. reflexivity. Qed.

(* F28.  The realm language (also used for the sticky cookie parameters, which are rendered BARE
   after  sticky cookie ) is safe inside double quotes (realm_dq_safe) but not in a bare word. *)
Theorem realm_bare_refuted :
  exists s, matches realm s = true /\ structural (snd (run QBare s)) = [Open].
Proof. exists "a{". vm_compute. split; reflexivity. Qed.

Theorem realm_bare_refuted_path :
  matches realm "path=/{" = true /\ structural (snd (run QBare "path=/{")) = [Open] /\
  matches realm "a;b" = true /\ structural (snd (run QBare "a;b")) = [Semi].
Proof. vm_compute. repeat split; reflexivity. Qed.

Corollary realm_not_bare_safe : ~ safe realm QBare bare_states.
Proof. apply violates_not_safe with "a{". vm_compute. reflexivity. Qed.

(* F29.  \S+ accepts the semicolon, braces and backslash; the method is a whole bare line. *)
Theorem ts_hash_refuted_semi :
  exists s, matches ts_hash s = true /\ structural (snd (run QBetween s)) = [Semi].
Proof. exists "hash x;y". vm_compute. split; reflexivity. Qed.

Theorem ts_hash_refuted_open :
  exists s, matches ts_hash s = true /\ structural (snd (run QBetween s)) = [Open].
Proof. exists "hash x{". vm_compute. split; reflexivity. Qed.

Corollary ts_hash_not_safe : ~ safe ts_hash QBetween bare_states.
Proof. apply violates_not_safe with "hash x;y". vm_compute. reflexivity. Qed.

(* grpc_service: [^\s{};]* keeps out the structural bytes but accepts backslash (and quotes, which are
   ordinary bytes in the middle of a bare word).  It is glued after  grpc_service=  (state QBare) and
   followed by the template's semicolon, which a trailing backslash swallows. *)
Theorem grpc_service_refuted :
  (exists s, matches grpc_service s = true /\ run QBare s = (QBareEsc, []) /\
             structural (snd (run QBare (s ++ ";"))) = []) /\
  structural (snd (run QBare ("a" ++ ";"))) = [Semi].
Proof. split; [exists ("a" ++ bs1)|]; vm_compute; repeat split; reflexivity. Qed.

Corollary grpc_service_not_safe : ~ safe grpc_service QBare bare_states.
Proof. apply violates_not_safe with ("a" ++ bs1). vm_compute. reflexivity. Qed.

(* what IS true of grpc_service: no structural event is emitted, the only way out of the bare word
   is the pending escape *)
Theorem grpc_service_weak : safe_strict grpc_service QBare [QBare; QBareEsc; QVar].
Proof. apply safe_strict_by_check. vm_compute. reflexivity. Qed.

(* the untrusted witness search finds these strings by itself *)
Example find_ing_path : find_witness 200 ing_path QBetween (ok_in bare_states) = Some "/{".
Proof. vm_compute. reflexivity. Qed.
Example find_ts_hash : find_witness 200 ts_hash QBetween (ok_in bare_states) = Some "hash ;".
Proof. vm_compute. reflexivity. Qed.
Example find_realm : find_witness 200 realm QBare (ok_in bare_states) = Some ";".
Proof. vm_compute. reflexivity. Qed.
(* and finds none for the repaired / new validators *)
Example find_ing_rewrite : find_witness 200 ing_rewrite QBare (ok_in [QBare]) = None.
Proof. vm_compute. reflexivity. Qed.
Example find_limit_req_key : find_witness 200 limit_req_key QBetween (ok_in bare_states) = None.
Proof. vm_compute. reflexivity. Qed.
Example find_vs_path : find_witness 200 vs_path QBetween (ok_in bare_states) = None.
Proof. vm_compute. reflexivity. Qed.
