(* Tmpl/Syntax.v -- the abstract template language and the names of the site classes.
   NO PROOFS and no semantics in this file: it is the contract between
     - the translator harness/overlay/internal/verifh/c06t (which EMITS terms of these types into
       coq/gen/Templates.v from the six real .tmpl files on every run),
     - Tmpl/Classes.v (which gives each class its language and its transfer function on the lexer
       DFA of Lex/Lexer.v, with the neutrality theorems),
     - Tmpl/Analyze.v (the abstract interpreter and its soundness theorem).

   CLASSES.  A class names a LANGUAGE of byte strings (what a value printed at a site may be).
   Whether a class is neutral at a site depends on the DFA state the site is reached in; that is
   decided by Classes.transfer, never by the translator.

     CWord        every byte is a plain word byte: not whitespace (space TAB CR LF), none of
                  ; { } backslash double-quote single-quote # $, no byte below 32, not 127.
                  May be empty.  Neutral in every word/quote state and at token start.
     CWordVar     CWord bytes and also $ (NGINX variables such as $request_uri; no braces).
     CBareTok     bare-word safe: no whitespace, none of ; { backslash; and the FIRST byte is none
                  of double-quote single-quote # } .  Neutral at token start and inside a bare word
                  only (a quote in the middle of it would end a quoted site).
     CDQ          the language  ([^dq bs] | bs any)*  (dq = double quote, bs = backslash):
                  neutral inside double quotes.
     CSQ          the same with the single quote: neutral inside single quotes.
     CQuoted      one complete double-quoted token: dq, a CDQ body, dq  (the output of Go's
                  printf %q, modelled in Classes.go_quote).
     CInt         an optional minus sign followed by decimal digits (Go %d / %v of an integer
                  type, and of a bool: see CLit).
     CLit alts    one of the finitely many strings [alts], fixed in the source (template variables
                  assigned only from literals, bool values, enum tables of the generator).
     CLines       zero or more COMPLETE directives produced by a template helper from integers
                  and validated addresses only (makeHTTPListener and friends): the value is part
                  of the controller's intended structure, so it is CONTROL, not user text.
     CEmpty       the empty string (a snippet site while snippets are disabled).
     CUnknown why a site the translator could not classify; never neutral, so the obligation for
                  the template fails closed and names [why].

   TEMPLATES.  Control flow is nondeterministic (sound over-approximation of if/with/range):
     Text s       literal template text (trim markers already applied by text/template/parse)
     Site id c    an output action printing a value of class c; [id] indexes the site table of
                  the template in gen/Templates.v (description, pipeline text, line number)
     Seq a b      a then b
     Choice a b   either a or b            (if/else, with/else;  {{if}} without else = Choice a (Text ""))
     Star a       a repeated zero or more times   (range; range/else = Choice (Seq a (Star a)) b) *)
From Coq Require Import List String Ascii Bool.
Import ListNotations.
Open Scope string_scope.

Inductive cls :=
| CWord
| CWordVar
| CBareTok
| CDQ
| CSQ
| CQuoted
| CInt
| CLit (alts : list string)
| CLines
| CEmpty
| CUnknown (why : string).

Inductive tmpl :=
| Text (s : string)
| Site (id : nat) (c : cls)
| Seq (a b : tmpl)
| Choice (a b : tmpl)
| Star (a : tmpl).

Definition seqs (l : list tmpl) : tmpl := fold_right Seq (Text "") l.
Definition opt (a : tmpl) : tmpl := Choice a (Text "").

(* one row of a site table: id, class, description (template pipeline and the Go type / field it prints) *)
Definition site_row := (nat * cls * string)%type.

(* the sites of a template, in order of occurrence *)
Fixpoint sites_of (t : tmpl) : list (nat * cls) :=
  match t with
  | Text _ => []
  | Site id c => [(id, c)]
  | Seq a b => sites_of a ++ sites_of b
  | Choice a b => sites_of a ++ sites_of b
  | Star a => sites_of a
  end.

Definition is_unknown (c : cls) : bool := match c with CUnknown _ => true | _ => false end.

Definition unknown_sites (t : tmpl) : list nat :=
  map fst (filter (fun p => is_unknown (snd p)) (sites_of t)).

Fixpoint tmpl_size (t : tmpl) : nat :=
  match t with
  | Text _ | Site _ _ => 1
  | Seq a b | Choice a b => S (tmpl_size a + tmpl_size b)
  | Star a => S (tmpl_size a)
  end.
