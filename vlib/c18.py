"""C18 -- observers running beside the control loop never race with it.

T: harness/overlay/internal/verifh/c18t (go/packages + go/types) regenerates coq/gen/Accesses.v, the
   per-entry-point table of accesses to the shared fields with the locks held; the obligation
   `protected_except_all known gen_accesses = true` is evaluated by vm_compute (Lockset.Model), its
   soundness for all programs and interleavings is Lockset.Proofs (Properties/C18.v).
S: the race harness (built with -race) runs the real controller + observers; the race detector's
   reports are mapped back onto (entry, field) pairs through the translator's site index.
"""
import collections, glob, json, os, re, shutil
from . import common as C

PID = "C18"
GEN_V = os.path.join(C.COQ, "gen", "Accesses.v")
GEN_JSON = os.path.join(C.WORK, "c18_accesses.json")


# ------------------------------------------------------------------ T: translator + table

def translate(run):
    binary = C.go_build("c18t")
    os.makedirs(os.path.dirname(GEN_V), exist_ok=True)
    rc, out = C.run_harness(binary, ["-repo", C.REPO, "-coq", GEN_V, "-json", GEN_JSON], timeout=600)
    if rc != 0:
        raise C.TieBroken("translator c18t failed on %s (rc=%d): %s" % (C.REPO, rc, out[-2000:]))
    return json.load(open(GEN_JSON))


def edge(e1, e2, f):
    a, b = sorted([e1, e2])
    return (a, b, f)


def known_edges():
    out = []
    for k in C.load_known():
        m = k.get("match", {})
        if k.get("property") == PID and k.get("status") == "open" and m.get("kind") == "unprotected-access":
            out.append(edge(m.get("entry"), m.get("against"), m.get("field")))
    return sorted(set(out))


def evaluate_table(run, table):
    """compile gen/Accesses.v, evaluate the obligations by vm_compute; returns dict"""
    rc, out = C.coqc(GEN_V, timeout=600)
    if rc != 0:
        raise C.TieBroken("coqc rejected the generated table %s: %s" % (GEN_V, out[-1500:]))
    known = known_edges()
    body = "From NIC Require Import Lockset.Model gen.Accesses.\n"
    body += "Definition known : list known_edge := %s.\n" % C.cq_list(
        ["(%s, %s, %s)" % (C.cq_str(a), C.cq_str(b), C.cq_str(f)) for a, b, f in known])
    body += ("Definition b2z (b : bool) : Z := if b then 1 else 0.\n"
             "Definition results : list (list Z) := Eval vm_compute in\n"
             "  [ [Z.of_nat (List.length gen_accesses); Z.of_nat (List.length (modes gen_accesses)); Z.of_nat (List.length gen_unknown)];\n"
             "    [b2z (protected_except_all known gen_accesses)];\n"
             "    flat_map (fun p => [Z.of_nat (fst p); Z.of_nat (snd p)]) (bad_pairs gen_accesses) ].\n"
             "Print results.\n")
    path = os.path.join(C.WORK, "cases", "C18_table.v")
    C.write_cases_v(path, body)
    rc, out = C.coqc(path, timeout=900)
    res = C.parse_z_lists(out, "results")
    if rc != 0 or res is None or len(res) != 3:
        raise C.TieBroken("coqc could not evaluate the C18 table obligations (%s): %s" % (path, out[-1500:]))
    n, nmodes, nunk = res[0]
    if n != len(table["rows"]):
        raise C.TieBroken("generated table and its JSON index disagree (%d vs %d rows)" % (n, len(table["rows"])))
    flat = res[2]
    pairs = sorted(set(zip(flat[0::2], flat[1::2])))
    # (protected gen_accesses = true) iff there is no such pair; reported for information only
    return {"rows": n, "modes": nmodes, "unknown": nunk, "protected": not pairs, "protected_except_known": bool(res[1][0]),
            "bad_pairs": pairs, "known": known}


def lock_names(r):
    return {h["lock"].split(".", 1)[1] for h in r["held"]}


def always_held(rs, relevant):
    """locks held at EVERY access of one side of an edge, restricted to the locks the other side ever takes
    around this field (only those could be a common lock).  A known finding is keyed on this summary: dropping
    a lock that mattered changes it even when the edge itself is already known, while locks that cannot matter
    (the other side never takes them) and source positions do not enter the signature."""
    sets = [{"%s:%s%s" % (h["lock"].split(".", 1)[1], "W" if h["ex"] else "R", "?" if h["cond"] else "")
             for h in r["held"] if h["lock"].split(".", 1)[1] in relevant} for r in rs]
    common = set.intersection(*sets) if sets else set()
    return "+".join(sorted(common)) or "-"


SEVERITY = {"alias": 0, "len": 1, "read": 2, "index": 3, "range": 4, "write": 5}


def worst_kind(rs):
    """how one side of an edge uses the location at worst: write > range (iteration) > index > read (the value
    escapes) > len > alias.  Part of the signature of a known finding: an observer that only took len() of a map
    and now iterates it is a different finding, although entry, field and locks are the same."""
    return max((r.get("kind") or ("write" if r["write"] else "read") for r in rs), key=lambda k: SEVERITY.get(k, 2))


def short_func(f):
    """function name of an access site without package path and without source positions"""
    f = re.sub(r'@\d+', '', f)
    f = re.sub(r'\(\*?[\w/]+\.(\w+)\)\.', r'\1.', f)
    return f.split("/")[-1]


def side_funcs(rs):
    return "+".join(sorted({short_func(s["func"]) for r in rs for s in r["sites"]}))


def table_edges(table, ev):
    """conflict edges of the table: (entry, entry, field) -> {"rps": row pairs that share no lock, "locks": "A|B"}"""
    rows = table["rows"]
    taken = collections.defaultdict(set)          # (entry, field) -> every lock the entry ever holds at the field
    for r in rows:
        taken[(r["entry"], r["field"])] |= lock_names(r)
    edges = collections.OrderedDict()
    for i, j in ev["bad_pairs"]:
        ra, rb = rows[i], rows[j]
        if ra["entry"] > rb["entry"]:
            ra, rb = rb, ra
        edges.setdefault(edge(ra["entry"], rb["entry"], ra["field"]), {"rps": []})["rps"].append((ra, rb))
    for (e1, e2, f), d in edges.items():
        sev = lambda r: SEVERITY.get(r.get("kind") or "read", 2)
        d["rps"].sort(key=lambda pr: -(sev(pr[0]) + sev(pr[1])))       # the most telling pair first
        if e1 == e2:
            both = [r for pr in d["rps"] for r in pr]
            d["kinds"] = worst_kind(both) + "|" + worst_kind(both)
            d["funcs"] = side_funcs(both) + "|" + side_funcs(both)
        else:
            d["kinds"] = worst_kind([pr[0] for pr in d["rps"]]) + "|" + worst_kind([pr[1] for pr in d["rps"]])
            d["funcs"] = side_funcs([pr[0] for pr in d["rps"]]) + "|" + side_funcs([pr[1] for pr in d["rps"]])
        if e1 == e2:
            both = [r for pr in d["rps"] for r in pr]
            d["locks"] = always_held(both, taken[(e1, f)]) + "|" + always_held(both, taken[(e1, f)])
        else:
            d["locks"] = always_held([pr[0] for pr in d["rps"]], taken[(e2, f)]) + "|" + always_held([pr[1] for pr in d["rps"]], taken[(e1, f)])
    return edges


# ------------------------------------------------------------------ S: race harness

FRAME = re.compile(r'^\s{2}(\S.*?)\(\)\s*$')
LOC = re.compile(r'^\s{6}(\S+):(\d+)(?: \+0x[0-9a-f]+)?\s*$')
HEAD = re.compile(r'^(Write|Read|Previous write|Previous read|Atomic write|Atomic read|Previous atomic write|Previous atomic read) at (0x[0-9a-f]+) by (goroutine \d+|main goroutine)')


def rel_path(p):
    i = p.find("/internal/")
    if i < 0:
        i = p.find("/cmd/")
    if i < 0:
        i = p.find("/pkg/")
    if i < 0 or "/pkg/mod/" in p:
        return None
    return p[i + 1:]


def parse_race_log(text):
    """-> list of reports {accesses:[{op, write, frames:[(func,file,line)]}], raw}"""
    reports = []
    for block in text.split("=================="):
        if "WARNING: DATA RACE" not in block:
            continue
        lines = block.strip("\n").split("\n")
        accesses, cur, pending = [], None, None
        for ln in lines:
            m = HEAD.match(ln)
            if m:
                cur = {"op": m.group(1), "write": "rite" in m.group(1), "frames": []}
                accesses.append(cur)
                continue
            if ln.startswith("Goroutine ") or ln.startswith("Main goroutine"):
                cur = None
                continue
            if cur is None:
                continue
            m = FRAME.match(ln)
            if m:
                pending = m.group(1)
                continue
            m = LOC.match(ln)
            if m and pending is not None:
                cur["frames"].append((pending, m.group(1), int(m.group(2))))
                pending = None
        if len(accesses) >= 2:
            reports.append({"accesses": accesses[:2], "raw": block.strip("\n")})
    return reports


class SiteIndex:
    def __init__(self, table):
        self.by_line = collections.defaultdict(set)     # (file,line) -> {(field, write)}
        self.spans = []                                  # (file, l0, l1, entry)
        self.kinds = table.get("field_kinds") or {}
        for r in table["rows"]:
            for s in r["sites"]:
                self.by_line[(s["file"], s["line"])].add((r["field"], r["write"]))
        for e in table["entries"]:
            for sp in e.get("spans") or []:
                self.spans.append((sp["file"], sp["line0"], sp["line1"], e["name"]))

    def entry_of(self, frames):
        # outermost frame that lies inside an entry root decides (a root may call another root's code)
        for fn, f, l in reversed(frames):
            rp = rel_path(f)
            if rp is None:
                continue
            for sf, l0, l1, name in self.spans:
                if sf == rp and l0 <= l <= l1:
                    return name
        return None

    def fields_of(self, frames, depth=3):
        """fields accessed at the innermost repo frames of a stack"""
        seen = 0
        for fn, f, l in frames:
            rp = rel_path(f)
            if rp is None or rp.startswith("internal/verifh/"):
                continue
            fs = self.by_line.get((rp, l))
            if fs:
                return fs, (rp, l, fn)
            seen += 1
            if seen >= depth:
                break
        return set(), None


def classify_reports(reports, idx):
    """-> (confirmed: {(entry, entry, field): report}, attributed: [..], other: Counter)"""
    confirmed, attributed, other = {}, [], collections.Counter()
    for rep in reports:
        a, b = rep["accesses"]
        ea, eb = idx.entry_of(a["frames"]), idx.entry_of(b["frames"])
        fa, sa = idx.fields_of(a["frames"])
        fb, sb = idx.fields_of(b["frames"])
        # the writing access must sit on a write site of the field; a read may sit on either
        pick = lambda fs, acc: {f for f, w in fs if w or not acc["write"]}
        fields = pick(fa, a) & pick(fb, b)
        how = "both accesses sit on indexed sites of the field"
        ismap = lambda acc: bool(acc["frames"]) and acc["frames"][0][0].startswith("runtime.map")
        if ea and eb and ismap(a) and ismap(b):
            # both sides are inside the runtime's map code, so the contended memory is a map object: only
            # map-typed fields can be meant.  When just one side sits on an indexed site of a map-typed field,
            # the other side reaches that same map through an alias the translator did not see (a local
            # variable, a returned map).
            ma = {f for f in pick(fa, a) if idx.kinds.get(f) == "map"}
            mb = {f for f in pick(fb, b) if idx.kinds.get(f) == "map"}
            if ma & mb:
                fields = ma & mb
            elif bool(ma) != bool(mb):
                fields = ma or mb
                how = "one access sits on an indexed site of the map, the other is inside the runtime map code on the same map (alias)"
        top = lambda acc: next(((rel_path(f), fn.split("/")[-1]) for fn, f, l in acc["frames"] if rel_path(f) and not rel_path(f).startswith("internal/verifh/")), (None, None))
        if fields and ea and eb:
            for f in sorted(fields):
                attributed.append({"entries": (ea, eb), "field": f, "sites": (sa, sb), "raw": rep["raw"], "how": how})
                confirmed.setdefault(edge(ea, eb, f), rep["raw"])
        else:
            ta, tb = top(a), top(b)
            key = "%s | %s | entries=%s,%s" % (ta[1], tb[1], ea, eb)
            other[key] += 1
    return confirmed, attributed, other


def race_env(tag):
    log = os.path.join(C.WORK, "cases", "c18_race_%s" % tag)
    for p in glob.glob(log + ".*"):
        os.remove(p)
    return log, {"GORACE": "halt_on_error=0 exitcode=0 history_size=3 log_path=%s" % log}


def run_race_harness(run, binary, seed, n, tag, replay=None):
    log, env = race_env(tag)
    out = os.path.join(C.WORK, "cases", "c18_%s.jsonl" % tag)
    args = ["-seed", str(seed), "-n", str(n), "-out", out, "-tier", run.tier, "-repo", C.REPO]
    if replay:
        args += ["-replay", replay]
    rc, text = C.run_harness(binary, args, timeout=900, env=env)
    racetext = ""
    for p in sorted(glob.glob(log + ".*")):
        racetext += open(p, errors="replace").read()
    cases = C.read_jsonl(out) if os.path.exists(out) and rc == 0 else []
    crashed = None
    if rc != 0:
        m = re.search(r'fatal error: [^\n]*', text)
        crashed = m.group(0) if m else "exit status %d: %s" % (rc, text[-400:])
    return cases, parse_race_log(racetext), crashed


# ------------------------------------------------------------------ check / replay

TRUSTED = [
    "Rocq 8.16.1 kernel incl. vm_compute (no native_compute); no axioms (Print Assumptions: closed)",
    "the translator harness/overlay/internal/verifh/c18t (go/packages + go/types over /repo's current source): it is trusted to list every access "
    "to a field of configs.Configurator, configs.metricLabelsIndex, k8s.Configuration, secrets.LocalSecretStore, k8s.LoadBalancerController, nginx.LocalManager, "
    "and every write into a Kubernetes API object that is not a fresh copy made in the writing function (locations object:<type>.<field>), reachable from "
    "an entry point, with no more locks than are really held (deferred calls are placed at function exit in LIFO order); cross-checked on every run by the "
    "race detector (a race on an indexed site that the table calls protected is reported as a violation)",
    "the list of concurrent entry points in c18t/main.go (worker, service-insight handlers, telemetry Collect, leader callbacks, SPIFFE rotation, informer handlers)",
    "Go's race detector (ThreadSanitizer) and the fake API clientsets / fake NGINX manager the race harness runs the real controller on",
]


def check(run):
    # short rounds: on the unchanged tree a longer run usually ends early in Go's fatal
    # "concurrent map iteration and map write" (finding F20z), which hides what would come after
    n = 300 if run.tier == "quick" else 400
    # Coq development (family Lockset) must be compiled before the property file / generated table
    rc, out = C.coq_make(only=["Base", "Lockset", "Properties/C18.v"], tag="c18", timeout=1500)
    if rc != 0:
        raise C.TieBroken("Coq build of the Lockset family failed: %s" % out[-1500:])
    table = translate(run)
    run.proof_obligations()
    ev = evaluate_table(run, table)
    rows = table["rows"]
    run.cov["table"] = {"rows": ev["rows"], "startup_modes": ev["modes"], "functions_indexed": table.get("functions_indexed"),
                        "entries": {e["name"]: len(e.get("roots") or []) for e in table["entries"]},
                        "rows_by_entry": dict(collections.Counter(r["entry"] for r in rows)),
                        "row_pairs_without_common_lock": len(ev["bad_pairs"])}
    run.add_obligation(ev["unknown"] == 0, "gen_unknown = [] (every lock operation the translator met was interpreted)",
                       "; ".join(table.get("unknown") or [])[:600])
    for e in table["entries"]:
        if not e.get("roots"):
            run.add_obligation(False, "entry point %s found in the source" % e["name"], "no root function matched")

    edges = table_edges(table, ev)
    run.cov["table"]["conflict_edges_without_common_lock"] = len(edges)
    known_lines = [k for k in C.load_known() if k.get("property") == PID and k.get("status") == "open"]
    known_entries = {k["match"].get(x) for k in known_lines for x in ("entry", "against")}
    known_fields = {k["match"].get("field") for k in known_lines}
    new_location = collections.OrderedDict()
    merged_groups = sorted(e for e in known_entries if e and e.startswith("informer:") and (e.endswith("&co") or e == "informer:enqueue-only"))

    # S: race detector on the real concurrent entry points
    binary = C.go_build("c18", race=True)
    idx = SiteIndex(table)
    confirmed, attributed, other, crashes, scen = {}, [], collections.Counter(), [], []
    rounds = 4 if run.tier == "quick" else 40
    for k in range(rounds):
        cases, reports, crashed = run_race_harness(run, binary, run.seed * 1000 + k, n, "%s_%d" % (run.tier, k))
        cf, at, ot = classify_reports(reports, idx)
        for key, raw in cf.items():
            confirmed.setdefault(key, raw)
        attributed += at
        other.update(ot)
        if crashed:
            crashes.append((k, crashed))
        for c in cases:
            if isinstance(c.get("obs"), dict) and "error" in c["obs"]:
                run.failing({"kind": "harness-case-error"}, [c], "the race harness could not run its scenario: %s" % c["obs"]["error"][:300],
                            theorem="race harness c18", found_input=False)
            else:
                scen.append(c)
                run.count_case({"seed": c["seed"], "iter": c["iter"]}, True)
                run.cov["traces_validated_against_impl"] += 1
        run.log("race round %d: %d reports, %d attributed to table edges, crashed=%s" % (k, len(reports), len(at), crashed))
    if not scen and not crashes:
        raise C.TieBroken("the race harness produced no scenario")

    def side(r):
        return {"entry": r["entry"], "write": r["write"], "kind": r.get("kind"), "held": r["held"], "sites": r["sites"][:3]}

    # every conflict edge: known finding, or violation (with the race report as replay when exhibited)
    edge_report = []
    for (e1, e2, field), d in edges.items():
        rps, locks, kinds, funcs = d["rps"], d["locks"], d["kinds"], d["funcs"]
        edge_report.append({"entry": e1, "against": e2, "field": field, "locks": locks, "kinds": kinds, "funcs": funcs, "exhibited": (e1, e2, field) in confirmed})
        sig = {"kind": "unprotected-access", "entry": e1, "against": e2, "field": field, "locks": locks, "kinds": kinds, "funcs": funcs}
        # a handler that split off a merged informer group inherits the group's known edges (same field, same
        # other side, same use, same functions): only what it does on top of the group is new
        if C.match_known(PID, sig) is None:
            for grp in merged_groups:
                alt = dict(sig)
                if e1.startswith("informer:") and e1 not in known_entries:
                    alt["entry"] = grp
                if e2.startswith("informer:") and e2 not in known_entries:
                    alt["against"] = grp
                if alt != sig:
                    a_, b_ = sorted([alt["entry"], alt["against"]])
                    if (a_, b_) != (alt["entry"], alt["against"]):
                        fa_, fb_ = funcs.split("|"); la_, lb_ = locks.split("|"); ka_, kb_ = kinds.split("|")
                        alt.update({"entry": a_, "against": b_, "funcs": fb_ + "|" + fa_, "locks": lb_ + "|" + la_, "kinds": kb_ + "|" + ka_})
                    if C.match_known(PID, alt) is not None:
                        sig = alt
                        break
        # which accessing functions are new with respect to the recorded finding on the same edge
        newf = set()
        for kl in known_lines:
            m = kl.get("match", {})
            if (m.get("entry"), m.get("against"), m.get("field")) == (e1, e2, field) and "funcs" in m:
                ka, kb = (m["funcs"].split("|") + [""])[:2]
                fa, fb = funcs.split("|")
                newf = (set(fa.split("+")) - set(ka.split("+"))) | (set(fb.split("+")) - set(kb.split("+")))
        if newf:
            has = lambda r: any(short_func(s_["func"]) in newf for s_ in r["sites"])
            rps = sorted(rps, key=lambda pr: -(has(pr[0]) + has(pr[1])))
        ra, rb = rps[0]
        # prefer a race report that runs through one of the new functions
        if newf and (e1, e2, field) in confirmed:
            for at in attributed:
                if edge(at["entries"][0], at["entries"][1], at["field"]) == (e1, e2, field) and \
                        any("." + nf.split(".")[-1] + "()" in at["raw"] for nf in newf):
                    confirmed[(e1, e2, field)] = at["raw"]
                    break
        case = {"entry": e1, "against": e2, "field": field, "locks": locks, "kinds": kinds, "row_pairs": len(rps), "a": side(ra), "b": side(rb),
                "seed": run.seed * 1000, "iter": n, "race_report": confirmed.get((e1, e2, field))}
        def desc(r):
            st = next((s_ for s_ in r["sites"] if short_func(s_["func"]) in newf), r["sites"][0])
            chain = [c.split("/")[-1] for c in (st.get("chain") or [])]
            via = " (call path: %s)" % " > ".join(chain[-6:]) if len(chain) > 1 else ""
            locks = [h["lock"] + ("" if not h["cond"] else " (if %s)" % h["cond"]) for h in r["held"]] or "no lock"
            verb = {"write": "writes", "range": "iterates over", "index": "indexes", "len": "takes len() of", "alias": "hands out"}.get(r.get("kind"), "reads")
            return "%s %s it in %s at %s:%d%s holding %s" % (r["entry"], verb, short_func(st["func"]), st["file"], st["line"], via, locks)
        what = "%s: %s; %s -- no common lock held exclusively by either side" % (field, desc(ra), desc(rb))
        if newf:
            what = "new accessing function(s) %s on a known edge -- %s" % (sorted(newf), what)
        if (e1, e2, field) in confirmed:
            run.failing(sig, [case], what + "; exhibited by the race detector", theorem="Lockset.Model.protected_except_all on gen/Accesses.v + race harness")
        elif C.match_known(PID, sig) is not None:
            # known edge not re-exhibited in this run: still the recorded finding
            run.failing(sig, [case], what, theorem="Lockset.Model.protected_except_all on gen/Accesses.v")
        elif field not in known_fields:
            # a location no recorded finding is about: the edges the detector did not exhibit are reported together
            new_location.setdefault(field, []).append((sig, case, what))
        else:
            run.failing(sig, [case], what + "; not exhibited by the race detector in this run",
                        theorem="Lockset.Model.protected_except_all known gen_accesses = true", found_input=False)
    for field, items in new_location.items():
        if len(items) <= 2:
            for sig, case, what in items:
                run.failing(sig, [case], what + "; not exhibited by the race detector in this run",
                            theorem="Lockset.Model.protected_except_all known gen_accesses = true", found_input=False)
            continue
        pairs = sorted({"%s / %s" % (sg["entry"], sg["against"]) for sg, _, _ in items})
        run.failing({"kind": "unprotected-access", "entry": "*", "against": "*", "field": field, "edges": len(items)},
                    [c_ for _, c_, _ in items[:3]],
                    "%s: %d more conflict edges on this new location were not exhibited by the race detector in this run (%s); first of them: %s"
                    % (field, len(items), "; ".join(pairs)[:600], items[0][2]),
                    theorem="Lockset.Model.protected_except_all known gen_accesses = true", found_input=False)
    # the computed instance obligation (restricted to the edges that are not known findings)
    run.cov["obligations"] += 1
    if ev["protected_except_known"]:
        run.cov["discharged"] += 1
    run.cov["instance_obligation"] = {"statement": "protected_except_all known gen_accesses = true", "holds": ev["protected_except_known"],
                                      "protected gen_accesses (no exceptions)": ev["protected"], "known_edges": len(ev["known"]),
                                      "conflict_edges": len(edges),
                                      "known_edges_no_longer_in_table": sorted("%s / %s / %s" % k for k in ev["known"] if k not in edges)}
    # cross-check of the translator: a race the detector attributes to an edge the table calls protected
    for at in attributed:
        k = edge(at["entries"][0], at["entries"][1], at["field"])
        if k not in edges:
            run.failing({"kind": "race-outside-table", "entry": k[0], "against": k[1], "field": k[2]},
                        [{"entry": k[0], "against": k[1], "field": k[2], "sites": at["sites"], "race_report": at["raw"], "seed": run.seed * 1000, "iter": n}],
                        "the race detector reports a race on %s between %s and %s, which the access table considers protected: translator or entry list unsound here"
                        % (k[2], k[0], k[1]), theorem="translator c18t vs race detector")
    # the process dying is an observable of its own (the property names it): Go's map implementation
    # throws an unrecoverable fatal error when it notices concurrent access
    for k, cr in crashes:
        m = re.match(r'fatal error: (concurrent map [a-z ]+)', cr)
        err = m.group(1).strip() if m else "other"
        run.failing({"kind": "process-crash", "error": err}, [{"seed": run.seed * 1000 + k, "iter": n, "error": cr}],
                    "the controller process (race harness) died: %s" % cr, theorem="race harness c18")
        run.notes.append("race harness round %d died: %s" % (k, cr))
    fmt = lambda k: "%s / %s / %s" % k
    run.cov["race_harness"] = {"rounds": rounds, "ops_per_round": n, "reports_attributed_to_table_edges": len(attributed),
                               "edges_exhibited": sorted(fmt(k) for k in confirmed if k in edges),
                               "edges_in_table_not_exhibited_in_this_run": sorted(fmt(k) for k in edges if k not in confirmed),
                               "other_reports_not_on_indexed_sites": dict(other.most_common(12)),
                               "process_crashes": [c for _, c in crashes]}
    for c in scen[:2]:
        run.sample(c)
    for k, d in list(edges.items())[:2]:
        run.sample({"conflict_edge": list(k), "locks": d["locks"], "a": side(d["rps"][0][0]), "b": side(d["rps"][0][1]), "exhibited_by_race_detector": k in confirmed})
    with open(os.path.join(C.WORK, "c18_edges.json"), "w") as f:
        json.dump(edge_report, f, indent=1)
    run.cov["rule"] = ("T: access table regenerated from /repo's source (entries x shared fields and written API-object locations x read/write x locks held), the obligation is evaluated by vm_compute in both "
                       "start-up modes of the conditional sync lock; S: %d rounds of the race harness, each %d API operations (VirtualServer / VirtualServerRoute incl. "
                       "weights-only updates, Ingress incl. master/minion (masters carrying a denied annotation), TransportServer, Secret, ConfigMap sync, Namespace add/remove) against the real controller with "
                       "service-insight, telemetry and leader-callback goroutines beside it; a case is one scenario (seed, length)." % (rounds, n))
    run.cov["trusted_base"] = TRUSTED
    run.assumptions += [
        "lock discipline only: torn reads through unsynchronised pointer publication (objects reachable from a map entry) are outside the table; the race harness reports what it sees of them under other_reports_not_on_indexed_sites",
        "a location is a struct field (a map in a field is that field); instances are conflated per type (one Configurator, Configuration, store, controller per process)",
        "goroutine creation and channels order nothing in the model (start-up code that runs before the worker is not an entry point)",
        "the SPIFFE rotation goroutine is in the table but not driven by the race harness (no SPIRE agent); nginx.LocalManager's own fields are in the table but the harness runs the fake manager",
        "API objects are conflated per type and field (object:<type>.<field>); freshness of a written object is decided inside one function (DeepCopy, literals, new, zero-valued locals, results of API clients and of functions that only return such) and through parameters (a callee that writes through a parameter is charged to the call site that passes a shared object)",
    ]


def replay(run, path):
    rc, out = C.coq_make(only=["Base", "Lockset", "Properties/C18.v"], tag="c18", timeout=1500)
    if rc != 0:
        raise C.TieBroken("Coq build of the Lockset family failed: %s" % out[-1500:])
    table = translate(run)
    ev = evaluate_table(run, table)
    rows = table["rows"]
    rp = json.load(open(path))
    want = [edge(c.get("entry"), c.get("against"), c.get("field")) for c in rp.get("cases", []) if c.get("field")]
    edges = table_edges(table, ev)
    binary = C.go_build("c18", race=True)
    idx = SiteIndex(table)
    cases, reports, crashed = run_race_harness(run, binary, run.seed, 260, "replay", replay=path)
    confirmed, attributed, other = classify_reports(reports, idx)
    print("replay: %d race reports, %d attributed to table edges" % (len(reports), len(attributed)))
    for w in want:
        print("replay edge %s / %s / %s: the regenerated table says %s; the race detector %s" % (
            w + ("NO COMMON LOCK" if w in edges else "protected", "EXHIBITS a race" if w in confirmed else "did not exhibit a race in this run")))
        if w in confirmed:
            print("\n".join(confirmed[w].split("\n")[:16]))
        if w in edges or w in confirmed:
            sig = {"kind": "unprotected-access", "entry": w[0], "against": w[1], "field": w[2], "locks": edges[w]["locks"] if w in edges else "?",
                   "kinds": edges[w]["kinds"] if w in edges else "?", "funcs": edges[w]["funcs"] if w in edges else "?"}
            run.failing(sig, [c for c in rp["cases"] if c.get("field") and edge(c.get("entry"), c.get("against"), c.get("field")) == w],
                        "%s / %s / %s has no common lock in the regenerated table" % w,
                        found_input=(w in confirmed) or C.match_known(PID, sig) is not None,
                        theorem="Lockset.Model.protected_except_all on gen/Accesses.v")
    if crashed:
        print("race harness process died: %s" % crashed)
