(* C02 admission -- evaluation on the implementation's observations.  No proofs here. *)
From Coq Require Import List ZArith String Ascii Bool.
From NIC Require Import Arb.Types Arb.Cases Listeners.Admit.
Import ListNotations.
Open Scope string_scope.
Open Scope Z_scope.

Definition listener_dec : forall a b : listener, {a = b} + {a <> b}.
Proof. decide equality; auto using string_dec, Z.eq_dec, bool_dec. Defined.

Definition in_l (l : listener) (ls : list listener) : bool := existsb (fun x => eqb_of listener_dec l x) ls.

(* S, independent of the model's fold: the admitted list satisfies the guarantees; it only contains
   well-formed entries; and every `clearly valid` entry (well-formed, only well-formed entry of its
   name, in conflict with no other well-formed entry) is admitted *)
Definition clearly_valid (f : list Z) (es : list entry) (e : entry) : bool :=
  wellformed f e &&
  (Nat.eqb (List.length (filter (fun x => wellformed f x && String.eqb (l_name (e_l x)) (l_name (e_l e))) es)) 1) &&
  forallb (fun x => negb (wellformed f x) || eqb_of listener_dec (e_l x) (e_l e) ||
                    negb (listeners_conflict (e_l e) (e_l x))) es.

(* `an invalid listener entry never disables the valid ones`, evaluated against the implementation's own
   admitted list: walking the input in order, an entry that is well-formed, first of its name among the
   well-formed entries before it, and in conflict with no listener that the implementation admitted
   before it, must itself be admitted *)
Fixpoint valid_kept (f : list Z) (seen : list string) (adm_before : list listener) (es : list entry) (obs : list listener) : bool :=
  match es with
  | [] => true
  | e :: r =>
      let l := e_l e in
      if wellformed f e && negb (smem (l_name l) seen) then
        let admitted := in_l l obs in
        (existsb (listeners_conflict l) adm_before || admitted) &&
        valid_kept f (l_name l :: seen) (if admitted then adm_before ++ [l] else adm_before)%list r obs
      else valid_kept f seen adm_before r obs
  end.

Definition admission_spec_ok (f : list Z) (es : list entry) (obs : list listener) : bool :=
  admitted_ok f obs &&
  forallb (fun l => existsb (fun e => wellformed f e && eqb_of listener_dec (e_l e) l) es) obs &&
  forallb (fun e => negb (clearly_valid f es e) || in_l (e_l e) obs) es &&
  valid_kept f [] [] es obs.

Definition admit_case (id : Z) (fl : flags) (es : list entry) (obs : list listener) (obs_err : bool) : list Z :=
  let f := forbidden_of fl in
  let m := admitl f es in
  [id;
   if eqb_of (list_eq_dec listener_dec) m obs && Bool.eqb obs_err (negb (Nat.eqb (List.length m) (List.length es))) then 1 else 0;
   if admission_spec_ok f es obs then 1 else 0;
   if Nat.ltb 1 (List.length (filter (wellformed f) es)) then 1 else 0;
   Z.of_nat (List.length m)].
