(* Lex/LexerProofs.v -- theorems about the tokenizer DFA of Lex/Lexer.v, for ALL strings.

   INTERFACE
     run_app            run q (a ++ b) = let (q1,e1) := run q a in let (q2,e2) := run q1 b in (q2, e1 ++ e2)
     hoare q s q' e     := run q s = (q', e)            (a class is a Hoare triple on the DFA)
     neutral q s        := run q s = (q, [])
     Classes (decidable recognisers + their triple):
       bare_frag s          no byte in {space TAB CR LF ; left-brace backslash dollar}
                            bare_frag_neutral : neutral QBare s          (quotes, right-brace and # are
                            ordinary inside a bare word)
       bare_scan v s = Some v'    the same language extended with dollar, where left-braces directly
                            after a dollar are allowed; v/v' = is the variable flag set
                            bare_scan_hoare : run (bare_st v) s = (bare_st v', [])
       bare_tok s           non-empty, first byte additionally not in {right-brace # quotes}, rest bare_frag
                            bare_tok_hoare : run QBetween s = (QBare, [])
       dq_scan e s = Some e'      the language ([^dq bs]|bs .)* read from inside double quotes;
                            e/e' = is an escape pending.  dq_scan_hoare: simulation Normal<->QDQ, Esc<->QDQEsc
       dq_frag s := dq_scan false s = Some false;  dq_frag_neutral : neutral QDQ s
       sq_scan / sq_frag / sq_frag_neutral        the same for single quotes
       quoted_tok_hoare     dq_frag s -> run QBetween (dq ++ s ++ dq) = (QNeedSpace, [TokEnd])
     events_subst       two strings neutral in q can be exchanged between any prefix reaching q and any
                        suffix without changing the final state or the event list
     skeleton_subst     hence the shape forest (Parser.shapes_of_events) is unchanged
     step_err           an Err event is emitted exactly when the DFA enters QErr
     lex_events         lex s = Some ts -> run QBetween s = (q, map ev_of_token ts) with final_ok q
     lex_events_ok      lex s = Some ts -> events_ok s = true *)
From Coq Require Import List String Ascii Bool.
From NIC Require Import Lex.Lexer Lex.Parser.
Import ListNotations.
Open Scope string_scope.
Open Scope list_scope.

Lemma run_app : forall a q b,
    run q (a ++ b)%string =
    let (q1, e1) := run q a in let (q2, e2) := run q1 b in (q2, e1 ++ e2).
Proof.
  induction a as [|c a IH]; intros q b; cbn [run append].
  - destruct (run q b); reflexivity.
  - destruct (step q c) as [q1 e1]. rewrite IH.
    destruct (run q1 a) as [q2 e2]. destruct (run q2 b) as [q3 e3].
    now rewrite app_assoc.
Qed.

Definition hoare (q : lstate) (s : string) (q' : lstate) (e : list ev) : Prop := run q s = (q', e).
Definition neutral (q : lstate) (s : string) : Prop := run q s = (q, []).

Lemma hoare_seq : forall q a q1 e1 b q2 e2,
    hoare q a q1 e1 -> hoare q1 b q2 e2 -> hoare q (a ++ b)%string q2 (e1 ++ e2).
Proof. unfold hoare. intros * Ha Hb. now rewrite run_app, Ha, Hb. Qed.

Lemma neutral_app : forall q a b, neutral q a -> neutral q b -> neutral q (a ++ b)%string.
Proof. unfold neutral. intros * Ha Hb. now rewrite run_app, Ha, Hb. Qed.

(* ---------------------------------------------------------------- bare-word classes *)

Definition bare_ok (c : ascii) : bool :=
  negb (is_ws c || Ascii.eqb c ch_semi || Ascii.eqb c ch_open || Ascii.eqb c ch_bs || Ascii.eqb c ch_dollar).

Definition start_ok (c : ascii) : bool :=
  bare_ok c && negb (Ascii.eqb c ch_close || Ascii.eqb c ch_hash || Ascii.eqb c ch_dq || Ascii.eqb c ch_sq).

Fixpoint bare_frag (s : string) : bool :=
  match s with EmptyString => true | String c r => bare_ok c && bare_frag r end.

Definition bare_tok (s : string) : bool :=
  match s with EmptyString => false | String c r => start_ok c && bare_frag r end.

(* the 256-byte sweeps *)
Lemma step_bare_ok : forall c, bare_ok c = true -> step QBare c = (QBare, []) /\ step QVar c = (QBare, []).
Proof.
  intros c H. destruct c as [b0 b1 b2 b3 b4 b5 b6 b7].
  destruct b0, b1, b2, b3, b4, b5, b6, b7; try discriminate H; split; reflexivity.
Qed.

Lemma step_start_ok : forall c, start_ok c = true -> step QBetween c = (QBare, []).
Proof.
  intros c H. destruct c as [b0 b1 b2 b3 b4 b5 b6 b7].
  destruct b0, b1, b2, b3, b4, b5, b6, b7; try discriminate H; reflexivity.
Qed.

Theorem bare_frag_neutral : forall s, bare_frag s = true -> neutral QBare s.
Proof.
  unfold neutral. induction s as [|c s IH]; intros H; [reflexivity|].
  cbn [bare_frag] in H. apply andb_true_iff in H as [Hc Hs].
  cbn [run]. destruct (step_bare_ok c Hc) as [-> _]. now rewrite (IH Hs).
Qed.

Theorem bare_tok_hoare : forall s, bare_tok s = true -> hoare QBetween s QBare [].
Proof.
  unfold hoare. destruct s as [|c s]; intros H; [discriminate|].
  cbn [bare_tok] in H. apply andb_true_iff in H as [Hc Hs].
  cbn [run]. rewrite (step_start_ok c Hc). now rewrite (bare_frag_neutral s Hs).
Qed.

(* with the dollar: left-braces directly after a dollar do not end the word *)
Definition bare_st (v : bool) : lstate := if v then QVar else QBare.

Fixpoint bare_scan (v : bool) (s : string) : option bool :=
  match s with
  | EmptyString => Some v
  | String c r =>
      if Ascii.eqb c ch_dollar then bare_scan true r
      else if Ascii.eqb c ch_open then (if v then bare_scan true r else None)
      else if bare_ok c then bare_scan false r
      else None
  end.

Lemma step_dollar : step QBare ch_dollar = (QVar, []) /\ step QVar ch_dollar = (QVar, []).
Proof. split; reflexivity. Qed.

Theorem bare_scan_hoare : forall s v v', bare_scan v s = Some v' -> hoare (bare_st v) s (bare_st v') [].
Proof.
  unfold hoare. induction s as [|c s IH]; intros v v' H; cbn [bare_scan] in H.
  - injection H as <-. reflexivity.
  - cbn [run]. destruct (Ascii.eqb c ch_dollar) eqn:Ed.
    + apply Ascii.eqb_eq in Ed. subst c.
      assert (E : step (bare_st v) ch_dollar = (QVar, [])) by (destruct v; reflexivity).
      rewrite E. pose proof (IH true v' H) as R. change (bare_st true) with QVar in R. now rewrite R.
    + destruct (Ascii.eqb c ch_open) eqn:Eo.
      * apply Ascii.eqb_eq in Eo. subst c. destruct v; [|discriminate].
        assert (E : step QVar ch_open = (QVar, [])) by reflexivity.
        cbn [bare_st]. rewrite E.
        pose proof (IH true v' H) as R. change (bare_st true) with QVar in R. now rewrite R.
      * destruct (bare_ok c) eqn:Eb; [|discriminate].
        destruct (step_bare_ok c Eb) as [E1 E2].
        assert (E : step (bare_st v) c = (QBare, [])) by (destruct v; assumption).
        rewrite E. pose proof (IH false v' H) as R. change (bare_st false) with QBare in R. now rewrite R.
Qed.

(* ---------------------------------------------------------------- quoted classes (simulation) *)

Fixpoint q_scan (qc : ascii) (e : bool) (s : string) : option bool :=
  match s with
  | EmptyString => Some e
  | String c r =>
      if e then q_scan qc false r
      else if Ascii.eqb c ch_bs then q_scan qc true r
      else if Ascii.eqb c qc then None
      else q_scan qc false r
  end.

Definition dq_scan := q_scan ch_dq.
Definition sq_scan := q_scan ch_sq.
Definition dq_frag (s : string) : bool := match dq_scan false s with Some false => true | _ => false end.
Definition sq_frag (s : string) : bool := match sq_scan false s with Some false => true | _ => false end.

Definition dq_st (e : bool) : lstate := if e then QDQEsc else QDQ.
Definition sq_st (e : bool) : lstate := if e then QSQEsc else QSQ.

Theorem dq_scan_hoare : forall s e e', dq_scan e s = Some e' -> hoare (dq_st e) s (dq_st e') [].
Proof.
  unfold hoare, dq_scan. induction s as [|c s IH]; intros e e' H; cbn [q_scan] in H.
  - injection H as <-. reflexivity.
  - cbn [run]. destruct e.
    + cbn [dq_st step]. pose proof (IH false e' H) as R; change (dq_st false) with QDQ in R; now rewrite R.
    + cbn [dq_st step]. destruct (Ascii.eqb c ch_bs) eqn:Eb.
      * pose proof (IH true e' H) as R; change (dq_st true) with QDQEsc in R; now rewrite R.
      * destruct (Ascii.eqb c ch_dq) eqn:Eq; [discriminate|]. pose proof (IH false e' H) as R; change (dq_st false) with QDQ in R; now rewrite R.
Qed.

Theorem sq_scan_hoare : forall s e e', sq_scan e s = Some e' -> hoare (sq_st e) s (sq_st e') [].
Proof.
  unfold hoare, sq_scan. induction s as [|c s IH]; intros e e' H; cbn [q_scan] in H.
  - injection H as <-. reflexivity.
  - cbn [run]. destruct e.
    + cbn [sq_st step]. pose proof (IH false e' H) as R; change (sq_st false) with QSQ in R; now rewrite R.
    + cbn [sq_st step]. destruct (Ascii.eqb c ch_bs) eqn:Eb.
      * pose proof (IH true e' H) as R; change (sq_st true) with QSQEsc in R; now rewrite R.
      * destruct (Ascii.eqb c ch_sq) eqn:Eq; [discriminate|]. pose proof (IH false e' H) as R; change (sq_st false) with QSQ in R; now rewrite R.
Qed.

Theorem dq_frag_neutral : forall s, dq_frag s = true -> neutral QDQ s.
Proof.
  unfold dq_frag, neutral. intros s H. destruct (dq_scan false s) as [[|]|] eqn:E; try discriminate.
  exact (dq_scan_hoare s false false E).
Qed.

Theorem sq_frag_neutral : forall s, sq_frag s = true -> neutral QSQ s.
Proof.
  unfold sq_frag, neutral. intros s H. destruct (sq_scan false s) as [[|]|] eqn:E; try discriminate.
  exact (sq_scan_hoare s false false E).
Qed.

Theorem quoted_tok_hoare : forall s,
    dq_frag s = true ->
    hoare QBetween (String ch_dq (s ++ String ch_dq EmptyString))%string QNeedSpace [TokEnd].
Proof.
  intros s H.
  change (hoare QBetween (String ch_dq EmptyString ++ (s ++ String ch_dq EmptyString))%string QNeedSpace ([] ++ ([] ++ [TokEnd]))).
  apply (hoare_seq _ _ QDQ); [reflexivity|].
  apply (hoare_seq _ _ QDQ); [exact (dq_frag_neutral s H) | reflexivity].
Qed.

(* ---------------------------------------------------------------- substitution *)

Theorem events_subst : forall q0 pre q e s1 s2 post,
    run q0 pre = (q, e) -> neutral q s1 -> neutral q s2 ->
    run q0 (pre ++ s1 ++ post)%string = run q0 (pre ++ s2 ++ post)%string.
Proof.
  unfold neutral. intros * Hp H1 H2.
  rewrite !run_app, Hp, !run_app, H1, H2. reflexivity.
Qed.

Theorem skeleton_subst : forall pre q e s1 s2 post,
    run QBetween pre = (q, e) -> neutral q s1 -> neutral q s2 ->
    fst (run QBetween (pre ++ s1 ++ post)%string) = fst (run QBetween (pre ++ s2 ++ post)%string) /\
    shapes_of_events (snd (run QBetween (pre ++ s1 ++ post)%string)) =
    shapes_of_events (snd (run QBetween (pre ++ s2 ++ post)%string)).
Proof.
  intros * Hp H1 H2. now rewrite (events_subst QBetween pre q e s1 s2 post Hp H1 H2).
Qed.

(* ---------------------------------------------------------------- the two views agree *)

Lemma step_err : forall q c,
    let (q1, e1) := step q c in (q1 = QErr -> q = QErr \/ e1 = [Err]) /\ (q1 <> QErr -> no_err e1 = true).
Proof.
  intros q c. destruct c as [b0 b1 b2 b3 b4 b5 b6 b7].
  destruct q; destruct b0, b1, b2, b3, b4, b5, b6, b7; cbv;
    (split; [intros H; first [discriminate H | now left | now right] | intros H; first [reflexivity | now elim H]]).
Qed.

Lemma toks_of_events : forall acc e, no_err e = true -> map ev_of_token (toks_of acc e) = e.
Proof.
  induction e as [|x e IH]; intros H; [reflexivity|].
  cbn [no_err forallb] in H. apply andb_true_iff in H as [Hx He].
  destruct x; try discriminate Hx; cbn [toks_of map ev_of_token]; f_equal; now apply IH.
Qed.

Theorem lex_from_events : forall s q acc ts,
    lex_from q acc s = Some ts ->
    exists q', run q s = (q', map ev_of_token ts) /\ final_ok q' = true.
Proof.
  induction s as [|c s IH]; intros q acc ts H; cbn [lex_from] in H.
  - destruct (final_ok q) eqn:F; [|discriminate]. injection H as <-. exists q. now split.
  - cbn [run]. pose proof (step_err q c) as SE. destruct (step q c) as [q1 e1]. destruct SE as [_ SE].
    assert (Hq : q1 <> QErr) by (intros ->; discriminate H).
    specialize (SE Hq).
    assert (H' : match lex_from q1 (if ends_word e1 then [] else if keeps q c then c :: acc else acc) s with
                 | Some ts0 => Some (toks_of acc e1 ++ ts0) | None => None end = Some ts)
      by (destruct q1; try exact H; now elim Hq).
    destruct (lex_from q1 _ s) as [ts0|] eqn:L; [|discriminate].
    injection H' as <-.
    destruct (IH _ _ _ L) as [q' [R F]]. exists q'. rewrite R. split; [|exact F].
    now rewrite map_app, toks_of_events.
Qed.

Theorem lex_events : forall s ts,
    lex s = Some ts -> exists q, run QBetween s = (q, map ev_of_token ts) /\ final_ok q = true.
Proof. intros s ts. apply lex_from_events. Qed.

Lemma ev_of_token_no_err : forall ts, no_err (map ev_of_token ts) = true.
Proof. induction ts as [|t ts IH]; [reflexivity|]. cbn. destruct t; exact IH. Qed.

Theorem lex_events_ok : forall s ts, lex s = Some ts -> events_ok s = true.
Proof.
  intros s ts H. destruct (lex_events s ts H) as [q [R F]].
  unfold events_ok. rewrite R, F. apply ev_of_token_no_err.
Qed.
