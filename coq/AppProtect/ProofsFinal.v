(* C19 -- the theorems in the form Properties/C19.v states them, plus decidable forms of the
   hypotheses (used to show they are met by concrete histories). *)
From Coq Require Import List ZArith String Ascii Bool Lia Permutation.
From NIC Require Import Base.SMap AppProtect.Model AppProtect.Spec AppProtect.ProofsBase AppProtect.ProofsSig
     AppProtect.ProofsInv AppProtect.ProofsAnswers AppProtect.ProofsReport AppProtect.ProofsReport2.
Import ListNotations.
Open Scope string_scope.
Open Scope list_scope.

Section V.
Context {fx : bool}.
Open Scope Z_scope.

Lemma K1_after ob evs : K1_from ob evs -> sigs_distinct (ob_sig ob) -> sigs_distinct (ob_sig (objects_after ob evs)).
Proof.
  revert ob. induction evs as [|ev r IH]; intros ob HK H0; cbn; [exact H0|].
  destruct HK as [H1 HK]. apply IH; assumption.
Qed.

Lemma K1_final evs : K1_hist evs -> sigs_distinct (ob_sig (final_objects evs)).
Proof. intros H. apply K1_after; [exact H|]. intros ? ? ? ? []. Qed.

Lemma inv_final evs : Inv (final_objects evs).
Proof. apply inv_after. apply inv0. Qed.

(* the incrementally maintained flags are the from-scratch specification (as coded for the
   revision-time test): every answer of both getters, after every history *)
Theorem flags_are_spec_as_coded en evs : K1_hist evs ->
  (forall kd key, get_app_resource (waf (run fx en evs)) kd key =
                  spec_answer (acceptable_for fx) (final_objects evs) kd key) /\
  (forall ns nm, get_valid_dos_ex (dos (run fx en evs)) ns nm = spec_dos_answer en (final_objects evs) ns nm).
Proof.
  intros HK. rewrite (run_is_spec_state en evs HK). split.
  - intros kd key. apply waf_answer_spec.
  - intros ns nm. apply dos_answer_spec.
Qed.

Theorem flags_are_spec en evs : K1_hist evs -> fx = true \/ f21_free (final_objects evs) ->
  (forall kd key, get_app_resource (waf (run fx en evs)) kd key = spec_answer acceptable (final_objects evs) kd key) /\
  (forall ns nm, get_valid_dos_ex (dos (run fx en evs)) ns nm = spec_dos_answer en (final_objects evs) ns nm).
Proof.
  intros HK HF. destruct (flags_are_spec_as_coded en evs HK) as [H1 H2]. split; [|exact H2].
  intros kd key. rewrite H1. apply natural_answer. exact HF.
Qed.

(* exactly one signature in force per declared tag, the oldest; the others are duplicates *)
Theorem one_in_force_per_tag en evs : K1_hist evs ->
  let S := ob_sig (final_objects evs) in
  forall k0 o0, In (k0, o0) S -> sig_competes o0 = true ->
  exists k o, In (k, o) S /\ sig_competes o = true /\ so_tag o = so_tag o0 /\
              get_app_resource (waf (run fx en evs)) KUserSig k = AOk /\
              forall k' o', In (k', o') S -> k' <> k -> sig_competes o' = true -> so_tag o' = so_tag o0 ->
                            older o o' = true /\
                            get_app_resource (waf (run fx en evs)) KUserSig k' = AErr EDup.
Proof.
  intros HK S k0 o0 Hin C.
  pose proof (inv_sig _ (inv_final evs)) as W. fold S in W.
  pose proof (K1_final evs HK) as K1. fold S in K1.
  destruct (flags_are_spec_as_coded en evs HK) as [HA _].
  destruct (some_in_force S W K1 k0 o0 Hin C) as [k [o [H1 [H2 [H3 H4]]]]].
  assert (Hans : forall k1 o1, In (k1, o1) S -> sig_competes o1 = true ->
            get_app_resource (waf (run fx en evs)) KUserSig k1 = if in_force S k1 o1 then AOk else AErr EDup).
  { intros k1 o1 Hi Hc. rewrite HA. cbn [spec_answer]. unfold spec_sig_answer. fold S.
    rewrite (In_lookup _ _ _ W Hi). unfold sig_competes, sig_wf in Hc.
    apply andb_true_iff in Hc. destruct Hc as [Hc _]. apply andb_true_iff in Hc. destruct Hc as [Hv Hr].
    rewrite Hv. cbn [negb]. apply negb_true_iff in Hr. rewrite Hr. reflexivity. }
  exists k, o. repeat split; auto.
  - rewrite (Hans k o H1 H2), H4. reflexivity.
  - eapply in_force_is_oldest; eauto. congruence.
  - rewrite (Hans k' o' H H5).
    destruct (in_force S k' o') eqn:F; [|reflexivity]. exfalso. apply H0.
    eapply (at_most_one_in_force S k' o' k o); eauto. congruence.
Qed.

(* every change of usability is reported *)
Theorem changes_reported en evs ev kd key : K1_hist evs ->
  kd = KPolicy \/ kd = KLogConf \/ kd = KDosPR ->
  let st := run fx en evs in
  flip_reported st (fst (step fx st ev)) (snd (step fx st ev)) kd key.
Proof.
  intros HK Hkd st. unfold st. rewrite (run_is_spec_state en evs HK).
  apply step_flips_reported; [apply inv_final|exact Hkd].
Qed.

(* A net change of usability over ANY further sequence of events (for instance the deletions that
   the clean-up of an unwatched namespace performs, in whatever order the cache lists them) shows up in
   the change list of at least one of the single steps: nothing may be dropped when the steps are
   batched. *)
Lemma net_flip_step (P : state -> bool) (more : list event) : forall st,
  P st <> P (run_from fx st more) ->
  exists pre ev post, more = pre ++ ev :: post /\
    P (run_from fx st pre) <> P (fst (step fx (run_from fx st pre) ev)).
Proof.
  induction more as [|ev r IH]; intros st H; [exfalso; apply H; reflexivity|].
  destruct (Bool.bool_dec (P st) (P (fst (step fx st ev)))) as [E|E].
  - unfold run_from in H. cbn [fold_left] in H. fold (run_from fx (fst (step fx st ev)) r) in H.
    rewrite E in H. destruct (IH _ H) as [pre [ev' [post [E1 E2]]]].
    exists (ev :: pre), ev', post. split; [rewrite E1; reflexivity|]. exact E2.
  - exists [], ev, r. split; [reflexivity|exact E].
Qed.

Lemma K1_from_app ob a b : K1_from ob (a ++ b) -> K1_from ob a.
Proof.
  revert ob. induction a as [|x a IH]; intros ob H; cbn in *; [exact I|].
  destruct H as [H1 H2]. split; [exact H1|apply IH; exact H2].
Qed.

Lemma run_app en a b : run fx en (a ++ b) = run_from fx (run fx en a) b.
Proof. unfold run, run_from. apply fold_left_app. Qed.

Theorem net_flip_reported en evs more kd key :
  K1_hist (evs ++ more) -> kd = KPolicy \/ kd = KLogConf \/ kd = KDosPR ->
  usable (run fx en evs) kd key <> usable (run fx en (evs ++ more)) kd key ->
  exists pre ev post, more = pre ++ ev :: post /\
    let st := run fx en (evs ++ pre) in
    In (chg (op_for (usable (fst (step fx st ev)) kd key)) kd key) (o_changes (snd (step fx st ev))).
Proof.
  intros HK Hkd Hflip. rewrite run_app in Hflip.
  destruct (net_flip_step (fun st => usable st kd key) more _ Hflip) as [pre [ev [post [E1 E2]]]].
  exists pre, ev, post. split; [exact E1|]. cbn zeta. rewrite run_app.
  assert (HK' : K1_hist (evs ++ pre)).
  { subst more. unfold K1_hist in *. rewrite app_assoc in HK. apply K1_from_app in HK. exact HK. }
  pose proof (changes_reported en (evs ++ pre) ev kd key HK' Hkd) as R. cbn zeta in R.
  rewrite run_app in R. destruct (R E2) as [R1 _]. exact R1.
Qed.

Lemma wf_run_sigs en evs : K1_hist evs -> wf (usersigs (waf (run fx en evs))).
Proof.
  intros HK. rewrite (run_is_spec_state en evs HK). cbn. apply wf_mapk. apply (inv_sig _ (inv_final evs)).
Qed.

Theorem usersig_list_reported en evs ev : K1_hist evs ->
  let st := run fx en evs in
  sig_op_effective st ev = true ->
  exists l, o_usersigs (snd (step fx st ev)) = Some l /\
            forall key, In key l <-> usable (fst (step fx st ev)) KUserSig key = true.
Proof. intros HK st. apply usersig_list_complete. apply wf_run_sigs. exact HK. Qed.

Theorem usersig_problems_reported en evs ev key : K1_hist evs ->
  let st := run fx en evs in
  is_sig_event ev = true ->
  stored (fst (step fx st ev)) KUserSig key = true ->
  usable (fst (step fx st ev)) KUserSig key = false ->
  (usable st KUserSig key = true \/ exists o, ev = EvUserSig key o) ->
  exists c, In (prob KUserSig key c) (o_problems (snd (step fx st ev))).
Proof. intros HK st. apply usersig_problem_reported. apply wf_run_sigs. exact HK. Qed.

(* ------------------------------------------------------------------------------------------ *)
(* decidable forms of the hypotheses *)

Lemma sigs_distinctb_sound S : sigs_distinctb S = true -> sigs_distinct S.
Proof.
  unfold sigs_distinctb, sigs_distinct. intros H k1 o1 k2 o2 H1 H2 Hne.
  rewrite forallb_forall in H. specialize (H _ H1). rewrite forallb_forall in H. specialize (H _ H2).
  cbn in H. apply String.eqb_neq in Hne. rewrite Hne in H. cbn in H.
  apply negb_true_iff, String.eqb_neq in H. exact H.
Qed.

Lemma K1_fromb_sound evs : forall ob, K1_fromb ob evs = true -> K1_from ob evs.
Proof.
  induction evs as [|ev r IH]; intros ob H; cbn in *; [exact I|].
  apply andb_true_iff in H. destruct H as [H1 H2]. split; [apply sigs_distinctb_sound; exact H1|apply IH; exact H2].
Qed.

Lemma K1_histb_sound evs : K1_histb evs = true -> K1_hist evs.
Proof. apply K1_fromb_sound. Qed.

Lemma f21_freeb_sound ob : f21_freeb ob = true -> f21_free ob.
Proof.
  unfold f21_freeb, f21_free. intros H kp po l r t ks so Lp Lr Hr Ht Hmin Hmax Hs Etag.
  rewrite forallb_forall in H. specialize (H (kp, po) (lookup_In _ _ _ Lp)). cbn [snd] in H. rewrite Lr in H.
  rewrite forallb_forall in H. specialize (H r Hr). rewrite Ht, Hmin, Hmax in H. cbn in H.
  rewrite forallb_forall in H. specialize (H (ks, so) Hs). cbn [snd] in H.
  rewrite Etag, String.eqb_refl in H. cbn in H. destruct (tf_opt (so_rev so)); [discriminate|reflexivity].
Qed.

End V.

(* with fixes/F21.diff applied (variant fx = true) the full statement holds for every history *)
Theorem flags_are_spec_with_fix en evs : K1_hist evs ->
  (forall kd key, get_app_resource (waf (run true en evs)) kd key = spec_answer acceptable (final_objects evs) kd key) /\
  (forall ns nm, get_valid_dos_ex (dos (run true en evs)) ns nm = spec_dos_answer en (final_objects evs) ns nm).
Proof. intros HK. apply (@flags_are_spec true en evs HK). left. reflexivity. Qed.
