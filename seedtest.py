#!/usr/bin/env python3
"""Developer tool: confirm a seeded change (patch + demonstration) and run the registered check against it.

  ./seedtest.py <PID> <dir with patch.diff demo_test.go notes.md> [more dirs...]

For each directory: in a scratch worktree of /repo (never /repo itself)
  1. the demonstration passes on HEAD,
  2. with the patch: `go build ./...` and the existing tests of the touched packages pass,
  3. with the patch the demonstration fails,
  4. `VERIF_REPO=<worktree> ./check <PID>` is run and its verdict recorded.
The confirmed change is stored under /verif/seeded/<PID>-<k>/ (patch.diff, demo, notes.md, meta.json).
"""
import json, os, re, shutil, subprocess, sys, time

VERIF = os.path.dirname(os.path.abspath(__file__))
WT = os.environ.get("SEED_WT", "/tmp/seedrun")
ENV = dict(os.environ, GOFLAGS="-mod=mod", GOPROXY="off")


def sh(cmd, cwd=None, env=None, timeout=3000):
    p = subprocess.run(cmd, shell=True, cwd=cwd, env=env or ENV, stdout=subprocess.PIPE, stderr=subprocess.STDOUT, text=True, timeout=timeout)
    return p.returncode, p.stdout


def fresh_worktree():
    if not os.path.isdir(WT):
        sh("git -C /repo worktree add --detach %s HEAD" % WT)
    sh("git reset -q --hard && git clean -fdq && git checkout -q --detach $(git -C /repo rev-parse HEAD) && git reset -q --hard && git clean -fdq", cwd=WT)


def demo_dest(d):
    notes = open(os.path.join(d, "notes.md")).read() if os.path.exists(os.path.join(d, "notes.md")) else ""
    demo = sorted([f for f in os.listdir(d) if f.endswith(".go")], key=lambda f: (f != "demo_test.go", f))
    m = re.search(r'cp \S*demo\S*\.go\s+/tmp/seed[23456]?-[a-z0-9]+/(\S+?\.go)', notes)
    if m:
        return demo, m.group(1)
    m = re.search(r'cp \S*demo\S*\.go\s+((?:internal|pkg|cmd)/\S+?\.go)', notes)
    if m:
        return demo, m.group(1)
    # fall back: package clause of the demo
    src = open(os.path.join(d, demo[0])).read()
    pk = re.search(r'^package (\w+)', src, re.M).group(1)
    rc, out = sh("grep -rl --include=*.go '^package %s$' internal pkg cmd | head -1" % pk, cwd=WT)
    return demo, os.path.join(os.path.dirname(out.strip()), "zz_demo_test.go")


def main():
    pid = sys.argv[1].upper()
    for d in sys.argv[2:]:
        d = d.rstrip("/")
        meta = {"property": pid, "source_dir": d, "ran": []}
        fresh_worktree()
        demo, dest = demo_dest(d)
        pkg = "./" + os.path.dirname(dest)
        # packages touched by the patch (templates and other embedded files count for the package of their directory)
        touched = sorted({"./" + os.path.dirname(l[6:].strip()) for l in open(os.path.join(d, "patch.diff")) if l.startswith("+++ b/")})
        touched = [t for t in touched if any(f.endswith(".go") for f in os.listdir(os.path.join(WT, t)))] or ["./internal/configs/..."]
        # 1. demo on HEAD
        os.makedirs(os.path.dirname(os.path.join(WT, dest)), exist_ok=True)
        shutil.copy(os.path.join(d, demo[0]), os.path.join(WT, dest))
        rc, out = sh("go test %s%s -run TestDemo -count=1" % ("-race " if os.environ.get("SEED_RACE") else "", pkg), cwd=WT)
        meta["demo_without_change"] = "pass" if rc == 0 else "FAIL"
        meta["ran"].append("go test %s -run TestDemo -count=1  (HEAD) -> rc %d" % (pkg, rc))
        os.remove(os.path.join(WT, dest))
        # 2. patch, build, existing tests
        rc, out = sh("git apply %s" % os.path.join(d, "patch.diff"), cwd=WT)
        meta["patch_applies"] = rc == 0
        rc, out = sh("go build ./... && go vet %s && go test -count=1 %s" % (" ".join(touched), " ".join(touched)), cwd=WT)
        meta["build_and_existing_tests_with_change"] = "pass" if rc == 0 else "FAIL: " + out[-400:]
        meta["ran"].append("go build ./... && go vet/test %s (patched) -> rc %d" % (" ".join(touched), rc))
        # 3. demo with patch
        os.makedirs(os.path.dirname(os.path.join(WT, dest)), exist_ok=True)
        shutil.copy(os.path.join(d, demo[0]), os.path.join(WT, dest))
        rc, out = sh("go test %s%s -run TestDemo -count=1" % ("-race " if os.environ.get("SEED_RACE") else "", pkg), cwd=WT)
        meta["demo_with_change"] = "fail" if rc != 0 else "PASSES (not a demonstration)"
        meta["demo_failure_excerpt"] = out[-600:] if rc != 0 else ""
        os.remove(os.path.join(WT, dest))
        # 4. the registered check
        t0 = time.time()
        rc, out = sh("./check %s" % pid, cwd=VERIF, env=dict(os.environ, VERIF_REPO=WT))
        viol = [l for l in out.splitlines() if l.startswith("VIOLATION")]
        descr = [l.strip() for l in out.splitlines() if l.strip().startswith("violation:")]
        meta["check"] = {"cmd": "VERIF_REPO=%s ./check %s" % (WT, pid), "rc": rc, "wall_s": round(time.time() - t0, 1),
                         "violation_lines": viol, "what": [x[:400] for x in descr[:4]],
                         "detected": bool(viol), "with_failing_input": any("no-failing-input-found" not in v for v in viol)}
        confirmed = meta["demo_without_change"] == "pass" and meta["demo_with_change"] == "fail" and meta["build_and_existing_tests_with_change"] == "pass"
        meta["confirmed"] = confirmed
        k = os.path.basename(d)
        dst = os.path.join(VERIF, "seeded", "%s-%s" % (pid, k))
        if confirmed:
            os.makedirs(dst, exist_ok=True)
            for f in os.listdir(d):
                shutil.copy(os.path.join(d, f), os.path.join(dst, f))
            notes = open(os.path.join(d, "notes.md")).read() if os.path.exists(os.path.join(d, "notes.md")) else ""
            m = re.search(r'## What it needs to manifest\s*(.*?)(\n## |\Z)', notes, re.S)
            meta["needs_in_order_to_manifest"] = (m.group(1).strip()[:900] if m else "see notes.md")
            with open(os.path.join(dst, "meta.json"), "w") as f:
                json.dump(meta, f, indent=1)
        print("%s %s: confirmed=%s detected=%s with_input=%s rc=%d  %s" % (
            pid, d, confirmed, meta["check"]["detected"], meta["check"]["with_failing_input"], rc, (descr[0][:160] if descr else "")))
    fresh_worktree()


if __name__ == "__main__":
    try:
        main()
    finally:
        # a run against a changed tree regenerates coq/gen/*.v from that tree: put the committed files back
        sh("git checkout -- coq/gen", cwd=VERIF)
