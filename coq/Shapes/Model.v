(* C17 -- nil-shape models.  Executable Gallina, NO proofs.

   Every Go dereference of an optional pointer ([x.F.G] with [F] a pointer) and every index
   into a possibly empty slice ([xs[0]]) is an explicit [deref] / [index0] that yields [Pan]
   (the process panics) on nil / empty -- in the same order as the Go code, with the guards
   (early returns, nil checks, len checks) of the code modelled as they are written.

   Values (strings, numbers) are not modelled beyond what switches a code path: whether a
   path string is empty, which of the two hosts a rule names, whether an annotation is there. *)
From Coq Require Import List Bool Arith.
Import ListNotations.

(* ------------------------------------------------------------------ the panic monad *)

Inductive R (A : Type) : Type :=
| Val (a : A)
| Pan.
Arguments Val {A} a.
Arguments Pan {A}.

Definition bind {A B} (m : R A) (f : A -> R B) : R B :=
  match m with Val a => f a | Pan => Pan end.

Notation "x <- m ;; k" := (bind m (fun x => k)) (at level 61, m at next level, right associativity).
Notation "m ;;; k" := (bind m (fun _ => k)) (at level 61, right associativity).

(* Go: [*p] / [p.f] for a pointer p *)
Definition deref {A} (o : option A) : R A :=
  match o with Some a => Val a | None => Pan end.

(* Go: [xs[0]] *)
Definition index0 {A} (l : list A) : R A :=
  match l with a :: _ => Val a | [] => Pan end.

(* a Go [for _, x := range xs { body }] whose body may panic and accumulates a flag *)
Fixpoint for_each {A} (f : A -> R bool) (l : list A) : R bool :=
  match l with
  | [] => Val false
  | a :: t => e <- f a ;; e' <- for_each f t ;; Val (e || e')
  end.

Inductive outcome := OOk | ORejected | OPanic.

Definition is_panic (o : outcome) : bool := match o with OPanic => true | _ => false end.

Definition outcome_eqb (a b : outcome) : bool :=
  match a, b with OOk, OOk | ORejected, ORejected | OPanic, OPanic => true | _, _ => false end.

(* a validator returns "has errors"; [true] = rejected with a report *)
Definition verdict (r : R bool) : outcome :=
  match r with Val false => OOk | Val true => ORejected | Pan => OPanic end.

(* ------------------------------------------------------------------ feature flags *)

Record flags := {
  f_plus : bool;          (* -nginx-plus *)
  f_approtect : bool;     (* -enable-app-protect *)
  f_dos : bool;           (* -enable-app-protect-dos *)
  f_internal : bool;      (* -enable-internal-routes *)
  f_snippets : bool;      (* -enable-snippets *)
  f_certmgr : bool;       (* -enable-cert-manager *)
  f_tlspass : bool        (* -enable-tls-passthrough *)
}.

(* the two flags the Ingress pipeline reads (validateIngress: isPlus; Configuration:
   isCertManagerEnabled); the other five do not occur in the modelled functions *)
Record iflags := { if_plus : bool; if_certmgr : bool }.
Definition iflags_of (fl : flags) : iflags := {| if_plus := f_plus fl; if_certmgr := f_certmgr fl |}.

(* ================================================================== Ingress *)

(* networking.IngressBackend{Service *IngressServiceBackend; Resource *TypedLocalObjectReference} *)
Record backend := { b_svc : option unit; b_res : option unit }.

Inductive ptype := PTImpl | PTPrefix | PTExact.

(* networking.HTTPIngressPath{Path string; PathType *PathType; Backend IngressBackend};
   p_id distinguishes the path strings of one rule *)
Record path := { p_id : nat; p_empty : bool; p_type : option ptype; p_backend : backend }.

(* networking.IngressRule{Host; HTTP *HTTPIngressRuleValue{Paths []HTTPIngressPath}} *)
Record rule := { r_host : nat; r_http : option (list path) }.

(* value of the annotation nginx.org/mergeable-ingress-type *)
Inductive merge := MNone | MMaster | MMinion | MGarbage.

(* other annotations that switch code paths:
   AClusterIP = nginx.org/use-cluster-ip: true
   AHealth    = nginx.com/health-checks: true (Plus only) + use-cluster-ip *)
Inductive annots := ANone | AClusterIP | AHealth.

Record ingress := {
  i_key : nat;                       (* namespace/name, ordered *)
  i_created : nat;                   (* creationTimestamp; smaller = older *)
  i_default : option backend;        (* spec.defaultBackend *)
  i_tls : nat;                       (* len(spec.tls) *)
  i_rules : list rule;
  i_merge : merge;
  i_chal : bool;                     (* label acme.cert-manager.io/http01-solver=true *)
  i_ann : annots
}.

Definition is_minion (i : ingress) : bool := match i_merge i with MMinion => true | _ => false end.
Definition is_master (i : ingress) : bool := match i_merge i with MMaster => true | _ => false end.

(* --- internal/k8s/validation.go *)

(* validateBackend: resource backends are not supported *)
Definition validate_backend (b : backend) : bool :=
  match b_res b with Some _ => true | None => false end.

(* validatePath: [path == "" && pathType != nil && *pathType == ImplementationSpecific] -> ok;
   [path == ""] -> Required; the generated non-empty paths are valid strings *)
Definition validate_path (p : path) : bool :=
  if p_empty p then
    match p_type p with Some PTImpl => false | _ => true end
  else false.

Definition validate_rule_paths (r : rule) : bool :=
  match r_http r with
  | None => false                                     (* if r.HTTP == nil { continue } *)
  | Some ps => existsb (fun p => validate_path p || validate_backend (p_backend p)) ps
  end.

Fixpoint dup_hosts (seen : list nat) (rs : list rule) : bool :=
  match rs with
  | [] => false
  | r :: t => existsb (Nat.eqb (r_host r)) seen || dup_hosts (r_host r :: seen) t
  end.

(* validateIngressSpec *)
Definition validate_spec (i : ingress) : bool :=
  let e0 := match i_default i with Some b => validate_backend b | None => false end in
  match i_rules i with
  | [] => true                                        (* Required(rules) *)
  | rs => e0 || dup_hosts [] rs || existsb validate_rule_paths rs
  end.

(* validateMasterSpec: [len(spec.Rules) != 1] returns before [spec.Rules[0]] *)
Definition validate_master (i : ingress) : R bool :=
  if negb (Nat.eqb (List.length (i_rules i)) 1) then Val true
  else
    r0 <- index0 (i_rules i) ;;
    match r_http r0 with
    | Some (_ :: _) => Val true
    | _ => Val false
    end.

(* validateMinionSpec *)
Definition validate_minion (i : ingress) : R bool :=
  let e_tls := Nat.ltb 0 (i_tls i) in
  if negb (Nat.eqb (List.length (i_rules i)) 1) then Val true
  else
    r0 <- index0 (i_rules i) ;;
    match r_http r0 with
    | None | Some [] => Val true
    | Some _ => Val e_tls
    end.

(* validateChallengeIngress as REPAIRED by fixes/F05.diff: return after the Required error *)
Definition validate_challenge (i : ingress) : R bool :=
  if negb (Nat.eqb (List.length (i_rules i)) 1) then Val true
  else
    r <- index0 (i_rules i) ;;
    match r_http r with
    | None => Val true
    | Some ps =>
        if negb (Nat.eqb (List.length ps) 1) then Val true
        else
          p <- index0 ps ;;
          match b_svc (p_backend p) with
          | None => Val true                          (* Required(...Backend.Service); return *)
          | Some _ =>
              _ <- deref (b_svc (p_backend p)) ;;     (* p.Backend.Service.Port.Name *)
              Val false
          end
    end.

(* validateChallengeIngress as it is in the unpatched tree (finding F05): the Required error
   is appended and execution continues into [p.Backend.Service.Port.Name] *)
Definition validate_challenge_old (i : ingress) : R bool :=
  if negb (Nat.eqb (List.length (i_rules i)) 1) then Val true
  else
    r <- index0 (i_rules i) ;;
    match r_http r with
    | None => Val true
    | Some ps =>
        if negb (Nat.eqb (List.length ps) 1) then Val true
        else
          p <- index0 ps ;;
          let e := match b_svc (p_backend p) with None => true | Some _ => false end in
          _ <- deref (b_svc (p_backend p)) ;;
          Val e
    end.

(* validateIngressAnnotations for the annotations of the shape space *)
Definition validate_annotations (fl : iflags) (i : ingress) : bool :=
  (match i_merge i with MGarbage => true | _ => false end) ||
  (match i_ann i with AHealth => negb (if_plus fl) | _ => false end).

(* validateIngress; [chal] is the challenge validator in force (repaired or old) *)
Definition validate_ingress_with (chal : ingress -> R bool) (fl : iflags) (i : ingress) : R bool :=
  let e1 := validate_annotations fl i in
  let e2 := validate_spec i in
  e3 <- (if is_master i then validate_master i
         else if is_minion i then validate_minion i else Val false) ;;
  e4 <- (if i_chal i then chal i else Val false) ;;
  Val (e1 || e2 || e3 || e4).

Definition validate_ingress := validate_ingress_with validate_challenge.
Definition validate_ingress_old := validate_ingress_with validate_challenge_old.

(* --- internal/k8s/configuration.go *)

(* the arbitrated state as far as Ingress processing looks at it *)
Record vserver := { v_host : nat; v_created : nat }.
Record state := { s_ings : list ingress;        (* c.ingresses, sorted by key *)
                  s_vss : list vserver }.       (* c.virtualServers (hosts only) *)

Definition empty_state := {| s_ings := []; s_vss := [] |}.

Fixpoint remove_key (k : nat) (l : list ingress) : list ingress :=
  match l with
  | [] => []
  | i :: t => if Nat.eqb (i_key i) k then remove_key k t else i :: remove_key k t
  end.

Fixpoint insert_key (x : ingress) (l : list ingress) : list ingress :=
  match l with
  | [] => [x]
  | i :: t => if Nat.ltb (i_key x) (i_key i) then x :: i :: t
              else if Nat.eqb (i_key x) (i_key i) then x :: t
              else i :: insert_key x t
  end.

(* isChallengeIngressOwnerVs *)
Definition vs_owns (st : state) (h : nat) : bool :=
  existsb (fun v => Nat.eqb (v_host v) h) (s_vss st).

(* convertIngressToVSR: [rule := ing.Spec.Rules[0]]; not the owner -> nil; then
   rule.HTTP.Paths[0].Backend.Service.Name.  Returns whether a VSR was produced. *)
Definition convert_to_vsr (st : state) (i : ingress) : R bool :=
  r <- index0 (i_rules i) ;;
  if negb (vs_owns st (r_host r)) then Val false
  else
    ps <- deref (r_http r) ;;
    p <- index0 ps ;;
    _ <- deref (b_svc (p_backend p)) ;;
    Val true.

(* buildMinionConfigs(masterHost): for every stored minion:
   [ingress.Spec.Rules[0].Host], then [range ingress.Spec.Rules[0].HTTP.Paths].
   Returns the minions attached to the master. *)
Fixpoint build_minions (master_host : nat) (ings : list ingress) : R (list ingress) :=
  match ings with
  | [] => Val []
  | m :: t =>
      if negb (is_minion m) then build_minions master_host t
      else
        r0 <- index0 (i_rules m) ;;
        if negb (Nat.eqb master_host (r_host r0)) then build_minions master_host t
        else
          _ <- deref (r_http r0) ;;
          rest <- build_minions master_host t ;;
          Val (m :: rest)
  end.

(* who holds a host: an Ingress (by key) or a VirtualServer; with its creation time *)
Inductive holder := HIng (key created : nat) | HVs (created : nat).
Definition holder_created (h : holder) : nat :=
  match h with HIng _ c => c | HVs c => c end.

Fixpoint lookup_host (h : nat) (m : list (nat * holder)) : option holder :=
  match m with
  | [] => None
  | (h', x) :: t => if Nat.eqb h h' then Some x else lookup_host h t
  end.

Fixpoint set_host (h : nat) (x : holder) (m : list (nat * holder)) : list (nat * holder) :=
  match m with
  | [] => [(h, x)]
  | (h', y) :: t => if Nat.eqb h h' then (h, x) :: t else (h', y) :: set_host h x t
  end.

(* claim a host: the older resource wins (chooseObjectMetaWinner; creation times are distinct) *)
Definition claim (h : nat) (x : holder) (m : list (nat * holder)) : list (nat * holder) :=
  match lookup_host h m with
  | None => set_host h x m
  | Some y => if Nat.ltb (holder_created y) (holder_created x) then m else set_host h x m
  end.

(* a resource built by buildHostsAndResources: the Ingress and, for a master, its minions *)
Record ing_resource := { ir_ing : ingress; ir_minions : list ingress }.

(* buildHostsAndResources, steps 1 and 2 *)
Fixpoint build_hosts_ings (fl : iflags) (st : state) (ings : list ingress)
         (hosts : list (nat * holder)) (res : list ing_resource)
  : R (list (nat * holder) * list ing_resource) :=
  match ings with
  | [] => Val (hosts, res)
  | i :: t =>
      if is_minion i then build_hosts_ings fl st t hosts res
      else
        converted <- (if if_certmgr fl && i_chal i then convert_to_vsr st i else Val false) ;;
        if (converted : bool) then build_hosts_ings fl st t hosts res
        else
          minions <- (if is_master i then
                        r0 <- index0 (i_rules i) ;; build_minions (r_host r0) (s_ings st)
                      else Val []) ;;
          let hosts' := fold_left (fun m r => claim (r_host r) (HIng (i_key i) (i_created i)) m)
                                  (i_rules i) hosts in
          build_hosts_ings fl st t hosts' (res ++ [{| ir_ing := i; ir_minions := minions |}])
  end.

Definition build_hosts (fl : iflags) (st : state) : R (list (nat * holder) * list ing_resource) :=
  hr <- build_hosts_ings fl st (s_ings st) [] [] ;;
  let '(hosts, res) := hr in
  Val (fold_left (fun m v => claim (v_host v) (HVs (v_created v)) m) (s_vss st) hosts, res).

(* addProblemsForOrphanMinions: [c.hosts[ing.Spec.Rules[0].Host]] for every stored minion *)
Fixpoint orphan_minions (ings : list ingress) : R unit :=
  match ings with
  | [] => Val tt
  | m :: t => if is_minion m then (_ <- index0 (i_rules m) ;; orphan_minions t)
              else orphan_minions t
  end.

(* rebuildHosts *)
Definition rebuild_hosts (fl : iflags) (st : state) : R (list (nat * holder) * list ing_resource) :=
  hr <- build_hosts fl st ;;
  _ <- orphan_minions (s_ings st) ;;
  Val hr.

(* Configuration.AddOrUpdateIngress: validate, then store or drop, then rebuild.
   Result: new state and "rejected". *)
Definition add_or_update_with (chal : ingress -> R bool) (fl : iflags) (st : state) (i : ingress)
  : R (state * bool) :=
  rejected <- validate_ingress_with chal fl i ;;
  let ings := if (rejected : bool) then remove_key (i_key i) (s_ings st)
              else insert_key i (s_ings st) in
  let st' := {| s_ings := ings; s_vss := s_vss st |} in
  _ <- rebuild_hosts fl st' ;;
  Val (st', rejected).

Definition add_or_update := add_or_update_with validate_challenge.

(* Configuration.DeleteIngress *)
Definition delete_ingress (fl : iflags) (st : state) (k : nat) : R state :=
  if existsb (fun i => Nat.eqb (i_key i) k) (s_ings st) then
    let st' := {| s_ings := remove_key k (s_ings st); s_vss := s_vss st |} in
    _ <- rebuild_hosts fl st' ;; Val st'
  else Val st.

(* --- internal/k8s/controller.go createIngressEx + internal/configs/ingress.go generateNginxCfg *)

Definition holds (hosts : list (nat * holder)) (key h : nat) : bool :=
  match lookup_host h hosts with Some (HIng k _) => Nat.eqb k key | _ => false end.

(* one backend: getServiceForIngressBackend starts with [backend.Service.Name] *)
Definition use_backend (b : backend) : R unit := _ <- deref (b_svc b) ;; Val tt.

Fixpoint use_paths (ps : list path) : R unit :=
  match ps with
  | [] => Val tt
  | p :: t => _ <- use_backend (p_backend p) ;; use_paths t
  end.

(* createIngressEx / generateNginxCfg walk the object in the same way: the default backend
   unconditionally, then the paths of every rule whose host this resource holds
   (every path of a minion of this shape space is valid: its path strings are its own) *)
Fixpoint use_rules (valid_host : nat -> bool) (rs : list rule) : R unit :=
  match rs with
  | [] => Val tt
  | r :: t =>
      _ <- (if valid_host (r_host r) then
              match r_http r with None => Val tt | Some ps => use_paths ps end
            else Val tt) ;;
      use_rules valid_host t
  end.

Definition create_ingress_ex (valid_host : nat -> bool) (i : ingress) : R unit :=
  _ <- (match i_default i with Some b => use_backend b | None => Val tt end) ;;
  use_rules valid_host (i_rules i).

(* generateNginxCfgForMergeableIngresses: [masterNginxCfg.Servers[0]]; one server per rule
   with a valid host *)
Definition master_server (valid_host : nat -> bool) (i : ingress) : R unit :=
  _ <- index0 (filter (fun r => valid_host (r_host r)) (i_rules i)) ;; Val tt.

Fixpoint for_all_unit {A} (f : A -> R unit) (l : list A) : R unit :=
  match l with [] => Val tt | a :: t => _ <- f a ;; for_all_unit f t end.

(* createExtendedResources(GetResources()) followed by Configurator.AddOrUpdate(Mergeable)Ingress
   for every Ingress resource that holds at least one host *)
Definition extend_resource (hosts : list (nat * holder)) (r : ing_resource) : R unit :=
  let i := ir_ing r in
  let vh := holds hosts (i_key i) in
  if negb (existsb (fun ru => vh (r_host ru)) (i_rules i)) then Val tt   (* not in c.hosts *)
  else if is_master i then
    _ <- create_ingress_ex vh i ;;
    _ <- for_all_unit (fun m => create_ingress_ex vh m) (ir_minions r) ;;
    (* generation: master, Servers[0], then each minion without its default backend *)
    _ <- create_ingress_ex vh i ;;
    _ <- master_server vh i ;;
    for_all_unit (fun m => use_rules vh (i_rules m)) (ir_minions r)
  else
    _ <- create_ingress_ex vh i ;;
    create_ingress_ex vh i.

Definition extend_all (fl : iflags) (st : state) : R unit :=
  hr <- rebuild_hosts fl st ;;
  let '(hosts, res) := hr in
  for_all_unit (extend_resource hosts) res.

(* ------------------------------------------------------------------ the Ingress pipeline *)

(* what the harness observes for one Ingress against one prior state, stage by stage *)
Record ing_obs := {
  o_validate : outcome;      (* validateIngress *)
  o_config : outcome;        (* Configuration.AddOrUpdateIngress *)
  o_extend : outcome;        (* createExtendedResources + Configurator, if the store did not panic *)
  o_delete : outcome         (* Configuration.DeleteIngress afterwards *)
}.

Definition unit_outcome {A} (r : R A) : outcome := match r with Val _ => OOk | Pan => OPanic end.

Definition ing_observe_with (chal : ingress -> R bool) (fl : iflags) (st : state) (i : ingress) : ing_obs :=
  let v := verdict (validate_ingress_with chal fl i) in
  match add_or_update_with chal fl st i with
  | Pan => {| o_validate := v; o_config := OPanic; o_extend := OOk; o_delete := OOk |}
  | Val (st', rej) =>
      {| o_validate := v;
         o_config := if rej then ORejected else OOk;
         o_extend := unit_outcome (extend_all fl st');
         o_delete := unit_outcome (delete_ingress fl st' (i_key i)) |}
  end.

Definition ing_observe := ing_observe_with validate_challenge.

Definition worst (a b : outcome) : outcome :=
  match a, b with
  | OPanic, _ | _, OPanic => OPanic
  | ORejected, _ | _, ORejected => ORejected
  | _, _ => OOk
  end.

Definition ing_pipeline_with chal (fl : iflags) (st : state) (i : ingress) : outcome :=
  let o := ing_observe_with chal fl st i in
  worst (o_validate o) (worst (o_config o) (worst (o_extend o) (o_delete o))).

Definition ing_pipeline := ing_pipeline_with validate_challenge.

(* API-server admissibility of an Ingress (k8s.io/kubernetes pkg/apis/networking/validation,
   transcribed): every backend has exactly one of service/resource; pathType is required;
   an http block has at least one path; there is a default backend or at least one rule. *)
Definition backend_admissible (b : backend) : bool :=
  match b_svc b, b_res b with Some _, None | None, Some _ => true | _, _ => false end.

Definition path_admissible (p : path) : bool :=
  backend_admissible (p_backend p) &&
  match p_type p with
  | None => false
  | Some PTImpl => true
  | Some _ => negb (p_empty p)          (* Exact/Prefix paths must be absolute *)
  end.

Definition rule_admissible (r : rule) : bool :=
  match r_http r with
  | None => true
  | Some [] => false
  | Some ps => forallb path_admissible ps
  end.

Definition ing_admissible (i : ingress) : bool :=
  (match i_default i with Some b => backend_admissible b | None => true end) &&
  forallb rule_admissible (i_rules i) &&
  (match i_default i, i_rules i with None, [] => false | _, _ => true end).

(* ------------------------------------------------------------------ the finite Ingress shape space *)

Inductive bk := KSvc | KRes | KNeither.
Definition backend_of (k : bk) : backend :=
  match k with
  | KSvc => {| b_svc := Some tt; b_res := None |}
  | KRes => {| b_svc := None; b_res := Some tt |}
  | KNeither => {| b_svc := None; b_res := None |}
  end.

(* pathType/path combinations: no pathType + "/p"; ImplementationSpecific + "";  Prefix + "/p" *)
Inductive pspec := PNil | PImplEmpty | PPrefix.

Definition path_of (id : nat) (s : pspec) (k : bk) : path :=
  match s with
  | PNil => {| p_id := id; p_empty := false; p_type := None; p_backend := backend_of k |}
  | PImplEmpty => {| p_id := id; p_empty := true; p_type := Some PTImpl; p_backend := backend_of k |}
  | PPrefix => {| p_id := id; p_empty := false; p_type := Some PTPrefix; p_backend := backend_of k |}
  end.

(* paths of the first rule: none, one (any pathType shape, any backend), or two (the second
   is a Prefix path with any backend) *)
Inductive paths_sh := Ps0 | Ps1 (s : pspec) (k : bk) | Ps2 (s : pspec) (k : bk) (k2 : bk).
Definition paths_of (p : paths_sh) : list path :=
  match p with
  | Ps0 => []
  | Ps1 s k => [path_of 1 s k]
  | Ps2 s k k2 => [path_of 1 s k; path_of 2 PPrefix k2]
  end.

Inductive http_sh := HNil | HPaths (p : paths_sh).
(* the second rule: no http block, or one Prefix path with any backend *)
Inductive rule2_sh := R2Nil | R2Path (k : bk).
Inductive rules_sh := Rs0 | Rs1 (h : http_sh) | Rs2 (h : http_sh) (r2 : rule2_sh).

Definition rules_of (r : rules_sh) : list rule :=
  let r1 h := {| r_host := 1; r_http := match h with HNil => None | HPaths p => Some (paths_of p) end |} in
  let r2 x := {| r_host := 2; r_http := match x with R2Nil => None | R2Path k => Some [path_of 1 PPrefix k] end |} in
  match r with
  | Rs0 => []
  | Rs1 h => [r1 h]
  | Rs2 h x => [r1 h; r2 x]
  end.

Record ing_shape := {
  sh_default : option bk;
  sh_tls : bool;
  sh_rules : rules_sh;
  sh_merge : merge;
  sh_chal : bool;
  sh_ann : annots
}.

(* the object under test is the youngest and sorts last: key 9, created 9 *)
Definition ingress_of (s : ing_shape) : ingress :=
  {| i_key := 9; i_created := 9;
     i_default := option_map backend_of (sh_default s);
     i_tls := if sh_tls s then 1 else 0;
     i_rules := rules_of (sh_rules s);
     i_merge := sh_merge s; i_chal := sh_chal s; i_ann := sh_ann s |}.

(* prior states ("arbitrating it against any existing state"): the objects of the populated
   states are older than the object under test and are stored through [add_or_update] *)
Inductive ctx := CEmpty | CVs | CMasterMinion | CMinion.

Definition svc_path := path_of 1 PPrefix KSvc.
Definition ctx_master : ingress :=
  {| i_key := 1; i_created := 1; i_default := None; i_tls := 0;
     i_rules := [{| r_host := 1; r_http := None |}];
     i_merge := MMaster; i_chal := false; i_ann := ANone |}.
Definition ctx_minion : ingress :=
  {| i_key := 2; i_created := 2; i_default := None; i_tls := 0;
     i_rules := [{| r_host := 1; r_http := Some [{| p_id := 7; p_empty := false; p_type := Some PTPrefix;
                                                   p_backend := backend_of KSvc |}] |}];
     i_merge := MMinion; i_chal := false; i_ann := ANone |}.

Definition add_all (fl : iflags) (l : list ingress) (st : state) : R state :=
  fold_left (fun acc i => st <- acc ;; sr <- add_or_update fl st i ;; Val (fst sr)) l (Val st).

Definition ctx_state (fl : iflags) (c : ctx) : R state :=
  match c with
  | CEmpty => Val empty_state
  | CVs => Val {| s_ings := []; s_vss := [{| v_host := 1; v_created := 0 |}] |}
  | CMasterMinion => add_all fl [ctx_master; ctx_minion] empty_state
  | CMinion => add_all fl [ctx_minion] empty_state
  end.

Record ing_scenario := { sc_flags : iflags; sc_ctx : ctx; sc_shape : ing_shape }.

Definition scenario_observe_with chal (s : ing_scenario) : option ing_obs :=
  match ctx_state (sc_flags s) (sc_ctx s) with
  | Pan => None
  | Val st => Some (ing_observe_with chal (sc_flags s) st (ingress_of (sc_shape s)))
  end.

Definition scenario_pipeline_with chal (s : ing_scenario) : outcome :=
  match ctx_state (sc_flags s) (sc_ctx s) with
  | Pan => OPanic
  | Val st => ing_pipeline_with chal (sc_flags s) st (ingress_of (sc_shape s))
  end.

Definition scenario_pipeline := scenario_pipeline_with validate_challenge.
Definition scenario_pipeline_old := scenario_pipeline_with validate_challenge_old.

Definition shape_admissible (s : ing_shape) : bool := ing_admissible (ingress_of s).

(* --- enumeration of the shape space *)

Definition all_bool := [false; true].
Definition all_bk := [KSvc; KRes; KNeither].
Definition all_pspec := [PNil; PImplEmpty; PPrefix].
Definition all_merge := [MNone; MMaster; MMinion; MGarbage].
Definition all_annots := [ANone; AClusterIP; AHealth].
Definition all_ctx := [CEmpty; CVs; CMasterMinion; CMinion].

Definition all_paths_sh : list paths_sh :=
  Ps0 :: flat_map (fun s => map (Ps1 s) all_bk) all_pspec
      ++ flat_map (fun s => flat_map (fun k => map (Ps2 s k) all_bk) all_bk) all_pspec.
Definition all_http_sh : list http_sh := HNil :: map HPaths all_paths_sh.
Definition all_rule2_sh : list rule2_sh := R2Nil :: map R2Path all_bk.
Definition all_rules_sh : list rules_sh :=
  Rs0 :: map Rs1 all_http_sh ++ flat_map (fun h => map (Rs2 h) all_rule2_sh) all_http_sh.
Definition all_default : list (option bk) := None :: map Some all_bk.

Definition all_ing_shapes : list ing_shape :=
  flat_map (fun d => flat_map (fun t => flat_map (fun r => flat_map (fun m => flat_map (fun c =>
    map (fun a => {| sh_default := d; sh_tls := t; sh_rules := r; sh_merge := m; sh_chal := c; sh_ann := a |})
        all_annots) all_bool) all_merge) all_rules_sh) all_bool) all_default.

Definition all_iflags : list iflags :=
  [{| if_plus := false; if_certmgr := false |}; {| if_plus := false; if_certmgr := true |};
   {| if_plus := true; if_certmgr := false |}; {| if_plus := true; if_certmgr := true |}].

Definition all_ing_scenarios : list ing_scenario :=
  flat_map (fun fl => flat_map (fun c => map (fun s => {| sc_flags := fl; sc_ctx := c; sc_shape := s |})
                                             all_ing_shapes) all_ctx) all_iflags.

(* ================================================================== VirtualServer / VirtualServerRoute *)

(* conf_v1.ActionProxy{RequestHeaders *ProxyRequestHeaders{Pass *bool}; ResponseHeaders *ProxyResponseHeaders} *)
Record proxy := { px_req : option (option unit); px_resp : option unit }.
(* conf_v1.Action{Pass string; Redirect *ActionRedirect; Return *ActionReturn; Proxy *ActionProxy} *)
Record action := { a_pass : bool; a_redirect : option unit; a_return : option unit; a_proxy : option proxy }.
(* conf_v1.Split{Weight; Action *Action} *)
Record split := { sp_action : option action }.
(* conf_v1.Match{Conditions []Condition; Action *Action; Splits []Split} *)
Record mtch := { m_conds : nat; m_action : option action; m_splits : list split }.
(* conf_v1.ErrorPage{Codes; Return *ErrorPageReturn; Redirect *ErrorPageRedirect} *)
Record errpage := { ep_return : option unit; ep_redirect : option unit }.
(* the kind of a route path: prefix ("/r"), exact ("=/r") or regular expression ("~ ^/r") *)
Inductive pkind := PkPrefix | PkExact | PkRegex.
(* conf_v1.Route{Path; Route string; Action *Action; Splits; Matches; ErrorPages}.
   rt_kind: the kind of Path; rt_match (subroutes of a VirtualServerRoute): Path agrees with the
   path of the VirtualServer route that references the VirtualServerRoute (equal to it for
   exact/regex, has it as a prefix otherwise) *)
Record route := { rt_action : option action; rt_splits : list split; rt_matches : list mtch;
                  rt_errpages : list errpage; rt_route : bool; rt_kind : pkind; rt_match : bool }.

Definition b2n (b : bool) : nat := if b then 1 else 0.
Definition is_some {A} (o : option A) : bool := match o with Some _ => true | None => false end.

(* --- pkg/apis/configuration/validation/virtualserver.go *)

(* countActions / validateAction: exactly one of pass, redirect, return, proxy; the generated
   values (referenced upstream, URL, body) are valid.  validateActionProxy looks at
   p.RequestHeaders / p.ResponseHeaders only behind their nil checks. *)
Definition count_actions (a : action) : nat :=
  b2n (a_pass a) + b2n (is_some (a_redirect a)) + b2n (is_some (a_return a)) + b2n (is_some (a_proxy a)).
Definition validate_action (a : action) : bool := negb (Nat.eqb (count_actions a) 1).

(* validateSplits: at least 2; [s.Action == nil] -> Required, else validateAction; the
   generated weights add up to 100 *)
Definition validate_splits (l : list split) : bool :=
  if Nat.ltb (List.length l) 2 then true
  else existsb (fun s => match sp_action s with None => true | Some a => validate_action a end) l.

(* validateMatch *)
Definition validate_match (m : mtch) : bool :=
  let e1 := Nat.eqb (m_conds m) 0 in
  let e2 := match m_action m with Some a => validate_action a | None => false end in
  let e3 := match m_splits m with [] => false | l => validate_splits l end in
  let fc := b2n (is_some (m_action m)) + b2n (negb (Nat.eqb (List.length (m_splits m)) 0)) in
  e1 || e2 || e3 || negb (Nat.eqb fc 1).

(* validateErrorPage: exactly one of return / redirect (errorPageHasRequiredFields) *)
Definition validate_errpage (e : errpage) : bool :=
  negb (Nat.eqb (b2n (is_some (ep_return e)) + b2n (is_some (ep_redirect e))) 1).

(* validateRoute(route, isRouteFieldForbidden) *)
Definition validate_route (forbid_route : bool) (r : route) : bool :=
  let e1 := match rt_action r with Some a => validate_action a | None => false end in
  let e2 := match rt_splits r with [] => false | l => validate_splits l end in
  let e3 := existsb validate_match (rt_matches r) in
  let e4 := existsb validate_errpage (rt_errpages r) in
  let e5 := rt_route r && forbid_route in
  let fc := b2n (is_some (rt_action r)) + b2n (negb (Nat.eqb (List.length (rt_splits r)) 0)) +
            b2n (rt_route r && negb forbid_route) in
  e1 || e2 || e3 || e4 || e5 || negb (Nat.eqb fc 1).

(* --- internal/configs/virtualserver.go (GenerateVirtualServerConfig) *)

(* upstreamNamer.GetNameForUpstreamFromAction(action) starts with [action.Proxy];
   generateLocation continues with action.Redirect / .Return / .Proxy; the generateProxy*
   helpers test [proxy != nil && proxy.RequestHeaders != nil] before looking inside *)
Definition gen_action (a : option action) : R unit := _ <- deref a ;; Val tt.

(* generateSplits: every split's s.Action *)
Definition gen_splits (l : list split) : R unit := for_all_unit (fun s => gen_action (sp_action s)) l.

(* generateErrorPageLocations / generateErrorPages: [if e.Redirect != nil {...} else { e.Return.Code }] *)
Definition gen_errpages (l : list errpage) : R unit :=
  for_all_unit (fun e => match ep_redirect e with
                         | Some _ => Val tt
                         | None => _ <- deref (ep_return e) ;; Val tt
                         end) l.

(* one iteration of the route loop; [skip_ref]: a VirtualServer route that references a
   VirtualServerRoute is skipped after its error pages were generated *)
Definition gen_route (skip_ref : bool) (r : route) : R unit :=
  _ <- gen_errpages (rt_errpages r) ;;
  if rt_route r && skip_ref then Val tt
  else
    match rt_matches r with
    | _ :: _ =>
        (* generateMatchesConfig *)
        _ <- for_all_unit (fun m => match m_splits m with
                                    | [] => gen_action (m_action m)
                                    | l => gen_splits l
                                    end) (rt_matches r) ;;
        match rt_splits r with
        | [] => gen_action (rt_action r)
        | l => gen_splits l
        end
    | [] =>
        match rt_splits r with
        | _ :: _ => gen_splits (rt_splits r)          (* generateDefaultSplitsConfig *)
        | [] => gen_action (rt_action r)              (* GetNameForUpstreamFromAction(r.Action) *)
        end
    end.

(* conf_v1.TLS{Secret; Redirect *TLSRedirect{Code *int}; CertManager *CertManager} *)
Record vtls := { tl_secret : bool; tl_redirect : option (option unit); tl_cm : option unit }.

(* validateTLS / validateTLSRedirect / validateTLSCmFields *)
Definition validate_vtls (certmgr : bool) (t : option vtls) : bool :=
  match t with
  | None => false
  | Some t =>
      match tl_cm t with
      | None => false
      | Some _ => negb certmgr || negb (tl_secret t)
      end
  end.

(* conf_v1.Upstream: the optional sub-objects *)
Record upstream := {
  u_health : option (option unit);   (* HealthCheck *HealthCheck{TLS *UpstreamTLS} *)
  u_cookie : option unit;            (* SessionCookie *)
  u_queue : option unit;             (* Queue *)
  u_buffers : option unit;           (* ProxyBuffers *)
  u_backup : bool;                   (* Backup != "" *)
  u_backup_port : option unit;       (* BackupPort *uint16 *)
  u_ints : option unit               (* MaxFails, MaxConns, Keepalive, ProxyBuffering pointers *)
}.

(* validateUpstreams for one upstream with valid values: rejectPlusResourcesInOSS and
   validateBackup decide *)
Definition validate_upstream (plus : bool) (u : upstream) : bool :=
  let oss := negb plus && (is_some (u_health u) || is_some (u_cookie u) || is_some (u_queue u)) in
  let bk := negb (Bool.eqb (u_backup u) (is_some (u_backup_port u))) in
  oss || bk.

(* generateBackupEndpointsForUpstream: [upstream.Backup == "" || upstream.BackupPort == nil] returns
   before [*upstream.BackupPort]; generateHealthCheck: [upstream.HealthCheck == nil] returns,
   [HealthCheck.TLS != nil] guards; the rest goes through nil-safe helpers *)
Definition gen_upstream (u : upstream) : R unit :=
  if negb (u_backup u) || negb (is_some (u_backup_port u)) then Val tt
  else _ <- deref (u_backup_port u) ;; Val tt.

(* a VirtualServer as far as the shape space varies it *)
Record vserver_obj := {
  vo_tls : option vtls;
  vo_listener : option unit;          (* spec.listener *)
  vo_upstreams : list upstream;
  vo_routes : list route
}.

Definition validate_vs (plus certmgr : bool) (v : vserver_obj) : bool :=
  validate_vtls certmgr (vo_tls v) ||
  existsb (validate_upstream plus) (vo_upstreams v) ||
  existsb (validate_route false) (vo_routes v).

(* buildListenersForVSConfiguration: [vs.Spec.Listener == nil || c.globalConfiguration == nil]
   returns before [vs.Spec.Listener.HTTP]; addWarningsForVirtualServersWithMissConfiguredListeners
   tests [Spec.Listener != nil] *)
Definition vs_listeners (gc : bool) (v : vserver_obj) : R unit :=
  if negb (is_some (vo_listener v)) || negb gc then Val tt
  else _ <- deref (vo_listener v) ;; Val tt.

Definition gen_vs (v : vserver_obj) : R unit :=
  _ <- for_all_unit gen_upstream (vo_upstreams v) ;;
  for_all_unit (gen_route true) (vo_routes v).

Record crd_obs := { c_validate : outcome; c_store : outcome; c_extend : outcome; c_delete : outcome }.

Definition crd_worst (o : crd_obs) : outcome :=
  worst (c_validate o) (worst (c_store o) (worst (c_extend o) (c_delete o))).

(* --- VirtualServerRoute: upstreams and subroutes (route references are forbidden) *)
Record vsroute_obj := { vr_upstreams : list upstream; vr_subroutes : list route }.

(* ValidateVirtualServerRoute (stand-alone: vsPath = "", the prefix branch without a prefix) *)
Definition validate_vsr (plus : bool) (v : vsroute_obj) : bool :=
  existsb (validate_upstream plus) (vr_upstreams v) || existsb (validate_route true) (vr_subroutes v).

Definition gen_vsr (v : vsroute_obj) : R unit :=
  _ <- for_all_unit gen_upstream (vr_upstreams v) ;;
  for_all_unit (gen_route false) (vr_subroutes v).

(* validateVirtualServerRouteSubroutes(routes, vsPath) as reached from
   ValidateVirtualServerRouteForVirtualServer (arbitration: buildVirtualServerRoutes re-validates
   every referenced VirtualServerRoute against the path of the route that references it):
   regex/exact vsPath: [len(routes) != 1] returns before [routes[0].Path];
   otherwise every subroute is validated and must start with vsPath *)
Definition revalidate_subroutes (k : pkind) (subs : list route) : R bool :=
  match k with
  | PkPrefix => Val (existsb (fun r => validate_route true r || negb (rt_match r)) subs)
  | _ =>
      if negb (Nat.eqb (List.length subs) 1) then Val true
      else
        r0 <- index0 subs ;;                          (* routes[0] *)
        if negb (rt_match r0) then Val true else Val (validate_route true r0)
  end.

(* validateVirtualServerRouteSpec(spec, virtualServerHost, vsPath): host (equal here), upstreams,
   subroutes; the error lists are concatenated, so the subroutes are looked at in any case *)
Definition revalidate_vsr (plus : bool) (k : pkind) (v : vsroute_obj) : R bool :=
  let e := existsb (validate_upstream plus) (vr_upstreams v) in
  r <- revalidate_subroutes k (vr_subroutes v) ;;
  Val (e || r).

(* buildVirtualServerRoutes(vs): for every route with a reference to the stored
   VirtualServerRoute: re-validate; attach it when valid, warn otherwise *)
Fixpoint attach_vsrs (plus : bool) (routes : list route) (stored : option vsroute_obj) : R (list vsroute_obj) :=
  match routes with
  | [] => Val []
  | r :: t =>
      this <- (if negb (rt_route r) then Val []
               else match stored with
                    | None => Val []                   (* "doesn't exist or invalid": a warning *)
                    | Some v => bad <- revalidate_vsr plus (rt_kind r) v ;;
                                Val (if (bad : bool) then [] else [v])
                    end) ;;
      rest <- attach_vsrs plus t stored ;;
      Val (this ++ rest)
  end.

(* prior states for a VirtualServer: nothing; an older VirtualServer on the same host (the new
   one does not get the host, so no configuration is generated for it); a GlobalConfiguration;
   a stored (valid) VirtualServerRoute under the name the route references use, with no
   subroutes, one subroute whose path is the path of the VirtualServer's route, one subroute
   with another path, or two subroutes *)
Inductive vctx := VCEmpty | VCOlder | VCGlobal | VCVsr0 | VCVsr1 | VCVsr1Other | VCVsr2.

Definition plain_pass (k : pkind) (m : bool) : route :=
  {| rt_action := Some {| a_pass := true; a_redirect := None; a_return := None; a_proxy := None |};
     rt_splits := []; rt_matches := []; rt_errpages := []; rt_route := false; rt_kind := k; rt_match := m |}.

Definition bare_upstream : upstream :=
  {| u_health := None; u_cookie := None; u_queue := None; u_buffers := None; u_backup := false;
     u_backup_port := None; u_ints := None |}.

(* the stored VirtualServerRoute of a prior state, given the path kind of the routes of the
   VirtualServer under test *)
Definition partner_vsr (c : vctx) (k : pkind) : option vsroute_obj :=
  match c with
  | VCVsr0 => Some {| vr_upstreams := []; vr_subroutes := [] |}
  | VCVsr1 => Some {| vr_upstreams := [bare_upstream]; vr_subroutes := [plain_pass k true] |}
  | VCVsr1Other => Some {| vr_upstreams := [bare_upstream]; vr_subroutes := [plain_pass PkPrefix false] |}
  | VCVsr2 => Some {| vr_upstreams := [bare_upstream]; vr_subroutes := [plain_pass k true; plain_pass k true] |}
  | _ => None
  end.

Definition routes_kind (v : vserver_obj) : pkind :=
  match vo_routes v with r :: _ => rt_kind r | [] => PkPrefix end.

Definition vs_observe (plus certmgr : bool) (c : vctx) (v : vserver_obj) : crd_obs :=
  let rej := validate_vs plus certmgr v in
  let gc := match c with VCGlobal => true | _ => false end in
  let holds := match c with VCOlder => false | _ => true end in
  (* AddOrUpdateVirtualServer: validate; rebuildHosts: buildVirtualServerRoutes, buildListeners *)
  let store := if rej then Val None
               else (vsrs <- attach_vsrs plus (vo_routes v) (partner_vsr c (routes_kind v)) ;;
                     _ <- vs_listeners gc v ;; Val (Some vsrs)) in
  {| c_validate := if rej then ORejected else OOk;
     c_store := match store with Val None => ORejected | Val (Some _) => OOk | Pan => OPanic end;
     c_extend := match store with
                 | Val (Some vsrs) =>
                     if holds then unit_outcome (_ <- gen_vs v ;; for_all_unit gen_vsr vsrs) else OOk
                 | _ => OOk
                 end;
     c_delete := OOk |}.

(* prior states for a VirtualServerRoute: no VirtualServer (the route is an orphan, nothing is
   generated); a VirtualServer on the same host that holds the host and references the route
   from a route with a prefix, exact or regex path *)
Inductive rctx := RCOrphan | RCRef (k : pkind).

Definition vsr_observe (plus : bool) (c : rctx) (v : vsroute_obj) : crd_obs :=
  let rej := validate_vsr plus v in
  (* AddOrUpdateVirtualServerRoute: validate; rebuildHosts: buildVirtualServerRoutes of the
     stored VirtualServer re-validates the route against the referencing path *)
  let store := if rej then Val None
               else match c with
                    | RCOrphan => Val (Some false)
                    | RCRef k => bad <- revalidate_vsr plus k v ;; Val (Some (negb bad))
                    end in
  {| c_validate := if rej then ORejected else OOk;
     c_store := match store with Val None => ORejected | Val (Some _) => OOk | Pan => OPanic end;
     c_extend := match store with
                 | Val (Some true) => unit_outcome (gen_vsr v)
                 | _ => OOk
                 end;
     c_delete := OOk |}.

(* --- the finite shape spaces *)

Inductive act_sh := ActNil | ActEmpty | ActPass | ActRedirect | ActReturn | ActProxy
                  | ActProxyHdr | ActProxyHdrPass | ActTwo.
Definition action_of (a : act_sh) : option action :=
  let mk p rd rt px := Some {| a_pass := p; a_redirect := rd; a_return := rt; a_proxy := px |} in
  match a with
  | ActNil => None
  | ActEmpty => mk false None None None
  | ActPass => mk true None None None
  | ActRedirect => mk false (Some tt) None None
  | ActReturn => mk false None (Some tt) None
  | ActProxy => mk false None None (Some {| px_req := None; px_resp := None |})
  | ActProxyHdr => mk false None None (Some {| px_req := Some None; px_resp := Some tt |})
  | ActProxyHdrPass => mk false None None (Some {| px_req := Some (Some tt); px_resp := Some tt |})
  | ActTwo => mk true (Some tt) None None
  end.

(* the action of a split or of a match: nil, pass, return *)
Inductive act2_sh := A2Nil | A2Pass | A2Return.
Definition action2_of (a : act2_sh) : option action :=
  match a with A2Nil => None | A2Pass => action_of ActPass | A2Return => action_of ActReturn end.

Inductive splits_sh := Sp0 | Sp1 | Sp2 (a b : act2_sh).
Definition splits_of (s : splits_sh) : list split :=
  match s with
  | Sp0 => []
  | Sp1 => [{| sp_action := action_of ActPass |}]
  | Sp2 a b => [{| sp_action := action2_of a |}; {| sp_action := action2_of b |}]
  end.

(* splits inside a match: none, two with actions, two of which the first has no action *)
Inductive msplits_sh := MS0 | MS2 | MS2Nil.
Definition msplits_of (s : msplits_sh) : list split :=
  match s with
  | MS0 => []
  | MS2 => splits_of (Sp2 A2Pass A2Pass)
  | MS2Nil => splits_of (Sp2 A2Nil A2Pass)
  end.

Inductive match_sh := Mt0 | Mt1 (conds : bool) (a : bool) (s : msplits_sh).
Definition matches_of (m : match_sh) : list mtch :=
  match m with
  | Mt0 => []
  | Mt1 c a s => [{| m_conds := b2n c; m_action := if a then action_of ActPass else None;
                     m_splits := msplits_of s |}]
  end.

Inductive errpage_sh := Ep0 | Ep1 (ret red : bool).
Definition errpages_of (e : errpage_sh) : list errpage :=
  match e with
  | Ep0 => []
  | Ep1 a b => [{| ep_return := if a then Some tt else None; ep_redirect := if b then Some tt else None |}]
  end.

Record route_sh := { rs_action : act_sh; rs_splits : splits_sh; rs_matches : match_sh;
                     rs_errpages : errpage_sh; rs_route : bool }.
Definition route_of (r : route_sh) : route :=
  {| rt_action := action_of (rs_action r); rt_splits := splits_of (rs_splits r);
     rt_matches := matches_of (rs_matches r); rt_errpages := errpages_of (rs_errpages r);
     rt_route := rs_route r; rt_kind := PkPrefix; rt_match := true |}.

Inductive tls_sh := Tl0 | Tl1 (secret : bool) (redirect : option bool) (cm : bool).
Definition tls_of (t : tls_sh) : option vtls :=
  match t with
  | Tl0 => None
  | Tl1 s r c => Some {| tl_secret := s;
                         tl_redirect := option_map (fun b : bool => if b then Some tt else None) r;
                         tl_cm := if c then Some tt else None |}
  end.

Inductive up_sh := UpBare | UpHealth (tls : bool) | UpCookie | UpQueue | UpBuffers | UpBackup
                 | UpBackupNameOnly | UpBackupPortOnly | UpInts.
Definition upstream_of (u : up_sh) : upstream :=
  let mk h c q b bk bp i := {| u_health := h; u_cookie := c; u_queue := q; u_buffers := b;
                               u_backup := bk; u_backup_port := bp; u_ints := i |} in
  match u with
  | UpBare => mk None None None None false None None
  | UpHealth t => mk (Some (if t then Some tt else None)) None None None false None None
  | UpCookie => mk None (Some tt) None None false None None
  | UpQueue => mk None None (Some tt) None false None None
  | UpBuffers => mk None None None (Some tt) false None None
  | UpBackup => mk None None None None true (Some tt) None
  | UpBackupNameOnly => mk None None None None true None None
  | UpBackupPortOnly => mk None None None None false (Some tt) None
  | UpInts => mk None None None None false None (Some tt)
  end.

Definition pass_route : route := route_of {| rs_action := ActPass; rs_splits := Sp0; rs_matches := Mt0;
                                             rs_errpages := Ep0; rs_route := false |}.

(* a VirtualServer shape varies one sub-object around a valid base (one upstream "u", one
   route that passes to it) *)
(* VsRef k: one route with a path of kind k that only references the VirtualServerRoute *)
Inductive vs_shape := VsBare | VsRoute (r : route_sh) | VsTls (t : tls_sh) (listener : bool) | VsUp (u : up_sh)
                    | VsRef (k : pkind).
Definition vs_of (s : vs_shape) : vserver_obj :=
  match s with
  | VsBare => {| vo_tls := None; vo_listener := None; vo_upstreams := []; vo_routes := [] |}
  | VsRoute r => {| vo_tls := None; vo_listener := None; vo_upstreams := [upstream_of UpBare];
                    vo_routes := [route_of r] |}
  | VsTls t l => {| vo_tls := tls_of t; vo_listener := if l then Some tt else None;
                    vo_upstreams := [upstream_of UpBare]; vo_routes := [pass_route] |}
  | VsUp u => {| vo_tls := None; vo_listener := None; vo_upstreams := [upstream_of u];
                 vo_routes := [pass_route] |}
  | VsRef k => {| vo_tls := None; vo_listener := None; vo_upstreams := [upstream_of UpBare];
                  vo_routes := [{| rt_action := None; rt_splits := []; rt_matches := []; rt_errpages := [];
                                   rt_route := true; rt_kind := k; rt_match := true |}] |}
  end.

(* the subroute paths of a VirtualServerRoute shape are the path of the referencing route of the
   prior state (so they agree with it), except VrOther (one subroute with another path); VrTwo
   has two subroutes *)
Inductive vsr_shape := VrBare | VrRoute (r : route_sh) | VrUp (u : up_sh) | VrTwo | VrOther.
Definition vsr_of (s : vsr_shape) : vsroute_obj :=
  match s with
  | VrBare => {| vr_upstreams := []; vr_subroutes := [] |}
  | VrRoute r => {| vr_upstreams := [upstream_of UpBare]; vr_subroutes := [route_of r] |}
  | VrUp u => {| vr_upstreams := [upstream_of u]; vr_subroutes := [pass_route] |}
  | VrTwo => {| vr_upstreams := [upstream_of UpBare]; vr_subroutes := [pass_route; pass_route] |}
  | VrOther => {| vr_upstreams := [upstream_of UpBare]; vr_subroutes := [plain_pass PkPrefix false] |}
  end.

Definition all_pkind := [PkPrefix; PkExact; PkRegex].
Definition all_act_sh := [ActNil; ActEmpty; ActPass; ActRedirect; ActReturn; ActProxy; ActProxyHdr; ActProxyHdrPass; ActTwo].
Definition all_act2_sh := [A2Nil; A2Pass; A2Return].
Definition all_splits_sh := Sp0 :: Sp1 :: flat_map (fun a => map (Sp2 a) all_act2_sh) all_act2_sh.
Definition all_msplits_sh := [MS0; MS2; MS2Nil].
Definition all_match_sh :=
  Mt0 :: flat_map (fun c => flat_map (fun a => map (Mt1 c a) all_msplits_sh) all_bool) all_bool.
Definition all_errpage_sh := Ep0 :: flat_map (fun a => map (Ep1 a) all_bool) all_bool.
Definition all_route_sh : list route_sh :=
  flat_map (fun a => flat_map (fun s => flat_map (fun m => flat_map (fun e =>
    map (fun r => {| rs_action := a; rs_splits := s; rs_matches := m; rs_errpages := e; rs_route := r |})
        all_bool) all_errpage_sh) all_match_sh) all_splits_sh) all_act_sh.
Definition all_optbool : list (option bool) := [None; Some false; Some true].
Definition all_tls_sh : list tls_sh :=
  Tl0 :: flat_map (fun s => flat_map (fun r => map (Tl1 s r) all_bool) all_optbool) all_bool.
Definition all_up_sh := [UpBare; UpHealth false; UpHealth true; UpCookie; UpQueue; UpBuffers; UpBackup;
                         UpBackupNameOnly; UpBackupPortOnly; UpInts].
Definition all_vs_shapes : list vs_shape :=
  VsBare :: map VsRoute all_route_sh ++ flat_map (fun t => map (VsTls t) all_bool) all_tls_sh ++ map VsUp all_up_sh
         ++ map VsRef all_pkind.
Definition all_vsr_shapes : list vsr_shape :=
  VrBare :: VrTwo :: VrOther :: map VrRoute all_route_sh ++ map VrUp all_up_sh.
Definition all_vctx := [VCEmpty; VCOlder; VCGlobal; VCVsr0; VCVsr1; VCVsr1Other; VCVsr2].
Definition all_rctx := RCOrphan :: map RCRef all_pkind.

(* every shape of these two spaces is admitted by the CRD schemas (no field the spaces vary is
   `required`; checked against config/crd/bases by the harness with the structural-schema validator) *)

(* ================================================================== TransportServer *)

Inductive ts_listener := TLTcp | TLUdp | TLPassthrough.
(* conf_v1.TransportServerSpec: TLS *TransportServerTLS; UpstreamParameters *UpstreamParameters{UDPRequests *int ...};
   SessionParameters *SessionParameters; Action *TransportServerAction; upstream HealthCheck *{Match *} *)
Record tserver := {
  t_listener : ts_listener;
  t_host : bool;
  t_tls : option bool;                    (* nil | Some (secret != "") *)
  t_upstreams : list (option (option unit));   (* per upstream: HealthCheck nil | Some (Match nil | Some) *)
  t_uparams : option bool;                (* nil | Some (udp pointers set) *)
  t_sparams : option unit;
  t_action : option bool                  (* nil | Some (pass != "") *)
}.

(* validateTransportServerSpec *)
Definition validate_ts (tlspass : bool) (t : tserver) : bool :=
  let pt := match t_listener t with TLPassthrough => true | _ => false end in
  let udp := match t_listener t with TLUdp => true | _ => false end in
  let tls_secret := match t_tls t with Some true => true | _ => false end in
  let e_listener := pt && negb tlspass in
  let e_host :=
      if udp then t_host t
      else if t_host t then (if negb pt then negb tls_secret else tls_secret)
      else pt in
  let e_up := match t_uparams t with Some true => negb udp | _ => false end in
  let e_action := match t_action t with
                  | None => true
                  | Some false => true
                  | Some true => match t_upstreams t with [] => true | _ => false end
                  end in
  let e_tls := if pt then is_some (t_tls t)
               else if t_host t then negb tls_secret else false in
  e_listener || e_host || e_up || e_action || e_tls.

(* createTransportServerEx puts a SecretReference into SecretRefs only when
   [Spec.TLS != nil && Spec.TLS.Secret != ""]; the map lookup in generateSSLConfig yields nil
   otherwise *)
Definition ts_secret_ref (t : tserver) : option unit :=
  match t_tls t with Some true => Some tt | _ => None end.

(* generateSSLConfig (internal/configs/transportserver.go) as REPAIRED by fixes/F43.diff:
   [tls == nil || tls.Secret == ""] returns before [secretRef.Secret] *)
Definition gen_ts_ssl (t : tserver) : R unit :=
  match t_tls t with
  | None | Some false => Val tt
  | Some true => _ <- deref (ts_secret_ref t) ;; Val tt
  end.

(* the unpatched generateSSLConfig (finding F43): only [tls == nil] returns *)
Definition gen_ts_ssl_old (t : tserver) : R unit :=
  match t_tls t with
  | None => Val tt
  | Some _ => _ <- deref (ts_secret_ref t) ;; Val tt
  end.

(* generateTransportServerConfig: [Spec.Action.Pass] first (health check), then generateSSLConfig;
   UpstreamParameters / SessionParameters / HealthCheck / HealthCheck.Match behind nil checks *)
Definition gen_ts_with (ssl : tserver -> R unit) (t : tserver) : R unit :=
  _ <- deref (t_action t) ;; ssl t.
Definition gen_ts := gen_ts_with gen_ts_ssl.
Definition gen_ts_old := gen_ts_with gen_ts_ssl_old.

(* prior states: no GlobalConfiguration (a TCP/UDP TransportServer has no listener, nothing is
   generated for it); a GlobalConfiguration with a TCP and a UDP listener *)
Inductive tctx := TCEmpty | TCGlobal.

Definition ts_active (tlspass : bool) (c : tctx) (t : tserver) : bool :=
  match t_listener t with
  | TLPassthrough => tlspass
  | _ => match c with TCGlobal => true | TCEmpty => false end
  end.

Definition ts_observe_with (gen : tserver -> R unit) (tlspass : bool) (c : tctx) (t : tserver) : crd_obs :=
  let rej := validate_ts tlspass t in
  {| c_validate := if rej then ORejected else OOk;
     c_store := if rej then ORejected else OOk;
     c_extend := if rej then OOk else if ts_active tlspass c t then unit_outcome (gen t) else OOk;
     c_delete := OOk |}.
Definition ts_observe := ts_observe_with gen_ts.
Definition ts_observe_old := ts_observe_with gen_ts_old.

Inductive tsup_sh := TU0 | TU1 (hc : option bool).
Record ts_shape := { tsh_listener : ts_listener; tsh_host : bool; tsh_tls : option bool; tsh_up : tsup_sh;
                     tsh_uparams : option bool; tsh_sparams : bool; tsh_action : option bool }.
Definition ts_of (s : ts_shape) : tserver :=
  {| t_listener := tsh_listener s; t_host := tsh_host s; t_tls := tsh_tls s;
     t_upstreams := match tsh_up s with
                    | TU0 => []
                    | TU1 h => [option_map (fun b : bool => if b then Some tt else None) h]
                    end;
     t_uparams := tsh_uparams s;
     t_sparams := if tsh_sparams s then Some tt else None;
     t_action := tsh_action s |}.

Definition all_ts_listener := [TLTcp; TLUdp; TLPassthrough].
Definition all_tsup_sh := TU0 :: map TU1 all_optbool.
Definition all_ts_shapes : list ts_shape :=
  flat_map (fun l => flat_map (fun h => flat_map (fun t => flat_map (fun u => flat_map (fun p =>
    flat_map (fun s => map (fun a =>
      {| tsh_listener := l; tsh_host := h; tsh_tls := t; tsh_up := u; tsh_uparams := p;
         tsh_sparams := s; tsh_action := a |}) all_optbool) all_bool) all_optbool) all_tsup_sh)
    all_optbool) all_bool) all_ts_listener.
Definition all_tctx := [TCEmpty; TCGlobal].

(* the CRD marks spec.action and spec.listener... as optional; `upstreams` items require name,
   service, port (the shapes always set them) *)

(* ================================================================== Policy *)

(* conf_v1.RateLimit{Delay, Burst, RejectCode *int; NoDelay, DryRun *bool; Condition *RateLimitCondition{JWT *JWTCondition}} *)
Record ratelimit := { rl_ptrs : option unit; rl_cond : option (option unit) }.
(* conf_v1.APIKey{SuppliedIn *SuppliedIn{Header, Query []string}} *)
Record apikey := { ak_supplied : option (bool * bool) }.
(* conf_v1.WAF{SecurityLog *SecurityLog; SecurityLogs []*SecurityLog} *)
Record waf := { wf_log : option unit; wf_logs : option (list (option unit)) }.

Inductive polkind :=
| PkAccess (allow deny : bool)
| PkRate (r : ratelimit)
| PkJwt
| PkBasic
| PkIngressMTLS (depth : option unit)
| PkEgressMTLS (depth : option unit)
| PkOidc (leeway : option unit)
| PkApiKey (k : apikey)
| PkWaf (w : waf).

(* a PolicySpec: the sub-specs that are set, in the order validatePolicySpec visits them *)
Definition policy := list polkind.

(* order in which validatePolicySpec visits the sub-specs *)
Definition pk_rank (k : polkind) : nat :=
  match k with
  | PkAccess _ _ => 0 | PkRate _ => 1 | PkJwt => 2 | PkBasic => 3 | PkIngressMTLS _ => 4
  | PkEgressMTLS _ => 5 | PkOidc _ => 6 | PkApiKey _ => 7 | PkWaf _ => 8
  end.

(* validatePolicySpec over the sub-specs in visiting order; returns (errors so far, early return) *)
Definition validate_polkind (plus approtect oidc : bool) (k : polkind) : bool * bool :=
  match k with
  | PkAccess a d => (negb (Nat.eqb (b2n a + b2n d) 1), false)
  | PkRate r =>
      ((match rl_cond r with Some None => true | _ => false end) ||
       (match rl_cond r with Some (Some _) => negb plus | _ => false end), false)
  | PkJwt => if negb plus then (true, true) else (false, false)
  | PkBasic => (false, false)
  | PkIngressMTLS _ => (false, false)
  | PkEgressMTLS _ => (false, false)
  | PkOidc _ => if negb plus then (true, true) else (negb oidc, false)
  | PkApiKey k =>
      (match ak_supplied k with
       | None => true
       | Some (h, q) => negb h && negb q
       end, false)
  | PkWaf w => (negb plus || negb approtect, false)
  end.

Fixpoint validate_policy_go (plus approtect oidc : bool) (l : list polkind) (errs : bool) (n : nat) : bool :=
  match l with
  | [] => errs || negb (Nat.eqb n 1)
  | k :: t =>
      let '(e, ret) := validate_polkind plus approtect oidc k in
      if ret then true else validate_policy_go plus approtect oidc t (errs || e) (S n)
  end.

Definition validate_policy (plus approtect oidc : bool) (p : policy) : bool :=
  validate_policy_go plus approtect oidc p false 0.

(* generatePolicies: the first sub-spec that is set decides (switch); the add*Config functions:
   addRateLimitConfig: [rateLimit.Condition != nil && rateLimit.Condition.JWT.Claim != ""];
   generateLimitReq: Burst / Delay behind nil checks;
   addAPIKeyConfig: [apiKey.SuppliedIn.Header]; addIngressMTLSConfig: VerifyDepth behind a nil check;
   addWAFConfig: [range waf.SecurityLogs { loco.LogDest }] after appending SecurityLog *)
Definition gen_polkind (k : polkind) : R unit :=
  match k with
  | PkRate r =>
      match rl_cond r with
      | None => Val tt
      | Some j => _ <- deref j ;; Val tt
      end
  | PkApiKey k => _ <- deref (ak_supplied k) ;; Val tt
  | PkWaf w =>
      let logs := match wf_log w, wf_logs w with
                  | Some x, None => [Some x]
                  | _, Some l => l
                  | None, None => []
                  end in
      for_all_unit (fun l => _ <- deref l ;; Val tt) logs
  | _ => Val tt
  end.

Definition gen_policy (p : policy) : R unit :=
  match p with
  | [] => Val tt
  | k :: _ => gen_polkind k
  end.

(* the Policy pipeline: ValidatePolicy; a VirtualServer that references the policy at spec and
   route level is stored, extended (getPolicies validates again) and generated *)
Record pol_obs := { po_validate : outcome; po_extend : outcome }.

Definition pol_observe (plus approtect : bool) (p : policy) : pol_obs :=
  let rej := validate_policy plus approtect plus p in
  {| po_validate := if rej then ORejected else OOk;
     po_extend := if rej then OOk else unit_outcome (gen_policy p) |}.

Inductive rl_sh := Rl (ptrs : bool) (cond : option bool).
Inductive ak_sh := Ak0 | Ak1 (h q : bool).
Inductive waf_sh := Wf (log : bool) (logs : option bool).   (* securityLogs: nil | [] | [one] *)
Inductive polkind_sh :=
| KAccess (a d : bool) | KRate (r : rl_sh) | KJwt | KBasic | KIngressMTLS (d : bool) | KEgressMTLS (d : bool)
| KOidc (l : bool) | KApiKey (k : ak_sh) | KWaf (w : waf_sh).
(* a policy with no sub-spec, one, or accessControl.allow together with a second one *)
Inductive pol_shape := Po0 | Po1 (k : polkind_sh) | Po2 (k : polkind_sh).

Definition ou (b : bool) : option unit := if b then Some tt else None.
Definition polkind_of (k : polkind_sh) : polkind :=
  match k with
  | KAccess a d => PkAccess a d
  | KRate (Rl p c) => PkRate {| rl_ptrs := ou p; rl_cond := option_map ou c |}
  | KJwt => PkJwt
  | KBasic => PkBasic
  | KIngressMTLS d => PkIngressMTLS (ou d)
  | KEgressMTLS d => PkEgressMTLS (ou d)
  | KOidc l => PkOidc (ou l)
  | KApiKey Ak0 => PkApiKey {| ak_supplied := None |}
  | KApiKey (Ak1 h q) => PkApiKey {| ak_supplied := Some (h, q) |}
  | KWaf (Wf l ls) => PkWaf {| wf_log := ou l;
                               wf_logs := option_map (fun b : bool => if b then [Some tt] else []) ls |}
  end.

Definition policy_of (s : pol_shape) : policy :=
  match s with
  | Po0 => []
  | Po1 k => [polkind_of k]
  | Po2 k => match k with
             | KAccess _ _ => [polkind_of k; PkRate {| rl_ptrs := None; rl_cond := None |}]
             | _ => [PkAccess true false; polkind_of k]
             end
  end.

Definition all_rl_sh := flat_map (fun p => map (Rl p) all_optbool) all_bool.
Definition all_ak_sh := Ak0 :: flat_map (fun h => map (Ak1 h) all_bool) all_bool.
Definition all_waf_sh := flat_map (fun l => map (Wf l) all_optbool) all_bool.
Definition all_polkind_sh : list polkind_sh :=
  flat_map (fun a => map (KAccess a) all_bool) all_bool ++ map KRate all_rl_sh ++ [KJwt; KBasic] ++
  map KIngressMTLS all_bool ++ map KEgressMTLS all_bool ++ map KOidc all_bool ++
  map KApiKey all_ak_sh ++ map KWaf all_waf_sh.
Definition all_pol_shapes : list pol_shape := Po0 :: map Po1 all_polkind_sh ++ map Po2 all_polkind_sh.

(* ================================================================== GlobalConfiguration *)

(* GlobalConfigurationSpec{Listeners []Listener}: no pointers.  The shape space varies the
   list: empty; one valid; one with a forbidden port; a valid one and a duplicate of its name;
   a TCP and a UDP listener (the two the TransportServer shapes name). *)
Inductive gc_shape := Gc0 | Gc1 | Gc1Bad | Gc2Dup | Gc2.

Definition validate_gc (g : gc_shape) : bool :=
  match g with Gc1Bad | Gc2Dup => true | _ => false end.

(* AddOrUpdateGlobalConfiguration keeps the valid listeners and reports the error; nothing
   dereferences an optional pointer *)
Definition gc_observe (g : gc_shape) : crd_obs :=
  let rej := validate_gc g in
  {| c_validate := if rej then ORejected else OOk; c_store := if rej then ORejected else OOk;
     c_extend := OOk; c_delete := OOk |}.

Definition all_gc_shapes := [Gc0; Gc1; Gc1Bad; Gc2Dup; Gc2].
