(* C01: one owner per hostname, whatever the spelling.  [Arb.Cases.ci_dup] is the run-time judge the harness evaluates on
   the keys of the implementation's Configuration.hosts; on the model it is false for every history whose stored objects
   carry lower-case hosts (which the API server and the validators guarantee). *)
From Coq Require Import List String ZArith Bool Lia Ascii.
From NIC Require Import Base.SMap Arb.Types Arb.Model Arb.Spec Arb.Cases Arb.InvProofs Arb.OwnerProofs Arb.ListenerProofs Arb.ClassProofs.
Import ListNotations.
Open Scope Z_scope.

(* a hostname written in lower case is its own canonical spelling *)
Definition lower_case (h : string) : Prop := lower h = h.

Lemma ci_dup_false l : NoDup l -> (forall h, In h l -> lower_case h) -> ci_dup l = false.
Proof.
  induction l as [|k r IH]; intros Hn Hl; [reflexivity|]. cbn [ci_dup].
  inversion Hn as [|? ? Hk Hr]; subst. rewrite IH; [|exact Hr|intros h Hh; apply Hl; right; exact Hh].
  rewrite orb_false_r. destruct (existsb (String.eqb (lower k)) (map lower r)) eqn:E; [|reflexivity].
  exfalso. apply existsb_exists in E. destruct E as (x & Hx & He). apply String.eqb_eq in He.
  apply in_map_iff in Hx. destruct Hx as (y & Hy & Hin). subst x.
  rewrite (Hl k (or_introl eq_refl)) in He. rewrite (Hl y (or_intror Hin)) in He. subst y. contradiction.
Qed.

(* the hosts of the stored objects are written in lower case: Ingress hosts by the API server's validation,
   the hosts of VirtualServers and TransportServers by the controller's validators (the harness passes the
   validators' verdicts; an object that is not valid is not stored) *)
Definition objs_lower (o : objs) : Prop :=
  (forall k i, In (k, i) (o_ings o) -> forall h, In h (i_hosts i) -> lower_case h) /\
  (forall k v, In (k, v) (o_vss o) -> lower_case (v_host v)) /\
  (forall k t, In (k, t) (o_tss o) -> lower_case (t_host t)).

Lemma claims_lower c o h y : objs_lower o -> In (h, y) (all_claims c (o_ings o) (o_vss o) (o_tss o)) -> lower_case h.
Proof.
  intros (Hi & Hv & Ht) H. unfold all_claims in H. apply in_app_or in H. destruct H as [H|H]; [|apply in_app_or in H; destruct H as [H|H]].
  - unfold ing_claims in H. apply in_flat_map in H. destruct H as ([k i] & Hin & Hm). cbn [snd] in Hm.
    destruct (ing_claims_hosts c (o_vss o) i); [|destruct Hm]. apply in_map_iff in Hm. destruct Hm as (h0 & Heq & Hh0).
    inversion Heq; subst. eapply Hi; eauto.
  - unfold vs_claims in H. apply in_map_iff in H. destruct H as ([k v] & Heq & Hin). cbn [snd] in Heq. inversion Heq; subst. eapply Hv; eauto.
  - unfold ts_claims in H. destruct (tls_passthrough c); [|destruct H]. apply in_filter_map in H. destruct H as ([k t] & Hin & Hf). cbn [snd] in Hf.
    destruct (is_passthrough t); inversion Hf; subst. eapply Ht; eauto.
Qed.

Theorem one_owner_per_hostname_objs c o : objs_lower o -> ci_dup (keys (hosts_of_objs c o)) = false.
Proof.
  intros Hl. apply ci_dup_false.
  - apply wf_keys_NoDup. unfold hosts_of_objs. apply wf_b_hosts.
  - intros h Hh. apply in_keys_lookup in Hh. unfold hosts_of_objs in Hh. rewrite b_hosts_lookup in Hh.
    destruct (lookup h (holders (all_claims c (o_ings o) (o_vss o) (o_tss o)))) as [y|] eqn:Hy; [|congruence].
    apply holder_is_claim in Hy. eapply claims_lower; eauto.
Qed.

(* histories: every event that stores an object carries lower-case hosts *)
Definition ev_lower (e : event) : Prop :=
  match e with
  | EIng i cls valid => cls && valid = true -> forall h, In h (i_hosts i) -> lower_case h
  | EVS v cls valid => cls && valid = true -> lower_case (v_host v)
  | ETS t cls valid => cls && valid = true -> lower_case (t_host t)
  | _ => True
  end.

Lemma In_upd {A} b k (v : A) m k0 x : wf m -> In (k0, x) (upd b k v m) -> (b = true /\ k0 = k /\ x = v) \/ In (k0, x) m.
Proof.
  intros W H. assert (W' : wf (upd b k v m)) by (apply wf_upd; exact W).
  apply (In_lookup _ _ _ W') in H. unfold upd in H. destruct b.
  - destruct (string_dec k0 k) as [->|N].
    + rewrite lookup_insert_eq in H. inversion H. auto.
    + rewrite lookup_insert_neq in H by exact N. right. apply lookup_In. exact H.
  - destruct (string_dec k0 k) as [->|N].
    + rewrite lookup_remove_eq in H by exact W. discriminate.
    + rewrite lookup_remove_neq in H by exact N. right. apply lookup_In. exact H.
Qed.

Lemma In_remove {A} k (m : smap A) k0 x : wf m -> In (k0, x) (remove k m) -> In (k0, x) m.
Proof.
  intros W H. apply (In_lookup _ _ _ (wf_remove _ _ W)) in H.
  destruct (string_dec k0 k) as [->|N].
  - rewrite lookup_remove_eq in H by exact W. discriminate.
  - rewrite lookup_remove_neq in H by exact N. apply lookup_In. exact H.
Qed.

Lemma objs_lower_event o e : objs_ok o -> objs_lower o -> ev_lower e -> objs_lower (apply_event o e).
Proof.
  intros (W1 & W2 & W3 & W4 & _) (Hi & Hv & Ht) He.
  destruct e; cbn [apply_event]; unfold objs_lower; cbn [o_ings o_vss o_tss]; repeat split; auto.
  - intros k0 i0 Hin. apply In_upd in Hin; [|exact W1]. destruct Hin as [(Hb & _ & ->)|Hin]; [apply He; exact Hb|eapply Hi; eauto].
  - intros k0 i0 Hin. apply In_remove in Hin; [|exact W1]. eapply Hi; eauto.
  - intros k0 v0 Hin. apply In_upd in Hin; [|exact W2]. destruct Hin as [(Hb & _ & ->)|Hin]; [apply He; exact Hb|eapply Hv; eauto].
  - intros k0 v0 Hin. apply In_remove in Hin; [|exact W2]. eapply Hv; eauto.
  - intros k0 t0 Hin. apply In_upd in Hin; [|exact W4]. destruct Hin as [(Hb & _ & ->)|Hin]; [apply He; exact Hb|eapply Ht; eauto].
  - intros k0 t0 Hin. apply In_remove in Hin; [|exact W4]. eapply Ht; eauto.
Qed.

Lemma objs_lower_after es : Forall ev_lower es -> objs_lower (objs_after es).
Proof.
  unfold objs_after. assert (H0 : objs_lower objs0) by (repeat split; intros ? ? []).
  assert (K0 : objs_ok objs0) by (unfold objs_ok, objs0; cbn; repeat split; try constructor; intros ? ? []).
  revert H0 K0. generalize objs0. induction es as [|e r IH]; intros o H0 K0 He; cbn [fold_left]; [exact H0|].
  inversion He; subst. apply IH; [apply objs_lower_event; assumption|apply objs_ok_event; assumption|assumption].
Qed.

Theorem one_owner_per_hostname c es : Forall ev_lower es -> ci_dup (keys (hosts (run c es))) = false.
Proof.
  intros He. destruct (hosts_function_of_objs c es) as [-> _]. apply one_owner_per_hostname_objs. apply objs_lower_after. exact He.
Qed.

Lemma keys_hosts_view s : map fst (hosts_view s) = keys (hosts s).
Proof. unfold hosts_view, keys. rewrite map_map. apply map_ext. intros [h r]. reflexivity. Qed.

Corollary one_owner_per_hostname_view c es : Forall ev_lower es -> ci_dup (map fst (hosts_view (run c es))) = false.
Proof. intros He. rewrite keys_hosts_view. apply one_owner_per_hostname. exact He. Qed.
