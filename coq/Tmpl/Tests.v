(* Tmpl/Tests.v -- computed examples for the Tmpl family and the assumption audit of its theorems.
   Every Example is closed by vm_compute; the Print Assumptions at the end must all answer
   Closed under the global context. *)
From Coq Require Import List String Ascii Bool.
From NIC Require Import Lex.Lexer Tmpl.Syntax Tmpl.LexAux Tmpl.Classes Tmpl.ClassesProofs
     Tmpl.ClassesCorollaries Tmpl.Regex Tmpl.RegexProofs Tmpl.Validators Tmpl.ValidatorsProofs
     Tmpl.Analyze Tmpl.AnalyzeProofs.
Import ListNotations.
Open Scope list_scope.
Open Scope string_scope.

(* a double quote inside a Coq string is written twice *)
Definition body_ok : tmpl :=
  seqs [Text " set $a "; Site 4 CQuoted; Text "; "].

(* location PATH { proxy_pass http://UPS REWRITE; add_header X dq V dq; range( set $a Q; ) } *)
Definition t_ok : tmpl :=
  seqs [Text "location "; Site 0 CBareTok; Text " { proxy_pass http://"; Site 1 CWord; Site 2 CBareTok;
        Text "; add_header X """; Site 3 CDQ; Text """; "; Star body_ok; Text " }"].

Example t_ok_analyzes : analyze t_ok [QBetween] = Some [QBetween].
Proof. vm_compute. reflexivity. Qed.

Example t_ok_file : file_ok t_ok = true.
Proof. vm_compute. reflexivity. Qed.

(* the states at the sites are sets: after the path the lexer is between tokens (empty value), in a
   bare word or in a variable *)
Example t_ok_prefix :
  analyze (seqs [Text "location "; Site 0 CBareTok]) [QBetween] = Some [QBetween; QBare; QVar].
Proof. vm_compute. reflexivity. Qed.

(* the CDQ site moved outside the quotes: refused, and the diagnosis names the site and the state *)
Definition t_dq_outside : tmpl :=
  seqs [Text "location "; Site 0 CBareTok; Text " { add_header X "; Site 3 CDQ; Text "; }"].

Example t_dq_outside_fails : analyze_diag t_dq_outside [QBetween] = DSite 3 CDQ QBetween.
Proof. vm_compute. reflexivity. Qed.

Example t_dq_outside_none : analyze t_dq_outside [QBetween] = None.
Proof. vm_compute. reflexivity. Qed.

(* a bare-token value inside double quotes could close them *)
Example t_bare_in_quotes_fails :
  analyze_diag (seqs [Text "set $a """; Site 7 CBareTok; Text """;"]) [QBetween] = DSite 7 CBareTok QDQ.
Proof. vm_compute. reflexivity. Qed.

(* an unclassified site fails closed *)
Example t_unknown_fails :
  analyze_diag (seqs [Text "server_name "; Site 9 (CUnknown "why"); Text ";"]) [QBetween]
  = DSite 9 (CUnknown "why") QBetween.
Proof. vm_compute. reflexivity. Qed.

(* an unterminated quote in the literal text: the file would end inside a quoted word *)
Example t_unterminated_fails : file_ok (seqs [Text "set $a ""abc;"; Text " }"]) = false.
Proof. vm_compute. reflexivity. Qed.

Example t_unterminated_state : analyze (Text "set $a ""abc;") [QBetween] = Some [QDQ].
Proof. vm_compute. reflexivity. Qed.

(* literal text that is a lexical error (a byte directly after a closing quote) *)
Example t_text_error :
  analyze_diag (Text "set $a ""b""c;") [QBetween] = DText "set $a ""b""c;" QBetween QBetween.
Proof. vm_compute. reflexivity. Qed.

(* literal text that behaves differently in two reachable states: after a CWord site at token start
   the lexer is between tokens (empty value) or in a word; a right brace is structural only in
   the first case *)
Example t_text_disagrees :
  analyze_diag (seqs [Text "a "; Site 5 CWord; Text "} "]) [QBetween] = DText "} " QBetween QBare.
Proof. vm_compute. reflexivity. Qed.

(* NGINX dollar-brace variables: the brace does not end a word after a dollar *)
Example t_dollar_brace :
  analyze (seqs [Text "return 200 x${"; Site 6 CWord; Text "}y;"]) [QBetween] = Some [QBetween].
Proof. vm_compute. reflexivity. Qed.

(* arms of a choice may end in different states; literals with spaces and an empty alternative *)
Example t_choice_lit :
  analyze (seqs [Text "listen 80"; Site 1 (CLit [""; " ssl"; " ssl http2"]); Text "; set $x ";
                 Choice (Site 2 CQuoted) (Site 3 CWord); Text " ;"]) [QBetween] = Some [QBetween].
Proof. vm_compute. reflexivity. Qed.

(* CLines only between tokens *)
Example t_lines_ok : analyze (seqs [Text "server { "; Site 1 CLines; Text "}"]) [QBetween] = Some [QBetween].
Proof. vm_compute. reflexivity. Qed.
Example t_lines_bad :
  analyze_diag (seqs [Text "server { listen"; Site 1 CLines; Text "}"]) [QBetween] = DSite 1 CLines QBare.
Proof. vm_compute. reflexivity. Qed.

(* ---------------------------------------------------------------- the theorem applied *)

(* two renderings of t_ok with the same control (two rounds of the range) and different values *)
Definition round (v : string) : trace := TSeq TText (TSeq (TSite v) (TSeq TText TText)).
Definition tr_of (path ups rew hdr : string) (qs : list string) : trace :=
  TSeq TText (TSeq (TSite path) (TSeq TText (TSeq (TSite ups) (TSeq (TSite rew)
    (TSeq TText (TSeq (TSite hdr) (TSeq TText (TSeq (TStar (map round qs)) (TSeq TText TText))))))))).

Definition tr_a : trace := tr_of "/tea" "default-tea-svc-80" "" "a b; c {" [go_quote "x;y"; go_quote "}"].
Definition tr_b : trace := tr_of "/coffee/$1" "u" "/r" "" [go_quote ""; go_quote "zz"].

Example tr_a_renders :
  render t_ok tr_a =
  "location /tea { proxy_pass http://default-tea-svc-80; add_header X ""a b; c {""; " ++
  " set $a ""x;y""; " ++ " set $a ""}""; " ++ " }".
Proof. vm_compute. reflexivity. Qed.

Lemma tr_a_fits : fits t_ok tr_a /\ values_ok t_ok tr_a.
Proof. cbn. repeat split; repeat constructor. Qed.

Lemma tr_b_fits : fits t_ok tr_b /\ values_ok t_ok tr_b.
Proof. cbn. repeat split; repeat constructor. Qed.

Lemma tr_ab_control : same_control t_ok tr_a tr_b.
Proof. cbn. repeat split; repeat constructor. Qed.

Example structure_invariant_applies :
  structural (snd (run QBetween (render t_ok tr_a))) = structural (snd (run QBetween (render t_ok tr_b))) /\
  events_ok (render t_ok tr_a) = true /\ events_ok (render t_ok tr_b) = true.
Proof.
  apply (file_ok_invariant t_ok t_ok_file tr_a tr_b);
    [apply tr_a_fits|apply tr_b_fits|apply tr_ab_control|apply tr_a_fits|apply tr_b_fits].
Qed.

(* and the structure it is *)
Example tr_a_structure :
  structural (snd (run QBetween (render t_ok tr_a))) = [Open; Semi; Semi; Semi; Semi; Close].
Proof. vm_compute. reflexivity. Qed.

(* ---------------------------------------------------------------- classes *)

Example cls_examples :
  map (fun p => in_class_b (fst p) (snd p))
      [(CWord, "a-b_c.d:80"); (CWord, "a b"); (CWord, "a;"); (CWordVar, "$host"); (CWord, "$host");
       (CBareTok, "/a""b}"); (CBareTok, "}a"); (CBareTok, ""); (CBareTok, "/a{");
       (CDQ, "a\""b"); (CDQ, "a""b"); (CDQ, "a\"); (CSQ, "it\'s"); (CSQ, "it's");
       (CQuoted, """a b;""" ); (CQuoted, """a""b"""); (CQuoted, """");
       (CInt, "-12"); (CInt, "12a"); (CInt, ""); (CLit ["on"; "off"], "off"); (CLit ["on"; "off"], "of");
       (CLines, "listen 80; listen [::]:80;"); (CLines, "listen 80"); (CLines, "a { b; }");
       (CEmpty, ""); (CEmpty, " "); (CUnknown "x", "")]
  = [true; false; false; true; false;
     true; false; true; false;
     true; false; false; true; false;
     true; false; false;
     true; false; false; true; false;
     true; false; true;
     true; false; false].
Proof. vm_compute. reflexivity. Qed.

Example go_quote_example :
  go_quote ("a""b\" ++ String (ascii_of_nat 10) (String (ascii_of_nat 200) (String (ascii_of_nat 1) "")))
  = """a\""b\\\n\xc8\x01""".
Proof. vm_compute. reflexivity. Qed.

Example transfer_table_word :
  map (transfer CWord) [QBetween; QBare; QVar; QDQ; QSQ; QNeedSpace]
  = [Some [QBetween; QBare]; Some [QBare]; Some [QBare; QVar]; Some [QDQ]; Some [QSQ]; None].
Proof. vm_compute. reflexivity. Qed.

Example transfer_table_baretok :
  map (transfer CBareTok) [QBetween; QBare; QVar; QDQ; QSQ; QNeedSpace]
  = [Some [QBetween; QBare; QVar]; Some [QBare; QVar]; Some [QBare; QVar]; None; None; None].
Proof. vm_compute. reflexivity. Qed.

(* ---------------------------------------------------------------- assumption audit *)

Print Assumptions set_transfer_sound.
Print Assumptions transfer_sound.
Print Assumptions site_transfer_sound.
Print Assumptions dq_neutral.
Print Assumptions dq_complete.
Print Assumptions sq_neutral.
Print Assumptions sq_complete.
Print Assumptions quoted_neutral.
Print Assumptions quoted_iff.
Print Assumptions lines_sound.
Print Assumptions word_neutral_everywhere.
Print Assumptions baretok_neutral_at_start.
Print Assumptions baretok_neutral_in_word.
Print Assumptions go_quote_quoted.
Print Assumptions go_quote_neutral.
Print Assumptions skeleton_subst_structural.
Print Assumptions matches_lang.
Print Assumptions matches_star_cls.
Print Assumptions incl_check_sound.
Print Assumptions incl_check_strict_sound.
Print Assumptions bytes_in_sound.
Print Assumptions vs_path_bare_safe.
Print Assumptions vs_path_in_baretok.
Print Assumptions escaped_dq_safe.
Print Assumptions realm_dq_safe.
Print Assumptions jwt_token_dq_safe.
Print Assumptions return_type_dq_safe.
Print Assumptions escaped_in_cdq.
Print Assumptions size_word.
Print Assumptions offset_word.
Print Assumptions rate_word.
Print Assumptions proxy_buffers_safe.
Print Assumptions time_safe.
Print Assumptions ing_rewrite_safe.
Print Assumptions ing_rewrite_then_semi.
Print Assumptions limit_req_key_bare_safe.
Print Assumptions rewrite_path_safe.
Print Assumptions ip_or_cidr_word.
Print Assumptions regex_path_quoted.
Print Assumptions route_path_location_safe.
Print Assumptions rewrite_path_default_action_refuted.
Print Assumptions ing_rate_word.
Print Assumptions http_header_name_word.
Print Assumptions grpc_service_fixed_safe.
Print Assumptions ts_hash_fixed_safe.
Print Assumptions sticky_fixed_safe.
Print Assumptions ing_path_refuted.
Print Assumptions ing_path_refuted_bs.
Print Assumptions ing_path_not_safe.
Print Assumptions realm_bare_refuted.
Print Assumptions realm_not_bare_safe.
Print Assumptions ts_hash_refuted_semi.
Print Assumptions ts_hash_refuted_open.
Print Assumptions ts_hash_not_safe.
Print Assumptions grpc_service_refuted.
Print Assumptions grpc_service_not_safe.
Print Assumptions grpc_service_weak.
Print Assumptions analyze_diag_sound.
Print Assumptions analyze_sound.
Print Assumptions structure_invariant.
Print Assumptions file_ok_invariant.
Print Assumptions rendering_wellformed.
Print Assumptions structure_invariant_applies.
