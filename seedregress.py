#!/usr/bin/env python3
"""Developer tool: re-run the registered checks against the kept seeded changes on the current tree.

  SEED_WT=/tmp/seedrun-a ./seedregress.py C01 C02 ...      (all seeds of those properties, one after the other)

For every /verif/seeded/<PID>-<k>/: a scratch worktree of /repo HEAD (never /repo itself), `git apply patch.diff`,
`VERIF_REPO=<worktree> ./check <PID>`; the verdict is written to meta.json under "final" (the intake verdict under
"check" is kept).  A patch that no longer applies (the lines it edits were changed by a later fix: commit) is
recorded as such.  Several instances may run side by side with different SEED_WT and disjoint property lists.
"""
import json, os, subprocess, sys, time

VERIF = os.path.dirname(os.path.abspath(__file__))
WT = os.environ.get("SEED_WT", "/tmp/seedrun")
ENV = dict(os.environ, GOFLAGS="-mod=mod", GOPROXY="off")


def sh(cmd, cwd=None, env=None, timeout=3600):
    p = subprocess.run(cmd, shell=True, cwd=cwd, env=env or ENV, stdout=subprocess.PIPE, stderr=subprocess.STDOUT, text=True, timeout=timeout)
    return p.returncode, p.stdout


def fresh():
    if not os.path.isdir(WT):
        sh("git -C /repo worktree add --detach %s HEAD" % WT)
    sh("git reset -q --hard && git clean -fdq && git checkout -q --detach $(git -C /repo rev-parse HEAD) && git reset -q --hard && git clean -fdq", cwd=WT)


def main():
    head = sh("git -C /repo rev-parse --short HEAD")[1].strip()
    for pid in sys.argv[1:]:
        pid = pid.upper()
        if "-" in pid:      # a single seed, e.g. C09-12
            dirs, pid = [pid], pid.split("-")[0]
        else:
            dirs = sorted(d for d in os.listdir(os.path.join(VERIF, "seeded")) if d.startswith(pid + "-"))
        for d in dirs:
            path = os.path.join(VERIF, "seeded", d)
            mp = os.path.join(path, "meta.json")
            meta = json.load(open(mp))
            fresh()
            rc, out = sh("git apply %s" % os.path.join(path, "patch.diff"), cwd=WT)
            fin = {"repo_head": head, "patch_applies": rc == 0}
            if rc != 0:
                fin["note"] = "patch no longer applies to HEAD: " + out.strip()[-300:]
            else:
                t0 = time.time()
                rc, out = sh("./check %s" % pid, cwd=VERIF, env=dict(ENV, VERIF_REPO=WT))
                viol = [l for l in out.splitlines() if l.startswith("VIOLATION")]
                descr = [l.strip() for l in out.splitlines() if l.strip().startswith("violation:")]
                fin.update({"cmd": "VERIF_REPO=%s ./check %s" % (WT, pid), "rc": rc, "wall_s": round(time.time() - t0, 1),
                            "violation_lines": viol[:4], "what": [x[:400] for x in descr[:3]], "detected": bool(viol),
                            "with_failing_input": any("no-failing-input-found" not in v for v in viol)})
                if rc not in (0, 1) or (rc == 1 and not viol):
                    fin["note"] = "check did not finish normally: " + out[-400:]
            meta["final"] = fin
            with open(mp, "w") as f:
                json.dump(meta, f, indent=1)
            print("%s: applies=%s detected=%s with_input=%s %s" % (d, fin["patch_applies"], fin.get("detected"), fin.get("with_failing_input"),
                                                                  (fin.get("what") or [fin.get("note", "")])[0][:140]), flush=True)
    fresh()


if __name__ == "__main__":
    try:
        main()
    finally:
        # a run against a changed tree regenerates coq/gen/*.v from that tree: put the committed files back
        sh("git checkout -- coq/gen", cwd=VERIF)
