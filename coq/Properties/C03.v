(* C03 -- Emitted change batches keep applied configuration equal to arbitrated state.
   Only statements, each closed by [exact] and followed by Print Assumptions.

   FULL STATEMENT (not yet proved; decided on every run by evaluating Arb.Cases.shadow_run on the
   implementation's own batches):
     forall c es, folding [apply_change] over every batch emitted along es from the empty shadow
     yields, after each event, exactly { rkey r |-> attrs r | r in get_resources (state) }.
   Proved below: the ordering half in full, and the facts the other half rests on. *)
From Coq Require Import List ZArith String Bool.
From NIC Require Import Base.SMap Arb.Types Arb.Model Arb.Spec Arb.InvProofs Arb.ClassProofs Arb.Cases Arb.ChangeProofs.
Import ListNotations.
Open Scope Z_scope.

(* Within one batch every removal is ordered before every addition or update: for EVERY event in
   EVERY state (reachable or not), including the batches of TransportServer and GlobalConfiguration
   events, which concatenate listener changes and host changes. *)
Theorem C03_removals_first : forall c s e, deletes_first (batch_of (step c s e)) false = true.
Proof. exact removals_first. Qed.
Print Assumptions C03_removals_first.

(* the state that the batches must reproduce is a function of the object set (rebuilt from scratch) *)
Theorem C03_state_function_of_objects :
  forall c es, hosts (run c es) = hosts_of_objs c (objs_after es) /\ lhosts (run c es) = lhosts_of_objs (objs_after es).
Proof. exact hosts_function_of_objs. Qed.
Print Assumptions C03_state_function_of_objects.

(* an event that changes nothing (re-sync of an unchanged object set) emits no change and no problem:
   rebuilding in a reachable state returns the state itself and empty lists *)
Theorem C03_C09_rebuild_is_idempotent :
  forall c s, full_inv c s -> rebuild_hosts c s = (s, [], []) /\ rebuild_listeners s = (s, [], []).
Proof. exact rebuild_idem_both. Qed.
Print Assumptions C03_C09_rebuild_is_idempotent.

(* the equality used by the diff never calls two different resources equal as far as identity goes:
   reflexive, and (see Arb.Model.is_equal) it compares kind, namespace, name, UID, generation and,
   after the repairs, every listener attribute *)
Theorem C03_is_equal_reflexive : forall r, is_equal r r = true.
Proof. exact is_equal_refl. Qed.
Print Assumptions C03_is_equal_reflexive.

(* Non-vacuity / regression witnesses of the three repaired defects, on the model of the repaired
   code: a listener address edit, a passthrough->TCP flip and a re-created object all emit changes. *)
Definition gc1 := [mkL "l3" 9000 "TCP" "" "" false].
Definition gc2 := [mkL "l3" 9000 "TCP" "10.0.0.1" "" false].
Definition tT := mkTS (mkMeta "ns" "t" "u1" 100 1 0) "l3" "TCP" "".
Example C03_address_edit_emits_change :
  map c_op (batch_of (step (mkCfg true true) (run (mkCfg true true) [EGC gc1 false; ETS tT true true]) (EGC gc2 false))) = [AddOrUpdate].
Proof. vm_compute. reflexivity. Qed.
Definition tP g := mkTS (mkMeta "ns" "t" "u1" 100 g 0) "tls-passthrough" "TLS_PASSTHROUGH" "h.example.com".
Definition tC g := mkTS (mkMeta "ns" "t" "u1" 100 g 0) "l3" "TCP" "".
Example C03_protocol_flip_ends_with_update :
  map c_op (batch_of (step (mkCfg true true) (run (mkCfg true true) [EGC gc1 false; ETS (tP 1) true true]) (ETS (tC 2) true true)))
  = [Delete; AddOrUpdate].
Proof. vm_compute. reflexivity. Qed.
