(* Arbitration model -- executable transcription of internal/k8s/configuration.go:
   buildHostsAndResources, updateActiveHostsForIngresses, buildMinionConfigs,
   buildVirtualServerRoutes, buildListenersForVSConfiguration,
   buildListenerHostsAndTSConfigurations, the problem producers, detectChangesIn*,
   createResourceChangesFor*, squashResourceChanges, and the AddOrUpdate*/Delete* entry points.
   No proofs in this file. *)
From Coq Require Import List ZArith String Ascii Bool.
From NIC Require Import Base.SMap Arb.Types.
Import ListNotations.
Open Scope string_scope.
Open Scope Z_scope.
Infix "+++" := app (at level 60, right associativity).

(* ---------- small helpers ---------- *)

Fixpoint has_char (c : ascii) (s : string) : bool :=
  match s with EmptyString => false | String a r => Ascii.eqb a c || has_char c r end.

Definition starts_with (c : ascii) (s : string) : bool :=
  match s with String a _ => Ascii.eqb a c | EmptyString => false end.

Definition host0 (i : ingress) : string := hd "" (i_hosts i).

Definition is_minion (i : ingress) : bool := match i_kind i with IMinion => true | _ => false end.
Definition is_master (i : ingress) : bool := match i_kind i with IMaster => true | _ => false end.

Definition smap_map {A B} (f : A -> B) (m : smap A) : smap B := map (fun kv => (fst kv, f (snd kv))) m.

Fixpoint filter_map {A B} (f : A -> option B) (l : list A) : list B :=
  match l with
  | [] => []
  | x :: r => match f x with Some y => y :: filter_map f r | None => filter_map f r end
  end.

(* warnings addressed to one key, in emission order *)
Definition warnings_for (k : string) (ws : list (string * string)) : list string :=
  filter_map (fun kw => if String.eqb (fst kw) k then Some (snd kw) else None) ws.

(* ---------- the running-holder fold ---------- *)

(* a holder: (key with kind, meta) *)
Definition hold := (string * meta)%type.

Definition claim1 (hs : smap hold) (c : string * hold) : smap hold :=
  match lookup (fst c) hs with
  | None => insert (fst c) (snd c) hs
  | Some y => if wins (snd y) (snd (snd c)) then hs else insert (fst c) (snd c) hs
  end.

(* key that receives the warning for this claim *)
Definition claim_loser (hs : smap hold) (c : string * hold) : option string :=
  match lookup (fst c) hs with
  | None => None
  | Some y => if wins (snd y) (snd (snd c)) then Some (fst (snd c)) else Some (fst y)
  end.

Fixpoint run_claims (mk_warning : string -> string) (hs : smap hold) (cs : list (string * hold))
  : smap hold * list (string * string) :=
  match cs with
  | [] => (hs, [])
  | c :: rest =>
      let w := match claim_loser hs c with
               | Some k => [(k, mk_warning (fst c))]
               | None => [] end in
      let '(hs', ws) := run_claims mk_warning (claim1 hs c) rest in
      (hs', w +++ ws)
  end.

Definition holders (cs : list (string * hold)) : smap hold := fold_left claim1 cs [].

(* ---------- hosts ---------- *)

Definition ing_rkey (i : ingress) : string := "Ingress/" ++ mkey (i_meta i).
Definition vs_rkey (v : vserver) : string := "VirtualServer/" ++ mkey (v_meta v).
Definition ts_rkey (t : tserver) : string := "TransportServer/" ++ mkey (t_meta t).
Definition vsr_pkey (r : vsroute) : string := "VirtualServerRoute/" ++ mkey (r_meta r).

Definition vs_has_host (vss : smap vserver) (h : string) : bool :=
  existsb (fun kv => String.eqb (v_host (snd kv)) h) vss.

(* isChallengeIngress && convertIngressToVSR <> nil *)
Definition converted (c : cfg) (vss : smap vserver) (i : ingress) : bool :=
  cert_manager c && i_challenge i && vs_has_host vss (host0 i).

(* contributes host claims: not a minion and not converted into a challenge route *)
Definition ing_claims_hosts (c : cfg) (vss : smap vserver) (i : ingress) : bool :=
  negb (is_minion i) && negb (converted c vss i).

Definition ing_claims (c : cfg) (vss : smap vserver) (is_ : smap ingress) : list (string * hold) :=
  flat_map (fun kv => let i := snd kv in
                      if ing_claims_hosts c vss i
                      then map (fun h => (h, (ing_rkey i, i_meta i))) (i_hosts i) else []) is_.

Definition vs_claims (vss : smap vserver) : list (string * hold) :=
  map (fun kv => let v := snd kv in (v_host v, (vs_rkey v, v_meta v))) vss.

Definition is_passthrough (t : tserver) : bool :=
  negb (negb (String.eqb (t_lname t) "tls-passthrough") && negb (String.eqb (t_proto t) "TLS_PASSTHROUGH")).

Definition ts_claims (c : cfg) (tss : smap tserver) : list (string * hold) :=
  if tls_passthrough c then
    filter_map (fun kv => let t := snd kv in
                          if is_passthrough t then Some (t_host t, (ts_rkey t, t_meta t)) else None) tss
  else [].

Definition all_claims (c : cfg) (is_ : smap ingress) (vss : smap vserver) (tss : smap tserver) :=
  ing_claims c vss is_ +++ vs_claims vss +++ ts_claims c tss.

Definition host_warning (h : string) : string := "host " ++ h ++ " is taken by another resource".

(* ---------- minions (buildMinionConfigs) ---------- *)

Record mstate := mkMS { ms_paths : smap hold; ms_vp : smap (smap bool); ms_cw : smap (list string) }.

Definition vp_set (mk p : string) (b : bool) (vp : smap (smap bool)) : smap (smap bool) :=
  let cur := match lookup mk vp with Some m => m | None => [] end in
  insert mk (insert p b cur) vp.

Definition cw_add (mk w : string) (cw : smap (list string)) : smap (list string) :=
  let cur := match lookup mk cw with Some l => l | None => [] end in
  insert mk (cur +++ [w]) cw.

Definition path_warning (p : string) : string := "path " ++ p ++ " is taken by another resource".

Definition minion_path (i : ingress) (s : mstate) (p : string) : mstate :=
  let mk := mkey (i_meta i) in
  match lookup p (ms_paths s) with
  | None => mkMS (insert p (mk, i_meta i) (ms_paths s)) (vp_set mk p true (ms_vp s)) (ms_cw s)
  | Some holder =>
      (* the same minion lists the path again: nothing happens *)
      if String.eqb (fst holder) mk then s
      else if negb (wins (snd holder) (i_meta i)) then
        mkMS (insert p (mk, i_meta i) (ms_paths s))
             (vp_set (fst holder) p false (vp_set mk p true (ms_vp s)))
             (cw_add (fst holder) (path_warning p) (ms_cw s))
      else
        mkMS (ms_paths s) (ms_vp s) (cw_add mk (path_warning p) (ms_cw s))
  end.

Definition minions_of (is_ : smap ingress) (master_host : string) : list ingress :=
  filter_map (fun kv => let i := snd kv in
                        if is_minion i && String.eqb master_host (host0 i) then Some i else None) is_.

Definition build_minions (is_ : smap ingress) (master_host : string) : list minion_cfg * smap (list string) :=
  let ms := minions_of is_ master_host in
  let s := fold_left (fun s i => fold_left (minion_path i) (i_paths i) s) ms (mkMS [] [] []) in
  (map (fun i => mkMC i (match lookup (mkey (i_meta i)) (ms_vp s) with Some m => m | None => [] end)) ms,
   ms_cw s).

(* ---------- VirtualServerRoutes (buildVirtualServerRoutes) ---------- *)

Definition is_regex_or_exact (p : string) : bool := starts_with "~"%char p || starts_with "="%char p.

(* ValidateVirtualServerRouteForVirtualServer on a route that already passed ValidateVirtualServerRoute *)
Definition vsr_ok_for (r : vsroute) (vs_host path : string) : bool :=
  (String.eqb vs_host "" || String.eqb (r_host r) vs_host) &&
  (if is_regex_or_exact path then
     match r_subpaths r with [p] => String.eqb p path | _ => false end
   else
     String.eqb path "" || forallb (fun p => String.prefix path p) (r_subpaths r)).

Definition route_key (v : vserver) (route : string) : string :=
  if has_char "/"%char route then route else m_ns (v_meta v) ++ "/" ++ route.

(* buildVirtualServerRoutes: the routes of the VirtualServer are visited in order; a reference to a
   VirtualServerRoute that is already attached is skipped with a warning ([seen] = the keys attached so
   far), so that a VirtualServerRoute is attached at most once *)
Fixpoint build_vsrs_k (rs : smap vsroute) (v : vserver) (seen : list string) (routes : list (string * string))
  : list (string * vsroute) * list string :=
  match routes with
  | [] => ([], [])
  | (path, route) :: rest =>
      if String.eqb route "" then build_vsrs_k rs v seen rest
      else
        let k := route_key v route in
        if existsb (String.eqb k) seen then
          let '(l, w) := build_vsrs_k rs v seen rest in
          (l, ("VirtualServerRoute " ++ k ++ " is referenced by more than one route; the reference in the route " ++ path ++ " is ignored") :: w)
        else
          match lookup k rs with
          | None => let '(l, w) := build_vsrs_k rs v seen rest in
                    (l, ("VirtualServerRoute " ++ k ++ " doesn't exist or invalid") :: w)
          | Some r => if vsr_ok_for r (v_host v) path
                      then let '(l, w) := build_vsrs_k rs v (k :: seen) rest in ((k, r) :: l, w)
                      else let '(l, w) := build_vsrs_k rs v seen rest in
                           (l, ("VirtualServerRoute " ++ k ++ " is invalid") :: w)
          end
  end.

Definition build_vsrs (rs : smap vsroute) (v : vserver) (routes : list (string * string))
  : list vsroute * list string :=
  let '(l, w) := build_vsrs_k rs v [] routes in (map snd l, w).

(* convertIngressToVSR: the route carries the namespace, the name and the generation of the Ingress *)
Definition challenge_vsr (i : ingress) : vsroute :=
  mkVSR (mkMeta (m_ns (i_meta i)) (m_name (i_meta i)) "" 0 (m_gen (i_meta i)) 0) (host0 i) [hd "" (i_paths i)].

Definition challenge_vsrs (c : cfg) (vss : smap vserver) (is_ : smap ingress) : list vsroute :=
  filter_map (fun kv => let i := snd kv in
                        if negb (is_minion i) && converted c vss i then Some (challenge_vsr i) else None) is_.

(* ---------- listeners for a VirtualServer ---------- *)

Fixpoint find_listener (name : string) (ls : list listener) (acc : option listener) : option listener :=
  match ls with
  | [] => acc
  | l :: r => find_listener name r (if String.eqb (l_name l) name then Some l else acc)
  end.

(* listenerMap[name]: the last listener of that name *)
Definition listener_map (g : option (list listener)) (name : string) : option listener :=
  match g with None => None | Some ls => find_listener name ls None end.

Definition assign (g : option (list listener)) (name : string) (ssl : bool) : Z * string * string :=
  match listener_map g name with
  | Some l => if String.eqb (l_proto l) "HTTP" && Bool.eqb (l_ssl l) ssl
              then (l_port l, l_ipv4 l, l_ipv6 l) else (0, "", "")
  | None => (0, "", "")
  end.

Definition build_vs_cfg (g : option (list listener)) (v : vserver) (rl : list vsroute) (w : list string) : vs_cfg :=
  match v_listener v, g with
  | Some (http, https), Some _ =>
      let '(p1, a4, a6) := assign g http false in
      let '(p2, b4, b6) := assign g https true in
      mkVC v rl w p1 p2 a4 a6 b4 b6
  | _, _ => mkVC v rl w 0 0 "" "" "" ""
  end.

(* addWarningsForVirtualServersWithMissConfiguredListeners: at most one warning per VS,
   addressed to whoever holds the VS's host *)
Definition in_correct_block (g : option (list listener)) (name : string) (expected_ssl : bool) : bool :=
  match listener_map g name with
  | Some l => Bool.eqb (l_ssl l) expected_ssl
  | None => true
  end.

Definition listener_warning (g : option (list listener)) (v : vserver) : option string :=
  match v_listener v with
  | None => None
  | Some (http, https) =>
      match g with
      | None => Some "Listeners defined, but no GlobalConfiguration is deployed"
      | Some _ =>
          if negb (in_correct_block g http false) then
            Some ("Listener " ++ http ++ " can't be use in `listener.http` context as SSL is enabled for that listener.")
          else if negb (in_correct_block g https true) then
            Some ("Listener " ++ https ++ " can't be use in `listener.https` context as SSL is not enabled for that listener.")
          else if negb (String.eqb http "") && match listener_map g http with None => true | Some _ => false end then
            Some ("Listener " ++ http ++ " is not defined in GlobalConfiguration")
          else if negb (String.eqb https "") && match listener_map g https with None => true | Some _ => false end then
            Some ("Listener " ++ https ++ " is not defined in GlobalConfiguration")
          else None
      end
  end.

(* ---------- rebuildHosts: the new hosts map and all resources, in final form ---------- *)

Definition valid_hosts_of (hs : smap hold) (i : ingress) : smap bool :=
  fold_left (fun m h => insert h (match lookup h hs with
                                  | Some y => String.eqb (fst y) (ing_rkey i)
                                  | None => false end) m) (i_hosts i) [].

Record built := mkBuilt { b_hosts : smap resource; b_res : smap resource }.

Definition build (c : cfg) (is_ : smap ingress) (vss : smap vserver) (rs : smap vsroute)
           (tss : smap tserver) (g : option (list listener)) : built :=
  let cs := all_claims c is_ vss tss in
  let '(hs, claim_ws) := run_claims host_warning [] cs in
  let chal := challenge_vsrs c vss is_ in
  (* listener warnings go to the holder of the VS's host *)
  let lws := filter_map (fun kv => let v := snd kv in
                                   match listener_warning g v, lookup (v_host v) hs with
                                   | Some w, Some y => Some (fst y, w)
                                   | _, _ => None end) vss in
  let ws := claim_ws +++ lws in
  let ing_res := filter_map (fun kv =>
      let i := snd kv in
      if ing_claims_hosts c vss i then
        let '(mins, cw) := if is_master i then build_minions is_ (host0 i) else ([], []) in
        Some (ing_rkey i, RIng (mkIC i (is_master i) mins (valid_hosts_of hs i) (warnings_for (ing_rkey i) ws) cw))
      else None) is_ in
  let vs_res := map (fun kv =>
      let v := snd kv in
      let '(rl, w) := build_vsrs rs v (v_routes v) in
      let rl' := rl +++ filter (fun r => String.eqb (v_host v) (r_host r)) chal in
      let vc := build_vs_cfg g v rl' w in
      (vs_rkey v, RVS (mkVC (vc_vs vc) (vc_vsrs vc) (w +++ warnings_for (vs_rkey v) ws)
                            (vc_http_port vc) (vc_https_port vc) (vc_http4 vc) (vc_http6 vc) (vc_https4 vc) (vc_https6 vc)))) vss in
  let ts_res := if tls_passthrough c then
      filter_map (fun kv => let t := snd kv in
                            if is_passthrough t
                            then Some (ts_rkey t, RTS (mkTC t 0 "" "" (warnings_for (ts_rkey t) ws))) else None) tss
      else [] in
  let res := of_list (ing_res +++ vs_res +++ ts_res) in
  let hosts := filter_map (fun kv => match lookup (fst (snd kv)) res with
                                     | Some r => Some (fst kv, r) | None => None end) hs in
  mkBuilt hosts res.

(* ---------- IsEqual ---------- *)

Definition meta_eq (a b : meta) : bool :=
  String.eqb (m_ns a) (m_ns b) && String.eqb (m_name a) (m_name b) && String.eqb (m_uid a) (m_uid b) && (m_gen a =? m_gen b).
Definition meta_eq_ann (a b : meta) : bool := meta_eq a b && (m_ann a =? m_ann b).

Fixpoint all2 {A} (f : A -> A -> bool) (l1 l2 : list A) : bool :=
  match l1, l2 with
  | [], [] => true
  | a :: r1, b :: r2 => f a b && all2 f r1 r2
  | _, _ => false
  end.

Definition smap_bool_eqb (a b : smap bool) : bool :=
  all2 (fun x y => String.eqb (fst x) (fst y) && Bool.eqb (snd x) (snd y)) a b.

Definition is_equal (a b : resource) : bool :=
  match a, b with
  | RIng x, RIng y =>
      meta_eq_ann (i_meta (ic_ing x)) (i_meta (ic_ing y)) &&
      smap_bool_eqb (ic_valid_hosts x) (ic_valid_hosts y) &&
      Bool.eqb (ic_master x) (ic_master y) &&
      all2 (fun m n => meta_eq_ann (i_meta (mc_ing m)) (i_meta (mc_ing n))) (ic_minions x) (ic_minions y)
  | RVS x, RVS y =>
      meta_eq (v_meta (vc_vs x)) (v_meta (vc_vs y)) &&
      all2 (fun m n => meta_eq (r_meta m) (r_meta n)) (vc_vsrs x) (vc_vsrs y)
  | RTS x, RTS y =>
      meta_eq (t_meta (tc_ts x)) (t_meta (tc_ts y)) && (tc_port x =? tc_port y) &&
      String.eqb (tc_ipv4 x) (tc_ipv4 y) && String.eqb (tc_ipv6 x) (tc_ipv6 y)
  | _, _ => false
  end.

(* ---------- change detection ---------- *)

Definition removed_keys {A B} (old : smap A) (new : smap B) : list string :=
  filter (fun k => negb (mem k new)) (keys old).
Definition added_keys {A B} (old : smap A) (new : smap B) : list string :=
  filter (fun k => negb (mem k old)) (keys new).

Definition updated_hosts (old new : smap resource) : list string :=
  flat_map (fun kv =>
    let h := fst kv in let nr := snd kv in
    match lookup h old with
    | None => []
    | Some orr =>
        if negb (is_equal orr nr) then [h]
        else match nr, orr with
             | RVS n, RVS o =>
                 (if negb (vc_http_port n =? vc_http_port o) || negb (vc_https_port n =? vc_https_port o) then [h] else []) +++
                 (if negb (String.eqb (vc_http4 n) (vc_http4 o)) then [h] else []) +++
                 (if negb (String.eqb (vc_http6 n) (vc_http6 o)) then [h] else []) +++
                 (if negb (String.eqb (vc_https4 n) (vc_https4 o)) then [h] else []) +++
                 (if negb (String.eqb (vc_https6 n) (vc_https6 o)) then [h] else [])
             | _, _ => []
             end
    end) new.

Definition get {A} (d : A) (k : string) (m : smap A) : A :=
  match lookup k m with Some x => x | None => d end.

(* createResourceChangesForHosts / ...ForListeners *)
Definition create_changes (rkey_of : resource -> string) (removed updated added : list string)
           (old new : smap resource) : list change :=
  let dels1 := filter_map (fun h => match lookup h old with Some r => Some (mkCh Delete r false) | None => None end) removed in
  let dels2 := filter_map (fun h => match lookup h old, lookup h new with
                                    | Some o, Some n => if negb (String.eqb (rkey_of o) (rkey_of n))
                                                        then Some (mkCh Delete o false) else None
                                    | _, _ => None end) updated in
  let upds := filter_map (fun h => match lookup h new with Some r => Some (mkCh AddOrUpdate r false) | None => None end) updated in
  let adds := filter_map (fun h => match lookup h new with Some r => Some (mkCh AddOrUpdate r false) | None => None end) added in
  (* Go appends deletes of removed hosts, then per updated host (delete?, update) split into the two lists *)
  (dels1 +++ dels2) +++ (upds +++ adds).

(* squashResourceChanges *)
Fixpoint last_change_for (k : string) (cs : list change) (acc : option change) : option change :=
  match cs with
  | [] => acc
  | c :: r => last_change_for k r (if String.eqb (rkey (c_res c)) k then Some c else acc)
  end.

Fixpoint squash_go (all_ : list change) (cs : list change) (seen : list string) : list change * list change :=
  match cs with
  | [] => ([], [])
  | c :: r =>
      let k := rkey (c_res c) in
      if existsb (String.eqb k) seen then squash_go all_ r seen
      else
        let '(ds, us) := squash_go all_ r (k :: seen) in
        match last_change_for k all_ None with
        | Some s => match c_op s with Delete => (s :: ds, us) | AddOrUpdate => (ds, s :: us) end
        | None => (ds, us)
        end
  end.

Definition squash (cs : list change) : list change :=
  let '(ds, us) := squash_go cs cs [] in ds +++ us.

Definition repoint (res : smap resource) (cs : list change) : list change :=
  map (fun c => match lookup (rkey (c_res c)) res with
                | Some r => mkCh (c_op c) r (c_err c)
                | None => c end) cs.

(* ---------- problems ---------- *)

Definition rejected : string := "Rejected".

Definition any_true (m : smap bool) : bool := existsb (fun kv => snd kv) m.

Definition holder_key (hosts : smap resource) (h : string) : string :=
  match lookup h hosts with Some r => rkey r | None => "" end.

Definition problems_no_host (hosts res : smap resource) : list (string * problem) :=
  filter_map (fun kv =>
    let k := fst kv in
    let u := m_uid (res_meta (snd kv)) in
    match snd kv with
    | RIng c => if negb (any_true (ic_valid_hosts c))
                then Some (k, mkP k u false rejected "All hosts are taken by other resources") else None
    | RVS c => if negb (String.eqb (holder_key hosts (v_host (vc_vs c))) k)
               then Some (k, mkP k u false rejected "Host is taken by another resource") else None
    | RTS c => if negb (String.eqb (holder_key hosts (t_host (tc_ts c))) k)
               then Some (k, mkP k u false rejected "Host is taken by another resource") else None
    end) res.

Definition problems_orphan_minions (hosts : smap resource) (is_ : smap ingress) : list (string * problem) :=
  filter_map (fun kv =>
    let i := snd kv in
    if is_minion i then
      let ok := match lookup (host0 i) hosts with
                | Some (RIng c) => ic_master c
                | _ => false end in
      if ok then None
      else Some (ing_rkey i, mkP (ing_rkey i) (m_uid (i_meta i)) false "NoIngressMasterFound" "Ingress master is invalid or doesn't exist")
    else None) is_.

Definition problems_vsrs (hosts : smap resource) (rs : smap vsroute) : list (string * problem) :=
  filter_map (fun kv =>
    let r := snd kv in
    match lookup (r_host r) hosts with
    | Some (RVS c) =>
        if existsb (fun x => String.eqb (m_ns (r_meta x)) (m_ns (r_meta r)) &&
                             String.eqb (m_name (r_meta x)) (m_name (r_meta r))) (vc_vsrs c)
        then None
        else Some (vsr_pkey r, mkP (vsr_pkey r) (m_uid (r_meta r)) false "Ignored"
                                   ("VirtualServer " ++ mkey (v_meta (vc_vs c)) ++ " ignores VirtualServerRoute"))
    | _ => Some (vsr_pkey r, mkP (vsr_pkey r) (m_uid (r_meta r)) false "NoVirtualServerFound" "VirtualServer is invalid or doesn't exist")
    end) rs.

Definition problem_delta (new old : smap problem) : list problem :=
  filter_map (fun kv => match lookup (fst kv) old with
                        | None => Some (snd kv)
                        | Some o => if problem_eqb (snd kv) o then None else Some (snd kv)
                        end) new.

(* ---------- rebuildHosts ---------- *)

Definition rebuild_hosts (c : cfg) (s : state) : state * list change * list problem :=
  let b := build c (ings s) (vss s) (vsrs s) (tss s) (gc s) in
  let old := hosts s in let new := b_hosts b in
  let chs := create_changes rkey (removed_keys old new) (updated_hosts old new) (added_keys old new) old new in
  let chs := repoint (b_res b) (squash chs) in
  let probs := of_list (problems_no_host new (b_res b) +++ problems_orphan_minions new (ings s) +++ problems_vsrs new (vsrs s)) in
  (mkSt (ings s) (vss s) (vsrs s) (tss s) (gc s) new (lhosts s) probs (lprobs s), chs, problem_delta probs (hprobs s)).

(* ---------- listener hosts (buildListenerHostsAndTSConfigurations) ---------- *)

Definition lkey (lname host : string) : string := lname ++ "|" ++ host.

Fixpoint first_listener (name proto : string) (ls : list listener) : option listener :=
  match ls with
  | [] => None
  | l :: r => if String.eqb name (l_name l) && String.eqb proto (l_proto l) then Some l else first_listener name proto r
  end.

Definition ts_listener (g : option (list listener)) (t : tserver) : option listener :=
  match g with None => None | Some ls => first_listener (t_lname t) (t_proto t) ls end.

Definition is_listener_ts (t : tserver) : bool := negb (String.eqb (t_proto t) "TLS_PASSTHROUGH").

Definition lclaims (g : option (list listener)) (tss : smap tserver) : list (string * hold) :=
  filter_map (fun kv => let t := snd kv in
                        if is_listener_ts t then
                          match ts_listener g t with
                          | Some l => Some (lkey (l_name l) (t_host t), (ts_rkey t, t_meta t))
                          | None => None end
                        else None) tss.

Definition lwarning (k : string) : string := "listener|host " ++ k ++ " is taken by another resource".

Record lbuilt := mkLB { lb_hosts : smap ts_cfg; lb_cfgs : list ts_cfg }.

Definition build_listeners (g : option (list listener)) (tss : smap tserver) : lbuilt :=
  let '(hs, ws) := run_claims lwarning [] (lclaims g tss) in
  let cfgs := filter_map (fun kv =>
      let t := snd kv in
      if is_listener_ts t then
        Some (match ts_listener g t with
              | Some l => mkTC t (l_port l) (l_ipv4 l) (l_ipv6 l) (warnings_for (ts_rkey t) ws)
              | None => mkTC t 0 "" "" []
              end)
      else None) tss in
  let by_key := of_list (map (fun c => (ts_rkey (tc_ts c), c)) cfgs) in
  mkLB (filter_map (fun kv => match lookup (fst (snd kv)) by_key with
                              | Some c => Some (fst kv, c) | None => None end) hs) cfgs.

Definition ts_is_equal (a b : ts_cfg) : bool := is_equal (RTS a) (RTS b).

Definition updated_lhosts (old new : smap ts_cfg) : list string :=
  filter_map (fun kv => match lookup (fst kv) old with
                        | Some o => if negb (ts_is_equal o (snd kv)) then Some (fst kv) else None
                        | None => None end) new.

Definition listener_problems (lh : smap ts_cfg) (cfgs : list ts_cfg) : list (string * problem) :=
  filter_map (fun c =>
    let t := tc_ts c in
    let k := ts_rkey t in
    let hostdesc := if String.eqb (t_host t) "" then "empty host" else t_host t in
    match lookup (lkey (t_lname t) (t_host t)) lh with
    | None => Some (k, mkP k (m_uid (t_meta t)) false rejected ("Listener " ++ t_lname t ++ " doesn't exist"))
    | Some holder =>
        if negb (ts_is_equal c holder)
        then Some (k, mkP k (m_uid (t_meta t)) false rejected ("Listener " ++ t_lname t ++ " with host " ++ hostdesc ++ " is taken by another resource"))
        else None
    end) cfgs.

Definition rebuild_listeners (s : state) : state * list change * list problem :=
  let b := build_listeners (gc s) (tss s) in
  let old := smap_map RTS (lhosts s) in let new := smap_map RTS (lb_hosts b) in
  let chs := create_changes rkey (removed_keys old new) (updated_lhosts (lhosts s) (lb_hosts b)) (added_keys old new) old new in
  (* the re-pointing loop of rebuildListenerHosts looks newTSConfigs up by key-with-kind while the map is
     keyed by ns/name, so it never finds anything: changes keep the configuration they were created with *)
  let chs := squash chs in
  let probs := of_list (listener_problems (lb_hosts b) (lb_cfgs b)) in
  (mkSt (ings s) (vss s) (vsrs s) (tss s) (gc s) (hosts s) (lb_hosts b) (hprobs s) probs, chs, problem_delta probs (lprobs s)).

(* ---------- entry points ---------- *)

Definition set_ings (s : state) (m : smap ingress) := mkSt m (vss s) (vsrs s) (tss s) (gc s) (hosts s) (lhosts s) (hprobs s) (lprobs s).
Definition set_vss (s : state) (m : smap vserver) := mkSt (ings s) m (vsrs s) (tss s) (gc s) (hosts s) (lhosts s) (hprobs s) (lprobs s).
Definition set_vsrs (s : state) (m : smap vsroute) := mkSt (ings s) (vss s) m (tss s) (gc s) (hosts s) (lhosts s) (hprobs s) (lprobs s).
Definition set_tss (s : state) (m : smap tserver) := mkSt (ings s) (vss s) (vsrs s) m (gc s) (hosts s) (lhosts s) (hprobs s) (lprobs s).
Definition set_gc (s : state) (g : option (list listener)) := mkSt (ings s) (vss s) (vsrs s) (tss s) g (hosts s) (lhosts s) (hprobs s) (lprobs s).

(* attach the validation error to the first change about the object, else raise a problem *)
Fixpoint attach_error (k : string) (cs : list change) : option (list change) :=
  match cs with
  | [] => None
  | c :: r => if String.eqb (rkey (c_res c)) k then Some (mkCh (c_op c) (c_res c) true :: r)
              else match attach_error k r with Some r' => Some (c :: r') | None => None end
  end.

Definition with_validation_error (invalid : bool) (k u : string) (out : state * list change * list problem)
  : state * list change * list problem :=
  let '(s, cs, ps) := out in
  if invalid then
    match attach_error k cs with
    | Some cs' => (s, cs', ps)
    | None => (s, cs, ps +++ [mkP k u true rejected "invalid"])
    end
  else out.

(* orderDeletesFirst: stable partition, deletes before addOrUpdates *)
Definition is_delete (c : change) : bool := match c_op c with Delete => true | AddOrUpdate => false end.
Definition order_deletes_first (cs : list change) : list change :=
  filter is_delete cs +++ filter (fun c => negb (is_delete c)) cs.

Definition rebuild_ts (c : cfg) (s : state) : state * list change * list problem :=
  let '(s1, c1, p1) := rebuild_listeners s in
  if tls_passthrough c then
    let '(s2, c2, p2) := rebuild_hosts c s1 in (s2, order_deletes_first (c1 +++ c2), p1 +++ p2)
  else (s1, c1, p1).

Definition rebuild_gc (c : cfg) (s : state) : state * list change * list problem :=
  let '(s1, c1, p1) := rebuild_listeners s in
  let '(s2, c2, p2) := rebuild_hosts c s1 in (s2, order_deletes_first (c1 +++ c2), p1 +++ p2).

Definition step (c : cfg) (s : state) (e : event) : state * list change * list problem :=
  match e with
  | EIng i cls valid =>
      let k := mkey (i_meta i) in
      let s' := set_ings s (if cls && valid then insert k i (ings s) else remove k (ings s)) in
      with_validation_error (cls && negb valid) (ing_rkey i) (m_uid (i_meta i)) (rebuild_hosts c s')
  | EDelIng k =>
      if mem k (ings s) then rebuild_hosts c (set_ings s (remove k (ings s))) else (s, [], [])
  | EVS v cls valid =>
      let k := mkey (v_meta v) in
      let s' := set_vss s (if cls && valid then insert k v (vss s) else remove k (vss s)) in
      with_validation_error (cls && negb valid) (vs_rkey v) (m_uid (v_meta v)) (rebuild_hosts c s')
  | EDelVS k =>
      if mem k (vss s) then rebuild_hosts c (set_vss s (remove k (vss s))) else (s, [], [])
  | EVSR r cls valid =>
      let k := mkey (r_meta r) in
      let s' := set_vsrs s (if cls && valid then insert k r (vsrs s) else remove k (vsrs s)) in
      let '(s2, cs, ps) := rebuild_hosts c s' in
      (s2, cs, if cls && negb valid then ps +++ [mkP (vsr_pkey r) (m_uid (r_meta r)) true rejected "invalid"] else ps)
  | EDelVSR k =>
      if mem k (vsrs s) then rebuild_hosts c (set_vsrs s (remove k (vsrs s))) else (s, [], [])
  | ETS t cls valid =>
      let k := mkey (t_meta t) in
      let s' := set_tss s (if cls && valid then insert k t (tss s) else remove k (tss s)) in
      with_validation_error (cls && negb valid) (ts_rkey t) (m_uid (t_meta t)) (rebuild_ts c s')
  | EDelTS k =>
      if mem k (tss s) then rebuild_ts c (set_tss s (remove k (tss s))) else (s, [], [])
  | EGC ls _ => rebuild_gc c (set_gc s (Some ls))
  | EDelGC => rebuild_gc c (set_gc s None)
  end.

Definition step_state (c : cfg) (s : state) (e : event) : state := fst (fst (step c s e)).

Definition run (c : cfg) (es : list event) : state := fold_left (step_state c) es init.

(* GetResources: hosts and listener hosts, by key with kind, sorted *)
Definition get_resources (s : state) : smap resource :=
  of_list (map (fun kv => (rkey (snd kv), snd kv)) (hosts s) +++
           map (fun kv => (rkey (RTS (snd kv)), RTS (snd kv))) (lhosts s)).
