(* C14 -- Upstream servers are exactly the ready endpoints of the referenced service port.
   Only statements, each closed by [exact], each followed by Print Assumptions.
   Every statement is for arbitrary clusters: unbounded lists of services, ports, slices,
   slice ports, endpoints, addresses and pods, in any order (the pod list is in the order
   the lister returned it, i.e. any order). *)
From Coq Require Import List ZArith String Bool Permutation.
From NIC Require Import Endpoints.Model Endpoints.Spec Endpoints.Proofs.
Import ListNotations.
Open Scope string_scope.
Open Scope Z_scope.

(* [fx : Fixes] is the code variant: for each of the proposed repairs F40 / F41 / F42 whether the
   tree contains it ([repaired] = all, [legacy] = none).  The theorems are proved for every
   variant; where a repair removes a premise the premise reads  fx4x fx = true \/ <old premise>.
   The check reads the variant of the tree under test off the corpus witnesses on every run.

   Ingress, VirtualServer(Route) and TransportServer backends (getEndpointsForIngressBackend /
   getEndpointsForUpstream).  When the call returns endpoints l for a non-ExternalName service:
   the service is the referenced one; the service port is the referenced one (with F40, or under [unnamed_ok]:
   an unnamed service port carries the number the backend asks for -- refuted without it, see
   C14_port_match_refuted); P is what that port's target maps to (its own number when unset, the
   number, or for a name the container port of that name of the first listed pod); and the
   addresses are, as a set, exactly  join a P  for the addresses a of endpoints with
   ready = Some true in slices labelled with this service (same namespace) that expose a port
   numbered P -- so nothing of another service, another port number, a not-ready or unknown
   endpoint.  The result is not empty, has no duplicate (address, pod) pair, and no duplicate
   address when equal addresses name equal pods (refuted without it: C14_each_once_refuted). *)
Theorem C14_exact :
  forall fx plus c ns name bp l,
    resolve fx plus c ns name bp = Ok (l, false) ->
    exists svc sp P,
      find_svc c ns name = Some svc /\ s_ns svc = ns /\ s_name svc = name /\
      find_svc_port fx bp (s_ports svc) = Some sp /\
      (fx40 fx = true \/ unnamed_ok bp svc -> spec_ref_port bp (s_ports svc) = Some sp) /\
      target_resolves c svc sp P /\ P <> 0 /\
      l <> [] /\ NoDup l /\
      (forall x, In x (map fst l) <->
         exists sl e a,
           In sl (c_slices c) /\ sl_svc sl = s_name svc /\ sl_ns sl = s_ns svc /\
           (exists p, In p (sl_ports sl) /\ slp_num p = Some P) /\
           In e (sl_eps sl) /\ e_ready e = Some true /\ In a (e_addrs e) /\
           x = join a P) /\
      (refs_functional c svc P -> NoDup (map fst l)).
Proof. exact resolve_exact. Qed.
Print Assumptions C14_exact.

(* IPv6: the address is bracketed exactly when it contains a colon, and join is injective in
   the address, so distinct addresses are distinct servers. *)
Theorem C14_bracketed :
  forall a P,
    (has_colon a = true -> join a P = "[" ++ a ++ "]:" ++ show_Z P) /\
    (has_colon a = false -> join a P = a ++ ":" ++ show_Z P).
Proof. exact join_bracketed. Qed.
Print Assumptions C14_bracketed.

Theorem C14_join_injective : forall a b P, join a P = join b P -> a = b.
Proof. exact join_inj. Qed.
Print Assumptions C14_join_injective.

(* An address whose every listing (in the slices of this service that expose P) is not
   ready = Some true -- not ready, unknown, or listed only by other services / other port
   numbers -- never receives traffic. *)
Theorem C14_never_serves_unready_or_foreign :
  forall fx plus c ns name bp l a,
    resolve fx plus c ns name bp = Ok (l, false) ->
    forall svc sp P,
      find_svc c ns name = Some svc -> find_svc_port fx bp (s_ports svc) = Some sp -> target_resolves c svc sp P ->
      (forall sl e, In sl (c_slices c) -> sl_svc sl = s_name svc -> sl_ns sl = s_ns svc -> has_port_num sl P ->
                    In e (sl_eps sl) -> In a (e_addrs e) -> e_ready e <> Some true) ->
      ~ In (join a P) (map fst l).
Proof. exact resolve_never_serves. Qed.
Print Assumptions C14_never_serves_unready_or_foreign.

(* Sub-selected upstreams (getEndpointsForSubselector): additionally the address is the IP of a
   pod of the namespace that carries the service selector merged with the sub-selector; the
   port is matched by number only. *)
Theorem C14_exact_subselector :
  forall c ns name port sub l,
    resolve_sub c ns name port sub = Ok l ->
    exists svc sp P,
      find_svc c ns name = Some svc /\ s_ns svc = ns /\ s_name svc = name /\
      find (fun p => sp_port p =? port) (s_ports svc) = Some sp /\ sp_port sp = port /\
      target_resolves c svc sp P /\ P <> 0 /\
      NoDup l /\
      (forall x, In x (map fst l) <->
         exists sl e a pod,
           In sl (c_slices c) /\ sl_svc sl = s_name svc /\ sl_ns sl = s_ns svc /\
           (exists p, In p (sl_ports sl) /\ slp_num p = Some P) /\
           In e (sl_eps sl) /\ e_ready e = Some true /\ In a (e_addrs e) /\
           In pod (c_pods c) /\ p_ns pod = s_ns svc /\
           sel_matches (merge_labels (s_selector svc) sub) (p_labels pod) = true /\ p_ip pod = a /\
           x = join a P).
Proof. exact resolve_sub_exact. Qed.
Print Assumptions C14_exact_subselector.

(* Cluster-IP mode (Ingress annotation, VirtualServer and -- with fix F17 -- VirtualServerRoute
   upstreams): the entry is the single server  join clusterIP port  of the referenced service
   port, bracketed like every other address. *)
Theorem C14_cluster_ip :
  forall fx plus c ns b svc sp,
    b_clusterip b = true -> b_kind b <> KTS -> backend_port_wf b ->
    find_svc c ns (b_svc b) = Some svc ->
    is_external (resolve fx plus c ns (b_svc b) (b_port b)) = false ->
    spec_ref_port (b_port b) (s_ports svc) = Some sp ->
    endpoints_entry fx plus c ns b = ([join (s_clusterIP svc) (sp_port sp)], false).
Proof. exact cluster_ip_entry. Qed.
Print Assumptions C14_cluster_ip.

(* ExternalName services (NGINX Plus only, and only without slices): the DNS name and the
   backend port number. *)
Theorem C14_external_name :
  forall fx plus c ns name bp l,
    resolve fx plus c ns name bp = Ok (l, true) ->
    exists svc port, find_svc c ns name = Some svc /\ s_type svc = ExternalNameT /\ svc_slices c svc = [] /\
                plus = true /\ l = [(join_plain (s_extname svc) port, "")] /\
                (fx42 fx = false \/ bp_name bp = "" -> port = bp_num bp) /\
                (fx42 fx = true -> bp_name bp <> "" ->
                 exists sp, find_svc_port fx bp (s_ports svc) = Some sp /\ port = sp_port sp).
Proof. exact resolve_external. Qed.
Print Assumptions C14_external_name.

(* The Endpoints entry of the extended resource is that result (no cluster-IP mode). *)
Theorem C14_entry_is_resolution :
  forall fx plus c ns b,
    b_clusterip b = false -> b_subsel b = [] ->
    endpoints_entry fx plus c ns b =
      (addrs_of fx (resolve fx plus c ns (b_svc b) (b_port b)),
       is_external (resolve fx plus c ns (b_svc b) (b_port b)) && plus).
Proof. exact entry_is_resolution. Qed.
Print Assumptions C14_entry_is_resolution.

Theorem C14_entry_is_sub_resolution :
  forall fx plus c ns b,
    b_clusterip b = false -> b_subsel b <> [] -> (b_kind b = KVS \/ b_kind b = KVSR) ->
    fst (endpoints_entry fx plus c ns b) =
      match resolve_sub c ns (b_svc b) (bp_num (b_port b)) (b_subsel b) with Ok l => addr_list fx l | Err _ => [] end.
Proof. exact entry_is_sub_resolution. Qed.
Print Assumptions C14_entry_is_sub_resolution.

(* With no usable endpoint the call fails (so the entry is empty) ... *)
Theorem C14_no_usable_endpoint_fails :
  forall fx plus c ns name bp svc sp P,
    find_svc c ns name = Some svc -> svc_slices c svc <> [] ->
    find_svc_port fx bp (s_ports svc) = Some sp -> target_resolves c svc sp P ->
    (forall x, ~ ideal_member c svc P x) ->
    exists e, resolve fx plus c ns name bp = Err e.
Proof. exact resolve_nothing_usable. Qed.
Print Assumptions C14_no_usable_endpoint_fails.

(* ... and an empty entry (or an ExternalName service without a resolver) is rendered as the
   upstream block with exactly one placeholder server that answers with an error (NGINX Plus:
   an upstream with a zone and no server, which answers 502 by itself); the upstream block of
   NGINX OSS is never empty; a non-empty usable entry is rendered as it is. *)
Theorem C14_empty_is_error_backend :
  forall plus resolver k entry,
    (snd entry = true -> plus = true) ->
    (fst entry = [] \/ (snd entry = true /\ resolver = false)) ->
    rendered plus resolver k entry = if plus then [] else [placeholder k].
Proof. exact rendered_placeholder. Qed.
Print Assumptions C14_empty_is_error_backend.

Theorem C14_external_flag_only_plus :
  forall fx plus c ns b, snd (endpoints_entry fx plus c ns b) = true -> plus = true.
Proof. exact entry_external_only_plus. Qed.
Print Assumptions C14_external_flag_only_plus.

Theorem C14_upstream_never_empty_oss :
  forall resolver k entry, snd entry = false -> rendered false resolver k entry <> [].
Proof. exact rendered_never_empty_oss. Qed.
Print Assumptions C14_upstream_never_empty_oss.

Theorem C14_servers_are_the_entry :
  forall plus resolver k entry,
    fst entry <> [] -> (snd entry = false \/ resolver = true) ->
    rendered plus resolver k entry = fst entry.
Proof. exact rendered_entry. Qed.
Print Assumptions C14_servers_are_the_entry.

(* The check S evaluated on the implementation's own output decides exactly these sets ... *)
Theorem C14_spec_decides :
  forall c svc P obs,
    exact_ok (ideal_num c svc P) obs = true <->
    NoDup obs /\ (forall x, In x obs <-> ideal_member c svc P x).
Proof. exact spec_decides_num. Qed.
Print Assumptions C14_spec_decides.

Theorem C14_spec_decides_by_name :
  forall c svc pname obs,
    exact_ok (ideal_name c svc pname) obs = true <->
    NoDup obs /\ (forall x, In x obs <-> ideal_member_by_name c svc pname x).
Proof. exact spec_decides_name. Qed.
Print Assumptions C14_spec_decides_by_name.

Theorem C14_spec_decides_subselector :
  forall c svc sub P obs,
    exact_ok (ideal_sub c svc sub P) obs = true <->
    NoDup obs /\ (forall x, In x obs <-> ideal_member_sub c svc sub P x).
Proof. exact spec_decides_sub. Qed.
Print Assumptions C14_spec_decides_subselector.

(* ... and the model passes it on every cluster for numeric and defaulted target ports under the
   two premises of C14_exact. *)
Theorem C14_model_meets_spec :
  forall fx plus c ns b svc sp,
    b_clusterip b = false -> b_subsel b = [] ->
    find_svc c ns (b_svc b) = Some svc ->
    (s_type svc = ClusterIPT \/ svc_slices c svc <> []) ->
    (fx40 fx = true \/ unnamed_ok (b_port b) svc) ->
    spec_ref_port (b_port b) (s_ports svc) = Some sp ->
    (match sp_target sp with TUnset => sp_port sp <> 0 | TNum n => n <> 0 | TNamed _ => False end) ->
    (fx41 fx = true \/ forall P, refs_functional c svc P) ->
    exists ideal, ideal_entry plus c ns b = IExact ideal /\
                  exact_ok ideal (fst (endpoints_entry fx plus c ns b)) = true.
Proof. exact entry_meets_ideal. Qed.
Print Assumptions C14_model_meets_spec.

(* With fix F41 every Endpoints entry lists each address once, on every cluster (no premise
   on the pod names any more). *)
Theorem C14_entry_each_once :
  forall fx plus c ns b, fx41 fx = true -> NoDup (fst (endpoints_entry fx plus c ns b)).
Proof. exact entry_each_once. Qed.
Print Assumptions C14_entry_each_once.

(* With fix F40 the port the code finds is the referenced one, on every service. *)
Theorem C14_port_match_repaired :
  forall fx bp svc, (fx40 fx = true \/ unnamed_ok bp svc) ->
    find_svc_port fx bp (s_ports svc) = spec_ref_port bp (s_ports svc).
Proof. exact find_svc_port_spec. Qed.
Print Assumptions C14_port_match_repaired.

(* With fix F42 the entry of an Ingress backend on an ExternalName service (NGINX Plus) is the
   ideal one also when the backend references the port by name. *)
Theorem C14_external_name_repaired :
  forall fx c ns b svc,
    fx42 fx = true -> b_kind b = KIng -> b_clusterip b = false ->
    find_svc c ns (b_svc b) = Some svc -> svc_external c svc = true ->
    exists ideal, ideal_entry true c ns b = IExact ideal /\
                  exact_ok ideal (fst (endpoints_entry fx true c ns b)) = true.
Proof. exact external_entry_meets_ideal. Qed.
Print Assumptions C14_external_name_repaired.

(* ---------------- resource level: several backends in one resource ---------------- *)

(* createIngressEx keeps ONE variable  endps  for all backends of the Ingress (default backend,
   then the paths of every rule).  [ingress_loop] carries that variable; every path through the
   body assigns it, so whatever it held before and in whatever order the backends come -- a
   Service missing, without ready endpoints, ExternalName, in cluster-IP mode -- every backend
   gets exactly its own single-backend entry: a missing Service yields the empty entry (the error
   placeholder by C14_empty_is_error_backend), never the pods of the backend before it. *)
Theorem C14_ingress_no_leak :
  forall fx plus c ns bs e0, (forall b, In b bs -> b_kind b = KIng) ->
    ingress_loop fx plus c ns e0 bs = map (endpoints_entry fx plus c ns) bs.
Proof. exact ingress_no_leak. Qed.
Print Assumptions C14_ingress_no_leak.

(* createVirtualServerEx writes one Endpoints map for the upstreams of the VirtualServer and of
   all its VirtualServerRoutes, keyed by (namespace of the OWNER, service, subselector, port);
   the generators and createUpstreamsForPlus read it with the owner's namespace.  Every upstream,
   in whichever namespace its VirtualServerRoute lives, reads its own resolution in its own
   namespace -- never that of a same-named Service of the VirtualServer's namespace. *)
Theorem C14_vs_no_leak :
  forall fx plus c ups,
    (forall u, In u ups -> vs_upstream (snd u)) ->
    (forall u u', In u ups -> In u' ups -> key_of (fst u) (snd u) = key_of (fst u') (snd u') ->
                  b_clusterip (snd u) = b_clusterip (snd u')) ->
    forall u, In u ups ->
      vs_entry_of fx plus c ups (fst u) (snd u) = endpoints_entry fx plus c (fst u) (snd u).
Proof. exact vs_no_leak. Qed.
Print Assumptions C14_vs_no_leak.

(* The NGINX Plus API write of an endpoints-only update (UpdateServersInPlus /
   UpdateStreamServersInPlus) carries, for a service that is not ExternalName, exactly the
   servers of the file; NGINX OSS pushes nothing. *)
Theorem C14_push_is_file :
  forall plus resolver k entry l,
    pushed plus k entry = Some l -> snd entry = false ->
    plus = true /\ l = fst entry /\ rendered plus resolver k entry = l.
Proof. exact pushed_is_file. Qed.
Print Assumptions C14_push_is_file.

(* ---------------- NGINX as a process: loaded files + NGINX Plus API state ---------------- *)
(* State of an upstream = (servers in the file, servers NGINX uses).  xs lists, for the resources
   that use the Service in the order Configurator.UpdateEndpoints* walks them: whether the NGINX Plus
   API call for it succeeds, the servers now written for it, its state before. *)

(* Outside a batch, whichever API calls fail (first, middle, last, several, none), afterwards NGINX
   uses for EVERY resource the servers just written for it: the reload request is latched. *)
Theorem C14_update_endpoints_live :
  forall plus xs, map snd (update_endpoints plus true xs) = map (fun x => snd (fst x)) xs.
Proof. exact update_endpoints_live. Qed.
Print Assumptions C14_update_endpoints_live.

(* Inside a batch of sync() (reloads disabled: no reload, no API call) the files are written and
   the reload at the end of the batch makes NGINX use them -- OSS and Plus ... *)
Theorem C14_batch_then_reload_live :
  forall plus xs, map snd (end_of_batch true (update_endpoints plus false xs)) = map (fun x => snd (fst x)) xs.
Proof. exact batch_then_reload_live. Qed.
Print Assumptions C14_batch_then_reload_live.

(* ... and that reload is necessary: without it NGINX keeps what it used before. *)
Theorem C14_batch_without_reload_stale :
  forall plus xs, map snd (end_of_batch false (update_endpoints plus false xs)) = map (fun x => snd (snd x)) xs.
Proof. exact batch_without_reload_stale. Qed.
Print Assumptions C14_batch_without_reload_stale.

(* ---------------- what the code does NOT satisfy (each reproduced on the real code by the
   corpus cases of the harness) ---------------- *)

(* F18: a named target port is resolved through the first listed pod only.  Kubernetes' meaning
   of the service port in the slices is the slice port carrying its name; with two pods that give
   the name different numbers, in either pod order one ready endpoint is never served. *)
Theorem C14_named_port_refuted :
  forall pods, Permutation w_pods pods ->
    exists x, ideal_member_by_name (w_named pods) (w_svc "http" 80 (TNamed "web")) "http" x /\
              (forall fx, ~ In x (addrs_of fx (resolve fx false (w_named pods) "ns" "web" {| bp_name := ""; bp_num := 80 |}))).
Proof. exact named_port_refuted. Qed.
Print Assumptions C14_named_port_refuted.

(* the same address listed under two pod names is written twice *)
Theorem C14_each_once_refuted :
  exists l, resolve legacy false w_dup "ns" "web" {| bp_name := ""; bp_num := 80 |} = Ok (l, false) /\
            addr_list legacy l = ["10.0.0.1:80"; "10.0.0.1:80"] /\ ~ NoDup (addr_list legacy l) /\
            addr_list repaired l = ["10.0.0.1:80"].
Proof. exact each_once_refuted. Qed.
Print Assumptions C14_each_once_refuted.

(* an unnamed service port matches every backend port number (the sub-selector variant does not) *)
Theorem C14_port_match_refuted :
  spec_ref_port {| bp_name := ""; bp_num := 9999 |} (s_ports (w_svc "" 80 (TNum 8080))) = None /\
  addrs_of legacy (resolve legacy false w_unnamed "ns" "web" {| bp_name := ""; bp_num := 9999 |}) = ["10.0.0.1:8080"] /\
  resolve repaired false w_unnamed "ns" "web" {| bp_name := ""; bp_num := 9999 |} = Err ENoPort /\
  resolve_sub w_unnamed "ns" "web" 9999 [("version", "v1")] = Err ENoPort.
Proof. exact port_match_refuted. Qed.
Print Assumptions C14_port_match_refuted.

(* F17: Sprintf("%s:%d") does not bracket an IPv6 cluster IP (VirtualServerRoute branch, unpatched) *)
Theorem C14_vsr_cluster_ip_sprintf_refuted :
  exists ip P, has_colon ip = true /\ join_plain ip P = "fd00:10:96::1:80" /\ join ip P = "[fd00:10:96::1]:80".
Proof. exact vsr_cluster_ip_sprintf_refuted. Qed.
Print Assumptions C14_vsr_cluster_ip_sprintf_refuted.

(* an ExternalName service referenced by port name is written with port 0 *)
Theorem C14_externalname_named_port_refuted :
  fst (endpoints_entry legacy true w_ext "ns" {| b_kind := KIng; b_svc := "web"; b_port := {| bp_name := "http"; bp_num := 0 |};
                                          b_clusterip := false; b_subsel := [] |}) = ["ext.example.com:0"] /\
  ideal_entry true w_ext "ns" {| b_kind := KIng; b_svc := "web"; b_port := {| bp_name := "http"; bp_num := 0 |};
                                 b_clusterip := false; b_subsel := [] |} = IExact ["ext.example.com:80"].
Proof. exact externalname_named_port_refuted. Qed.
Print Assumptions C14_externalname_named_port_refuted.

(* ---------------- non-vacuity: the hypotheses are met by a concrete cluster ---------------- *)
Definition ex_cluster : Cluster :=
  {| c_svcs := [{| s_ns := "ns"; s_name := "web"; s_type := ClusterIPT; s_clusterIP := "fd00:10:96::1"; s_extname := "";
                   s_selector := [("app", "web")];
                   s_ports := [{| sp_name := "http"; sp_port := 80; sp_proto := "TCP"; sp_target := TNamed "web" |};
                               {| sp_name := "metrics"; sp_port := 9100; sp_proto := "TCP"; sp_target := TNum 9100 |}] |}];
     c_slices := [{| sl_ns := "ns"; sl_svc := "web";
                     sl_ports := [{| slp_name := "http"; slp_num := Some 8080 |}; {| slp_name := "metrics"; slp_num := Some 9100 |}];
                     sl_eps := [{| e_addrs := ["10.0.0.1"]; e_ready := Some true; e_ref := "web-0" |};
                                {| e_addrs := ["fd00::2"]; e_ready := Some true; e_ref := "web-1" |};
                                {| e_addrs := ["10.0.0.3"]; e_ready := Some false; e_ref := "web-2" |};
                                {| e_addrs := ["10.0.0.4"]; e_ready := None; e_ref := "web-3" |}] |};
                  {| sl_ns := "ns"; sl_svc := "web"; sl_ports := [{| slp_name := "http"; slp_num := Some 8080 |}];
                     sl_eps := [{| e_addrs := ["10.0.0.1"]; e_ready := Some true; e_ref := "web-0" |}] |};
                  {| sl_ns := "ns"; sl_svc := "other"; sl_ports := [{| slp_name := "http"; slp_num := Some 8080 |}];
                     sl_eps := [{| e_addrs := ["10.9.9.9"]; e_ready := Some true; e_ref := "x" |}] |};
                  {| sl_ns := "elsewhere"; sl_svc := "web"; sl_ports := [{| slp_name := "http"; slp_num := Some 8080 |}];
                     sl_eps := [{| e_addrs := ["10.9.9.8"]; e_ready := Some true; e_ref := "y" |}] |}];
     c_pods := [{| p_ns := "ns"; p_name := "web-0"; p_ip := "10.0.0.1"; p_labels := [("app", "web"); ("version", "v1")];
                   p_ports := [{| cp_name := "web"; cp_num := 8080; cp_proto := "TCP" |}] |};
                {| p_ns := "ns"; p_name := "web-1"; p_ip := "fd00::2"; p_labels := [("app", "web"); ("version", "v2")];
                   p_ports := [{| cp_name := "web"; cp_num := 8080; cp_proto := "TCP" |}] |}] |}.

Example C14_nonvacuous_exact :
  resolve repaired false ex_cluster "ns" "web" {| bp_name := "http"; bp_num := 0 |} =
  Ok ([("[fd00::2]:8080", "web-1"); ("10.0.0.1:8080", "web-0")], false).
Proof. vm_compute. reflexivity. Qed.

Example C14_nonvacuous_subselector :
  resolve_sub ex_cluster "ns" "web" 80 [("version", "v2")] = Ok [("[fd00::2]:8080", "web-1")].
Proof. vm_compute. reflexivity. Qed.

Example C14_nonvacuous_cluster_ip :
  endpoints_entry repaired false ex_cluster "ns"
    {| b_kind := KVSR; b_svc := "web"; b_port := {| bp_name := ""; bp_num := 80 |}; b_clusterip := true; b_subsel := [] |}
  = (["[fd00:10:96::1]:80"], false).
Proof. vm_compute. reflexivity. Qed.

Example C14_nonvacuous_placeholder :
  rendered false false KVS (endpoints_entry repaired false ex_cluster "ns"
    {| b_kind := KVS; b_svc := "web"; b_port := {| bp_name := ""; bp_num := 81 |}; b_clusterip := false; b_subsel := [] |})
  = ["unix:/var/lib/nginx/nginx-502-server.sock"].
Proof. vm_compute. reflexivity. Qed.
