//go:build verif

package nginx

import (
	"context"
	"io"
	"log/slog"
	"net"
	"net/http"
	"time"

	"github.com/nginx/kubernetes-ingress/internal/metrics/collectors"
	"github.com/nginx/nginx-plus-go-client/v2/client"
)

// VerifClient is the production verifyClient with the socket path made a parameter
// (newVerifyClient hard-codes /var/lib/nginx/nginx-config-version.sock).
type VerifClient struct{ c *verifyClient }

func verifTransport(sock string) *http.Transport {
	return &http.Transport{
		DisableKeepAlives: true,
		DialContext: func(_ context.Context, _, _ string) (net.Conn, error) {
			return net.Dial("unix", sock)
		},
	}
}

func verifLogger() *slog.Logger { return slog.New(slog.NewTextHandler(io.Discard, nil)) }

func VerifNewVerifyClient(sock string, timeout time.Duration) *VerifClient {
	// the production constructor, with only the dialled socket path replaced: every other setting of the
	// client and its transport (timeouts, keep-alives) is the one the controller runs with
	vc := newVerifyClient(timeout)
	if tr, ok := vc.client.Transport.(*http.Transport); ok {
		tr.DialContext = func(_ context.Context, _, _ string) (net.Conn, error) { return net.Dial("unix", sock) }
		return &VerifClient{c: vc}
	}
	return &VerifClient{c: &verifyClient{client: &http.Client{Transport: verifTransport(sock)}, timeout: timeout}}
}

// Wait is WaitForCorrectVersion.
func (v *VerifClient) Wait(expected int) error {
	return v.c.WaitForCorrectVersion(verifLogger(), expected)
}

// Get is GetConfigVersion.
func (v *VerifClient) Get() (int, error) { return v.c.GetConfigVersion() }

// VerifNewLocalManager is NewLocalManager on confPath with the verify client pointed at sock.
func VerifNewLocalManager(confPath, sock string, timeout time.Duration, plus bool) *LocalManager {
	ctx := context.Background()
	lm := NewLocalManager(ctx, confPath, false, collectors.NewManagerFakeCollector(), nil, timeout, plus)
	lm.verifyClient = VerifNewVerifyClient(sock, timeout).c
	lm.logger = verifLogger()
	return lm
}

// VerifConfigVersion exposes the counter.
func (lm *LocalManager) VerifConfigVersion() int { return lm.configVersion }

// VerifVersionFile is the path of config-version.conf.
func (lm *LocalManager) VerifVersionFile() string { return lm.configVersionFilename }

// VerifSetPlus wires the Plus API client and the version-check client to unix sockets.
func (lm *LocalManager) VerifSetPlus(apiSock, checkSock string) error {
	apiHTTP := &http.Client{Transport: verifTransport(apiSock)}
	pc, err := client.NewNginxClient("http://nginx-plus-api/api", client.WithHTTPClient(apiHTTP))
	if err != nil {
		return err
	}
	lm.SetPlusClients(pc, &http.Client{Transport: verifTransport(checkSock)})
	return nil
}

// VerifGenerateVersionConfig renders config-version.conf.
func VerifGenerateVersionConfig(v int, openTracing bool) ([]byte, error) {
	g, err := newVerifyConfigGenerator()
	if err != nil {
		return nil, err
	}
	return g.GenerateVersionConfig(v, openTracing)
}

// VerifBumpVersion is what a successful Reload does to the counter (the reload itself needs NGINX).
func (lm *LocalManager) VerifBumpVersion() { lm.configVersion++ }
