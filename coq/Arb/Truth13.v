(* C05 truth proof, part 13: the listener side *)
From Coq Require Import List ZArith String Ascii Bool Lia.
From NIC Require Import Base.SMap Arb.Types Arb.Model Arb.Spec Arb.WinsProofs Arb.InvProofs Arb.OwnerProofs
     Arb.ListenerProofs Arb.ClassProofs Arb.ChangeProofs Arb.ReportProofs Arb.ComposeProofs Arb.Cases Arb.ShadowProofs Arb.ShadowAttrs.
From NIC Require Import Arb.Truth01 Arb.Truth02 Arb.Truth03 Arb.Truth04 Arb.Truth05 Arb.Truth06 Arb.Truth07 Arb.Truth08 Arb.Truth09 Arb.Truth10 Arb.Truth11 Arb.Truth12.
Import ListNotations.
Open Scope string_scope.
Open Scope Z_scope.

Lemma first_listener_name n p : forall ls l, first_listener n p ls = Some l -> l_name l = n.
Proof.
  induction ls as [|x r IH]; intros l Hf; cbn [first_listener] in Hf; [discriminate|].
  destruct (String.eqb n (l_name x) && String.eqb p (l_proto x)) eqn:E; [|exact (IH _ Hf)].
  inversion Hf; subst. apply andb_true_iff in E. destruct E as [E _]. apply String.eqb_eq in E. auto.
Qed.

Lemma ts_listener_name g t l : ts_listener g t = Some l -> l_name l = t_lname t.
Proof. unfold ts_listener. destruct g as [ls|]; [apply first_listener_name|discriminate]. Qed.

Section L.
  Variables (o : objs).
  Hypothesis Hok : objs_ok o.
  Let LB := build_listeners (o_gc o) (o_tss o).

  (* the configuration of a listener TransportServer is a function of the TransportServer *)
  Lemma cfgs_fun : exists F : tserver -> ts_cfg,
    (forall t, tc_ts (F t) = t) /\
    (forall c0, In c0 (lb_cfgs LB) <-> exists k0 t, In (k0, t) (o_tss o) /\ is_listener_ts t = true /\ c0 = F t) /\
    (forall h tc, lookup h (lb_hosts LB) = Some tc -> In tc (lb_cfgs LB)).
  Proof.
    unfold LB, build_listeners. destruct (run_claims lwarning [] (lclaims (o_gc o) (o_tss o))) as [hs ws]. cbn [lb_cfgs lb_hosts].
    exists (fun t => match ts_listener (o_gc o) t with
                     | Some l => mkTC t (l_port l) (l_ipv4 l) (l_ipv6 l) (warnings_for (ts_rkey t) ws)
                     | None => mkTC t 0 "" "" [] end).
    split; [|split].
    - intros t. destruct (ts_listener (o_gc o) t); reflexivity.
    - intros c0. rewrite in_filter_map. split.
      + intros ([k0 t] & Ht & Hf). cbn [snd] in Hf. destruct (is_listener_ts t) eqn:Hl; [|discriminate]. inversion Hf. exists k0, t. auto.
      + intros (k0 & t & Ht & Hl & ->). exists (k0, t). split; [exact Ht|]. cbn [snd]. rewrite Hl. reflexivity.
    - intros h tc Hh. apply lookup_In in Hh. apply in_filter_map in Hh. destruct Hh as ([h1 y] & _ & Hfm). cbn [fst snd] in Hfm.
      match type of Hfm with match lookup ?a ?b with _ => _ end = _ => destruct (lookup a b) as [c1|] eqn:Hc1 end; [|discriminate].
      inversion Hfm; subst. apply of_list_lookup_in in Hc1. apply in_map_iff in Hc1. destruct Hc1 as (c2 & Heq & Hc2). inversion Heq; subst. exact Hc2.
  Qed.

  Lemma cfg_unique c1 c2 : In c1 (lb_cfgs LB) -> In c2 (lb_cfgs LB) -> ts_rkey (tc_ts c1) = ts_rkey (tc_ts c2) -> c1 = c2.
  Proof.
    destruct cfgs_fun as (F & Ft & Fc & _). intros H1 H2 E.
    apply Fc in H1. apply Fc in H2. destruct H1 as (k1 & t1 & Ht1 & _ & ->). destruct H2 as (k2 & t2 & Ht2 & _ & ->).
    rewrite !Ft in E. destruct Hok as (W1 & W2 & W3 & W4 & K1 & K2 & K3 & K4).
    assert (t1 = t2).
    { apply (same_stored (fun t => mkey (t_meta t)) (o_tss o) k1 k2 _ _ W4 K4 Ht1 Ht2). unfold ts_rkey in E. apply append_inj_l in E. exact E. }
    congruence.
  Qed.

  (* the place of a listener TransportServer in the listener map *)
  Lemma lhost_place h tc : lookup h (lb_hosts LB) = Some tc -> h = lkey (t_lname (tc_ts tc)) (t_host (tc_ts tc)).
  Proof.
    intros Hh. destruct Hok as (W1 & W2 & W3 & W4 & K1 & K2 & K3 & K4).
    destruct (lb_hosts_shape (o_gc o) (o_tss o) h tc Hh) as ((k0 & Hst) & (m & Hc) & _).
    destruct (lclaim_key _ _ _ _ _ Hc) as (ka & ta & la & Hta & Hka & Hla & ->).
    assert (ta = tc_ts tc).
    { apply (same_stored (fun t => mkey (t_meta t)) (o_tss o) ka k0 _ _ W4 K4 Hta Hst). unfold ts_rkey in Hka. apply append_inj_l in Hka. congruence. }
    subst ta. rewrite (ts_listener_name _ _ _ Hla). reflexivity.
  Qed.

  Lemma lprob_in k p : lookup k (lprobs_of_objs o) = Some p ->
    exists c0, In c0 (lb_cfgs LB) /\ k = ts_rkey (tc_ts c0) /\ p_obj p = k /\ p_is_error p = false /\ p_uid p = m_uid (t_meta (tc_ts c0)) /\
      match lookup (lkey (t_lname (tc_ts c0)) (t_host (tc_ts c0))) (lb_hosts LB) with
      | None => True
      | Some holder => ts_is_equal c0 holder = false
      end.
  Proof.
    unfold lprobs_of_objs. intros L. apply of_list_lookup_in in L. unfold listener_problems in L. apply in_filter_map in L.
    destruct L as (c0 & Hc0 & Hf). exists c0. split; [exact Hc0|]. fold LB in Hf.
    destruct (lookup (lkey (t_lname (tc_ts c0)) (t_host (tc_ts c0))) (lb_hosts LB)) as [holder|].
    - destruct (negb (ts_is_equal c0 holder)) eqn:E; [|discriminate]. apply negb_true_iff in E. inversion Hf; subst. cbn. auto.
    - inversion Hf; subst. cbn. auto.
  Qed.
End L.

Section LStatic.
  Variables (c : cfg) (o : objs).
  Hypothesis Hcm : cert_manager c = false.
  Hypothesis Hok : objs_ok o.
  Hypothesis Hr : roles_ok o.
  Hypothesis Hwf : objs_wf c o.

  Lemma lprob_who k p : lookup k (lprobs_of_objs o) = Some p -> p_obj p = k /\ p_is_error p = false /\ who o k (p_uid p).
  Proof.
    intros L. destruct (lprob_in o k p L) as (c0 & Hc0 & Hk & Ho & He & Hu & _).
    split; [exact Ho|]. split; [exact He|].
    destruct (cfgs_fun o) as (F & Ft & Fc & _). apply Fc in Hc0. destruct Hc0 as (k0 & t & Ht & _ & ->). rewrite Ft in *.
    eapply who_ts; eauto.
  Qed.

  Theorem lprob_not_applied k p : lookup k (lprobs_of_objs o) = Some p -> ~ ApO c o k.
  Proof.
    intros L HA. destruct (lprob_in o k p L) as (c0 & Hc0 & Hk & _ & _ & _ & Hcond).
    destruct Hok as (W1 & W2 & W3 & W4 & K1 & K2 & K3 & K4).
    destruct (cfgs_fun o) as (F & Ft & Fc & Fh).
    pose proof Hc0 as Hc0'. apply Fc in Hc0'. destruct Hc0' as (k0 & t & Ht & Hl & E0).
    assert (Et : tc_ts c0 = t) by (rewrite E0; apply Ft).
    destruct HA as [HA|[HA|[(h & ic & m & Hh & Hm & E)|(h & vc & x & Hh & Hx & E)]]].
    - destruct (hkey_in c o k HA) as (r & Hres). pose proof (res_kind c o Hcm Hok k r Hres) as Hkind. rewrite Hk in Hkind.
      destruct r as [ic|vc|tc].
      + destruct Hkind as (? & _ & _ & E). clash E.
      + destruct Hkind as (? & _ & E). clash E.
      + destruct Hkind as (k2 & Hst & Hp & E).
        assert (Ett : t = tc_ts tc).
        { apply (same_stored (fun t => mkey (t_meta t)) (o_tss o) k0 k2 _ _ W4 K4 Ht Hst).
          rewrite Et in E. unfold ts_rkey in E. apply append_inj_l in E. exact E. }
        rewrite Ett in Hl. pose proof (Hr _ _ Hst) as Hrole. unfold role_ok in Hrole. rewrite Hp, Hl in Hrole. discriminate.
    - destruct HA as (h & r & Hh & Hkk). rewrite lookup_smap_map in Hh.
      destruct (lookup h (lhosts_of_objs o)) as [tc|] eqn:Eh; [|discriminate]. cbn in Hh. inversion Hh; subst r.
      assert (tc = c0).
      { apply (cfg_unique o Hok); [exact (Fh _ _ Eh)|exact Hc0|]. unfold rkey in Hkk. cbn [kind_prefix res_meta] in Hkk. unfold ts_rkey in *. congruence. }
      subst tc. rewrite (lhost_place o Hok h c0 Eh) in Eh. unfold lhosts_of_objs in Eh. rewrite Eh in Hcond.
      unfold ts_is_equal in Hcond. rewrite is_equal_refl in Hcond. discriminate.
    - rewrite Hk in E. clash E.
    - rewrite Hk in E. clash E.
  Qed.

  Theorem lts_inactive_problem k0 t : In (k0, t) (o_tss o) -> is_listener_ts t = true -> ~ ApO c o (ts_rkey t) ->
    lookup (ts_rkey t) (lprobs_of_objs o) <> None.
  Proof.
    intros Ht Hl HA. destruct Hok as (W1 & W2 & W3 & W4 & K1 & K2 & K3 & K4).
    destruct (cfgs_fun o) as (F & Ft & Fc & Fh).
    assert (Hc0 : In (F t) (lb_cfgs (build_listeners (o_gc o) (o_tss o)))) by (apply Fc; exists k0, t; auto).
    assert (G : exists p, In (ts_rkey t, p) (listener_problems (lb_hosts (build_listeners (o_gc o) (o_tss o))) (lb_cfgs (build_listeners (o_gc o) (o_tss o))))).
    { unfold listener_problems.
      destruct (lookup (lkey (t_lname t) (t_host t)) (lb_hosts (build_listeners (o_gc o) (o_tss o)))) as [holder|] eqn:Eh.
      - destruct (ts_is_equal (F t) holder) eqn:Eq.
        + exfalso. apply HA. right; left. exists (lkey (t_lname t) (t_host t)), (RTS holder). split.
          * rewrite lookup_smap_map. unfold lhosts_of_objs. rewrite Eh. reflexivity.
          * unfold ts_is_equal in Eq. apply is_equal_rkey in Eq. rewrite <- Eq. unfold rkey. cbn [kind_prefix res_meta]. rewrite Ft. reflexivity.
        + eexists. apply in_filter_map. exists (F t). split; [exact Hc0|]. rewrite Ft, Eh, Eq. reflexivity.
      - eexists. apply in_filter_map. exists (F t). split; [exact Hc0|]. rewrite Ft, Eh. reflexivity. }
    destruct G as (p & G). unfold lprobs_of_objs. apply of_list_in_some. apply in_map_iff. exists (ts_rkey t, p). auto.
  Qed.
End LStatic.
