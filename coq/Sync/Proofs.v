(* C20 -- lemmas and theorems about the model in Sync/Model.v *)
From Coq Require Import List ZArith String Ascii Bool Permutation Lia.
From NIC Require Import Base.SMap Sync.Model.
Import ListNotations.
Open Scope string_scope.

(* ------------------------------------------------------------------ boolean equalities decide equality *)

Lemma list_eqb_eq {A} (eqb : A -> A -> bool) :
  (forall x y, eqb x y = true <-> x = y) -> forall a b, list_eqb eqb a b = true <-> a = b.
Proof.
  intros H. induction a as [|x a IH]; destruct b as [|y b]; cbn; split; intros E; try reflexivity; try discriminate.
  - apply andb_true_iff in E. destruct E as [E1 E2]. apply H in E1. apply IH in E2. congruence.
  - inversion E; subst. apply andb_true_iff. split; [apply H; reflexivity | apply IH; reflexivity].
Qed.

Lemma opt_eqb_eq {A} (eqb : A -> A -> bool) :
  (forall x y, eqb x y = true <-> x = y) -> forall a b, opt_eqb eqb a b = true <-> a = b.
Proof.
  intros H [x|] [y|]; cbn; split; intros E; try reflexivity; try discriminate.
  - apply H in E. congruence.
  - inversion E; subst. apply H. reflexivity.
Qed.

Lemma kv_eqb_eq x y : kv_eqb x y = true <-> x = y.
Proof.
  destruct x as [a b], y as [c d]. unfold kv_eqb. cbn. rewrite andb_true_iff, !String.eqb_eq.
  split; [intros [-> ->]; reflexivity | intros E; inversion E; auto].
Qed.

Lemma kvs_eqb_eq a b : kvs_eqb a b = true <-> a = b.
Proof. apply list_eqb_eq. exact kv_eqb_eq. Qed.
Lemma strs_eqb_eq a b : strs_eqb a b = true <-> a = b.
Proof. apply list_eqb_eq. exact String.eqb_eq. Qed.
Lemma optz_eqb_eq a b : opt_eqb Z.eqb a b = true <-> a = b.
Proof. apply opt_eqb_eq. exact Z.eqb_eq. Qed.

Lemma kvs_eqb_refl a : kvs_eqb a a = true.  Proof. apply kvs_eqb_eq. reflexivity. Qed.
Lemma strs_eqb_refl a : strs_eqb a a = true.  Proof. apply strs_eqb_eq. reflexivity. Qed.
Lemma optz_eqb_refl a : opt_eqb Z.eqb a a = true.  Proof. apply optz_eqb_eq. reflexivity. Qed.

Lemma optkvs_eqb_eq a b : opt_eqb kvs_eqb a b = true <-> a = b.
Proof. apply opt_eqb_eq. exact kvs_eqb_eq. Qed.

Lemma endpoint_eqb_eq a b : endpoint_eqb a b = true <-> a = b.
Proof.
  destruct a, b. unfold endpoint_eqb. cbn.
  rewrite !andb_true_iff, !String.eqb_eq, !strs_eqb_eq, Z.eqb_eq, optkvs_eqb_eq, kvs_eqb_eq.
  split.
  - intros [[[[[-> ->] ->] ->] ->] ->]. reflexivity.
  - intros E. inversion E. repeat split; reflexivity.
Qed.

Lemma eps_eqb_eq a b : list_eqb endpoint_eqb a b = true <-> a = b.
Proof. apply list_eqb_eq. exact endpoint_eqb_eq. Qed.

Lemma controlled_by_owner o uid : controlled_by o uid = true -> o = OCtl uid.
Proof. destruct o; cbn; [discriminate|]. intros E. apply String.eqb_eq in E. congruence. Qed.

Lemma controlled_by_self uid : controlled_by (OCtl uid) uid = true.
Proof. cbn. apply String.eqb_refl. Qed.

(* ------------------------------------------------------------------ the update predicates *)

(* what certNeedsUpdate = false guarantees *)
Definition tracks (cs : cmpset) (o crt : cert) : Prop :=
  c_name o = c_name crt /\ c_labels o = c_labels crt /\
  c_cn (c_spec o) = c_cn (c_spec crt) /\ c_dns (c_spec o) = c_dns (c_spec crt) /\
  c_secret (c_spec o) = c_secret (c_spec crt) /\
  c_iname (c_spec o) = c_iname (c_spec crt) /\ c_ikind (c_spec o) = c_ikind (c_spec crt) /\
  (cs_igroup cs = true -> c_igroup (c_spec o) = c_igroup (c_spec crt)) /\
  (cs_dur cs = true -> c_dur (c_spec o) = c_dur (c_spec crt)) /\
  (cs_renew cs = true -> c_renew (c_spec o) = c_renew (c_spec crt)) /\
  (cs_usages cs = true -> c_usages (c_spec o) = c_usages (c_spec crt)).

Lemma guarded_false (g t : bool) : g && negb t = false -> g = true -> t = true.
Proof. destruct g, t; cbn; congruence. Qed.

Lemma needs_update_false_tracks cs a b : cert_needs_update cs a b = false -> tracks cs a b.
Proof.
  unfold cert_needs_update. intros H.
  repeat (apply orb_false_iff in H; destruct H as [H ?]).
  repeat match goal with
         | E : negb _ = false |- _ => apply negb_false_iff in E
         end.
  unfold tracks.
  repeat match goal with
         | E : String.eqb _ _ = true |- _ => apply String.eqb_eq in E
         | E : kvs_eqb _ _ = true |- _ => apply kvs_eqb_eq in E
         | E : strs_eqb _ _ = true |- _ => apply strs_eqb_eq in E
         end.
  repeat split; try assumption; intros G.
  - apply String.eqb_eq. eapply guarded_false; eassumption.
  - apply optz_eqb_eq. eapply guarded_false; eassumption.
  - apply optz_eqb_eq. eapply guarded_false; eassumption.
  - apply strs_eqb_eq. eapply guarded_false; eassumption.
Qed.

Lemma needs_update_same cs a b :
  c_name a = c_name b -> c_labels a = c_labels b -> c_spec a = c_spec b -> cert_needs_update cs a b = false.
Proof.
  intros E1 E2 E3. unfold cert_needs_update. rewrite E1, E2, E3.
  rewrite !String.eqb_refl, kvs_eqb_refl, !strs_eqb_refl, !optz_eqb_refl. cbn.
  rewrite !andb_false_r. reflexivity.
Qed.

Lemma dns_needs_update_false a b :
  dns_needs_update a b = false -> d_name a = d_name b /\ d_labels a = d_labels b /\ d_eps a = d_eps b.
Proof.
  unfold dns_needs_update. intros H.
  repeat (apply orb_false_iff in H; destruct H as [H ?]).
  repeat match goal with E : negb _ = false |- _ => apply negb_false_iff in E end.
  repeat split; [apply String.eqb_eq | apply kvs_eqb_eq | apply eps_eqb_eq]; assumption.
Qed.

Lemma dns_needs_update_same a b :
  d_name a = d_name b -> d_labels a = d_labels b -> d_eps a = d_eps b -> dns_needs_update a b = false.
Proof.
  intros E1 E2 E3. unfold dns_needs_update. rewrite E1, E2, E3.
  rewrite String.eqb_refl, kvs_eqb_refl. cbn.
  replace (list_eqb endpoint_eqb (d_eps b) (d_eps b)) with true; [reflexivity|].
  symmetry. apply eps_eqb_eq. reflexivity.
Qed.

(* ------------------------------------------------------------------ store lemmas *)

Section Store.
  Context {A : Type}.

  Lemma lookup_remove_some k k0 (o : A) m : wf m -> lookup k0 (remove k m) = Some o -> k0 <> k /\ lookup k0 m = Some o.
  Proof.
    intros Hwf H. destruct (String.eqb k0 k) eqn:E.
    - apply String.eqb_eq in E. subst. rewrite lookup_remove_eq in H by assumption. discriminate.
    - apply String.eqb_neq in E. split; [assumption|]. rewrite lookup_remove_neq in H by assumption. assumption.
  Qed.

  Lemma lookup_insert_some k k0 (v o : A) m :
    lookup k0 (insert k v m) = Some o -> (k0 = k /\ o = v) \/ (k0 <> k /\ lookup k0 m = Some o).
  Proof.
    intros H. destruct (String.eqb k0 k) eqn:E.
    - apply String.eqb_eq in E. subst. rewrite lookup_insert_eq in H. left. split; congruence.
    - apply String.eqb_neq in E. right. split; [assumption|]. rewrite lookup_insert_neq in H by assumption. assumption.
  Qed.

  Lemma in_filter_map_lookup (f : string * A -> bool) (g : string * A -> string) n (m : smap A) :
    In n (map g (filter f m)) <-> exists k o, In (k, o) m /\ f (k, o) = true /\ n = g (k, o).
  Proof.
    rewrite in_map_iff. split.
    - intros [[k o] [E Hin]]. apply filter_In in Hin. destruct Hin. exists k, o. auto.
    - intros [k [o [Hin [Hf E]]]]. exists (k, o). split; [auto|]. apply filter_In. auto.
  Qed.
End Store.

(* ------------------------------------------------------------------ Certificates: invariants *)

(* the lister keys objects by their name *)
Definition keys_ok (st : smap cert) : Prop := forall k o, lookup k st = Some o -> c_name o = k.
(* Certificates controlled by uid are named after their secret (true of everything the controller creates) *)
Definition consistent_for (uid : string) (st : smap cert) : Prop :=
  forall k o, lookup k st = Some o -> controlled_by (c_owner o) uid = true -> c_secret (c_spec o) = c_name o.
(* nothing is asked of objects that uid does not control *)
Definition good_for (uid : string) (st : smap cert) : Prop := wf st /\ keys_ok st /\ consistent_for uid st.

Definition perm_fun (ord : list string -> list string) : Prop := forall l, Permutation (ord l) l.

Lemma keys_ok_insert k c st : keys_ok st -> c_name c = k -> keys_ok (insert k c st).
Proof.
  intros H E k0 o L. apply lookup_insert_some in L. destruct L as [[-> ->]|[_ L]]; [assumption|apply H; assumption].
Qed.

Lemma keys_ok_remove k st : wf st -> keys_ok st -> keys_ok (remove k st).
Proof. intros W H k0 o L. apply lookup_remove_some in L; [|assumption]. apply H. tauto. Qed.

Lemma consistent_insert uid k c st :
  consistent_for uid st -> c_secret (c_spec c) = c_name c -> consistent_for uid (insert k c st).
Proof.
  intros H E k0 o L C. apply lookup_insert_some in L. destruct L as [[-> ->]|[_ L]]; [assumption|eapply H; eassumption].
Qed.

Lemma consistent_remove uid k st : wf st -> consistent_for uid st -> consistent_for uid (remove k st).
Proof. intros W H k0 o L C. apply lookup_remove_some in L; [|assumption]. eapply H; [apply L|assumption]. Qed.

(* membership in findCertificatesToBeRemoved *)
Lemma in_certs_to_remove uid secret st n : wf st -> keys_ok st ->
  (In n (certs_to_remove uid secret st) <->
   exists o, lookup n st = Some o /\ controlled_by (c_owner o) uid = true /\ c_secret (c_spec o) <> secret).
Proof.
  intros W K. unfold certs_to_remove. rewrite in_filter_map_lookup. split.
  - intros [k [o [Hin [Hf E]]]]. cbn in Hf, E. apply andb_true_iff in Hf. destruct Hf as [Hc Hs].
    apply In_lookup in Hin; [|assumption]. pose proof (K _ _ Hin) as Hk. subst n. rewrite Hk.
    exists o. split; [assumption|]. split; [assumption|].
    apply negb_true_iff in Hs. apply String.eqb_neq in Hs. assumption.
  - intros [o [L [Hc Hs]]]. exists n, o. split; [apply lookup_In; assumption|]. cbn. split.
    + rewrite Hc. cbn. apply negb_true_iff. apply String.eqb_neq. assumption.
    + symmetry. apply K. assumption.
Qed.

(* ------------------------------------------------------------------ the Delete loop *)

Lemma delete_all_log names : forall fs st st' lg r,
  delete_all names fs st = (st', lg, r) -> Forall (fun a => fst a = VDelete /\ In (snd a) names) lg.
Proof.
  induction names as [|n rest IH]; intros fs st st' lg r H; cbn in H.
  - inversion H; subst. constructor.
  - destruct (pop fs) as [[f|] fs'].
    + inversion H; subst. constructor; [cbn; auto|constructor].
    + destruct (lookup n st) eqn:L.
      * destruct (delete_all rest fs' (remove n st)) as [[st2 lg2] r2] eqn:D. inversion H; subst.
        constructor; [cbn; auto|]. apply IH in D. eapply Forall_impl; [|exact D]. cbn. intros a [? ?]. auto.
      * inversion H; subst. constructor; [cbn; auto|constructor].
Qed.

Lemma delete_all_frame names : forall fs st st' lg r k,
  delete_all names fs st = (st', lg, r) -> ~ In k names -> lookup k st' = lookup k st.
Proof.
  induction names as [|n rest IH]; intros fs st st' lg r k H Hn; cbn in H.
  - inversion H; subst. reflexivity.
  - destruct (pop fs) as [[f|] fs'].
    + inversion H; subst. reflexivity.
    + destruct (lookup n st) eqn:L.
      * destruct (delete_all rest fs' (remove n st)) as [[st2 lg2] r2] eqn:D. inversion H; subst.
        rewrite (IH _ _ _ _ _ k D) by (intros ?; apply Hn; cbn; auto).
        apply lookup_remove_neq. intros ->. apply Hn. cbn. auto.
      * inversion H; subst. reflexivity.
Qed.

(* nothing is added or changed: whatever is there afterwards was there before *)
Lemma delete_all_mono names : forall fs st st' lg r k o,
  wf st -> delete_all names fs st = (st', lg, r) -> lookup k st' = Some o -> lookup k st = Some o.
Proof.
  induction names as [|n rest IH]; intros fs st st' lg r k o W H L; cbn in H.
  - inversion H; subst. assumption.
  - destruct (pop fs) as [[f|] fs'].
    + inversion H; subst. assumption.
    + destruct (lookup n st) eqn:Ln.
      * destruct (delete_all rest fs' (remove n st)) as [[st2 lg2] r2] eqn:D. inversion H; subst.
        eapply IH in D; [| apply wf_remove; assumption | exact L].
        apply lookup_remove_some in D; [tauto|assumption].
      * inversion H; subst. assumption.
Qed.

Lemma delete_all_wf names : forall fs st st' lg r,
  wf st -> delete_all names fs st = (st', lg, r) -> wf st'.
Proof.
  induction names as [|n rest IH]; intros fs st st' lg r W H; cbn in H.
  - inversion H; subst. assumption.
  - destruct (pop fs) as [[f|] fs'].
    + inversion H; subst. assumption.
    + destruct (lookup n st) eqn:Ln.
      * destruct (delete_all rest fs' (remove n st)) as [[st2 lg2] r2] eqn:D. inversion H; subst.
        eapply IH; [|exact D]. apply wf_remove; assumption.
      * inversion H; subst. assumption.
Qed.

(* a loop that ran to the end removed every name it was given *)
Lemma delete_all_complete names : forall fs st st' lg,
  wf st -> delete_all names fs st = (st', lg, ROk) -> forall n, In n names -> lookup n st' = None.
Proof.
  induction names as [|n0 rest IH]; intros fs st st' lg W H n Hin; cbn in H; [destruct Hin|].
  destruct (pop fs) as [[f|] fs']; [inversion H|].
  destruct (lookup n0 st) eqn:Ln; [|inversion H].
  destruct (delete_all rest fs' (remove n0 st)) as [[st2 lg2] r2] eqn:D. inversion H; subst.
  destruct (in_dec string_dec n rest) as [Hr|Hr].
  - eapply IH; [|exact D|exact Hr]. apply wf_remove; assumption.
  - destruct Hin as [->|Hin]; [|contradiction].
    rewrite (delete_all_frame _ _ _ _ _ _ n D Hr). apply lookup_remove_eq. assumption.
Qed.

Lemma delete_all_invariants u names fs st st' lg r :
  good_for u st -> delete_all names fs st = (st', lg, r) -> good_for u st'.
Proof.
  intros [W [K C]] H. split; [eapply delete_all_wf; eassumption|]. split.
  - intros k o L. apply K. eapply delete_all_mono; eassumption.
  - intros k o L. apply (C k). eapply delete_all_mono; eassumption.
Qed.

(* ------------------------------------------------------------------ one Certificate synchronization *)

Lemma build_certificates_spec cs uid secret crt st :
  match build_certificates cs uid secret crt st with
  | PCreate c => lookup secret st = None /\ c = crt
  | PUpdate c => exists e, lookup secret st = Some e /\ controlled_by (c_owner e) uid = true /\
                           cert_needs_update cs e crt = true /\ c = cert_updated e crt
  | PNone => exists e, lookup secret st = Some e /\
                       (controlled_by (c_owner e) uid && cert_needs_update cs e crt) = false
  end.
Proof.
  unfold build_certificates. destruct (lookup secret st) as [e|]; [|auto].
  destruct (controlled_by (c_owner e) uid && cert_needs_update cs e crt) eqn:E.
  - apply andb_true_iff in E. destruct E. exists e. auto.
  - exists e. auto.
Qed.

Lemma write_then_gc_inv vb secret c gc fs st st' lg r :
  write_then_gc vb secret c gc fs st = (st', lg, r) ->
  (exists f, st' = st /\ lg = [(vb, secret)] /\ r = RFault f) \/
  (exists fs' lg0, delete_all gc fs' (insert secret c st) = (st', lg0, r) /\ lg = (vb, secret) :: lg0).
Proof.
  unfold write_then_gc. destruct (pop fs) as [[f|] fs'].
  - intros H. inversion H; subst. left. exists f. auto.
  - destruct (delete_all gc fs' (insert secret c st)) as [[st2 lg2] r2] eqn:D. intros H. inversion H; subst.
    right. exists fs', lg2. auto.
Qed.

Lemma sync_cert_off cs ord v fs st : cert_feature_on v = false -> sync_cert cs ord v fs st = (st, [], ROk).
Proof.
  unfold cert_feature_on, sync_cert. destruct (v_tls v) as [t|]; [|reflexivity].
  destruct (t_cm t); [discriminate|reflexivity].
Qed.

Lemma sync_cert_on cs ord v fs st t cm : v_tls v = Some t -> t_cm t = Some cm ->
  sync_cert cs ord v fs st =
  match desired_cert v t cm with
  | None => (st, [], ROther)
  | Some crt =>
      let gc := ord (certs_to_remove (v_uid v) (t_secret t) st) in
      match build_certificates cs (v_uid v) (t_secret t) crt st with
      | PNone => delete_all gc fs st
      | PCreate c => write_then_gc VCreate (t_secret t) c gc fs st
      | PUpdate c => write_then_gc VUpdate (t_secret t) c gc fs st
      end
  end.
Proof. intros E1 E2. unfold sync_cert. rewrite E1, E2. reflexivity. Qed.

Lemma feature_cases v : cert_feature_on v = false \/ exists t cm, v_tls v = Some t /\ t_cm t = Some cm.
Proof.
  unfold cert_feature_on. destruct (v_tls v) as [t|]; [|auto]. destruct (t_cm t) as [cm|] eqn:E; [|auto].
  right. exists t, cm. auto.
Qed.

(* the object buildCertificates builds is named after the secret, owned by the VirtualServer, and
   carries the secret name in its spec *)
Lemma desired_cert_shape v t cm crt : desired_cert v t cm = Some crt ->
  c_name crt = t_secret t /\ c_owner crt = OCtl (v_uid v) /\ c_secret (c_spec crt) = t_secret t.
Proof.
  unfold desired_cert. destruct (issuer_for cm) as [[[i k] g]|]; [|discriminate].
  destruct (_ || _); [discriminate|]. intros H. inversion H; subst. cbn. auto.
Qed.

Definition action_ok {A} (own : A -> owner) (pre : smap A) (uid : string) (a : action) : Prop :=
  match fst a with
  | VCreate => lookup (snd a) pre = None
  | _ => exists o, lookup (snd a) pre = Some o /\ controlled_by (own o) uid = true
  end.

Definition sub_fun (ord : list string -> list string) : Prop := forall l x, In x (ord l) -> In x l.

Lemma perm_sub ord : perm_fun ord -> sub_fun ord.
Proof. intros P l x Hin. eapply Permutation_in; [apply P|exact Hin]. Qed.

Lemma gc_deletes_ok st uid secret gc fs st0 st' lg r ord :
  wf st -> keys_ok st -> sub_fun ord -> gc = ord (certs_to_remove uid secret st) ->
  delete_all gc fs st0 = (st', lg, r) -> Forall (action_ok c_owner st uid) lg.
Proof.
  intros W K S -> D. apply delete_all_log in D. eapply Forall_impl; [|exact D].
  intros [vb n] [E Hin]. cbn in E, Hin. subst vb. unfold action_ok. cbn.
  apply S in Hin. apply in_certs_to_remove in Hin; [|assumption|assumption].
  destruct Hin as [o [L [C _]]]. exists o. auto.
Qed.

(* every action of a synchronization targets an object the VirtualServer controls (update, delete)
   or a free name (create) -- whatever the faults, whatever the lister order *)
Lemma cert_step_actions cs ord v fs st st' lg r :
  wf st -> keys_ok st -> sub_fun ord ->
  sync_cert cs ord v fs st = (st', lg, r) -> Forall (action_ok c_owner st (v_uid v)) lg.
Proof.
  intros W K S H. destruct (feature_cases v) as [Off|[t [cm [E1 E2]]]].
  - rewrite sync_cert_off in H by assumption. inversion H; subst. constructor.
  - rewrite (sync_cert_on _ _ _ _ _ _ _ E1 E2) in H.
    destruct (desired_cert v t cm) as [crt|]; [|inversion H; subst; constructor].
    cbn zeta in H.
    pose proof (build_certificates_spec cs (v_uid v) (t_secret t) crt st) as B.
    destruct (build_certificates cs (v_uid v) (t_secret t) crt st) as [|c|c].
    + eapply gc_deletes_ok; try eassumption; reflexivity.
    + destruct B as [L ->]. apply write_then_gc_inv in H.
      destruct H as [[f [-> [-> ->]]]|[fs' [lg0 [D ->]]]].
      * constructor; [exact L|constructor].
      * constructor; [exact L|]. eapply gc_deletes_ok; try eassumption; reflexivity.
    + destruct B as [e [L [C [_ ->]]]]. apply write_then_gc_inv in H.
      destruct H as [[f [-> [-> ->]]]|[fs' [lg0 [D ->]]]].
      * constructor; [exists e; auto|constructor].
      * constructor; [exists e; auto|]. eapply gc_deletes_ok; try eassumption; reflexivity.
Qed.

Lemma gc_frame st uid secret gc fs st0 st' lg r ord k o :
  wf st -> keys_ok st -> sub_fun ord -> gc = ord (certs_to_remove uid secret st) ->
  lookup k st = Some o -> controlled_by (c_owner o) uid = false ->
  delete_all gc fs st0 = (st', lg, r) -> lookup k st' = lookup k st0.
Proof.
  intros W K S -> L C D. eapply delete_all_frame; [exact D|].
  intros Hin. apply S in Hin. apply in_certs_to_remove in Hin; [|assumption|assumption].
  destruct Hin as [o' [L' [C' _]]]. congruence.
Qed.

(* an object the VirtualServer does not control (no owner, foreign owner) is still there, unchanged *)
Lemma cert_step_frame cs ord v fs st st' lg r k o :
  wf st -> keys_ok st -> sub_fun ord ->
  sync_cert cs ord v fs st = (st', lg, r) ->
  lookup k st = Some o -> controlled_by (c_owner o) (v_uid v) = false -> lookup k st' = Some o.
Proof.
  intros W K S H L C. destruct (feature_cases v) as [Off|[t [cm [E1 E2]]]].
  - rewrite sync_cert_off in H by assumption. inversion H; subst. assumption.
  - rewrite (sync_cert_on _ _ _ _ _ _ _ E1 E2) in H.
    destruct (desired_cert v t cm) as [crt|]; [|inversion H; subst; assumption].
    cbn zeta in H.
    pose proof (build_certificates_spec cs (v_uid v) (t_secret t) crt st) as B.
    destruct (build_certificates cs (v_uid v) (t_secret t) crt st) as [|c|c].
    + rewrite <- L. eapply gc_frame; try eassumption; reflexivity.
    + destruct B as [Ls ->]. apply write_then_gc_inv in H.
      destruct H as [[f [-> [-> ->]]]|[fs' [lg0 [D ->]]]]; [assumption|].
      rewrite (gc_frame st (v_uid v) (t_secret t) _ fs' _ st' lg0 r ord k o W K S eq_refl L C D).
      rewrite lookup_insert_neq; [assumption|]. intros ->. congruence.
    + destruct B as [e [Ls [Ce [_ ->]]]]. apply write_then_gc_inv in H.
      destruct H as [[f [-> [-> ->]]]|[fs' [lg0 [D ->]]]]; [assumption|].
      rewrite (gc_frame st (v_uid v) (t_secret t) _ fs' _ st' lg0 r ord k o W K S eq_refl L C D).
      rewrite lookup_insert_neq; [assumption|]. intros ->. congruence.
Qed.

(* the invariants survive every synchronization *)
Lemma cert_step_good u cs ord v fs st st' lg r :
  good_for u st -> sync_cert cs ord v fs st = (st', lg, r) -> good_for u st'.
Proof.
  intros G H. destruct (feature_cases v) as [Off|[t [cm [E1 E2]]]].
  - rewrite sync_cert_off in H by assumption. inversion H; subst. assumption.
  - rewrite (sync_cert_on _ _ _ _ _ _ _ E1 E2) in H.
    destruct (desired_cert v t cm) as [crt|] eqn:Dc; [|inversion H; subst; assumption].
    cbn zeta in H. apply desired_cert_shape in Dc. destruct Dc as [Dn [Do Ds]].
    pose proof (build_certificates_spec cs (v_uid v) (t_secret t) crt st) as B.
    assert (Gi : forall c, c_name c = t_secret t -> c_secret (c_spec c) = c_name c -> good_for u (insert (t_secret t) c st)).
    { intros c En Es. destruct G as [W [K C]]. split; [apply wf_insert; assumption|]. split.
      - apply keys_ok_insert; assumption.
      - apply consistent_insert; [exact C|assumption]. }
    destruct (build_certificates cs (v_uid v) (t_secret t) crt st) as [|c|c].
    + eapply delete_all_invariants; eassumption.
    + destruct B as [Ls ->]. apply write_then_gc_inv in H.
      destruct H as [[f [-> [-> ->]]]|[fs' [lg0 [D ->]]]]; [assumption|].
      eapply delete_all_invariants; [|exact D]. apply Gi; congruence.
    + destruct B as [e [Ls [Ce [_ ->]]]]. apply write_then_gc_inv in H.
      destruct H as [[f [-> [-> ->]]]|[fs' [lg0 [D ->]]]]; [assumption|].
      eapply delete_all_invariants; [|exact D].
      destruct G as [W [K C]]. pose proof (K _ _ Ls) as Ke.
      apply Gi; cbn; congruence.
Qed.

(* ------------------------------------------------------------------ after a successful synchronization *)

Lemma gc_phase_result st uid secret ord fs0 stmid st1 lg0 :
  good_for uid st -> perm_fun ord -> wf stmid ->
  (forall k o, lookup k stmid = Some o -> k = secret \/ lookup k st = Some o) ->
  delete_all (ord (certs_to_remove uid secret st)) fs0 stmid = (st1, lg0, ROk) ->
  forall k o, lookup k st1 = Some o -> controlled_by (c_owner o) uid = true -> k = secret.
Proof.
  intros [W [K C]] P Wm Hm D k o L Co.
  pose proof (delete_all_mono _ _ _ _ _ _ _ _ Wm D L) as Lm.
  destruct (Hm _ _ Lm) as [->|Ls]; [reflexivity|].
  destruct (string_dec (c_secret (c_spec o)) secret) as [E|N].
  - rewrite <- E. rewrite (C k o Ls Co). symmetry. apply K. assumption.
  - exfalso. assert (Hin : In k (ord (certs_to_remove uid secret st))).
    { eapply Permutation_in; [apply Permutation_sym; apply P|].
      apply in_certs_to_remove; [assumption|assumption|]. exists o. auto. }
    rewrite (delete_all_complete _ _ _ _ _ Wm D k Hin) in L. discriminate.
Qed.

Lemma secret_not_collected st uid secret ord :
  good_for uid st -> sub_fun ord ->
  (forall e, lookup secret st = Some e -> controlled_by (c_owner e) uid = true -> c_secret (c_spec e) = secret) ->
  ~ In secret (ord (certs_to_remove uid secret st)).
Proof.
  intros [W [K C]] S He Hin. apply S in Hin. apply in_certs_to_remove in Hin; [|assumption|assumption].
  destruct Hin as [o [L [Co N]]]. apply N. apply He; assumption.
Qed.

Lemma good_secret_consistent st uid secret :
  good_for uid st -> forall e, lookup secret st = Some e -> controlled_by (c_owner e) uid = true -> c_secret (c_spec e) = secret.
Proof. intros [W [K C]] e L Co. rewrite (C _ _ L Co). apply K. assumption. Qed.

(* objects controlled by the VirtualServer under any other name than its secret are gone *)
Lemma cert_step_gc cs ord v fs st st1 lg t cm :
  good_for (v_uid v) st -> perm_fun ord -> v_tls v = Some t -> t_cm t = Some cm ->
  sync_cert cs ord v fs st = (st1, lg, ROk) ->
  forall k o, lookup k st1 = Some o -> controlled_by (c_owner o) (v_uid v) = true -> k = t_secret t.
Proof.
  intros G P E1 E2 H. rewrite (sync_cert_on _ _ _ _ _ _ _ E1 E2) in H.
  destruct (desired_cert v t cm) as [crt|]; [|inversion H]. cbn zeta in H.
  pose proof G as [W [K C]].
  destruct (build_certificates cs (v_uid v) (t_secret t) crt st) as [|c|c].
  - eapply gc_phase_result; try eassumption. auto.
  - apply write_then_gc_inv in H. destruct H as [[f [_ [_ Hr]]]|[fs' [lg0 [D _]]]]; [discriminate|].
    apply (gc_phase_result st (v_uid v) (t_secret t) ord fs' (insert (t_secret t) c st) st1 lg0 G P);
      [apply wf_insert; assumption| |exact D].
    intros k o L. apply lookup_insert_some in L. tauto.
  - apply write_then_gc_inv in H. destruct H as [[f [_ [_ Hr]]]|[fs' [lg0 [D _]]]]; [discriminate|].
    apply (gc_phase_result st (v_uid v) (t_secret t) ord fs' (insert (t_secret t) c st) st1 lg0 G P);
      [apply wf_insert; assumption| |exact D].
    intros k o L. apply lookup_insert_some in L. tauto.
Qed.

Lemma tracks_updated cs e crt : c_name e = c_name crt -> tracks cs (cert_updated e crt) crt.
Proof. intros E. unfold tracks, cert_updated. cbn. repeat split; auto. Qed.

(* what is stored under the secret name afterwards *)
Lemma cert_step_fresh cs ord v fs st st1 lg t cm :
  good_for (v_uid v) st -> perm_fun ord -> v_tls v = Some t -> t_cm t = Some cm ->
  sync_cert cs ord v fs st = (st1, lg, ROk) ->
  exists crt, desired_cert v t cm = Some crt /\
    match lookup (t_secret t) st with
    | None => lookup (t_secret t) st1 = Some crt
    | Some e =>
        if controlled_by (c_owner e) (v_uid v)
        then exists o, lookup (t_secret t) st1 = Some o /\ tracks cs o crt /\ c_owner o = c_owner crt /\
                       c_temp o = c_temp e /\
                       (cert_needs_update cs e crt = true -> c_spec o = c_spec crt) /\
                       (cert_needs_update cs e crt = false -> o = e)
        else lookup (t_secret t) st1 = Some e
    end.
Proof.
  intros G P E1 E2 H. rewrite (sync_cert_on _ _ _ _ _ _ _ E1 E2) in H.
  destruct (desired_cert v t cm) as [crt|] eqn:Dc; [|inversion H]. cbn zeta in H.
  exists crt. split; [reflexivity|].
  apply desired_cert_shape in Dc. destruct Dc as [Dn [Do Ds]].
  pose proof G as [W [K C]]. pose proof (perm_sub _ P) as S.
  pose proof (secret_not_collected st (v_uid v) (t_secret t) ord G S (good_secret_consistent _ _ _ G)) as Nin.
  pose proof (build_certificates_spec cs (v_uid v) (t_secret t) crt st) as B.
  destruct (build_certificates cs (v_uid v) (t_secret t) crt st) as [|c|c].
  - destruct B as [e [L Hc]]. rewrite L.
    rewrite (delete_all_frame _ _ _ _ _ _ _ H Nin).
    destruct (controlled_by (c_owner e) (v_uid v)) eqn:Ce; [|assumption].
    cbn in Hc. exists e. split; [assumption|]. split; [apply needs_update_false_tracks; assumption|].
    split; [rewrite Do; apply controlled_by_owner; assumption|]. split; [reflexivity|].
    split; [congruence|reflexivity].
  - destruct B as [L ->]. rewrite L.
    apply write_then_gc_inv in H. destruct H as [[f [_ [_ Hr]]]|[fs' [lg0 [D _]]]]; [discriminate|].
    rewrite (delete_all_frame _ _ _ _ _ _ _ D Nin). apply lookup_insert_eq.
  - destruct B as [e [L [Ce [Nu ->]]]]. rewrite L, Ce.
    apply write_then_gc_inv in H. destruct H as [[f [_ [_ Hr]]]|[fs' [lg0 [D _]]]]; [discriminate|].
    exists (cert_updated e crt). rewrite (delete_all_frame _ _ _ _ _ _ _ D Nin).
    split; [apply lookup_insert_eq|]. split; [apply tracks_updated; rewrite (K _ _ L); congruence|].
    split; [cbn; rewrite Do; apply controlled_by_owner; assumption|]. split; [reflexivity|].
    split; [reflexivity|congruence].
Qed.

Lemma perm_fun_nil ord : perm_fun ord -> ord [] = [].
Proof. intros P. apply Permutation_nil. apply Permutation_sym. apply P. Qed.

Lemma no_members_nil {A} (l : list A) : (forall x, ~ In x l) -> l = [].
Proof. destruct l as [|x l]; [reflexivity|]. intros H. exfalso. apply (H x). cbn. auto. Qed.

(* a second synchronization of the same VirtualServer writes nothing *)
Lemma cert_step_idempotent cs ord ord' v fs fs' st st1 lg :
  good_for (v_uid v) st -> perm_fun ord -> perm_fun ord' ->
  sync_cert cs ord v fs st = (st1, lg, ROk) -> sync_cert cs ord' v fs' st1 = (st1, [], ROk).
Proof.
  intros G P P' H. destruct (feature_cases v) as [Off|[t [cm [E1 E2]]]].
  - apply sync_cert_off. assumption.
  - pose proof (cert_step_good _ _ _ _ _ _ _ _ _ G H) as G1.
    pose proof (cert_step_gc _ _ _ _ _ _ _ _ _ G P E1 E2 H) as Hgc.
    destruct (cert_step_fresh _ _ _ _ _ _ _ _ _ G P E1 E2 H) as [crt [Dc Hf]].
    rewrite (sync_cert_on _ _ _ _ _ _ _ E1 E2), Dc. cbn zeta.
    pose proof (desired_cert_shape _ _ _ _ Dc) as [Dn [Do Ds]].
    pose proof G1 as [W1 [K1 C1]].
    (* what sits under the secret name in st1, and that it needs no update *)
    assert (Hs : exists o, lookup (t_secret t) st1 = Some o /\
                           (controlled_by (c_owner o) (v_uid v) && cert_needs_update cs o crt) = false /\
                           (controlled_by (c_owner o) (v_uid v) = true -> c_secret (c_spec o) = t_secret t)).
    { destruct (lookup (t_secret t) st) as [e|] eqn:L.
      - destruct (controlled_by (c_owner e) (v_uid v)) eqn:Ce.
        + destruct Hf as [o [L1 [T [Ow [_ [Hu Hn]]]]]]. exists o. split; [assumption|]. split.
          * apply andb_false_iff. right. destruct (cert_needs_update cs e crt) eqn:Nu.
            -- destruct T as [Tn [Tl _]]. apply needs_update_same; auto.
            -- rewrite (Hn eq_refl). assumption.
          * intros _. destruct T as [_ [_ [_ [_ [Ts _]]]]]. congruence.
        + exists e. split; [assumption|]. rewrite Ce. split; [reflexivity|discriminate].
      - exists crt. split; [assumption|]. split; [|intros _; assumption].
        apply andb_false_iff. right. apply needs_update_same; reflexivity. }
    destruct Hs as [o [L1 [Hno Hsec]]].
    assert (Hnil : certs_to_remove (v_uid v) (t_secret t) st1 = []).
    { apply no_members_nil. intros n Hin. apply in_certs_to_remove in Hin; [|assumption|assumption].
      destruct Hin as [o' [Ln [Co N]]]. pose proof (Hgc _ _ Ln Co) as ->.
      rewrite L1 in Ln. inversion Ln; subst o'. apply N. apply Hsec. assumption. }
    rewrite Hnil, (perm_fun_nil _ P').
    unfold build_certificates. rewrite L1, Hno. reflexivity.
Qed.

(* ------------------------------------------------------------------ DNSEndpoints *)

Definition keys_ok_d (st : smap dnsep) : Prop := forall k o, lookup k st = Some o -> d_name o = k.
(* everything in the cluster has been through the JSON round trip *)
Definition normal_store (st : smap dnsep) : Prop := forall k o, lookup k st = Some o -> norm_dns o = o.
Definition good_d (st : smap dnsep) : Prop := wf st /\ keys_ok_d st /\ normal_store st.

Lemma norm_ep_idem e : norm_ep (norm_ep e) = norm_ep e.
Proof. destruct e as [a b c d [[|x l]|] f]; reflexivity. Qed.

Lemma norm_dns_idem d : norm_dns (norm_dns d) = norm_dns d.
Proof.
  destruct d as [n o l eps]. unfold norm_dns. cbn. f_equal. rewrite map_map.
  apply map_ext. exact norm_ep_idem.
Qed.

Lemma norm_desired v ts rt : x_labels (v_xdns v) <> Some [] -> norm_dns (desired_dns v ts rt) = desired_dns v ts rt.
Proof.
  intros H. unfold norm_dns, desired_dns. cbn. unfold norm_ep. cbn.
  destruct (x_labels (v_xdns v)) as [[|x l]|]; [contradiction H; reflexivity|reflexivity|reflexivity].
Qed.

Lemma sync_dns_off v fs st : x_enable (v_xdns v) = false -> sync_dns v fs st = (st, [], ROk).
Proof. intros E. unfold sync_dns. rewrite E. reflexivity. Qed.

Lemma build_dnsendpoint_spec v d st :
  match build_dnsendpoint v d st with
  | DPCreate c => lookup (v_name v) st = None /\ c = d
  | DPUpdate c => exists e, lookup (v_name v) st = Some e /\ controlled_by (d_owner e) (v_uid v) = true /\
                            dns_needs_update e d = true /\ c = dns_updated e d
  | DPNone => exists e, lookup (v_name v) st = Some e /\
                        (controlled_by (d_owner e) (v_uid v) && dns_needs_update e d) = false
  end.
Proof.
  unfold build_dnsendpoint. destruct (lookup (v_name v) st) as [e|]; [|auto].
  destruct (controlled_by (d_owner e) (v_uid v) && dns_needs_update e d) eqn:E.
  - apply andb_true_iff in E. destruct E. exists e. auto.
  - exists e. auto.
Qed.

(* the shape of every run of sync_dns *)
Definition is_desired (v : vs) (d0 : dnsep) : Prop :=
  wanted_dns v = Some (norm_dns d0) /\ d_name d0 = v_name v /\ d_owner d0 = OCtl (v_uid v).

Inductive dns_outcome (v : vs) (st : smap dnsep) : smap dnsep * list action * result -> Prop :=
| DO_off : x_enable (v_xdns v) = false -> dns_outcome v st (st, [], ROk)
| DO_bad : x_enable (v_xdns v) = true -> wanted_dns v = None -> dns_outcome v st (st, [], ROther)
| DO_none d0 e : x_enable (v_xdns v) = true -> is_desired v d0 ->
    lookup (v_name v) st = Some e -> (controlled_by (d_owner e) (v_uid v) && dns_needs_update e d0) = false ->
    dns_outcome v st (st, [], ROk)
| DO_create_fail d0 r : x_enable (v_xdns v) = true -> is_desired v d0 ->
    lookup (v_name v) st = None -> r <> ROk ->
    dns_outcome v st (st, [(VCreate, v_name v)], r)
| DO_create d0 : x_enable (v_xdns v) = true -> is_desired v d0 ->
    lookup (v_name v) st = None ->
    dns_outcome v st (insert (v_name v) (norm_dns d0) st, [(VCreate, v_name v)], ROk)
| DO_update_fail d0 e f : x_enable (v_xdns v) = true -> is_desired v d0 ->
    lookup (v_name v) st = Some e -> controlled_by (d_owner e) (v_uid v) = true ->
    dns_outcome v st (st, [(VUpdate, v_name v)], RFault f)
| DO_update d0 e : x_enable (v_xdns v) = true -> is_desired v d0 ->
    lookup (v_name v) st = Some e -> controlled_by (d_owner e) (v_uid v) = true ->
    dns_needs_update e d0 = true ->
    dns_outcome v st (insert (v_name v) (norm_dns (dns_updated e d0)) st, [(VUpdate, v_name v)], ROk).

Lemma sync_dns_outcome v fs st : dns_outcome v st (sync_dns v fs st).
Proof.
  unfold sync_dns. destruct (x_enable (v_xdns v)) eqn:En; cbn [negb]; [|apply DO_off; assumption].
  destruct (v_endpoints v) as [eps|] eqn:Ee.
  2:{ apply DO_bad; [assumption|]. unfold wanted_dns. rewrite En, Ee. reflexivity. }
  destruct (valid_targets eps) as [[ts rt]|] eqn:Et.
  2:{ apply DO_bad; [assumption|]. unfold wanted_dns. rewrite En, Ee, Et. reflexivity. }
  assert (W : is_desired v (desired_dns v ts rt)).
  { split; [|split; reflexivity]. unfold wanted_dns. rewrite En, Ee, Et. reflexivity. }
  set (d0 := desired_dns v ts rt) in *. clearbody d0.
  pose proof (build_dnsendpoint_spec v d0 st) as B.
  destruct (build_dnsendpoint v d0 st) as [|c|c].
  - destruct B as [e [L H]]. eapply DO_none; eassumption.
  - destruct B as [L ->]. destruct (pop fs) as [[f|] fs'].
    + destruct f; eapply DO_create_fail; try eassumption; discriminate.
    + eapply DO_create; eassumption.
  - destruct B as [e [L [Ce [Nu ->]]]]. destruct (pop fs) as [[f|] fs'].
    + eapply DO_update_fail; eassumption.
    + eapply DO_update; eassumption.
Qed.

Lemma dns_step_actions v fs st st' lg r :
  sync_dns v fs st = (st', lg, r) -> Forall (action_ok d_owner st (v_uid v)) lg.
Proof.
  intros H. pose proof (sync_dns_outcome v fs st) as O. rewrite H in O.
  inversion O; subst; try constructor; try constructor; unfold action_ok; cbn; try assumption;
    eexists; split; eassumption.
Qed.

Lemma dns_step_frame v fs st st' lg r k o :
  sync_dns v fs st = (st', lg, r) ->
  lookup k st = Some o -> controlled_by (d_owner o) (v_uid v) = false -> lookup k st' = Some o.
Proof.
  intros H L C. pose proof (sync_dns_outcome v fs st) as O. rewrite H in O.
  inversion O; subst; try assumption.
  - rewrite lookup_insert_neq; [assumption|]. intros ->. congruence.
  - rewrite lookup_insert_neq; [assumption|]. intros ->. congruence.
Qed.

Lemma good_d_insert k d st : good_d st -> d_name d = k -> good_d (insert k (norm_dns d) st).
Proof.
  intros [W [K N]] E. split; [apply wf_insert; assumption|]. split.
  - intros k0 o L. apply lookup_insert_some in L. destruct L as [[-> ->]|[_ L]]; [destruct d; exact E|apply K; assumption].
  - intros k0 o L. apply lookup_insert_some in L. destruct L as [[-> ->]|[_ L]]; [apply norm_dns_idem|eapply N; eassumption].
Qed.

Lemma dns_step_good v fs st st' lg r : good_d st -> sync_dns v fs st = (st', lg, r) -> good_d st'.
Proof.
  intros G H. pose proof (sync_dns_outcome v fs st) as O. rewrite H in O.
  inversion O; subst; try assumption; apply good_d_insert; try assumption.
  - match goal with D : is_desired _ _ |- _ => destruct D as [_ [Dn _]]; exact Dn end.
  - cbn. match goal with D : is_desired _ _ |- _ => destruct D as [_ [Dn _]]; exact Dn end.
Qed.

Lemma dnsep_ext a b : d_name a = d_name b -> d_owner a = d_owner b -> d_labels a = d_labels b -> d_eps a = d_eps b -> a = b.
Proof. destruct a, b. cbn. intros -> -> -> ->. reflexivity. Qed.

(* freshness holds in full for DNSEndpoints: after a successful synchronization of a VirtualServer
   with ExternalDNS enabled, a name that was free or controlled by it holds exactly the object a
   first-time synchronization stores *)
Lemma dns_step_fresh v fs st st1 lg :
  good_d st -> sync_dns v fs st = (st1, lg, ROk) -> x_enable (v_xdns v) = true ->
  match lookup (v_name v) st with None => True | Some e => controlled_by (d_owner e) (v_uid v) = true end ->
  exists d, wanted_dns v = Some d /\ lookup (v_name v) st1 = Some d.
Proof.
  intros [W [K N]] H En Hm. pose proof (sync_dns_outcome v fs st) as O. rewrite H in O.
  inversion O as [Off|On Bad|d0 e On [Wd [Dn Do]] L Hc|d0 r On D L Hr|d0 On [Wd [Dn Do]] L|d0 e f On D L Ce|d0 e On [Wd [Dn Do]] L Ce Nu];
    subst; try congruence.
  - (* nothing to do: the stored object already equals the wanted one *)
    rewrite L in Hm. rewrite Hm in Hc. cbn in Hc. apply dns_needs_update_false in Hc. destruct Hc as [A1 [A2 A3]].
    assert (Ee : e = d0).
    { apply dnsep_ext; try assumption. apply controlled_by_owner in Hm. congruence. }
    exists (norm_dns d0). split; [assumption|]. rewrite L. f_equal. rewrite <- Ee. symmetry. eapply N. exact L.
  - exists (norm_dns d0). split; [assumption|apply lookup_insert_eq].
  - exists (norm_dns d0). split; [assumption|]. rewrite lookup_insert_eq. do 2 f_equal.
    apply dnsep_ext; cbn; try reflexivity. apply controlled_by_owner in Ce. congruence.
Qed.

(* idempotence holds unless externalDNS.labels is an empty non-nil map *)
Lemma dns_step_idempotent v fs fs' st st1 lg :
  x_labels (v_xdns v) <> Some [] ->
  sync_dns v fs st = (st1, lg, ROk) -> sync_dns v fs' st1 = (st1, [], ROk).
Proof.
  intros Hl H. unfold sync_dns in *.
  destruct (x_enable (v_xdns v)); cbn [negb] in *; [|inversion H; subst; reflexivity].
  destruct (v_endpoints v) as [eps|]; [|inversion H].
  destruct (valid_targets eps) as [[ts rt]|]; [|inversion H].
  pose proof (norm_desired v ts rt Hl) as Nd. set (d0 := desired_dns v ts rt) in *.
  assert (Hown : d_owner d0 = OCtl (v_uid v)) by reflexivity.
  assert (Hname : d_name d0 = v_name v) by reflexivity.
  clearbody d0.
  pose proof (build_dnsendpoint_spec v d0 st) as B.
  destruct (build_dnsendpoint v d0 st) as [|c|c].
  - inversion H; subst. destruct B as [e [L Hc]]. unfold build_dnsendpoint. rewrite L, Hc. reflexivity.
  - destruct B as [L ->]. destruct (pop fs) as [[f|] fs0]; [destruct f; inversion H|].
    inversion H; subst. unfold build_dnsendpoint. rewrite lookup_insert_eq, Nd.
    rewrite dns_needs_update_same by reflexivity. rewrite andb_false_r. reflexivity.
  - destruct B as [e [L [Ce [Nu ->]]]]. destruct (pop fs) as [[f|] fs0]; [inversion H|].
    inversion H; subst. unfold build_dnsendpoint. rewrite lookup_insert_eq.
    assert (En : norm_dns (dns_updated e d0) = dns_updated e d0).
    { unfold norm_dns, dns_updated. cbn. f_equal. apply (f_equal d_eps) in Nd. exact Nd. }
    rewrite En. rewrite dns_needs_update_same by reflexivity. rewrite andb_false_r. reflexivity.
Qed.

(* the controller never puts an object it controls under another name than the VirtualServer's *)
Definition named_for (uid name : string) (st : smap dnsep) : Prop :=
  forall k o, lookup k st = Some o -> controlled_by (d_owner o) uid = true -> k = name.

Lemma dns_step_named v fs st st' lg r :
  named_for (v_uid v) (v_name v) st -> sync_dns v fs st = (st', lg, r) -> named_for (v_uid v) (v_name v) st'.
Proof.
  intros Hn H. pose proof (sync_dns_outcome v fs st) as O. rewrite H in O.
  inversion O; subst; try assumption; intros k o L C; apply lookup_insert_some in L;
    destruct L as [[-> _]|[_ L]]; try reflexivity; eapply Hn; eassumption.
Qed.

(* ------------------------------------------------------------------ histories *)

Definition ords_ok (h : list event) : Prop := forall e, In e h -> perm_fun (ev_ord e).

Definition wk (st : smap cert) : Prop := wf st /\ keys_ok st.

Lemma good_wk u st : good_for u st -> wk st.
Proof. intros [W [K _]]. split; assumption. Qed.

Lemma delete_all_wk names fs st st' lg r : wk st -> delete_all names fs st = (st', lg, r) -> wk st'.
Proof.
  intros [W K] H. split; [eapply delete_all_wf; eassumption|].
  intros k o L. apply K. eapply delete_all_mono; eassumption.
Qed.

Lemma cert_step_wk cs ord v fs st st' lg r : wk st -> sync_cert cs ord v fs st = (st', lg, r) -> wk st'.
Proof.
  intros G H. destruct (feature_cases v) as [Off|[t [cm [E1 E2]]]].
  - rewrite sync_cert_off in H by assumption. inversion H; subst. assumption.
  - rewrite (sync_cert_on _ _ _ _ _ _ _ E1 E2) in H.
    destruct (desired_cert v t cm) as [crt|] eqn:Dc; [|inversion H; subst; assumption].
    cbn zeta in H. apply desired_cert_shape in Dc. destruct Dc as [Dn [Do Ds]].
    pose proof (build_certificates_spec cs (v_uid v) (t_secret t) crt st) as B.
    assert (Gi : forall c, c_name c = t_secret t -> wk (insert (t_secret t) c st)).
    { intros c En. destruct G as [W K]. split; [apply wf_insert; assumption|apply keys_ok_insert; assumption]. }
    destruct (build_certificates cs (v_uid v) (t_secret t) crt st) as [|c|c].
    + eapply delete_all_wk; eassumption.
    + destruct B as [Ls ->]. apply write_then_gc_inv in H.
      destruct H as [[f [-> [-> ->]]]|[fs' [lg0 [D ->]]]]; [assumption|].
      eapply delete_all_wk; [|exact D]. apply Gi; assumption.
    + destruct B as [e [Ls [Ce [_ ->]]]]. apply write_then_gc_inv in H.
      destruct H as [[f [-> [-> ->]]]|[fs' [lg0 [D ->]]]]; [assumption|].
      eapply delete_all_wk; [|exact D]. apply Gi. cbn. destruct G as [W K]. apply K. assumption.
Qed.

Lemma step_cert_eq cs st e :
  sync_cert cs (ev_ord e) (ev_vs e) (ev_cfaults e) st =
  (step_cert cs st e, snd (fst (sync_cert cs (ev_ord e) (ev_vs e) (ev_cfaults e) st)),
   snd (sync_cert cs (ev_ord e) (ev_vs e) (ev_cfaults e) st)).
Proof. unfold step_cert. destruct (sync_cert cs (ev_ord e) (ev_vs e) (ev_cfaults e) st) as [[a b] c]. reflexivity. Qed.

Lemma step_dns_eq st e :
  sync_dns (ev_vs e) (ev_dfaults e) st =
  (step_dns st e, snd (fst (sync_dns (ev_vs e) (ev_dfaults e) st)), snd (sync_dns (ev_vs e) (ev_dfaults e) st)).
Proof. unfold step_dns. destruct (sync_dns (ev_vs e) (ev_dfaults e) st) as [[a b] c]. reflexivity. Qed.

Lemma run_cert_good u cs h : forall st, good_for u st -> good_for u (run_cert cs h st).
Proof.
  induction h as [|e h IH]; intros st G; [exact G|]. cbn. apply IH.
  eapply cert_step_good; [exact G|apply step_cert_eq].
Qed.

Lemma run_cert_wk cs h : forall st, wk st -> wk (run_cert cs h st).
Proof.
  induction h as [|e h IH]; intros st G; [exact G|]. cbn. apply IH.
  eapply cert_step_wk; [exact G|apply step_cert_eq].
Qed.

Lemma run_dns_good h : forall st, good_d st -> good_d (run_dns h st).
Proof.
  induction h as [|e h IH]; intros st G; [exact G|]. cbn. apply IH.
  eapply dns_step_good; [exact G|apply step_dns_eq].
Qed.

Definition trace_ok {A} (own : A -> owner) (tr : list (smap A * vs * list action)) : Prop :=
  Forall (fun x => Forall (action_ok own (fst (fst x)) (v_uid (snd (fst x)))) (snd x)) tr.

(* Certificates, whole histories: every action of every synchronization targets an object its
   VirtualServer controls at that moment (or a free name), and an object that none of the
   VirtualServers of the history controls is there at the end, unchanged *)
Lemma cert_history_foreign cs h : forall st, wk st -> ords_ok h ->
  trace_ok c_owner (trace_cert cs h st) /\
  forall k o, lookup k st = Some o ->
              (forall e, In e h -> controlled_by (c_owner o) (v_uid (ev_vs e)) = false) ->
              lookup k (run_cert cs h st) = Some o.
Proof.
  induction h as [|e h IH]; intros st G Ho.
  - split; [constructor|]. intros k o L _. exact L.
  - pose proof (step_cert_eq cs st e) as Hs.
    assert (S : sub_fun (ev_ord e)) by (apply perm_sub; apply Ho; cbn; auto).
    assert (Ho' : ords_ok h) by (intros e' Hin; apply Ho; cbn; auto).
    pose proof (cert_step_wk _ _ _ _ _ _ _ _ G Hs) as G'.
    destruct (IH _ G' Ho') as [IHt IHu]. destruct G as [W K]. split.
    + cbn. constructor; [|exact IHt]. cbn. eapply cert_step_actions; eassumption.
    + intros k o L Hc. cbn. apply IHu.
      * eapply cert_step_frame; try eassumption. apply Hc. cbn. auto.
      * intros e' Hin. apply Hc. cbn. auto.
Qed.

Lemma dns_history_foreign h : forall st,
  trace_ok d_owner (trace_dns h st) /\
  forall k o, lookup k st = Some o ->
              (forall e, In e h -> controlled_by (d_owner o) (v_uid (ev_vs e)) = false) ->
              lookup k (run_dns h st) = Some o.
Proof.
  induction h as [|e h IH]; intros st.
  - split; [constructor|]. intros k o L _. exact L.
  - pose proof (step_dns_eq st e) as Hs. destruct (IH (step_dns st e)) as [IHt IHu]. split.
    + cbn. constructor; [|exact IHt]. cbn. eapply dns_step_actions; eassumption.
    + intros k o L Hc. cbn. apply IHu.
      * eapply dns_step_frame; try eassumption. apply Hc. cbn. auto.
      * intros e' Hin. apply Hc. cbn. auto.
Qed.

(* ------------------------------------------------------------------ the theorems of Properties/C20.v *)

Theorem foreign_untouched : forall cs (h : list event) (sc : smap cert) (sd : smap dnsep),
  wf sc -> keys_ok sc -> ords_ok h ->
  (trace_ok c_owner (trace_cert cs h sc) /\ trace_ok d_owner (trace_dns h sd)) /\
  (forall k o, lookup k sc = Some o ->
               (forall e, In e h -> controlled_by (c_owner o) (v_uid (ev_vs e)) = false) ->
               lookup k (run_cert cs h sc) = Some o) /\
  (forall k o, lookup k sd = Some o ->
               (forall e, In e h -> controlled_by (d_owner o) (v_uid (ev_vs e)) = false) ->
               lookup k (run_dns h sd) = Some o).
Proof.
  intros cs h sc sd W K Ho.
  destruct (cert_history_foreign cs h sc (conj W K) Ho) as [T1 U1].
  destruct (dns_history_foreign h sd) as [T2 U2]. auto.
Qed.

Theorem idempotent_cert : forall cs (h : list event) (s0 : smap cert) v,
  good_for (v_uid v) s0 ->
  forall ord ord' fs fs' st1 lg, perm_fun ord -> perm_fun ord' ->
    sync_cert cs ord v fs (run_cert cs h s0) = (st1, lg, ROk) ->
    sync_cert cs ord' v fs' st1 = (st1, [], ROk).
Proof.
  intros cs h s0 v G ord ord' fs fs' st1 lg P P' H.
  eapply cert_step_idempotent; [apply run_cert_good; exact G|exact P|exact P'|exact H].
Qed.

Theorem idempotent_dns_partial : forall (h : list event) (s0 : smap dnsep) v fs fs' st1 lg,
  x_labels (v_xdns v) <> Some [] ->
  sync_dns v fs (run_dns h s0) = (st1, lg, ROk) -> sync_dns v fs' st1 = (st1, [], ROk).
Proof. intros h s0 v fs fs' st1 lg Hl H. eapply dns_step_idempotent; eassumption. Qed.

Lemma tracks_fixed_spec o crt :
  tracks cs_fixed o crt -> c_is_ca (c_spec o) = c_is_ca (c_spec crt) -> c_spec o = c_spec crt.
Proof.
  intros [_ [_ [A1 [A2 [A3 [A4 [A5 [A6 [A7 [A8 A9]]]]]]]]]] Hca.
  specialize (A6 eq_refl). specialize (A7 eq_refl). specialize (A8 eq_refl). specialize (A9 eq_refl).
  destruct (c_spec o), (c_spec crt). cbn in *. congruence.
Qed.

Theorem fresh_cert_partial : forall cs (h : list event) (s0 : smap cert) v,
  good_for (v_uid v) s0 ->
  forall ord fs st1 lg t cm, perm_fun ord ->
    v_tls v = Some t -> t_cm t = Some cm ->
    sync_cert cs ord v fs (run_cert cs h s0) = (st1, lg, ROk) ->
    exists crt, wanted_cert v = Some crt /\
      match lookup (t_secret t) (run_cert cs h s0) with
      | None => lookup (t_secret t) st1 = Some crt
      | Some e =>
          if controlled_by (c_owner e) (v_uid v)
          then exists o, lookup (t_secret t) st1 = Some o /\ tracks cs o crt /\ c_owner o = c_owner crt /\
                         c_temp o = c_temp e /\
                         (cert_needs_update cs e crt = true -> c_spec o = c_spec crt) /\
                         (cert_needs_update cs e crt = false -> o = e)
          else lookup (t_secret t) st1 = Some e
      end.
Proof.
  intros cs h s0 v G ord fs st1 lg t cm P E1 E2 H.
  destruct (cert_step_fresh cs ord v fs _ st1 lg t cm (run_cert_good _ cs h s0 G) P E1 E2 H) as [crt [Dc Hf]].
  exists crt. split; [|exact Hf]. unfold wanted_cert. rewrite E1, E2. exact Dc.
Qed.

Theorem fresh_dns : forall (h : list event) (s0 : smap dnsep),
  good_d s0 ->
  forall v fs st1 lg,
    sync_dns v fs (run_dns h s0) = (st1, lg, ROk) -> x_enable (v_xdns v) = true ->
    match lookup (v_name v) (run_dns h s0) with
    | None => True | Some e => controlled_by (d_owner e) (v_uid v) = true end ->
    exists d, wanted_dns v = Some d /\ lookup (v_name v) st1 = Some d.
Proof.
  intros h s0 G v fs st1 lg H En Hm.
  exact (dns_step_fresh v fs (run_dns h s0) st1 lg (run_dns_good h s0 G) H En Hm).
Qed.

Theorem gc_cert_partial : forall cs (h : list event) (s0 : smap cert) v,
  good_for (v_uid v) s0 ->
  forall ord fs st1 lg, perm_fun ord -> cert_feature_on v = true ->
    sync_cert cs ord v fs (run_cert cs h s0) = (st1, lg, ROk) ->
    forall k o, lookup k st1 = Some o -> controlled_by (c_owner o) (v_uid v) = true ->
                exists t, v_tls v = Some t /\ k = t_secret t.
Proof.
  intros cs h s0 v G ord fs st1 lg P On H k o L C.
  destruct (feature_cases v) as [Off|[t [cm [E1 E2]]]]; [congruence|].
  exists t. split; [assumption|].
  eapply (cert_step_gc cs ord v fs _ st1 lg t cm (run_cert_good _ cs h s0 G) P E1 E2 H); eassumption.
Qed.

Theorem gc_dns_partial : forall v fs st st' lg r,
  named_for (v_uid v) (v_name v) st -> sync_dns v fs st = (st', lg, r) -> named_for (v_uid v) (v_name v) st'.
Proof. exact dns_step_named. Qed.

(* ------------------------------------------------------------------ refutations (witnesses, replayed
   on the real code by the harness as its fixed "witness" histories) *)

Definition w_cm (group : string) (d r : dur) (usages : string) (temp : bool) : certmgr :=
  mkCertmgr "" "iss-1" "" group "" d r usages temp.
Definition w_x (en : bool) (l : option kvs) : extdns := mkExtdns en "" 0%Z l [].
Definition w_vs (tl : option tls) (x : extdns) : vs :=
  mkVs "vs-a" "uid-a" [] "a.example.com" tl x (Some [mkExtep "10.0.0.1" "" IPv4]).
Definition w_tls (cm : certmgr) : option tls := Some (mkTls "s1" (Some cm)).
Definition hours (n : Z) : dur := DOk (n * 3600000000000)%Z.
Definition idord (l : list string) : list string := l.

(* two fault-free, successful synchronizations from the empty cluster, of one VirtualServer before
   and after an edit; afterwards the Certificate is not the one a first-time synchronization of the
   edited VirtualServer creates *)
Definition stale_after (cs : cmpset) (v1 v2 : vs) : Prop :=
  exists s1 l1 s2 l2 o c,
    sync_cert cs idord v1 [] [] = (s1, l1, ROk) /\ sync_cert cs idord v2 [] s1 = (s2, l2, ROk) /\
    v_uid v1 = v_uid v2 /\ lookup "s1" s2 = Some o /\ wanted_cert v2 = Some c /\ o <> c.

Ltac stale := unfold stale_after; do 6 eexists;
  split; [vm_compute; reflexivity|]; split; [vm_compute; reflexivity|]; split; [reflexivity|];
  split; [vm_compute; reflexivity|]; split; [vm_compute; reflexivity|]; intros E; discriminate E.

Definition wv_dur1 := w_vs (w_tls (w_cm "" (hours 2160) DNone "" false)) (w_x false None).
Definition wv_dur2 := w_vs (w_tls (w_cm "" (hours 720) DNone "" false)) (w_x false None).
Definition wv_renew1 := w_vs (w_tls (w_cm "" DNone (hours 360) "" false)) (w_x false None).
Definition wv_renew2 := w_vs (w_tls (w_cm "" DNone (hours 240) "" false)) (w_x false None).
Definition wv_usages1 := w_vs (w_tls (w_cm "" DNone DNone "server auth" false)) (w_x false None).
Definition wv_usages2 := w_vs (w_tls (w_cm "" DNone DNone "client auth" false)) (w_x false None).
Definition wv_group1 := w_vs (w_tls (w_cm "" DNone DNone "" false)) (w_x false None).
Definition wv_group2 := w_vs (w_tls (w_cm "awspca.cert-manager.io" DNone DNone "" false)) (w_x false None).
Definition wv_temp1 := w_vs (w_tls (w_cm "" DNone DNone "" false)) (w_x false None).
Definition wv_temp2 := w_vs (w_tls (w_cm "" DNone DNone "" true)) (w_x false None).

Theorem fresh_cert_refuted :
  (stale_after cs_current wv_dur1 wv_dur2 /\ stale_after cs_current wv_renew1 wv_renew2 /\
   stale_after cs_current wv_usages1 wv_usages2 /\ stale_after cs_current wv_group1 wv_group2) /\
  (forall cs, stale_after cs wv_temp1 wv_temp2).
Proof.
  split; [repeat split; stale|]. intros [[] [] [] []]; stale.
Qed.

(* the cert-manager block (or the whole tls block) is removed: the synchronization succeeds, writes
   nothing, and the Certificate the VirtualServer controls stays *)
Definition left_behind_cert (cs : cmpset) (v1 v2 : vs) : Prop :=
  exists s1 l1 o,
    sync_cert cs idord v1 [] [] = (s1, l1, ROk) /\ cert_feature_on v2 = false /\ v_uid v2 = v_uid v1 /\
    sync_cert cs idord v2 [] s1 = (s1, [], ROk) /\
    lookup "s1" s1 = Some o /\ controlled_by (c_owner o) (v_uid v2) = true.

Definition wv_nocm := w_vs (Some (mkTls "s1" None)) (w_x false None).
Definition wv_notls := w_vs None (w_x false None).

Theorem gc_cert_refuted : forall cs, left_behind_cert cs wv_temp1 wv_nocm /\ left_behind_cert cs wv_temp1 wv_notls.
Proof.
  intros cs. split; unfold left_behind_cert; do 3 eexists; repeat split; vm_compute; reflexivity.
Qed.

Definition left_behind_dns (v1 v2 : vs) : Prop :=
  exists s1 l1 o,
    sync_dns v1 [] [] = (s1, l1, ROk) /\ x_enable (v_xdns v2) = false /\ v_uid v2 = v_uid v1 /\
    sync_dns v2 [] s1 = (s1, [], ROk) /\
    lookup "vs-a" s1 = Some o /\ controlled_by (d_owner o) (v_uid v2) = true.

Definition wv_dns_on := w_vs None (w_x true None).
Definition wv_dns_off := w_vs None (w_x false None).

Theorem gc_dns_refuted : left_behind_dns wv_dns_on wv_dns_off.
Proof. unfold left_behind_dns. do 3 eexists. repeat split; vm_compute; reflexivity. Qed.

(* externalDNS.labels: {} -- every further synchronization of the unchanged VirtualServer updates *)
Definition wv_dns_empty_labels := w_vs None (w_x true (Some [])).

Theorem idempotent_dns_refuted :
  exists s1 l1, sync_dns wv_dns_empty_labels [] [] = (s1, l1, ROk) /\
                sync_dns wv_dns_empty_labels [] s1 = (s1, [(VUpdate, "vs-a")], ROk).
Proof. do 2 eexists. split; vm_compute; reflexivity. Qed.

(* ------------------------------------------------------------------ the lister reflects the cluster *)

(* with cache = cluster the two-store functions are the one-store functions all theorems are about *)
Lemma sync_cert2_coherent cs ord v fs st : sync_cert2 cs ord v fs st st = sync_cert cs ord v fs st.
Proof.
  unfold sync_cert2, sync_cert. destruct (v_tls v) as [t|]; [|reflexivity].
  destruct (t_cm t) as [cm|]; [|reflexivity]. destruct (desired_cert v t cm) as [crt|]; [|reflexivity].
  cbn zeta. pose proof (build_certificates_spec cs (v_uid v) (t_secret t) crt st) as B.
  destruct (build_certificates cs (v_uid v) (t_secret t) crt st) as [|c|c]; [reflexivity| |].
  - destruct B as [L _]. unfold write_then_gc2, write_then_gc. destruct (pop fs) as [[f|] fs']; [reflexivity|].
    rewrite L. reflexivity.
  - destruct B as [e [L _]]. unfold write_then_gc2, write_then_gc. destruct (pop fs) as [[f|] fs']; [reflexivity|].
    rewrite L. reflexivity.
Qed.

Lemma sync_dns2_coherent v fs st : sync_dns2 v fs st st = sync_dns v fs st.
Proof.
  unfold sync_dns2, sync_dns. destruct (negb (x_enable (v_xdns v))); [reflexivity|].
  destruct (v_endpoints v) as [eps|]; [|reflexivity]. destruct (valid_targets eps) as [[ts rt]|]; [|reflexivity].
  cbn zeta. pose proof (build_dnsendpoint_spec v (desired_dns v ts rt) st) as B.
  destruct (build_dnsendpoint v (desired_dns v ts rt) st) as [|c|c]; [reflexivity| |].
  - destruct B as [L _]. destruct (pop fs) as [[f|] fs']; [reflexivity|]. rewrite L. reflexivity.
  - destruct B as [e [L _]]. destruct (pop fs) as [[f|] fs']; [reflexivity|]. rewrite L. reflexivity.
Qed.

(* the cache is only read: a stale or tampered cache changes what is written, never which objects may
   be written -- every action still targets what the CACHE shows as controlled by the VirtualServer *)
Lemma sync_dns2_actions v fs cache cluster st' lg r :
  sync_dns2 v fs cache cluster = (st', lg, r) -> Forall (action_ok d_owner cache (v_uid v)) lg.
Proof.
  unfold sync_dns2. destruct (negb (x_enable (v_xdns v))); [intros H; inversion H; constructor|].
  destruct (v_endpoints v) as [eps|]; [|intros H; inversion H; constructor].
  destruct (valid_targets eps) as [[ts rt]|]; [|intros H; inversion H; constructor].
  cbn zeta. pose proof (build_dnsendpoint_spec v (desired_dns v ts rt) cache) as B.
  destruct (build_dnsendpoint v (desired_dns v ts rt) cache) as [|c|c]; [intros H; inversion H; constructor| |].
  - destruct B as [L _]. intros H.
    assert (lg = [(VCreate, v_name v)]) as ->.
    { destruct (pop fs) as [[[]|] fs']; try (inversion H; reflexivity).
      destruct (lookup (v_name v) cluster); inversion H; reflexivity. }
    constructor; [exact L|constructor].
  - destruct B as [e [L [Ce _]]]. intros H.
    assert (lg = [(VUpdate, v_name v)]) as ->.
    { destruct (pop fs) as [[f|] fs']; try (inversion H; reflexivity).
      destruct (lookup (v_name v) cluster); inversion H; reflexivity. }
    constructor; [exists e; auto|constructor].
Qed.

Lemma run_cert2_coherent cs h : forall st, run_cert2 cs h (st, st) = (run_cert cs h st, run_cert cs h st).
Proof.
  induction h as [|e h IH]; intros st; [reflexivity|].
  change (run_cert2 cs (e :: h) (st, st)) with (run_cert2 cs h (step_cert2 cs (st, st) e)).
  change (run_cert cs (e :: h) st) with (run_cert cs h (step_cert cs st e)).
  unfold step_cert2, step_cert. cbn [fst snd]. rewrite sync_cert2_coherent. apply IH.
Qed.

Lemma run_dns2_coherent h : forall st, run_dns2 h (st, st) = (run_dns h st, run_dns h st).
Proof.
  induction h as [|e h IH]; intros st; [reflexivity|].
  change (run_dns2 (e :: h) (st, st)) with (run_dns2 h (step_dns2 (st, st) e)).
  change (run_dns (e :: h) st) with (run_dns h (step_dns st e)).
  unfold step_dns2, step_dns. cbn [fst snd]. rewrite sync_dns2_coherent. apply IH.
Qed.

Theorem lister_reflects_cluster :
  (forall cs ord v fs st, sync_cert2 cs ord v fs st st = sync_cert cs ord v fs st) /\
  (forall v fs st, sync_dns2 v fs st st = sync_dns v fs st) /\
  (forall cs h st, run_cert2 cs h (st, st) = (run_cert cs h st, run_cert cs h st)) /\
  (forall h st, run_dns2 h (st, st) = (run_dns h st, run_dns h st)).
Proof.
  split; [exact sync_cert2_coherent|]. split; [exact sync_dns2_coherent|].
  split; [exact run_cert2_coherent|exact run_dns2_coherent].
Qed.
