//go:build verif

package main

// The family "rejected, hence not served": the premise of C06 -- only resources that validation accepts reach the
// generator -- checked on the REAL controller path (Configuration.AddOrUpdate*, create*Ex, Configurator), not on the
// validator functions.  For the first instance of every (field, context) of an Ingress, VirtualServer,
// VirtualServerRoute or TransportServer a value that the REAL validator function rejects is delivered through the
// controller; what is rendered must then be exactly what is rendered when the resource does not exist.
// (Policies: see histories.go.)

import (
	"strings"

	"github.com/nginx/kubernetes-ingress/internal/verifh/vh"
)

var rejectProbes = []string{";", "\"", "; injected on;", "{", "\\", "\n}", " x;y"}

// rejectedValue: a value of the leaf that API admission lets through and the real validator function rejects
func (e *env) rejectedValue(w *World, oi int, l Leaf) (string, bool) {
	for _, p := range rejectProbes {
		for _, v := range []string{l.Value + p, p} {
			if v == l.Value {
				continue
			}
			w2 := mutate(w, oi, l.Path, v)
			if w2 == nil || crdAdmits(kindName(w.Objs[oi]), l.Path, v) != "" {
				continue
			}
			why := e.validate(w2, oi)
			if why == "" || strings.HasPrefix(why, "api-server:") || strings.HasPrefix(why, "class:") {
				continue
			}
			return v, true
		}
	}
	return "", false
}

func worldWithout(w *World, oi int) *World {
	w2 := *w
	w2.Objs = append(append([]Obj(nil), w.Objs[:oi]...), w.Objs[oi+1:]...)
	return &w2
}

// rejectedProbe runs one probe; ok=false when the leaf has no rejected value
func (e *env) rejectedProbe(w *World, base *Render, oi int, l Leaf, absent map[int]*Render) (c Case, ok, served bool) {
	v, found := e.rejectedValue(w, oi, l)
	if !found {
		return c, false, false
	}
	exp := absent[oi]
	if exp == nil {
		r := e.runWorld(worldWithout(w, oi))
		exp = &r
		absent[oi] = exp
	}
	r := e.runWorld(mutate(w, oi, l.Path, v))
	c = Case{Rec: "case", Obj: oi, Kind: w.Objs[oi].Kind, Path: l.Path, Field: l.Field, Plus: w.Plus, History: "rejected-not-served",
		Value: vh.Bytes(v), Harmless: vh.Bytes(l.Value), HKind: "resource-absent"}
	c.Obs.Accepted, c.Obs.Attached = true, true
	c.Obs.Panic = r.Panic
	if sameFiles(r.Files, exp.Files) {
		return c, true, false
	}
	c.Obs.Reject = "rejected-but-served"
	c.Obs.Files = diffAgainst(base.Files, r.Files)
	c.Obs.HFiles = diffAgainst(base.Files, exp.Files)
	c.Obs.Go = filesVerdict(r.Files, exp.Files)
	return c, true, true
}
