"""Writes MANIFEST.json from one table, so that it is always valid and in step with the checks."""
import json, os, sys
ROOT = os.path.dirname(os.path.dirname(os.path.abspath(__file__)))

# pid -> (technique, level text, level_note, design_ref)
CLAIMS = {
    "C13": ("Rocq theorems over all response schedules (functions nat -> resp) of a model of WaitForCorrectVersion / Reload / API guard; "
            "model tied to the code by a correspondence harness on scripted unix-socket endpoints",
            "Machine-checked proof (Rocq 8.16.1, no axioms) that in the model an acknowledgement comes only from an exact HTTP 200 answer "
            "carrying exactly the expected version requested before the deadline, that a wait without such an answer fails, that versions strictly "
            "increase over any reload sequence and that the Plus API is called only behind a confirmed version; the hand-written model is run against "
            "the real verify.go/manager.go on generated response scripts on every run and the decidable specification is evaluated on the "
            "implementation's own outcomes.",
            "Trusted: Rocq kernel + vm_compute; the correspondence harness; the stand-in for the nginx binary; NGINX's handling of config-version.conf "
            "(compared byte-for-byte with the model but never executed). Timing within 30 ms of the deadline is proved in the model but not exercised.",
            "DESIGN.md 7 C13"),
}

ARB_NOTE = ("Trusted: Rocq kernel + vm_compute; the hand-written model coq/Arb of internal/k8s/configuration.go (tied by the arb correspondence harness driving the real "
            "k8s.Configuration on random histories, every step compared); the projection of real objects onto the model's attributes; validators and the class predicate as "
            "oracles whose real verdicts are fed to the model; API-server assumptions K1-K3 enforced by the generator.")

CLAIMS["C01"] = (
    "Rocq theorems over all event histories of a model of Configuration (strict total order of the winner relation, running-holder fold = least claimant in any order, "
    "state = last write per key, hosts = function of the object set); model tied by a correspondence harness on the real k8s.Configuration; order-free owner spec evaluated on the implementation's hosts map",
    "Machine-checked proof (no axioms) that for every finite history the owner of every host in the model's hosts map is the least claimant (creationTimestamp, then UID) of the current object set, "
    "that a claimed host always has an owner which is a claimant, and that hosts / listener hosts / GetResources depend on the history only through the final object set (any permutation ending in the same set); "
    "the model is run step by step against the real Configuration on generated histories and their re-orderings, and the order-free specification is evaluated on the implementation's own hosts map after every event.",
    ARB_NOTE, "DESIGN.md 7 C01")
CLAIMS["C02"] = (
    "Rocq theorems over all histories (listener+host owner = least claimant; active only on a listener of matching name and protocol, bound to its port/addresses) and over all listener lists "
    "(refinement of the validator's ip/port/protocol tables to a table-free specification; no conflicts, unique names, no reserved port, malformed entries inert, valid entries admitted); "
    "two correspondence harnesses (real Configuration; real createGlobalConfigurationValidator + ValidateGlobalConfiguration)",
    "Machine-checked proof (no axioms) of listener ownership and binding for every history, and of the admission guarantees for every listener list and every reserved-port set, including that the "
    "entries the code records for rejected listeners never change a verdict; both models are run against the real code on every run and the decidable guarantees are evaluated on the real admitted lists.",
    ARB_NOTE + " DNS-label and IP-address syntax are oracle bits probed from the real validator.", "DESIGN.md 7 C02")

CLAIMS["C03"] = (
    "Rocq model of IsEqual / detectChangesIn* / createResourceChanges* / squash / deletes-first tied to the real Configuration by correspondence; the decidable specification "
    "(replay of the implementation's own change batches into a shadow == GetResources after every event; deletes before updates) evaluated in Rocq on every generated history",
    "The shadow-replay specification is evaluated by the Rocq kernel (vm_compute) on the real change batches of every generated history, and the change-emitting code is covered by the "
    "step-by-step correspondence with the model; machine-checked theorems so far: the applied state is a function of the object set (hosts/listener hosts rebuilt from scratch). "
    "The full invariant `shadow tracks state` over all histories is stated in DESIGN.md and not yet proved (partial). Three genuine defects found by this check were repaired by fix: commits.",
    ARB_NOTE + " Attributes a configuration is rendered from = the whole Resource except warnings; an object's spec is identified by (UID, generation, annotations).", "DESIGN.md 7 C03")
CLAIMS["C20"] = (
    "Rocq theorems over all histories, fault oracles and lister orders of a model of SyncFnFor (certmanager + externaldns), tied by a correspondence harness on the real sync functions with "
    "fake clientsets/listers; the four properties evaluated on the implementation's own action logs and stores; the update predicate is probed each run",
    "Machine-checked proof (no axioms) of ownership safety in full, idempotence (full for Certificates; for DNSEndpoints except `labels: {}`), DNSEndpoint freshness in full, Certificate freshness "
    "and garbage collection in restricted form with vm_compute refutations of the full statements, every refutation reproduced on the real code (known findings F22e-i; F22a-d repaired).",
    "Trusted: Rocq kernel; the harness; the fake object tracker + JSON round trip standing in for the API server; listers refreshed between, not during, synchronizations; one namespace; "
    "oracles for time.ParseDuration / IsValidIP; the key-usage table is transcribed.", "DESIGN.md 7 C20")

NOT_YET = {}


def build():
    props = [json.loads(l) for l in open(os.path.join(ROOT, "properties.jsonl"))]
    checks, na = [], []
    for p in props:
        pid = p["id"]
        if pid in CLAIMS:
            tech, text, note, ref = CLAIMS[pid]
            checks.append({
                "property_id": pid,
                "quick_cmd": "./check %s --tier quick" % pid,
                "thorough_cmd": "./check %s --tier thorough" % pid,
                "evidence_file": "/verif/evidence/%s.json" % pid,
                "replay_cmd_template": "./check %s --replay {path}" % pid,
                "engine": "rocq",
                "level_claimed": {"category": "proof", "text": text, "design_ref": ref},
                "level_note": note,
                "technique": tech,
            })
        else:
            na.append({"property_id": pid, "reason": NOT_YET.get(pid, "check not built yet in this session; see DESIGN.md section 7 for the planned model and theorems")})
    m = {
        "version": 1,
        "setup_cmd": "./check --setup",
        "hooks": {
            "guard": "verif",
            "enable": "go build -tags verif -overlay /verif/.work/overlay.json (every hook is a //go:build verif file kept under /verif/harness/overlay and laid over /repo at build time; nothing is committed to /repo)",
            "baseline_off_cmd": "cd /repo && GOFLAGS=-mod=mod GOPROXY=off go test -vet=off -count=1 ./...",
            "source_commits": [],
            "add_only": True,
        },
        "engines": [{"name": "rocq", "path": "/verif/coq", "serves_properties": sorted(CLAIMS),
                     "kind_free_text": "Rocq/Coq 8.16.1 development (coq_makefile, full .vo build); models tied to /repo by Go correspondence harnesses built with -overlay and by translators"}],
        "checks": checks,
        "not_applicable": na,
        "notes": "See DESIGN.md. Known findings: KNOWN_FINDINGS.jsonl.",
    }
    with open(os.path.join(ROOT, "MANIFEST.json"), "w") as f:
        json.dump(m, f, indent=1)
    return m


if __name__ == "__main__":
    m = build()
    try:
        import jsonschema
        jsonschema.validate(m, json.load(open("/root/.vp/MANIFEST.schema.json")))
        print("MANIFEST.json valid (%d checks, %d not_applicable)" % (len(m["checks"]), len(m["not_applicable"])))
    except ImportError:
        print("MANIFEST.json written (jsonschema not available to validate)")
