(* C05 truth proof, part 17: facts about the state a history leads to; the validation error is reported *)
From Coq Require Import List ZArith String Ascii Bool Lia.
From NIC Require Import Base.SMap Arb.Types Arb.Model Arb.Spec Arb.WinsProofs Arb.InvProofs Arb.OwnerProofs
     Arb.ListenerProofs Arb.ClassProofs Arb.ChangeProofs Arb.ReportProofs Arb.ComposeProofs Arb.Cases Arb.ShadowProofs Arb.ShadowAttrs.
From NIC Require Import Arb.Truth01 Arb.Truth02 Arb.Truth03 Arb.Truth04 Arb.Truth05 Arb.Truth06 Arb.Truth07 Arb.Truth08 Arb.Truth09 Arb.Truth10 Arb.Truth11 Arb.Truth12 Arb.Truth13 Arb.Truth14 Arb.Truth15 Arb.Truth16.
Import ListNotations.
Open Scope string_scope.
Open Scope Z_scope.

Record hyps (c : cfg) (es : list event) : Prop := {
  h_cm : cert_manager c = false;
  h_role : Forall ev_role es;
  h_k3 : k3_hist es;
  h_wf : Forall (ev_wf c) es
}.

Lemma hyps_prefix c es e : hyps c (es ++ [e])%list -> hyps c es.
Proof.
  intros [H1 H2 H3 H4]. constructor; [exact H1|exact (proj1 (forall_prefix _ _ _ H2))|exact (k3_hist_prefix _ _ H3)|exact (proj1 (forall_prefix _ _ _ H4))].
Qed.

Definition Pst (s : state) (k : string) : Prop := lookup k (hprobs s) <> None \/ lookup k (lprobs s) <> None.

Lemma problem_eqb_uid p q : problem_eqb p q = true -> p_uid p = p_uid q.
Proof. unfold problem_eqb. intros H. apply andb_true_iff in H. destruct H as [_ H]. apply String.eqb_eq in H. exact H. Qed.

Section St.
  Variables (c : cfg) (es : list event).
  Hypothesis Hy : hyps c es.
  Let S := run c es.

  Lemma st_objs : objs_of_state S = objs_after es. Proof. apply run_objs. Qed.
  Lemma st_ok : objs_ok (objs_of_state S). Proof. apply objs_ok_run. Qed.
  Lemma st_roles : roles_ok (objs_of_state S). Proof. apply roles_ok_run. exact (h_role _ _ Hy). Qed.
  Lemma st_wf : objs_wf c (objs_of_state S). Proof. rewrite st_objs. apply objs_wf_after. exact (h_wf _ _ Hy). Qed.

  Lemma st_ApO k : Ap S k <-> ApO c (objs_of_state S) k.
  Proof. apply Ap_ApO; [apply run_fn_inv|apply st_ok|apply st_roles]. Qed.

  Lemma st_hprobs : hprobs S = hprobs_of_objs c (objs_of_state S).
  Proof. exact (proj1 (proj2 (run_full_inv c es))). Qed.
  Lemma st_lprobs : lprobs S = lprobs_of_objs (objs_of_state S).
  Proof. exact (proj2 (proj2 (run_full_inv c es))). Qed.

  Lemma st_P1 k : Pst S k -> ~ Ap S k.
  Proof.
    intros [H|H] HA; apply st_ApO in HA.
    - rewrite st_hprobs in H. destruct (lookup k (hprobs_of_objs c (objs_of_state S))) as [p|] eqn:L; [|congruence].
      exact (hprob_not_applied c _ (h_cm _ _ Hy) st_ok st_roles st_wf k p L HA).
    - rewrite st_lprobs in H. destruct (lookup k (lprobs_of_objs (objs_of_state S))) as [p|] eqn:L; [|congruence].
      exact (lprob_not_applied c _ (h_cm _ _ Hy) st_ok st_roles k p L HA).
  Qed.

  Lemma st_hwho k p : lookup k (hprobs S) = Some p -> p_obj p = k /\ who (objs_after es) k (p_uid p).
  Proof.
    rewrite st_hprobs. intros L. destruct (hprob_who c _ (h_cm _ _ Hy) st_ok k p L) as (H1 & _ & H3). rewrite <- st_objs. auto.
  Qed.
  Lemma st_lwho k p : lookup k (lprobs S) = Some p -> p_obj p = k /\ who (objs_after es) k (p_uid p).
  Proof.
    rewrite st_lprobs. intros L. destruct (lprob_who _ k p L) as (H1 & _ & H3). rewrite <- st_objs. auto.
  Qed.

  Lemma st_named k : Ap S k -> exists u, who (objs_after es) k u.
  Proof. intros HA. apply st_ApO in HA. rewrite <- st_objs. exact (applied_named c _ (h_cm _ _ Hy) st_ok st_wf k HA). Qed.

  (* a resource of GetResources() names the stored object it was built from *)
  Lemma st_res_who k r : lookup k (get_resources S) = Some r -> who (objs_after es) k (m_uid (res_meta r)).
  Proof.
    intros L. rewrite <- st_objs.
    destruct (get_resources_key_val c S k r (run_fn_inv c es) st_ok st_roles L) as [(h & Hh & Hk)|(h & Hh & Hk)].
    - pose proof (b_hosts_res _ _ _ _ _ _ _ _ Hh) as Hres. rewrite Hk in Hres.
      pose proof (res_kind c _ (h_cm _ _ Hy) st_ok k r Hres) as Hkind. destruct r as [ic|vc|tc]; cbn [res_meta].
      + destruct Hkind as (k0 & Hst & _ & E). eapply who_ing; eauto.
      + destruct Hkind as (k0 & Hst & E). eapply who_vs; eauto.
      + destruct Hkind as (k0 & Hst & _ & E). eapply who_ts; eauto.
    - rewrite lookup_smap_map in Hh. destruct (lookup h (lhosts_of_objs (objs_of_state S))) as [tc|] eqn:E; [|discriminate].
      cbn in Hh. inversion Hh; subst r. destruct (lhosts_ts_listener _ h tc E) as [(k0 & Hst) _]. cbn [res_meta].
      eapply who_ts; eauto.
  Qed.
End St.

(* an object whose last upsert was invalid is not stored under its name *)
Lemma invalid_not_named o k e0 u : objs_ok o -> cl_entry o k e0 -> own_invalid e0 = true -> ~ who o k u.
Proof.
  intros Hok Hc Hi Hw. destruct e0 as [i cls v| |x cls v| |x cls v| |x cls v| | |]; cbn [cl_entry own_invalid] in *; try discriminate;
    destruct Hc as [Ek Hl]; apply andb_true_iff in Hi; destruct Hi as [-> Hv]; apply negb_true_iff in Hv; subst v; cbn [andb] in Hl.
  - destruct (who_ing_inv _ _ _ Hok Hw _ Ek) as (i1 & L1 & _). congruence.
  - destruct (who_vs_inv _ _ _ Hok Hw _ Ek) as (i1 & L1 & _). congruence.
  - destruct (who_vsr_inv _ _ _ Hok Hw _ Ek) as (i1 & L1 & _). congruence.
  - destruct (who_ts_inv _ _ _ Hok Hw _ Ek) as (i1 & L1 & _). congruence.
Qed.

(* the validation error of the object being processed is in a change about it or in a problem about it *)
Lemma attach_error_some k : forall cs cs', attach_error k cs = Some cs' -> exists ch, In ch cs' /\ ckey ch = k /\ c_err ch = true.
Proof.
  induction cs as [|c0 r IH]; intros cs' H; cbn [attach_error] in H; [discriminate|].
  destruct (String.eqb (rkey (c_res c0)) k) eqn:E.
  - inversion H; subst. eexists. split; [left; reflexivity|]. cbn. apply String.eqb_eq in E. auto.
  - destruct (attach_error k r) as [r'|]; [|discriminate]. inversion H; subst. destruct (IH _ eq_refl) as (ch & Hin & Hk & He).
    exists ch. split; [right; exact Hin|auto].
Qed.

Lemma wve_reported k u out : let out' := with_validation_error true k u out in
  (exists ch, In ch (snd (fst out')) /\ ckey ch = k /\ c_err ch = true) \/ (exists p, In p (snd out') /\ p_obj p = k /\ p_is_error p = true).
Proof.
  destruct out as [[s cs] ps]. cbn zeta. unfold with_validation_error. destruct (attach_error k cs) as [cs'|] eqn:Ha; cbn [fst snd].
  - left. exact (attach_error_some k cs cs' Ha).
  - right. eexists. split; [apply in_or_app; right; left; reflexivity|]. cbn. auto.
Qed.

Theorem invalid_reported c s e k : own_invalid e = true -> event_obj e = Some (k, true) ->
  (exists ch, In ch (snd (fst (step c s e))) /\ ckey ch = k /\ c_err ch = true) \/
  (exists p, In p (snd (step c s e)) /\ p_obj p = k /\ p_is_error p = true).
Proof.
  intros Hi Ho. destruct e as [i cls v| |x cls v| |x cls v| |x cls v| | |]; cbn [own_invalid event_obj] in *; try discriminate;
    inversion Ho; subst; rewrite andb_true_l in Hi; cbn [step andb]; rewrite ?Hi.
  - apply wve_reported.
  - apply wve_reported.
  - right. destruct (rebuild_hosts c (set_vsrs s _)) as [[s2 cs] ps]. cbn [snd]. eexists. split; [apply in_or_app; right; left; reflexivity|]. cbn. auto.
  - apply wve_reported.
Qed.
