"""C10 at the controller level: the histories of the arb harness go through the real LoadBalancerController.sync
(real Configuration -> processChanges -> real Configurator) over a manager that remembers which per-resource
configuration files exist; after every event there must be exactly one file per served resource."""
import json
from . import common as C, arb

CID, DX, DS, DC, DF, CNEV, DD, DK, DL, DFILES, DPT, DST, DSTC, DFSPEC = range(14)


def replay_files(run, path):
    cases = arb.replay_cases(run, path, ctl=True)
    run.cov.setdefault("rule", "")
    judge_files(run, cases)
    for c in cases:
        if not c.get("error"):
            for i, st in enumerate(c["ctl"]):
                print("replay case %d step %d: files %s" % (c["id"], i + 1, json.dumps(st["files"])))


def check_files(run, n):
    cases = arb.generate(run, n, tag="arbfiles", ctl=True)
    judge_files(run, cases)
    run.cov["rule"] += ("  controller level: %d histories of the arb harness (see C01: Ingress/VirtualServer/VirtualServerRoute/TransportServer/GlobalConfiguration events incl. same "
                        "namespace/name across kinds, host hand-overs, class flips, invalidation) through the real LoadBalancerController.sync over a manager that remembers the files; "
                        "after every event: exactly one file per resource in GetResources()." % len(cases))


def judge_files(run, cases):
    good = [c for c in cases if not c.get("error")]
    rows = arb.evaluate(run, good, fn="ctl_case", extra=arb.ctl_term, tag="arbfiles")
    for c in cases:
        if c.get("error"):
            run.failing({"kind": "harness-case-error"}, [c], "arb harness could not run case %d: %s" % (c["id"], c["error"][:300]),
                        theorem="correspondence harness arb", found_input="panic" in c["error"])
            continue
        r = rows[c["id"]]
        run.cov["traces_validated_against_impl"] += 1
        run.cov["controller_level_histories"] = run.cov.get("controller_level_histories", 0) + 1
        if r[DFILES] != 0:
            st = c["ctl"][r[DFILES] - 1]
            ev = c["histories"][0]["events"][r[DFILES] - 1]
            served = sorted("%s %s/%s" % (x["k"], (x.get(x["k"]) or {}).get("meta", {}).get("ns"), (x.get(x["k"]) or {}).get("meta", {}).get("name")) for x in st["res"])
            run.failing({"kind": "files-vs-served", "level": "controller"}, [c],
                        "C10: after step %d of case %d (%s %s %s/%s through the real lbc.sync) the per-resource configuration files are not one per served resource: files %s, served %s"
                        % (r[DFILES], c["id"], ev["op"], ev["spec"]["kind"], ev["spec"].get("ns"), ev["spec"].get("name"), json.dumps(st["files"]), json.dumps(served)),
                        theorem="Arb.Cases.files_ok")
        elif r[DPT] != 0:
            judge_pt(run, c, r, "C10")
        elif r[DFSPEC] != 0:
            st = c["ctl"][r[DFSPEC] - 1]
            ev = c["histories"][0]["events"][r[DFSPEC] - 1]
            run.failing({"kind": "files-vs-specified-served-set", "level": "controller"}, [c],
                        "C10: after step %d of case %d (%s %s %s/%s through the real lbc.sync) the configuration files are not one per resource that the current object set makes active "
                        "(Ingress/VirtualServer/TransportServer that owns a host or listener according to the specification): files %s"
                        % (r[DFSPEC], c["id"], ev["op"], ev["spec"]["kind"], ev["spec"].get("ns"), ev["spec"].get("name"), json.dumps(st["files"])),
                        theorem="Arb.Cases.files_spec_run")


def judge_pt(run, c, r, pid):
    st = c["ctl"][r[DPT] - 1]
    ev = c["histories"][0]["events"][r[DPT] - 1]
    served = sorted((x["ts"]["host"], "%s/%s" % (x["ts"]["meta"]["ns"], x["ts"]["meta"]["name"])) for x in st["res"] if x["k"] == "ts" and x["ts"]["proto"] == "TLS_PASSTHROUGH")
    run.failing({"kind": "passthrough-map", "level": "controller"}, [c],
                "%s: after step %d of case %d (%s %s %s/%s through the real lbc.sync and Configurator over a manager that, like LocalManager, reports whether a file's content changed) "
                "tls-passthrough-hosts.conf does not route exactly the hosts of the TLS passthrough TransportServers being served: file %s, served %s"
                % (pid, r[DPT], c["id"], ev["op"], ev["spec"]["kind"], ev["spec"].get("ns"), ev["spec"].get("name"), json.dumps(st["pt"]), json.dumps(served)),
                theorem="Arb.Cases.pt_ok")
