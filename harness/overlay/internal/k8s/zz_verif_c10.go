//go:build verif

package k8s

import (
	"context"
	"io"
	"log/slog"
	"sort"

	api_v1 "k8s.io/api/core/v1"
	meta_v1 "k8s.io/apimachinery/pkg/apis/meta/v1"
	"k8s.io/client-go/kubernetes/fake"
	"k8s.io/client-go/tools/cache"
	"k8s.io/client-go/tools/record"

	"github.com/nginx/kubernetes-ingress/internal/configs"
	"github.com/nginx/kubernetes-ingress/internal/k8s/secrets"
	"github.com/nginx/kubernetes-ingress/internal/metrics/collectors"
	conf_v1 "github.com/nginx/kubernetes-ingress/pkg/apis/configuration/v1"
	"github.com/nginx/kubernetes-ingress/pkg/apis/configuration/validation"
)

// VerifC10Ctl is a LoadBalancerController started with -watch-namespace-label, for the C10 namespace
// life-cycle histories: real sync(), real Configuration, the harness's real Configurator (over the real
// LocalManager files); the informers are replaced by their stores, which the harness fills the way an
// informer would (store first, then the task).
type VerifC10Ctl struct {
	lbc     *LoadBalancerController
	labeled cache.Store
	kube    *fake.Clientset
}

// VerifC10NewCtl builds the controller (class "nginx", TLS passthrough and custom resources enabled, not the
// leader: no status writes).
func VerifC10NewCtl(cnf *configs.Configurator) *VerifC10Ctl {
	logger := slog.New(slog.NewTextHandler(io.Discard, nil))
	lbc := &LoadBalancerController{
		Logger:                    logger,
		ingressClass:              "nginx",
		configurator:              cnf,
		recorder:                  record.NewFakeRecorder(100000),
		metricsCollector:          collectors.NewControllerFakeCollector(),
		secretStore:               secrets.NewEmptyFakeSecretsStore(),
		namespacedInformers:       map[string]*namespacedInformer{},
		areCustomResourcesEnabled: true,
		isNginxReady:              true,
		isLeaderElectionEnabled:   true,
	}
	kube := fake.NewSimpleClientset()
	lbc.client = kube
	lbc.configuration = NewConfiguration(
		lbc.HasCorrectIngressClass, false, false, false, false,
		validation.NewVirtualServerValidator(validation.IsPlus(false), validation.IsDosEnabled(false), validation.IsCertManagerEnabled(false)),
		validation.NewGlobalConfigurationValidator(map[int]bool{80: true, 443: true}),
		validation.NewTransportServerValidator(true, true, false),
		true, true, false, false)
	lbc.namespaceLabeledLister = cache.NewStore(cache.DeletionHandlingMetaNamespaceKeyFunc)
	lbc.globalConfigurationLister = cache.NewStore(cache.DeletionHandlingMetaNamespaceKeyFunc)
	lbc.watchGlobalConfiguration = true
	lbc.syncQueue = newTaskQueue(logger, lbc.sync)
	// drain the events nobody reads
	go func(r *record.FakeRecorder) {
		for range r.Events {
		}
	}(lbc.recorder.(*record.FakeRecorder))
	return &VerifC10Ctl{lbc: lbc, labeled: lbc.namespaceLabeledLister, kube: kube}
}

// WatchNamespace: a labelled, active namespace whose informers are running (the state syncNamespace
// reaches for a namespace that carries the label).
func (v *VerifC10Ctl) WatchNamespace(ns string) error {
	obj := &api_v1.Namespace{
		ObjectMeta: meta_v1.ObjectMeta{Name: ns, Labels: map[string]string{"watch": "me"}},
		Status:     api_v1.NamespaceStatus{Phase: api_v1.NamespaceActive},
	}
	if _, err := v.kube.CoreV1().Namespaces().Create(context.Background(), obj, meta_v1.CreateOptions{}); err != nil {
		return err
	}
	if err := v.labeled.Add(obj); err != nil {
		return err
	}
	nsi := &namespacedInformer{
		namespace:                 ns,
		ingressLister:             storeToIngressLister{cache.NewStore(cache.DeletionHandlingMetaNamespaceKeyFunc)},
		svcLister:                 cache.NewStore(cache.DeletionHandlingMetaNamespaceKeyFunc),
		secretLister:              cache.NewStore(cache.DeletionHandlingMetaNamespaceKeyFunc),
		virtualServerLister:       cache.NewStore(cache.DeletionHandlingMetaNamespaceKeyFunc),
		virtualServerRouteLister:  cache.NewStore(cache.DeletionHandlingMetaNamespaceKeyFunc),
		transportServerLister:     cache.NewStore(cache.DeletionHandlingMetaNamespaceKeyFunc),
		policyLister:              cache.NewStore(cache.DeletionHandlingMetaNamespaceKeyFunc),
		areCustomResourcesEnabled: true,
		stopCh:                    make(chan struct{}),
	}
	nsi.endpointSliceLister = storeToEndpointSliceLister{cache.NewStore(cache.DeletionHandlingMetaNamespaceKeyFunc)}
	v.lbc.namespacedInformers[ns] = nsi
	return nil
}

// Unlabel: the namespace loses the label (it stays Active): it leaves the store of labelled namespaces.
func (v *VerifC10Ctl) Unlabel(ns string) error {
	obj, exists, _ := v.labeled.GetByKey(ns)
	if !exists {
		return nil
	}
	return v.labeled.Delete(obj)
}

// Watched tells whether the namespace has informers (events of its resources reach the controller).
func (v *VerifC10Ctl) Watched(ns string) bool { return v.lbc.namespacedInformers[ns] != nil }

func (v *VerifC10Ctl) storeOf(kind, ns string) cache.Store {
	nsi := v.lbc.namespacedInformers[ns]
	if nsi == nil {
		return nil
	}
	switch kind {
	case "ing":
		return nsi.ingressLister.Store
	case "vs":
		return nsi.virtualServerLister
	case "ts":
		return nsi.transportServerLister
	}
	return nil
}

// StorePut / StoreDelete: what the informer does to its store before the handler queues the task.
// They report false when the namespace has no informers (the event never reaches the controller).
func (v *VerifC10Ctl) StorePut(kind, ns string, obj interface{}) bool {
	s := v.storeOf(kind, ns)
	if s == nil {
		return false
	}
	return s.Add(obj) == nil
}

func (v *VerifC10Ctl) StoreDelete(kind, ns, key string) bool {
	s := v.storeOf(kind, ns)
	if s == nil {
		return false
	}
	if obj, exists, _ := s.GetByKey(key); exists {
		return s.Delete(obj) == nil
	}
	return true
}

// VerifC10GCKey is the key of the GlobalConfiguration the controller was started with.
const VerifC10GCKey = "nginx-ingress/gc"

// StoreGC puts the GlobalConfiguration into its informer store (nil: it was deleted).
func (v *VerifC10Ctl) StoreGC(gc *conf_v1.GlobalConfiguration) {
	s := v.lbc.globalConfigurationLister
	if gc != nil {
		_ = s.Add(gc)
		return
	}
	if obj, exists, _ := s.GetByKey(VerifC10GCKey); exists {
		_ = s.Delete(obj)
	}
}

// Sync runs the real lbc.sync on one task; kind: ing | vs | ts | ns | gc.
func (v *VerifC10Ctl) Sync(what, key string) {
	k := map[string]kind{"ing": ingress, "vs": virtualserver, "ts": transportserver, "ns": namespace, "gc": globalConfiguration}[what]
	v.lbc.sync(task{Kind: k, Key: key})
}

// Served lists Kind/namespace/name of what the Configuration holds, sorted.
func (v *VerifC10Ctl) Served() []string {
	out := []string{}
	for _, r := range v.lbc.configuration.GetResources() {
		out = append(out, r.GetKeyWithKind())
	}
	sort.Strings(out)
	return out
}

// WatchedNamespaces lists the namespaces that have informers, sorted.
func (v *VerifC10Ctl) WatchedNamespaces() []string {
	out := []string{}
	for ns := range v.lbc.namespacedInformers {
		out = append(out, ns)
	}
	sort.Strings(out)
	return out
}
