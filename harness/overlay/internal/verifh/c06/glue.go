//go:build verif

package main

// The tested glue (DESIGN C06 item 5a): every string of the template data struct the generator
// produced is a member of the class declared for its field in package tab (the table the template
// translator c06t classifies the sites with).  The soundness theorem of the template analysis
// (Tmpl.AnalyzeProofs.file_ok_invariant) has exactly this as its hypothesis values_ok.

import (
	"reflect"
	"sort"
	"strings"

	"github.com/nginx/kubernetes-ingress/internal/verifh/c06/tab"
)

// ClassViol is one string outside its declared class.
type ClassViol struct {
	Key   string `json:"key"`   // version2.Location.ProxyPass
	Class string `json:"class"` // declared plain class, "" for a shape
	Value []int  `json:"value"`
	Weak  string `json:"weak,omitempty"` // tab.Weakness of the field: known:<id> | suspect | doubtful | "" (believed solid)
}

// ClassSample is one membership verdict of the Go copy of the class definitions (tab.InClass); Rocq
// re-evaluates Classes.in_class_b on the same string.
type ClassSample struct {
	Class string `json:"class"`
	Value []int  `json:"value"`
	OK    bool   `json:"ok"`
}

func pkgOf(t reflect.Type) string {
	p := t.PkgPath()
	if i := strings.LastIndexByte(p, '/'); i >= 0 {
		p = p[i+1:]
	}
	return p
}

// walkStruct visits every string reachable in v with the tab key of the field that holds it.
func walkStruct(v reflect.Value, key string, depth int, visit func(key, val string)) {
	walkStructIn(v, key, "", depth, visit)
}

// root = package of the template data struct being walked.  A struct of ANOTHER package nested in it
// (version2.Header inside version1.Location.ProxySetHeaders) is not printed field by field by the
// version1 templates but only through a helper that quotes it (generateProxySetHeaders, %q); the
// per-field classes of that type describe its sites in the version2 templates and do not apply.
func walkStructIn(v reflect.Value, key, root string, depth int, visit func(key, val string)) {
	if depth > 12 {
		return
	}
	switch v.Kind() {
	case reflect.Ptr, reflect.Interface:
		if !v.IsNil() {
			walkStructIn(v.Elem(), key, root, depth+1, visit)
		}
	case reflect.String:
		if key != "" {
			visit(key, v.String())
		}
	case reflect.Struct:
		t := v.Type()
		if t.PkgPath() == "" || !strings.Contains(t.PkgPath(), "internal/configs/version") {
			return
		}
		if root == "" {
			root = pkgOf(t)
		} else if pkgOf(t) != root {
			return
		}
		for i := 0; i < t.NumField(); i++ {
			f := t.Field(i)
			if f.PkgPath != "" {
				continue
			}
			walkStructIn(v.Field(i), pkgOf(t)+"."+t.Name()+"."+f.Name, root, depth+1, visit)
		}
	case reflect.Slice, reflect.Array:
		for i := 0; i < v.Len(); i++ {
			e := v.Index(i)
			if e.Kind() == reflect.String {
				visit(key+"[]", e.String())
			} else {
				walkStructIn(e, key, root, depth+1, visit)
			}
		}
	case reflect.Map:
		for _, k := range v.MapKeys() {
			if k.Kind() == reflect.String {
				visit(key+"[key]", k.String())
			}
			e := v.MapIndex(k)
			if e.Kind() == reflect.String {
				visit(key+"[val]", e.String())
			} else {
				walkStructIn(e, key, root, depth+1, visit)
			}
		}
	}
}

// checkClasses returns the violations among the strings of the structs and feeds the sample pool.
func checkClasses(structs []any, pool map[string]ClassSample) []ClassViol {
	var out []ClassViol
	seen := map[string]bool{}
	for _, s := range structs {
		walkStruct(reflect.ValueOf(s), "", 0, func(key, val string) {
			ok, known := tab.Match(key, val)
			if !known {
				return
			}
			cls := tab.ClassOf(key)
			if cls != "" && pool != nil {
				k := cls + "\x00" + val
				if _, dup := pool[k]; !dup && len(val) <= 200 {
					pool[k] = ClassSample{Class: cls, Value: bytesOf(val), OK: ok}
				}
			}
			if !ok && !seen[key+"\x00"+val] {
				seen[key+"\x00"+val] = true
				out = append(out, ClassViol{Key: key, Class: cls, Value: bytesOf(val), Weak: weakness(key)})
			}
		})
	}
	sort.Slice(out, func(i, j int) bool { return out[i].Key < out[j].Key })
	return out
}

func bytesOf(s string) []int {
	b := make([]int, len(s))
	for i := 0; i < len(s); i++ {
		b[i] = int(s[i])
	}
	return b
}

func weakness(key string) string {
	if w := tab.Weakness(key); w != "" {
		return w
	}
	return tab.Weakness(strings.TrimSuffix(strings.TrimSuffix(strings.TrimSuffix(key, "[]"), "[val]"), "[key]"))
}
