(* C05 truth proof, part 8: every stored object that claims hosts has a resource *)
From Coq Require Import List ZArith String Ascii Bool Lia.
From NIC Require Import Base.SMap Arb.Types Arb.Model Arb.Spec Arb.WinsProofs Arb.InvProofs Arb.OwnerProofs
     Arb.ListenerProofs Arb.ClassProofs Arb.ChangeProofs Arb.ReportProofs Arb.ComposeProofs Arb.Cases Arb.ShadowProofs Arb.ShadowAttrs.
From NIC Require Import Arb.Truth01 Arb.Truth02 Arb.Truth03 Arb.Truth04 Arb.Truth05 Arb.Truth06 Arb.Truth07.
Import ListNotations.
Open Scope string_scope.
Open Scope Z_scope.

Section Res.
  Variables (c : cfg) (o : objs).
  Hypothesis Hcm : cert_manager c = false.
  Hypothesis Hok : objs_ok o.
  Let B := build c (o_ings o) (o_vss o) (o_vsrs o) (o_tss o) (o_gc o).

  Lemma claims_hosts_nonminion i : ing_claims_hosts c (o_vss o) i = negb (is_minion i).
  Proof. unfold ing_claims_hosts, converted. rewrite Hcm. cbn. rewrite andb_true_r. reflexivity. Qed.

  Lemma res_key_in k : In k (keys (b_res B)) <->
    (exists k0 i, In (k0, i) (o_ings o) /\ is_minion i = false /\ k = ing_rkey i) \/
    (exists k0 v, In (k0, v) (o_vss o) /\ k = vs_rkey v) \/
    (tls_passthrough c = true /\ exists k0 t, In (k0, t) (o_tss o) /\ is_passthrough t = true /\ k = ts_rkey t).
  Proof.
    unfold B, build. destruct (run_claims host_warning [] (all_claims c (o_ings o) (o_vss o) (o_tss o))) as [hs claim_ws].
    cbn [b_res]. rewrite keys_of_list_iff, !map_app, !in_app_iff. split.
    - intros [H|[H|H]].
      + left. apply in_map_iff in H. destruct H as ([k1 r] & Hk & Hin). cbn [fst] in Hk. subst k1.
        apply in_filter_map in Hin. destruct Hin as ([k0 i] & Hi & Hf). cbn [snd] in Hf. rewrite claims_hosts_nonminion in Hf.
        destruct (is_minion i) eqn:Hm; [discriminate|]. cbn [negb] in Hf.
        destruct (if is_master i then build_minions (o_ings o) (host0 i) else ([], [])) as [mins cw].
        inversion Hf; subst. exists k0, i. auto.
      + right; left. apply in_map_iff in H. destruct H as ([k1 r] & Hk & Hin). cbn [fst] in Hk. subst k1.
        apply in_map_iff in Hin. destruct Hin as ([k0 v] & Hf & Hv). cbn [snd] in Hf.
        destruct (build_vsrs (o_vsrs o) v (v_routes v)) as [rl w]. inversion Hf; subst. exists k0, v. auto.
      + right; right. destruct (tls_passthrough c); [|destruct H]. split; [reflexivity|].
        apply in_map_iff in H. destruct H as ([k1 r] & Hk & Hin). cbn [fst] in Hk. subst k1.
        apply in_filter_map in Hin. destruct Hin as ([k0 t] & Ht & Hf). cbn [snd] in Hf.
        destruct (is_passthrough t) eqn:Hp; inversion Hf; subst. exists k0, t. auto.
    - intros [(k0 & i & Hi & Hm & ->)|[(k0 & v & Hv & ->)|(Htp & k0 & t & Ht & Hp & ->)]].
      + left. apply in_map_iff.
        destruct (if is_master i then build_minions (o_ings o) (host0 i) else ([], [])) as [mins cw] eqn:Hb.
        eexists (ing_rkey i, _). split; [reflexivity|]. apply in_filter_map. exists (k0, i). split; [exact Hi|]. cbn [snd].
        rewrite claims_hosts_nonminion, Hm. cbn [negb]. rewrite Hb. reflexivity.
      + right; left. apply in_map_iff.
        destruct (build_vsrs (o_vsrs o) v (v_routes v)) as [rl w] eqn:Hb.
        eexists (vs_rkey v, _). split; [reflexivity|]. apply in_map_iff. exists (k0, v). split; [|exact Hv]. cbn [snd]. rewrite Hb. reflexivity.
      + right; right. rewrite Htp. apply in_map_iff. eexists (ts_rkey t, _). split; [reflexivity|].
        apply in_filter_map. exists (k0, t). split; [exact Ht|]. cbn [snd]. rewrite Hp. reflexivity.
  Qed.

  Lemma res_of_ing k0 i : In (k0, i) (o_ings o) -> is_minion i = false ->
    exists ic, lookup (ing_rkey i) (b_res B) = Some (RIng ic) /\ ic_ing ic = i.
  Proof.
    intros Hi Hm. assert (Hin : In (ing_rkey i) (keys (b_res B))) by (apply res_key_in; left; eauto).
    apply in_keys_lookup in Hin. destruct (lookup (ing_rkey i) (b_res B)) as [r|] eqn:L; [|congruence].
    pose proof (b_res_key _ _ _ _ _ _ _ _ L) as Hk. destruct Hok as (W1 & W2 & W3 & W4 & K1 & K2 & K3 & K4).
    pose proof (b_res_shape c _ _ (o_vsrs o) _ (o_gc o) _ _ L) as Hs.
    destruct r as [ic|vc|tc]; unfold rkey, ing_rkey in Hk; cbn [kind_prefix res_meta] in Hk; try (cbn in Hk; discriminate).
    exists ic. split; [reflexivity|]. destruct Hs as [(k1 & Hst) _].
    apply (same_stored (fun i => mkey (i_meta i)) (o_ings o) k1 k0 _ _ W1 K1 Hst Hi). apply append_inj_l in Hk. exact Hk.
  Qed.

  Lemma res_of_vs k0 v : In (k0, v) (o_vss o) ->
    exists vc, lookup (vs_rkey v) (b_res B) = Some (RVS vc) /\ vc_vs vc = v.
  Proof.
    intros Hv. assert (Hin : In (vs_rkey v) (keys (b_res B))) by (apply res_key_in; right; left; eauto).
    apply in_keys_lookup in Hin. destruct (lookup (vs_rkey v) (b_res B)) as [r|] eqn:L; [|congruence].
    pose proof (b_res_key _ _ _ _ _ _ _ _ L) as Hk. destruct Hok as (W1 & W2 & W3 & W4 & K1 & K2 & K3 & K4).
    pose proof (b_res_shape c _ _ (o_vsrs o) _ (o_gc o) _ _ L) as Hs.
    destruct r as [ic|vc|tc]; unfold rkey, vs_rkey in Hk; cbn [kind_prefix res_meta] in Hk; try (cbn in Hk; discriminate).
    exists vc. split; [reflexivity|]. destruct Hs as (k1 & Hst).
    apply (same_stored (fun v => mkey (v_meta v)) (o_vss o) k1 k0 _ _ W2 K2 Hst Hv). apply append_inj_l in Hk. exact Hk.
  Qed.

  Lemma res_of_ts k0 t : In (k0, t) (o_tss o) -> is_passthrough t = true -> tls_passthrough c = true ->
    exists tc, lookup (ts_rkey t) (b_res B) = Some (RTS tc) /\ tc_ts tc = t.
  Proof.
    intros Ht Hp Htp. assert (Hin : In (ts_rkey t) (keys (b_res B))) by (apply res_key_in; right; right; split; eauto).
    apply in_keys_lookup in Hin. destruct (lookup (ts_rkey t) (b_res B)) as [r|] eqn:L; [|congruence].
    pose proof (b_res_key _ _ _ _ _ _ _ _ L) as Hk. destruct Hok as (W1 & W2 & W3 & W4 & K1 & K2 & K3 & K4).
    pose proof (b_res_shape c _ _ (o_vsrs o) _ (o_gc o) _ _ L) as Hs.
    destruct r as [ic|vc|tc]; unfold rkey, ts_rkey in Hk; cbn [kind_prefix res_meta] in Hk; try (cbn in Hk; discriminate).
    exists tc. split; [reflexivity|]. destruct Hs as (k1 & Hst).
    apply (same_stored (fun t => mkey (t_meta t)) (o_tss o) k1 k0 _ _ W4 K4 Hst Ht). apply append_inj_l in Hk. exact Hk.
  Qed.
End Res.
