(* C04: among the minions of a master's host each path is served by exactly one minion, the least
   claimant (earliest creation, then UID), whatever the number of minions and paths. *)
From Coq Require Import List ZArith String Ascii Bool Lia.
From NIC Require Import Base.SMap Arb.Types Arb.Model Arb.Spec Arb.WinsProofs Arb.InvProofs Arb.OwnerProofs Arb.Cases.
Import ListNotations.
Open Scope Z_scope.

Definition vp_get (vp : smap (smap bool)) (mk p : string) : option bool :=
  match lookup mk vp with Some m => lookup p m | None => None end.

Lemma vp_get_set vp mk p b mk' p' :
  vp_get (vp_set mk p b vp) mk' p' =
  if String.eqb mk' mk && String.eqb p' p then Some b else vp_get vp mk' p'.
Proof.
  unfold vp_get, vp_set.
  destruct (String.eqb mk' mk) eqn:Hm.
  - apply String.eqb_eq in Hm. subst mk'. rewrite lookup_insert_eq. cbn [andb].
    destruct (String.eqb p' p) eqn:Hp.
    + apply String.eqb_eq in Hp. subst p'. apply lookup_insert_eq.
    + apply String.eqb_neq in Hp. rewrite lookup_insert_neq by assumption.
      destruct (lookup mk vp); reflexivity.
  - apply String.eqb_neq in Hm. rewrite lookup_insert_neq by assumption. reflexivity.
Qed.

(* the state invariant of buildMinionConfigs' scan: a minion's mark for a path is `true` exactly when
   it is the current holder of that path *)
Definition marks_ok (s : mstate) : Prop :=
  forall mk p, vp_get (ms_vp s) mk p = Some true <-> exists m, lookup p (ms_paths s) = Some (mk, m).

Lemma marks_ok_init : marks_ok (mkMS [] [] []).
Proof. intros mk p. cbn. split; [discriminate|intros [m H]; discriminate]. Qed.

Lemma marks_ok_step i s p :
  marks_ok s ->
  (forall m, lookup p (ms_paths s) <> Some (mkey (i_meta i), m)) ->      (* i does not hold p yet *)
  marks_ok (minion_path i s p).
Proof.
  intros Hinv Hfresh. unfold minion_path. set (mk := mkey (i_meta i)).
  destruct (lookup p (ms_paths s)) as [[hk hm]|] eqn:Hl.
  - cbn [fst snd]. destruct (String.eqb hk mk) eqn:Hself.
    + apply String.eqb_eq in Hself. subst hk. exfalso. apply (Hfresh hm). reflexivity.
    + apply String.eqb_neq in Hself.
      destruct (wins hm (i_meta i)) eqn:Hw; cbn [negb].
      * (* holder keeps the path: only a child warning is added *)
        intros mk' p'. cbn [ms_vp ms_paths]. apply Hinv.
      * intros mk' p'. cbn [ms_vp ms_paths]. rewrite !vp_get_set.
        destruct (string_dec p' p) as [->|Hp].
        -- rewrite String.eqb_refl, !andb_true_r, lookup_insert_eq.
           destruct (String.eqb mk' hk) eqn:E1.
           ++ apply String.eqb_eq in E1. subst mk'. split; [discriminate|].
              intros [m Hm]. inversion Hm. congruence.
           ++ destruct (String.eqb mk' mk) eqn:E2.
              ** apply String.eqb_eq in E2. subst mk'. split; [eauto|reflexivity].
              ** apply String.eqb_neq in E1. apply String.eqb_neq in E2. split.
                 --- intros H. apply Hinv in H. destruct H as [m Hm]. rewrite Hl in Hm. inversion Hm. congruence.
                 --- intros [m Hm]. inversion Hm. congruence.
        -- assert (E : String.eqb p' p = false) by (apply String.eqb_neq; exact Hp).
           rewrite E, !andb_false_r, lookup_insert_neq by assumption. apply Hinv.
  - intros mk' p'. cbn [ms_vp ms_paths]. rewrite vp_get_set.
    destruct (string_dec p' p) as [->|Hp].
    + rewrite String.eqb_refl, andb_true_r, lookup_insert_eq.
      destruct (String.eqb mk' mk) eqn:E2.
      * apply String.eqb_eq in E2. subst mk'. split; [eauto|reflexivity].
      * apply String.eqb_neq in E2. split.
        -- intros H. apply Hinv in H. destruct H as [m Hm]. rewrite Hl in Hm. discriminate.
        -- intros [m Hm]. inversion Hm. congruence.
    + assert (E : String.eqb p' p = false) by (apply String.eqb_neq; exact Hp).
      rewrite E, andb_false_r, lookup_insert_neq by assumption. apply Hinv.
Qed.

(* the path holders evolve like the running-holder fold over (path, minion) claims *)
Lemma paths_step i s p :
  (forall m, lookup p (ms_paths s) <> Some (mkey (i_meta i), m)) ->
  ms_paths (minion_path i s p) = claim1 (ms_paths s) (p, (mkey (i_meta i), i_meta i)).
Proof.
  intros Hfresh. unfold minion_path, claim1. cbn [fst snd].
  destruct (lookup p (ms_paths s)) as [[hk hm]|] eqn:Hl; [|reflexivity].
  cbn [fst snd]. destruct (String.eqb hk (mkey (i_meta i))) eqn:Hself.
  - apply String.eqb_eq in Hself. subst hk. exfalso. apply (Hfresh hm). reflexivity.
  - destruct (wins hm (i_meta i)); reflexivity.
Qed.

(* hypotheses on the minions of one host: distinct keys, and no minion lists a path twice
   (the code tolerates the latter since the F44 repair; the theorem does not need that case) *)
Definition minions_ok (ms : list ingress) : Prop :=
  NoDup (map (fun i => mkey (i_meta i)) ms) /\ forall i, In i ms -> NoDup (i_paths i).

Definition claims_of (ms : list ingress) : list (string * hold) :=
  flat_map (fun i => map (fun p => (p, (mkey (i_meta i), i_meta i))) (i_paths i)) ms.

Definition scan (ms : list ingress) (s : mstate) : mstate :=
  fold_left (fun s i => fold_left (minion_path i) (i_paths i) s) ms s.

(* keys that hold some path in s *)
Definition holders_in (s : mstate) (mk : string) : Prop := exists p m, lookup p (ms_paths s) = Some (mk, m).

Lemma scan_paths_one i : forall ps s,
  NoDup ps ->
  (forall p m, In p ps -> lookup p (ms_paths s) <> Some (mkey (i_meta i), m)) ->
  marks_ok s ->
  let s' := fold_left (minion_path i) ps s in
  marks_ok s' /\
  ms_paths s' = fold_left claim1 (map (fun p => (p, (mkey (i_meta i), i_meta i))) ps) (ms_paths s) /\
  (forall mk, holders_in s' mk -> holders_in s mk \/ mk = mkey (i_meta i)).
Proof.
  induction ps as [|p ps IH]; intros s Hnd Hfresh Hinv; cbn [fold_left map].
  - split; [exact Hinv|]. split; [reflexivity|]. intros mk H. left. exact H.
  - inversion Hnd as [|? ? Hnot Hnd']; subst.
    assert (Hf1 : forall m, lookup p (ms_paths s) <> Some (mkey (i_meta i), m)) by (intros m; apply Hfresh; left; reflexivity).
    pose proof (marks_ok_step i s p Hinv Hf1) as Hinv1.
    pose proof (paths_step i s p Hf1) as Hp1.
    assert (Hfresh1 : forall q m, In q ps -> lookup q (ms_paths (minion_path i s p)) <> Some (mkey (i_meta i), m)).
    { intros q m Hq. rewrite Hp1. assert (q <> p) by (intros ->; contradiction).
      rewrite (lookup_claim1_neq _ (p, _) q) by assumption. apply Hfresh. right; exact Hq. }
    destruct (IH (minion_path i s p) Hnd' Hfresh1 Hinv1) as (A & B & Cc).
    split; [exact A|]. split; [rewrite B, Hp1; reflexivity|].
    intros mk Hh. destruct (Cc mk Hh) as [Hh1 | Heq]; [|right; exact Heq].
    destruct Hh1 as (q & m & Hq). rewrite Hp1 in Hq.
    destruct (string_dec q p) as [->|Hqp].
    + pose proof (lookup_claim1_eq (ms_paths s) (p, (mkey (i_meta i), i_meta i))) as E.
      cbn [fst snd] in E. rewrite E in Hq. unfold keep in Hq.
      destruct (lookup p (ms_paths s)) as [[hk hm]|] eqn:Hl.
      * cbn [snd] in Hq. destruct (wins hm (i_meta i)); inversion Hq; subst; [left; exists p, m; exact Hl|right; reflexivity].
      * inversion Hq; subst. right; reflexivity.
    + rewrite (lookup_claim1_neq _ (p, _) q) in Hq by assumption. left. exists q, m. exact Hq.
Qed.

Lemma scan_all ms : forall s,
  minions_ok ms ->
  (forall i, In i ms -> ~ holders_in s (mkey (i_meta i))) ->
  marks_ok s ->
  marks_ok (scan ms s) /\ ms_paths (scan ms s) = fold_left claim1 (claims_of ms) (ms_paths s).
Proof.
  induction ms as [|i ms IH]; intros s [Hnd Hpaths] Hfresh Hinv; cbn [scan fold_left claims_of flat_map]; [auto|].
  cbn [map] in Hnd. inversion Hnd as [|? ? Hnot Hnd']; subst.
  assert (Hf : forall p m, In p (i_paths i) -> lookup p (ms_paths s) <> Some (mkey (i_meta i), m)).
  { intros p m _ Hl. apply (Hfresh i (or_introl eq_refl)). exists p, m. exact Hl. }
  destruct (scan_paths_one i (i_paths i) s (Hpaths i (or_introl eq_refl)) Hf Hinv) as (A & B & Cc).
  fold (scan ms (fold_left (minion_path i) (i_paths i) s)).
  destruct (IH (fold_left (minion_path i) (i_paths i) s)) as (A2 & B2); auto.
  - split; [exact Hnd'|intros j Hj; apply Hpaths; right; exact Hj].
  - intros j Hj Hh. destruct (Cc _ Hh) as [Hh0|Heq].
    + apply (Hfresh j (or_intror Hj)). exact Hh0.
    + apply Hnot. rewrite <- Heq. apply in_map_iff. exists j. auto.
  - split; [exact A2|]. rewrite B2, B, fold_left_app. reflexivity.
Qed.

(* a minion serves a path (its mark is true) iff it is the least claimant of that path among the
   minions of the host; hence exactly one minion serves each claimed path *)
Theorem minion_path_owner is_ host mk p :
  minions_ok (minions_of is_ host) ->
  uids_distinct (claimants (claims_of (minions_of is_ host)) p) ->
  let s := scan (minions_of is_ host) (mkMS [] [] []) in
  vp_get (ms_vp s) mk p = Some true <->
  option_map fst (least (claimants (claims_of (minions_of is_ host)) p)) = Some mk.
Proof.
  intros Hok Hd s.
  destruct (scan_all (minions_of is_ host) (mkMS [] [] []) Hok) as (Hinv & Hpaths).
  - intros i _ (q & m & H). discriminate.
  - apply marks_ok_init.
  - fold s in Hinv, Hpaths. rewrite (Hinv mk p), Hpaths. cbn [ms_paths].
    change (fold_left claim1 (claims_of (minions_of is_ host)) []) with (holders (claims_of (minions_of is_ host))).
    rewrite (holders_owner _ _ Hd).
    destruct (least (claimants (claims_of (minions_of is_ host)) p)) as [[k m]|]; cbn.
    + split; [intros [m' H]; inversion H; reflexivity|intros H; inversion H; eauto].
    + split; [intros [m' H]; discriminate|discriminate].
Qed.

(* what build_minions returns is that scan *)
Theorem build_minions_marks is_ host i :
  In i (minions_of is_ host) ->
  exists mc, In mc (fst (build_minions is_ host)) /\ mc_ing mc = i /\
             forall p, lookup p (mc_valid_paths mc) = vp_get (ms_vp (scan (minions_of is_ host) (mkMS [] [] []))) (mkey (i_meta i)) p.
Proof.
  intros Hin. unfold build_minions. cbn [fst].
  fold (scan (minions_of is_ host) (mkMS [] [] [])).
  eexists. split; [apply in_map_iff; exists i; split; [reflexivity|exact Hin]|]. cbn. split; [reflexivity|].
  intros p. unfold vp_get. destruct (lookup (mkey (i_meta i)) _); reflexivity.
Qed.
