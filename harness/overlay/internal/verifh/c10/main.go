//go:build verif

// Correspondence harness for C10: drives the REAL configs.Configurator over the REAL
// nginx.LocalManager file operations on a temporary configuration root (only Reload is replaced:
// there is no nginx binary), through histories of add / update / delete / batch operations on
// Ingress, mergeable Ingress, VirtualServer (+VirtualServerRoute) and TransportServer (incl. TLS
// passthrough), with a simulated controller restart (new Configurator + new LocalManager on the
// same root, start-up sequence of cmd/nginx-ingress/main.go, then every resource that exists in
// the cluster is processed).  After every event it records the directory listings of conf.d and
// stream-conf.d (file, content stamp, owner, hash), the parsed tls-passthrough-hosts.conf and the
// keys of the Configurator's own maps.
package main

import (
	"bytes"
	"context"
	"crypto/sha256"
	"encoding/hex"
	"encoding/json"
	"fmt"
	"go/ast"
	"go/parser"
	"go/token"
	"io"
	"log/slog"
	"os"
	"os/exec"
	"path/filepath"
	"regexp"
	"sort"
	"strconv"
	"strings"
	"time"

	api_v1 "k8s.io/api/core/v1"
	networking "k8s.io/api/networking/v1"
	meta_v1 "k8s.io/apimachinery/pkg/apis/meta/v1"
	"k8s.io/apimachinery/pkg/types"

	"github.com/nginx/kubernetes-ingress/internal/configs"
	"github.com/nginx/kubernetes-ingress/internal/k8s"
	"github.com/nginx/kubernetes-ingress/internal/k8s/secrets"
	nl "github.com/nginx/kubernetes-ingress/internal/logger"
	"github.com/nginx/kubernetes-ingress/internal/metrics/collectors"
	"github.com/nginx/kubernetes-ingress/internal/nginx"
	"github.com/nginx/kubernetes-ingress/internal/verifh/vh"
	conf_v1 "github.com/nginx/kubernetes-ingress/pkg/apis/configuration/v1"
)

// ---------- case format ----------

// Res is one add-or-update of a resource. Kind: ing | ming | vs | ts.
type Res struct {
	Kind    string      `json:"kind"`
	NS      string      `json:"ns"`
	Name    string      `json:"name"`
	Stamp   int         `json:"stamp"`             // identifies the content (rendered into the file)
	Minions [][2]string `json:"minions,omitempty"` // ming: minion (ns,name)
	VSRs    [][2]string `json:"vsrs,omitempty"`    // vs: VirtualServerRoutes (ns,name)
	PT      bool        `json:"pt,omitempty"`      // ts: listener is the built-in tls-passthrough listener
	Host    string      `json:"host,omitempty"`    // ts: spec.host
}

// Event: op is add | del | upd_vss | upd_tss | bdel_vs | bdel_ing | add_res | upd_cfg | upd_eps | restart.
type Event struct {
	Op   string      `json:"op"`
	Res  *Res        `json:"res,omitempty"`  // add
	Kind string      `json:"kind,omitempty"` // del: ing | vs | ts
	NS   string      `json:"ns,omitempty"`
	Name string      `json:"name,omitempty"`
	Adds []Res       `json:"adds,omitempty"` // upd_vss, upd_tss, add_res, upd_cfg; restart: the cluster
	Dels [][2]string `json:"dels,omitempty"` // upd_vss, upd_tss, bdel_*
}

type FileObs struct {
	File  string `json:"file"`
	Stamp int    `json:"stamp"` // -1: not recognisable
	Owner string `json:"owner"` // ns/name as rendered inside the file
	Hash  string `json:"hash"`
}

type StepObs struct {
	Confd       []FileObs             `json:"confd"`
	Stream      []FileObs             `json:"stream"`
	Hosts       [][2]string           `json:"hosts"` // host, unix socket (file order = sorted by host)
	HostsExists bool                  `json:"hosts_exists"`
	HostsJunk   int                   `json:"hosts_junk"` // lines that are neither comment, blank nor `host socket;`
	State       configs.VerifC10State `json:"state"`
	Err         string                `json:"err,omitempty"`   // error class returned by the operation
	Panic       string                `json:"panic,omitempty"` // panic of the code under test
	Other       []string              `json:"other,omitempty"` // unexpected entries of the configuration root
}

type NameObs struct {
	Ing     string `json:"ing"`     // objectMetaToFileName
	IngKey  string `json:"ing_key"` // keyToFileName(ns/name)
	VS      string `json:"vs"`      // getFileNameForVirtualServer
	VSKey   string `json:"vs_key"`  // getFileNameForVirtualServerFromKey(ns/name)
	TS      string `json:"ts"`      // getFileNameForTransportServer
	TSKey   string `json:"ts_key"`  // getFileNameForTransportServerFromKey(ns/name)
	Key     string `json:"key"`     // generateNamespaceNameKey
	ConfD   string `json:"confd"`   // path of CreateConfig(name) relative to the root (observed on disk)
	StreamD string `json:"streamd"` // path of CreateStreamConfig(name) relative to the root
}

type Case struct {
	Fam    string  `json:"fam"` // hist | names | startup
	ID     int     `json:"id"`
	Class  string  `json:"class"`
	Plus   bool    `json:"plus,omitempty"`
	Events []Event `json:"events,omitempty"`
	NS     []int   `json:"ns_bytes,omitempty"`   // names family: arbitrary bytes
	Name   []int   `json:"name_bytes,omitempty"` // names family
	MOps   []MOp   `json:"mops,omitempty"`       // mgr family
	NS2    []int   `json:"ns2_bytes,omitempty"`  // namepair family: the second identity
	Name2  []int   `json:"name2_bytes,omitempty"`
	// Isolate: run the history in a child process, because the code under test may end the process
	// (LocalManager calls Fatalf when a file cannot be created, e.g. a name beyond NAME_MAX)
	Script   []NEvent   `json:"script,omitempty"`   // nsl family
	Expect   [][]Res    `json:"expect,omitempty"`   // nsl: per drain, what must be served
	Unserved [][]NCause `json:"unserved,omitempty"` // nsl: per drain, every known identity that must not be served, and why
	Isolate  bool       `json:"isolate,omitempty"`
	Fatal    *FatalObs  `json:"fatal,omitempty"`
	Obs      any        `json:"obs"`
}

// FatalObs: the process running the history ended (os.Exit) while executing event At; Obs holds the steps before it.
type FatalObs struct {
	At   int `json:"at"`
	Exit int `json:"exit"`
}

// MOp is one call of a LocalManager file method. Fam: conf | stream | hosts | main | secret | dhparam | ap.
type MOp struct {
	Op      string `json:"op"` // write | del
	Fam     string `json:"fam"`
	Name    string `json:"name"`
	Content string `json:"content,omitempty"`
}

// ---------- manager wrapper: real file operations, no binary ----------

type manager struct {
	*nginx.LocalManager
	reloads int
}

// Reload replaces LocalManager.Reload (which shells out to the nginx binary and waits on a unix socket).
func (m *manager) Reload(_ bool) error { m.reloads++; return nil }

// the NGINX Plus API is not part of this property (no client exists here)
func (m *manager) UpdateServersInPlus(_ string, _ []string, _ nginx.ServerConfig) error { return nil }
func (m *manager) UpdateStreamServersInPlus(_ string, _ []string) error                 { return nil }

func (m *manager) Start(_ chan error)                           {}
func (m *manager) Quit()                                        {}
func (m *manager) UpsertSplitClientsKeyVal(_, _, _ string)      {}
func (m *manager) Version() nginx.Version                       { return nginx.NewVersion("nginx version: nginx/1.25.3") }
func (m *manager) AppProtectPluginStart(_ chan error, _ string) {}
func (m *manager) AgentStart(_ chan error, _ string)            {}

var quiet = slog.New(slog.NewTextHandler(io.Discard, nil))

type instance struct {
	root string
	mgr  *manager
	cnf  *configs.Configurator
}

// start is the start-up sequence of cmd/nginx-ingress/main.go as far as the configuration
// root is concerned: NewLocalManager, (main config), CreateTLSPassthroughHostsConfig(empty)
// when -enable-tls-passthrough, NewConfigurator.  Nothing else touches conf.d / stream-conf.d.
func start(root, repo string, plus bool) (*instance, error) {
	ctx := nl.ContextWithLogger(context.Background(), quiet)
	lm := nginx.NewLocalManager(ctx, root, false, collectors.NewManagerFakeCollector(), nil, 10*time.Millisecond, plus)
	m := &manager{LocalManager: lm}
	var emptyFile []byte
	m.CreateTLSPassthroughHostsConfig(emptyFile)
	cnf, err := configs.VerifC10NewConfigurator(ctx, repo, m, plus, true)
	if err != nil {
		return nil, err
	}
	return &instance{root: root, mgr: m, cnf: cnf}, nil
}

// ---------- building the extended resources ----------

func stampHost(stamp int) string { return fmt.Sprintf("s%d.example.com", stamp) }

func ingress(ns, name, host string, ann map[string]string, paths []string) *networking.Ingress {
	var ps []networking.HTTPIngressPath
	for _, p := range paths {
		ps = append(ps, networking.HTTPIngressPath{Path: p, Backend: networking.IngressBackend{
			Service: &networking.IngressServiceBackend{Name: "svc", Port: networking.ServiceBackendPort{Number: 80}}}})
	}
	if ps == nil {
		ps = []networking.HTTPIngressPath{}
	}
	return &networking.Ingress{
		ObjectMeta: meta_v1.ObjectMeta{Name: name, Namespace: ns, Annotations: ann},
		Spec: networking.IngressSpec{Rules: []networking.IngressRule{{Host: host,
			IngressRuleValue: networking.IngressRuleValue{HTTP: &networking.HTTPIngressRuleValue{Paths: ps}}}}},
	}
}

func ingEx(r Res) *configs.IngressEx {
	host := stampHost(r.Stamp)
	return &configs.IngressEx{
		Ingress:          ingress(r.NS, r.Name, host, map[string]string{"kubernetes.io/ingress.class": "nginx"}, []string{"/"}),
		Endpoints:        map[string][]string{"svc80": {"10.0.0.1:80"}},
		ExternalNameSvcs: map[string]bool{},
		ValidHosts:       map[string]bool{host: true},
		SecretRefs:       map[string]*secrets.SecretReference{},
	}
}

func mergeable(r Res) *configs.MergeableIngresses {
	host := stampHost(r.Stamp)
	master := &configs.IngressEx{
		Ingress: ingress(r.NS, r.Name, host, map[string]string{"kubernetes.io/ingress.class": "nginx",
			"nginx.org/mergeable-ingress-type": "master"}, nil),
		Endpoints:  map[string][]string{"svc80": {"10.0.0.1:80"}},
		ValidHosts: map[string]bool{host: true},
		SecretRefs: map[string]*secrets.SecretReference{},
	}
	m := &configs.MergeableIngresses{Master: master}
	for i, mn := range r.Minions {
		p := fmt.Sprintf("/m%d", i)
		m.Minions = append(m.Minions, &configs.IngressEx{
			Ingress: ingress(mn[0], mn[1], host, map[string]string{"kubernetes.io/ingress.class": "nginx",
				"nginx.org/mergeable-ingress-type": "minion"}, []string{p}),
			Endpoints:        map[string][]string{"svc80": {"10.0.0.1:80"}},
			ValidHosts:       map[string]bool{host: true},
			ValidMinionPaths: map[string]bool{p: true},
			SecretRefs:       map[string]*secrets.SecretReference{},
		})
	}
	return m
}

func vsEx(r Res) *configs.VirtualServerEx {
	host := stampHost(r.Stamp)
	vs := &conf_v1.VirtualServer{
		ObjectMeta: meta_v1.ObjectMeta{Name: r.Name, Namespace: r.NS},
		Spec: conf_v1.VirtualServerSpec{
			Host:      host,
			Upstreams: []conf_v1.Upstream{{Name: "tea", Service: "tea-svc", Port: 80}},
			Routes:    []conf_v1.Route{{Path: "/tea", Action: &conf_v1.Action{Pass: "tea"}}},
		},
	}
	ex := &configs.VirtualServerEx{
		VirtualServer: vs,
		Endpoints:     map[string][]string{r.NS + "/tea-svc:80": {"10.0.0.2:80"}},
	}
	for i, v := range r.VSRs {
		p := fmt.Sprintf("/r%d", i)
		vs.Spec.Routes = append(vs.Spec.Routes, conf_v1.Route{Path: p, Route: v[0] + "/" + v[1]})
		ex.VirtualServerRoutes = append(ex.VirtualServerRoutes, &conf_v1.VirtualServerRoute{
			ObjectMeta: meta_v1.ObjectMeta{Name: v[1], Namespace: v[0]},
			Spec: conf_v1.VirtualServerRouteSpec{
				Host:      host,
				Upstreams: []conf_v1.Upstream{{Name: "sub", Service: "sub-svc", Port: 80}},
				Subroutes: []conf_v1.Route{{Path: p + "/x", Action: &conf_v1.Action{Pass: "sub"}}},
			},
		})
		ex.Endpoints[v[0]+"/sub-svc:80"] = []string{"10.0.0.3:80"}
	}
	return ex
}

func tsEx(r Res) *configs.TransportServerEx {
	up := fmt.Sprintf("s%d", r.Stamp)
	ts := &conf_v1.TransportServer{
		ObjectMeta: meta_v1.ObjectMeta{Name: r.Name, Namespace: r.NS},
		Spec: conf_v1.TransportServerSpec{
			Listener:  conf_v1.TransportServerListener{Name: "tcp-9000", Protocol: "TCP"},
			Host:      r.Host,
			Upstreams: []conf_v1.TransportServerUpstream{{Name: up, Service: "tcp-svc", Port: 5001}},
			Action:    &conf_v1.TransportServerAction{Pass: up},
		},
	}
	ex := &configs.TransportServerEx{
		TransportServer: ts,
		ListenerPort:    9000,
		Endpoints:       map[string][]string{r.NS + "/tcp-svc:5001": {"10.0.0.4:5001"}},
	}
	if r.PT {
		ts.Spec.Listener = conf_v1.TransportServerListener{Name: conf_v1.TLSPassthroughListenerName, Protocol: conf_v1.TLSPassthroughListenerProtocol}
		ex.ListenerPort = 0
	}
	return ex
}

var _ = api_v1.SecretTypeTLS

func extended(adds []Res) configs.ExtendedResources {
	var x configs.ExtendedResources
	for _, r := range adds {
		switch r.Kind {
		case "ing":
			x.IngressExes = append(x.IngressExes, ingEx(r))
		case "ming":
			x.MergeableIngresses = append(x.MergeableIngresses, mergeable(r))
		case "vs":
			x.VirtualServerExes = append(x.VirtualServerExes, vsEx(r))
		case "ts":
			x.TransportServerExes = append(x.TransportServerExes, tsEx(r))
		}
	}
	return x
}

// ---------- running ----------

func errClass(err error) string {
	if err == nil {
		return ""
	}
	return "error"
}

func errsClass(errs []error) string {
	if len(errs) == 0 {
		return ""
	}
	return "error"
}

func keys(ps [][2]string) []string {
	out := make([]string, 0, len(ps))
	for _, p := range ps {
		out = append(out, p[0]+"/"+p[1])
	}
	return out
}

func (in *instance) addOne(r Res) error {
	var err error
	switch r.Kind {
	case "ing":
		_, err = in.cnf.AddOrUpdateIngress(ingEx(r))
	case "ming":
		_, err = in.cnf.AddOrUpdateMergeableIngress(mergeable(r))
	case "vs":
		_, err = in.cnf.AddOrUpdateVirtualServer(vsEx(r))
	case "ts":
		_, err = in.cnf.AddOrUpdateTransportServer(tsEx(r))
	default:
		err = fmt.Errorf("unknown kind %q", r.Kind)
	}
	return err
}

func (in *instance) apply(e Event) (errc string) {
	switch e.Op {
	case "add":
		return errClass(in.addOne(*e.Res))
	case "del":
		key := e.NS + "/" + e.Name
		switch e.Kind {
		case "ing":
			return errClass(in.cnf.DeleteIngress(key, false))
		case "vs":
			return errClass(in.cnf.DeleteVirtualServer(key, false))
		case "ts":
			return errClass(in.cnf.DeleteTransportServer(key))
		}
		return "badkind"
	case "upd_vss":
		return errsClass(in.cnf.UpdateVirtualServers(extended(e.Adds).VirtualServerExes, keys(e.Dels)))
	case "upd_tss":
		return errsClass(in.cnf.UpdateTransportServers(extended(e.Adds).TransportServerExes, keys(e.Dels)))
	case "bdel_vs":
		return errsClass(in.cnf.BatchDeleteVirtualServers(keys(e.Dels)))
	case "bdel_ing":
		return errsClass(in.cnf.BatchDeleteIngresses(keys(e.Dels)))
	case "add_res":
		_, err := in.cnf.AddOrUpdateResources(extended(e.Adds), true)
		return errClass(err)
	case "upd_cfg":
		_, err := in.cnf.UpdateConfig(extended(e.Adds))
		return errClass(err)
	case "upd_eps":
		// endpoints of the services behind these resources changed: UpdateEndpoints* regenerate the files
		x := extended(e.Adds)
		if err := in.cnf.UpdateEndpoints(x.IngressExes); err != nil {
			return "error"
		}
		if err := in.cnf.UpdateEndpointsMergeableIngress(x.MergeableIngresses); err != nil {
			return "error"
		}
		if err := in.cnf.UpdateEndpointsForVirtualServers(x.VirtualServerExes); err != nil {
			return "error"
		}
		return errClass(in.cnf.UpdateEndpointsForTransportServers(x.TransportServerExes))
	}
	return "badop"
}

// restart: the process is gone (Configurator and LocalManager state lost), the configuration
// root survives, the cluster now holds e.Adds.  Start-up: every resource is synced with reloads
// held back (controller.go sync), then EnableReloads + updateAllConfigs (= UpdateConfig).
func restart(old *instance, repo string, plus bool, cluster []Res) (*instance, string) {
	in, err := start(old.root, repo, plus)
	if err != nil {
		return old, "start:" + err.Error()
	}
	for _, r := range cluster {
		if err := in.addOne(r); err != nil {
			return in, "error"
		}
	}
	in.cnf.EnableReloads()
	if _, err := in.cnf.UpdateConfig(extended(cluster)); err != nil {
		return in, "error"
	}
	return in, ""
}

var (
	reServerName  = regexp.MustCompile(`(?m)^\s*server_name\s+s(\d+)\.example\.com;`)
	reReadTimeout = regexp.MustCompile(`(?m)^\s*proxy_read_timeout\s+(\d+)s;`)
	reIngOwner    = regexp.MustCompile(`(?m)^# configuration for (\S+)`)
	reVSName      = regexp.MustCompile(`(?m)set \$resource_name "([^"]*)";`)
	reVSNS        = regexp.MustCompile(`(?m)set \$resource_namespace "([^"]*)";`)
	reTSUp        = regexp.MustCompile(`(?m)^\s*upstream\s+(ts_\S+)_s(\d+)\s*\{`)
	reHostLine    = regexp.MustCompile(`^(\S+)\s+(\S+);$`)
)

func listDir(dir string, stream bool) []FileObs {
	ents, err := os.ReadDir(dir)
	if err != nil {
		return []FileObs{{File: "!readdir", Stamp: -1}}
	}
	out := []FileObs{}
	for _, e := range ents {
		b, _ := os.ReadFile(filepath.Join(dir, e.Name()))
		s := string(b)
		h := sha256.Sum256(b)
		fo := FileObs{File: e.Name(), Stamp: -1, Hash: hex.EncodeToString(h[:6])}
		if stream {
			if m := reTSUp.FindStringSubmatch(s); m != nil {
				fo.Stamp, _ = strconv.Atoi(m[2])
				fo.Owner = m[1]
			}
		} else {
			if m := reServerName.FindStringSubmatch(s); m != nil {
				fo.Stamp, _ = strconv.Atoi(m[1])
			} else if m := reReadTimeout.FindStringSubmatch(s); m != nil {
				if v, _ := strconv.Atoi(m[1]); v >= 1000 {
					fo.Stamp = v - 1000
				}
			}
			if m := reIngOwner.FindStringSubmatch(s); m != nil {
				fo.Owner = m[1]
			} else if m := reVSName.FindStringSubmatch(s); m != nil {
				if n := reVSNS.FindStringSubmatch(s); n != nil {
					fo.Owner = n[1] + "/" + m[1]
				}
			}
		}
		out = append(out, fo)
	}
	sort.Slice(out, func(i, j int) bool { return out[i].File < out[j].File })
	return out
}

func observe(in *instance) StepObs {
	o := StepObs{Confd: listDir(filepath.Join(in.root, "conf.d"), false), Stream: listDir(filepath.Join(in.root, "stream-conf.d"), true),
		Hosts: [][2]string{}, State: in.cnf.VerifC10State()}
	b, err := os.ReadFile(filepath.Join(in.root, "tls-passthrough-hosts.conf"))
	if err == nil {
		o.HostsExists = true
		for _, line := range strings.Split(string(b), "\n") {
			line = strings.TrimSpace(line)
			if line == "" || strings.HasPrefix(line, "#") {
				continue
			}
			if m := reHostLine.FindStringSubmatch(line); m != nil {
				o.Hosts = append(o.Hosts, [2]string{m[1], m[2]})
			} else {
				o.HostsJunk++
			}
		}
	}
	ents, _ := os.ReadDir(in.root)
	for _, e := range ents {
		switch e.Name() {
		case "conf.d", "stream-conf.d", "secrets", "state_files", "tls-passthrough-hosts.conf", "nginx.conf", "config-version.conf":
		default:
			o.Other = append(o.Other, e.Name())
		}
	}
	return o
}

func runHist(work, repo string, c *Case) {
	root, err := os.MkdirTemp(work, fmt.Sprintf("c%d-", c.ID))
	if err != nil {
		c.Obs = map[string]any{"error": err.Error()}
		return
	}
	defer os.RemoveAll(root)
	for _, d := range []string{"conf.d", "stream-conf.d", "secrets", "state_files"} {
		os.MkdirAll(filepath.Join(root, d), 0o755)
	}
	in, err := start(root, repo, c.Plus)
	if err != nil {
		c.Obs = map[string]any{"error": err.Error()}
		return
	}
	in.cnf.EnableReloads()
	obs := make([]StepObs, 0, len(c.Events))
	var progress *os.File
	if pf := os.Getenv("VERIF_C10_PROGRESS"); pf != "" {
		progress, _ = os.OpenFile(pf, os.O_CREATE|os.O_WRONLY|os.O_APPEND, 0o644)
		if progress != nil {
			defer progress.Close()
		}
	}
	for _, e := range c.Events {
		var errc, pan string
		func() {
			defer func() {
				if r := recover(); r != nil {
					pan = fmt.Sprint(r)
					if len(pan) > 200 {
						pan = pan[:200]
					}
				}
			}()
			if e.Op == "restart" {
				in, errc = restart(in, repo, c.Plus, e.Adds)
			} else {
				errc = in.apply(e)
			}
		}()
		o := observe(in)
		o.Err, o.Panic = errc, pan
		obs = append(obs, o)
		if progress != nil {
			if b, err := json.Marshal(o); err == nil {
				progress.Write(append(b, '\n'))
				progress.Sync()
			}
		}
	}
	c.Obs = obs
}

// runIsolated runs one history in a child process (the same binary, -replay of a one-case file) and, when the
// child ends abnormally, keeps the steps it completed and records where it died.
func runIsolated(work string, c *Case) {
	dir, err := os.MkdirTemp(work, fmt.Sprintf("iso%d-", c.ID))
	if err != nil {
		c.Obs = map[string]any{"error": err.Error()}
		return
	}
	defer os.RemoveAll(dir)
	one := *c
	one.Isolate = false
	b, _ := json.Marshal(map[string]any{"cases": []Case{one}})
	in, out, prog := filepath.Join(dir, "in.json"), filepath.Join(dir, "out.jsonl"), filepath.Join(dir, "progress.jsonl")
	os.WriteFile(in, b, 0o644)
	cmd := exec.Command(os.Args[0], "-replay", in, "-out", out)
	cmd.Env = append(os.Environ(), "VERIF_C10_PROGRESS="+prog, "VERIF_C10_CHILD=1")
	runErr := cmd.Run()
	if runErr == nil {
		if ob, err := os.ReadFile(out); err == nil {
			var got Case
			if json.Unmarshal(bytes.TrimSpace(ob), &got) == nil {
				c.Obs = got.Obs
				return
			}
		}
		c.Obs = map[string]any{"error": "isolated run produced no output"}
		return
	}
	code := -1
	if ee, ok := runErr.(*exec.ExitError); ok {
		code = ee.ExitCode()
	}
	steps := []json.RawMessage{}
	if pb, err := os.ReadFile(prog); err == nil {
		for _, line := range bytes.Split(pb, []byte("\n")) {
			if len(bytes.TrimSpace(line)) > 0 {
				steps = append(steps, json.RawMessage(append([]byte{}, line...)))
			}
		}
	}
	c.Obs = steps
	c.Fatal = &FatalObs{At: len(steps), Exit: code}
}

// ---------- mgr family: the file methods of the real LocalManager, whole root listed after every call ----------

func listRoot(root string) [][2]string {
	out := [][2]string{}
	filepath.Walk(root, func(p string, info os.FileInfo, err error) error {
		if err != nil || info.IsDir() {
			return nil
		}
		rel, _ := filepath.Rel(root, p)
		b, _ := os.ReadFile(p)
		out = append(out, [2]string{filepath.ToSlash(rel), string(b)})
		return nil
	})
	sort.Slice(out, func(i, j int) bool { return out[i][0] < out[j][0] })
	return out
}

func runMgr(work string, c *Case) {
	root, err := os.MkdirTemp(work, fmt.Sprintf("m%d-", c.ID))
	if err != nil {
		c.Obs = map[string]any{"error": err.Error()}
		return
	}
	defer os.RemoveAll(root)
	for _, d := range []string{"conf.d", "stream-conf.d", "secrets", "state_files", "ap"} {
		os.MkdirAll(filepath.Join(root, d), 0o755)
	}
	ctx := nl.ContextWithLogger(context.Background(), quiet)
	lm := nginx.NewLocalManager(ctx, root, false, collectors.NewManagerFakeCollector(), nil, 10*time.Millisecond, c.Plus)
	obs := make([][][2]string, 0, len(c.MOps))
	for _, o := range c.MOps {
		b := []byte(o.Content)
		switch o.Op + ":" + o.Fam {
		case "write:conf":
			lm.CreateConfig(o.Name, b)
		case "del:conf":
			lm.DeleteConfig(o.Name)
		case "write:stream":
			lm.CreateStreamConfig(o.Name, b)
		case "del:stream":
			lm.DeleteStreamConfig(o.Name)
		case "write:hosts":
			lm.CreateTLSPassthroughHostsConfig(b)
		case "write:main":
			lm.CreateMainConfig(b)
		case "write:secret":
			lm.CreateSecret(o.Name, b, 0o600)
		case "del:secret":
			lm.DeleteSecret(o.Name)
		case "write:dhparam":
			lm.CreateDHParam(o.Content)
		case "write:ap":
			lm.CreateAppProtectResourceFile(filepath.Join(root, "ap", o.Name), b)
		case "del:ap":
			lm.DeleteAppProtectResourceFile(filepath.Join(root, "ap", o.Name))
		}
		obs = append(obs, listRoot(root))
	}
	c.Obs = obs
}

func genMgr(r *vh.Rng, id int) Case {
	names := []string{"a", "a-b", "vs_a_b", "x.y"}[:2+r.Intn(3)]
	contents := []string{"A", "B", "server { }", ""}[:2+r.Intn(3)]
	fams := []string{"conf", "stream", "secret", "ap", "hosts", "main", "dhparam"}
	if r.Chance(1, 2) {
		fams = fams[:1+r.Intn(4)] // concentrate on few families: more add/delete/re-add on one path
	}
	c := Case{Fam: "mgr", ID: id, Class: "mgr", Plus: r.Chance(1, 4)}
	n := 6 + r.Intn(14)
	for i := 0; i < n; i++ {
		f := vh.Pick(r, fams)
		o := MOp{Op: "write", Fam: f, Name: vh.Pick(r, names), Content: vh.Pick(r, contents)}
		switch f {
		case "hosts", "main", "dhparam":
			o.Name = ""
		default:
			if r.Chance(2, 5) {
				o.Op, o.Content = "del", ""
			}
		}
		c.MOps = append(c.MOps, o)
	}
	return c
}

// fixed manager histories: for every family add -> delete -> re-add of identical bytes, and change -> change back
func mgrWitnesses(id *int) []Case {
	var out []Case
	for _, f := range []string{"conf", "stream", "secret", "ap"} {
		out = append(out, Case{Fam: "mgr", ID: *id, Class: "mgr-readd-" + f, MOps: []MOp{
			{Op: "write", Fam: f, Name: "a", Content: "A"}, {Op: "del", Fam: f, Name: "a"}, {Op: "write", Fam: f, Name: "a", Content: "A"},
			{Op: "write", Fam: f, Name: "a", Content: "B"}, {Op: "write", Fam: f, Name: "a", Content: "A"},
			{Op: "del", Fam: f, Name: "a"}, {Op: "write", Fam: f, Name: "a", Content: "A"}}})
		*id++
	}
	for _, f := range []string{"hosts", "main", "dhparam"} {
		out = append(out, Case{Fam: "mgr", ID: *id, Class: "mgr-back-" + f, MOps: []MOp{
			{Op: "write", Fam: f, Content: "A"}, {Op: "write", Fam: f, Content: "B"}, {Op: "write", Fam: f, Content: "A"}, {Op: "write", Fam: f, Content: "A"}}})
		*id++
	}
	return out
}

// ---------- names family: the real naming functions and manager paths on arbitrary strings ----------

func fromInts(x []int) string {
	b := make([]byte, len(x))
	for i, v := range x {
		b[i] = byte(v)
	}
	return string(b)
}

func runNames(work, repo string, c *Case) {
	ns, name := fromInts(c.NS), fromInts(c.Name)
	key := configs.VerifC10NamespaceNameKey(ns, name)
	o := NameObs{
		Ing: configs.VerifC10IngressFileName(ns, name), IngKey: configs.VerifC10KeyToFileName(key),
		VS: configs.VerifC10VSFileName(ns, name), VSKey: configs.VerifC10VSFileNameFromKey(key),
		TS: configs.VerifC10TSFileName(ns, name), TSKey: configs.VerifC10TSFileNameFromKey(key),
		Key: key,
	}
	c.Obs = map[string]any{"ing": vh.Bytes(o.Ing), "ing_key": vh.Bytes(o.IngKey), "vs": vh.Bytes(o.VS), "vs_key": vh.Bytes(o.VSKey),
		"ts": vh.Bytes(o.TS), "ts_key": vh.Bytes(o.TSKey), "key": vh.Bytes(o.Key)}
}

// ---------- nsl family: namespace life cycle through the real LoadBalancerController.sync ----------

// NEvent: op is put | del | unlabel | drain.  put/del change the cluster; when the namespace still has informers
// the informer store is updated at once and the task is queued (FIFO, one entry per key as in the work queue);
// unlabel removes the namespace from the labelled store and queues its task; drain lets the worker empty the queue.
type NEvent struct {
	Op string `json:"op"`
	NS string `json:"ns,omitempty"` // unlabel
	R  *NRes  `json:"r,omitempty"`
	// op gc: the GlobalConfiguration now has these TCP listeners [name, port] (GCDel: it was deleted)
	Listeners [][2]string `json:"listeners,omitempty"`
	GCDel     bool        `json:"gc_del,omitempty"`
}

// NRes is an object of the cluster. Kind: ing | vs | ts (ts: TLS passthrough with host pt<idx>).
type NRes struct {
	Kind    string `json:"kind"`
	NS      string `json:"ns"`
	Name    string `json:"name"`
	Stamp   int    `json:"stamp"`
	Class   string `json:"class"`
	Invalid bool   `json:"invalid,omitempty"`
	Host    string `json:"host,omitempty"`
	// arbitration cases: the hosts of an Ingress / the host of a VirtualServer (instead of the stamp host; the stamp is
	// then rendered as proxy_read_timeout <1000+stamp>s) and the age of the object (creationTimestamp: lower = older = wins)
	Hosts []string `json:"hosts,omitempty"`
	Age   int      `json:"age,omitempty"`
	// ts: name of a TCP listener of the GlobalConfiguration (instead of the built-in tls-passthrough listener)
	Listener string `json:"listener,omitempty"`
}

type NCause struct {
	Kind  string `json:"kind"`
	NS    string `json:"ns"`
	Name  string `json:"name"`
	Cause string `json:"cause"`
}

type NObs struct {
	Confd   []FileObs   `json:"confd"`
	Stream  []FileObs   `json:"stream"`
	Hosts   [][2]string `json:"hosts"`
	Served  []string    `json:"served"`  // what the Configuration holds
	Watched []string    `json:"watched"` // namespaces with informers
	Panic   string      `json:"panic,omitempty"`
}

func nslObject(r NRes) interface{} {
	base := Res{Kind: r.Kind, NS: r.NS, Name: r.Name, Stamp: r.Stamp, PT: true, Host: r.Host}
	om := func(m *meta_v1.ObjectMeta) {
		m.Generation = int64(r.Stamp)
		m.UID = types.UID(r.Kind + "/" + r.NS + "/" + r.Name)
		m.CreationTimestamp = meta_v1.NewTime(time.Unix(1700000000+int64(r.Age), 0))
	}
	switch r.Kind {
	case "ing":
		ing := ingEx(base).Ingress
		delete(ing.Annotations, "kubernetes.io/ingress.class")
		class := r.Class
		ing.Spec.IngressClassName = &class
		pt := networking.PathTypePrefix
		ing.Spec.Rules[0].HTTP.Paths[0].PathType = &pt
		if len(r.Hosts) > 0 {
			rule := ing.Spec.Rules[0]
			ing.Spec.Rules = nil
			for _, h := range r.Hosts {
				x := *rule.DeepCopy()
				x.Host = h
				ing.Spec.Rules = append(ing.Spec.Rules, x)
			}
			ing.Annotations["nginx.org/proxy-read-timeout"] = fmt.Sprintf("%ds", 1000+r.Stamp)
		}
		if r.Invalid {
			ing.Spec.Rules[0].Host = ""
		}
		om(&ing.ObjectMeta)
		return ing
	case "vs":
		vs := vsEx(base).VirtualServer
		vs.Spec.IngressClass = r.Class
		if len(r.Hosts) > 0 {
			vs.Spec.Host = r.Hosts[0]
			vs.Spec.Upstreams[0].ProxyReadTimeout = fmt.Sprintf("%ds", 1000+r.Stamp)
		}
		if r.Invalid {
			vs.Spec.Host = ""
		}
		om(&vs.ObjectMeta)
		return vs
	default:
		if r.Listener != "" {
			base.PT, base.Host = false, ""
		}
		ts := tsEx(base).TransportServer
		ts.Spec.IngressClass = r.Class
		if r.Listener != "" {
			ts.Spec.Listener = conf_v1.TransportServerListener{Name: r.Listener, Protocol: "TCP"}
		}
		if r.Invalid {
			ts.Spec.Action = nil
		}
		om(&ts.ObjectMeta)
		return ts
	}
}

type nslTask struct{ kind, key string }

func runNsl(work, repo string, c *Case) {
	root, err := os.MkdirTemp(work, fmt.Sprintf("n%d-", c.ID))
	if err != nil {
		c.Obs = map[string]any{"error": err.Error()}
		return
	}
	defer os.RemoveAll(root)
	for _, d := range []string{"conf.d", "stream-conf.d", "secrets", "state_files"} {
		os.MkdirAll(filepath.Join(root, d), 0o755)
	}
	in, err := start(root, repo, false)
	if err != nil {
		c.Obs = map[string]any{"error": err.Error()}
		return
	}
	in.cnf.EnableReloads()
	ctl := k8s.VerifC10NewCtl(in.cnf)
	nss := map[string]bool{}
	for _, e := range c.Script {
		if e.R != nil {
			nss[e.R.NS] = true
		}
	}
	labelled := map[string]bool{}
	for ns := range nss {
		if err := ctl.WatchNamespace(ns); err != nil {
			c.Obs = map[string]any{"error": err.Error()}
			return
		}
		labelled[ns] = true
	}
	type lastEv struct {
		what   string
		behind bool
	}
	cluster := map[string]NRes{}
	var order []string // every identity ever seen
	last := map[string]lastEv{}
	var queue []nslTask
	pendingNs := map[string]bool{}
	enqueue := func(t nslTask) {
		for _, q := range queue {
			if q == t {
				return
			}
		}
		queue = append(queue, t)
	}
	obs := []NObs{}
	listeners := map[string]bool{}
	c.Expect, c.Unserved = nil, nil
	for _, e := range c.Script {
		switch e.Op {
		case "put":
			r := *e.R
			k := rkey(r.Kind, r.NS, r.Name)
			what := "updated"
			if old, ok := cluster[k]; !ok {
				order = append(order, k)
				what = "created"
			} else if old.Class != r.Class {
				what = "class-changed"
			} else if r.Invalid && !old.Invalid {
				what = "invalidated"
			}
			cluster[k] = r
			if ctl.StorePut(r.Kind, r.NS, nslObject(r)) {
				enqueue(nslTask{r.Kind, r.NS + "/" + r.Name})
				last[k] = lastEv{what, pendingNs[r.NS]}
			}
		case "del":
			r := *e.R
			k := rkey(r.Kind, r.NS, r.Name)
			if _, ok := cluster[k]; !ok {
				continue
			}
			delete(cluster, k)
			if ctl.Watched(r.NS) {
				ctl.StoreDelete(r.Kind, r.NS, r.NS+"/"+r.Name)
				enqueue(nslTask{r.Kind, r.NS + "/" + r.Name})
				last[k] = lastEv{"deleted", pendingNs[r.NS]}
			}
		case "gc":
			listeners = map[string]bool{}
			if e.GCDel {
				ctl.StoreGC(nil)
			} else {
				gc := &conf_v1.GlobalConfiguration{ObjectMeta: meta_v1.ObjectMeta{Namespace: "nginx-ingress", Name: "gc"}}
				for _, l := range e.Listeners {
					port, _ := strconv.Atoi(l[1])
					gc.Spec.Listeners = append(gc.Spec.Listeners, conf_v1.Listener{Name: l[0], Port: port, Protocol: "TCP"})
					listeners[l[0]] = true
				}
				ctl.StoreGC(gc)
			}
			enqueue(nslTask{"gc", k8s.VerifC10GCKey})
		case "unlabel":
			if labelled[e.NS] {
				labelled[e.NS] = false
				ctl.Unlabel(e.NS)
				enqueue(nslTask{"ns", e.NS})
				pendingNs[e.NS] = true
			}
		case "drain":
			o := NObs{}
			func() {
				defer func() {
					if r := recover(); r != nil {
						o.Panic = fmt.Sprint(r)
						if len(o.Panic) > 200 {
							o.Panic = o.Panic[:200]
						}
					}
				}()
				for len(queue) > 0 {
					t := queue[0]
					queue = queue[1:]
					if t.kind == "ns" {
						delete(pendingNs, t.key)
					}
					ctl.Sync(t.kind, t.key)
				}
			}()
			queue = nil
			full := observe(in)
			o.Confd, o.Stream, o.Hosts = full.Confd, full.Stream, full.Hosts
			o.Served, o.Watched = ctl.Served(), ctl.WatchedNamespaces()
			obs = append(obs, o)
			var exp []Res
			var uns []NCause
			// host arbitration: the oldest eligible claimant of a host holds it; a resource is served when it holds a host
			eligible := func(r NRes) bool {
				return labelled[r.NS] && r.Class == "nginx" && !r.Invalid && (r.Listener == "" || listeners[r.Listener])
			}
			claims := func(r NRes) []string {
				switch {
				case len(r.Hosts) > 0:
					return r.Hosts
				case r.Kind == "ts" && r.Listener != "":
					return []string{"listener:" + r.Listener}
				case r.Kind == "ts":
					return []string{r.Host} // a passthrough host contends with the hosts of Ingresses and VirtualServers
				}
				return []string{stampHost(r.Stamp)}
			}
			older := func(a, b NRes) bool {
				if a.Age != b.Age {
					return a.Age < b.Age
				}
				return a.Kind+"/"+a.NS+"/"+a.Name < b.Kind+"/"+b.NS+"/"+b.Name
			}
			holder := map[string]NRes{}
			for _, k := range order {
				if r, ok := cluster[k]; ok && eligible(r) {
					for _, h := range claims(r) {
						if cur, taken := holder[h]; !taken || older(r, cur) {
							holder[h] = r
						}
					}
				}
			}
			holds := func(r NRes) bool {
				for _, h := range claims(r) {
					if w := holder[h]; w.Kind == r.Kind && w.NS == r.NS && w.Name == r.Name {
						return true
					}
				}
				return false
			}
			for _, k := range order {
				r, exists := cluster[k]
				id := strings.SplitN(k[2:], "/", 2)
				kind := map[byte]string{'i': "ing", 'v': "vs", 't': "ts"}[k[0]]
				le := last[k]
				switch {
				case exists && eligible(r) && !holds(r):
					uns = append(uns, NCause{kind, id[0], id[1], "lost-every-host"})
				case exists && eligible(r):
					exp = append(exp, Res{Kind: r.Kind, NS: r.NS, Name: r.Name, Stamp: r.Stamp, PT: r.Kind == "ts" && r.Listener == "", Host: r.Host})
				case le.behind:
					uns = append(uns, NCause{kind, id[0], id[1], le.what + "-behind-namespace-task"})
				case !exists:
					uns = append(uns, NCause{kind, id[0], id[1], "deleted"})
				case !labelled[r.NS]:
					uns = append(uns, NCause{kind, id[0], id[1], "namespace-unlabelled"})
				case r.Class != "nginx":
					uns = append(uns, NCause{kind, id[0], id[1], "foreign-class"})
				default:
					uns = append(uns, NCause{kind, id[0], id[1], "invalid"})
				}
			}
			c.Expect = append(c.Expect, exp)
			c.Unserved = append(c.Unserved, uns)
		}
	}
	c.Obs = obs
}

func genNsl(r *vh.Rng, id int) Case {
	c := Case{Fam: "nsl", ID: id, Class: "nsl"}
	stamp := 0
	type idn struct{ kind, ns, name string }
	var ids []idn
	cur := map[idn]NRes{}
	nss := []string{"apps", "keep"}
	if r.Chance(1, 3) {
		nss = append(nss, "a-b")
	}
	tsn := 0
	mk := func(i idn, class string, invalid bool) NRes {
		stamp++
		res := NRes{Kind: i.kind, NS: i.ns, Name: i.name, Stamp: stamp, Class: class, Invalid: invalid}
		if old, ok := cur[i]; ok {
			res.Host = old.Host
		} else if i.kind == "ts" {
			res.Host = fmt.Sprintf("pt%d.example.com", tsn)
			tsn++
		}
		cur[i] = res
		return res
	}
	put := func(res NRes) { x := res; c.Script = append(c.Script, NEvent{Op: "put", R: &x}) }
	for _, ns := range nss {
		for k := 0; k < 2+r.Intn(3); k++ {
			i := idn{vh.Pick(r, []string{"ing", "vs", "ts"}), ns, vh.Pick(r, []string{"cafe", "shop", "b-c", "x.y", "web"})}
			if _, ok := cur[i]; ok {
				continue
			}
			ids = append(ids, i)
			put(mk(i, "nginx", false))
		}
	}
	c.Script = append(c.Script, NEvent{Op: "drain"})
	change := func() {
		i := vh.Pick(r, ids)
		old, exists := cur[i]
		switch k := r.Intn(10); {
		case k < 3 && exists:
			put(mk(i, "other", old.Invalid)) // moved to another ingress class
		case k < 5 && exists:
			x := old
			delete(cur, i)
			c.Script = append(c.Script, NEvent{Op: "del", R: &x})
		case k < 7 && exists:
			put(mk(i, old.Class, true)) // spec becomes invalid
		default:
			put(mk(i, "nginx", false)) // (re)created or updated, valid, own class
		}
	}
	unl := 0
	for w := 0; w < 1+r.Intn(2); w++ {
		for k := 0; k < r.Intn(3); k++ {
			change()
		}
		if unl < len(nss)-1 && r.Chance(4, 5) {
			c.Script = append(c.Script, NEvent{Op: "unlabel", NS: nss[unl]})
			unl++
		}
		for k := 0; k < r.Intn(4); k++ {
			change()
		}
		c.Script = append(c.Script, NEvent{Op: "drain"})
	}
	return c
}

// genNslArb: Ingresses (several hosts) and VirtualServers (one host) of one namespace contending for a small pool of
// hosts, objects of any age becoming known in any order, class flips, deletions; several events per drain so that one
// rebuild moves several resources at once.
func genNslArb(r *vh.Rng, id int) Case {
	c := Case{Fam: "nsl", ID: id, Class: "arb"}
	pool := []string{"a.example.com", "b.example.com", "c.example.com", "d.example.com", "e.example.com"}[:3+r.Intn(3)]
	type obj struct {
		kind, name string
		age        int
		hosts      []string
	}
	var objs []obj
	n := 3 + r.Intn(4)
	ages := r.Intn(3)
	for i := 0; i < n; i++ {
		o := obj{kind: "ing", name: fmt.Sprintf("i%d", i), age: 10 + i}
		if ages == 0 {
			o.age = 50 - i // the later ones are older
		} else if ages == 1 {
			o.age = 1 + r.Intn(40)*10 + i // distinct ages: the tie-break by UID is not part of these histories
		}
		if r.Chance(1, 4) {
			o.kind, o.name = "vs", fmt.Sprintf("v%d", i)
			o.hosts = []string{vh.Pick(r, pool)}
		} else {
			for k := 0; k < 1+r.Intn(3); k++ {
				h := vh.Pick(r, pool)
				dup := false
				for _, x := range o.hosts {
					dup = dup || x == h
				}
				if !dup {
					o.hosts = append(o.hosts, h)
				}
			}
			if r.Chance(1, 2) {
				o.hosts = append(o.hosts, o.name+".example.com") // a host nobody else wants
			}
		}
		objs = append(objs, o)
	}
	stamp := 0
	exists := map[int]bool{}
	put := func(i int, class string) {
		stamp++
		o := objs[i]
		exists[i] = true
		c.Script = append(c.Script, NEvent{Op: "put", R: &NRes{Kind: o.kind, NS: "default", Name: o.name, Stamp: stamp, Class: class, Hosts: o.hosts, Age: o.age}})
	}
	order := r.Intn(2)
	for i := range objs {
		j := i
		if order == 1 {
			j = len(objs) - 1 - i
		}
		put(j, "nginx")
		if r.Chance(2, 3) {
			c.Script = append(c.Script, NEvent{Op: "drain"})
		}
	}
	c.Script = append(c.Script, NEvent{Op: "drain"})
	for k := 0; k < 2+r.Intn(5); k++ {
		i := r.Intn(len(objs))
		switch x := r.Intn(10); {
		case x < 3 && exists[i]:
			o := objs[i]
			exists[i] = false
			c.Script = append(c.Script, NEvent{Op: "del", R: &NRes{Kind: o.kind, NS: "default", Name: o.name}})
		case x < 6:
			put(i, "other")
		default:
			put(i, "nginx")
		}
		if r.Chance(1, 2) {
			c.Script = append(c.Script, NEvent{Op: "drain"})
		}
	}
	c.Script = append(c.Script, NEvent{Op: "drain"})
	return c
}

func nslWitnesses(id *int) []Case {
	base := func() []NEvent {
		return []NEvent{
			{Op: "put", R: &NRes{Kind: "ing", NS: "apps", Name: "cafe", Stamp: 1, Class: "nginx"}},
			{Op: "put", R: &NRes{Kind: "vs", NS: "apps", Name: "shop", Stamp: 2, Class: "nginx"}},
			{Op: "put", R: &NRes{Kind: "ts", NS: "apps", Name: "secure", Stamp: 3, Class: "nginx", Host: "pt0.example.com"}},
			{Op: "put", R: &NRes{Kind: "vs", NS: "keep", Name: "shop", Stamp: 4, Class: "nginx"}},
			{Op: "drain"}}
	}
	three := func(stamp int, class string, invalid bool) []NEvent {
		return []NEvent{
			{Op: "put", R: &NRes{Kind: "ing", NS: "apps", Name: "cafe", Stamp: stamp, Class: class, Invalid: invalid}},
			{Op: "put", R: &NRes{Kind: "vs", NS: "apps", Name: "shop", Stamp: stamp + 1, Class: class, Invalid: invalid}},
			{Op: "put", R: &NRes{Kind: "ts", NS: "apps", Name: "secure", Stamp: stamp + 2, Class: class, Invalid: invalid, Host: "pt0.example.com"}}}
	}
	dels := []NEvent{
		{Op: "del", R: &NRes{Kind: "ing", NS: "apps", Name: "cafe"}}, {Op: "del", R: &NRes{Kind: "vs", NS: "apps", Name: "shop"}},
		{Op: "del", R: &NRes{Kind: "ts", NS: "apps", Name: "secure"}}}
	unl := []NEvent{{Op: "unlabel", NS: "apps"}}
	drain := []NEvent{{Op: "drain"}}
	cat := func(xs ...[]NEvent) []NEvent {
		var out []NEvent
		for _, x := range xs {
			out = append(out, x...)
		}
		return out
	}
	mk := func(class string, script []NEvent) Case {
		c := Case{Fam: "nsl", ID: *id, Class: class, Script: script}
		*id++
		return c
	}
	ingH := func(name string, stamp, age int, hosts ...string) NEvent {
		return NEvent{Op: "put", R: &NRes{Kind: "ing", NS: "default", Name: name, Stamp: stamp, Class: "nginx", Hosts: hosts, Age: age}}
	}
	return []Case{
		// host hand-over to an OLDER Ingress that becomes known later: two Ingresses lose one of their hosts, a third all of its
		// hosts, in one rebuild (squashResourceChanges: delete+update of two resources and a plain delete of a third)
		mk("arb-handover-3", []NEvent{ingH("shop", 1, 10, "a.example.com", "shop.example.com"), ingH("blog", 2, 11, "b.example.com", "www.example.com"),
			ingH("wiki", 3, 12, "c.example.com"), {Op: "drain"},
			ingH("legacy", 4, 1, "a.example.com", "b.example.com", "c.example.com"), {Op: "drain"},
			{Op: "del", R: &NRes{Kind: "ing", NS: "default", Name: "legacy"}}, {Op: "drain"}}),
		// an Ingress migrated to a VirtualServer of the same namespace and name (and a passthrough TransportServer to a VirtualServer)
		mk("arb-same-name", []NEvent{ingH("cafe", 1, 1, "cafe.example.com"),
			{Op: "put", R: &NRes{Kind: "vs", NS: "default", Name: "cafe", Stamp: 2, Class: "nginx", Hosts: []string{"cafe.example.com"}, Age: 5}},
			{Op: "put", R: &NRes{Kind: "ts", NS: "default", Name: "app", Stamp: 3, Class: "nginx", Host: "app.example.com", Age: 1}},
			{Op: "put", R: &NRes{Kind: "vs", NS: "default", Name: "app", Stamp: 4, Class: "nginx", Hosts: []string{"app.example.com"}, Age: 5}}, {Op: "drain"},
			{Op: "del", R: &NRes{Kind: "ing", NS: "default", Name: "cafe"}}, {Op: "drain"},
			{Op: "del", R: &NRes{Kind: "ts", NS: "default", Name: "app"}}, {Op: "drain"}}),
		// GlobalConfiguration: a listener that carries a TransportServer is removed and nothing else changes; then the whole object goes
		mk("arb-gc-pure-removal", []NEvent{{Op: "gc", Listeners: [][2]string{{"tcp-7777", "7777"}, {"tcp-8888", "8888"}}},
			{Op: "put", R: &NRes{Kind: "ts", NS: "default", Name: "a", Stamp: 1, Class: "nginx", Listener: "tcp-7777", Age: 1}},
			{Op: "put", R: &NRes{Kind: "ts", NS: "default", Name: "b", Stamp: 2, Class: "nginx", Listener: "tcp-8888", Age: 2}}, {Op: "drain"},
			{Op: "gc", Listeners: [][2]string{{"tcp-8888", "8888"}}}, {Op: "drain"},
			{Op: "gc", GCDel: true}, {Op: "drain"}}),
		// a passthrough TransportServer moves to a TCP listener; later an unrelated resource makes the hosts rebuild
		mk("arb-gc-pt-to-tcp", []NEvent{{Op: "gc", Listeners: [][2]string{{"tcp-7777", "7777"}}},
			{Op: "put", R: &NRes{Kind: "ts", NS: "default", Name: "secure-app", Stamp: 1, Class: "nginx", Host: "app.example.com", Age: 1}}, {Op: "drain"},
			{Op: "put", R: &NRes{Kind: "ts", NS: "default", Name: "secure-app", Stamp: 2, Class: "nginx", Listener: "tcp-7777", Age: 1}}, {Op: "drain"},
			{Op: "put", R: &NRes{Kind: "vs", NS: "default", Name: "cafe", Stamp: 3, Class: "nginx", Age: 3}}, {Op: "drain"},
			ingH("other", 4, 4, "other.example.com"), {Op: "drain"}}),
		mk("arb-handover-2", []NEvent{ingH("shop", 1, 10, "a.example.com", "shop.example.com"), ingH("blog", 2, 11, "b.example.com", "www.example.com"),
			{Op: "drain"}, ingH("legacy", 3, 1, "a.example.com", "b.example.com"), {Op: "drain"}}),
		mk("arb-handover-4", []NEvent{ingH("shop", 1, 10, "a.example.com", "shop.example.com"), ingH("blog", 2, 11, "b.example.com", "www.example.com"),
			ingH("news", 3, 12, "c.example.com", "news.example.com"), ingH("wiki", 4, 13, "d.example.com"), ingH("docs", 5, 14, "e.example.com"), {Op: "drain"},
			ingH("legacy", 6, 1, "a.example.com", "b.example.com", "c.example.com", "d.example.com", "e.example.com"), {Op: "drain"}}),
		mk("nsl-unlabel", cat(base(), unl, drain)),
		mk("nsl-class-behind", cat(base(), unl, three(10, "other", false), drain)),
		mk("nsl-class-before", cat(base(), three(10, "other", false), unl, drain)),
		mk("nsl-invalid-behind", cat(base(), unl, three(10, "nginx", true), drain)),
		mk("nsl-update-behind", cat(base(), unl, three(10, "nginx", false), drain)),
		mk("nsl-delete-before", cat(base(), dels, unl, drain)),
		mk("nsl-delete-behind", cat(base(), unl, dels, drain)),
	}
}

// ---------- namepair family: two identities, the real naming functions on both ----------

func nameObs(ns, name string) map[string]any {
	key := configs.VerifC10NamespaceNameKey(ns, name)
	return map[string]any{"ing": vh.Bytes(configs.VerifC10IngressFileName(ns, name)), "ing_key": vh.Bytes(configs.VerifC10KeyToFileName(key)),
		"vs": vh.Bytes(configs.VerifC10VSFileName(ns, name)), "vs_key": vh.Bytes(configs.VerifC10VSFileNameFromKey(key)),
		"ts": vh.Bytes(configs.VerifC10TSFileName(ns, name)), "ts_key": vh.Bytes(configs.VerifC10TSFileNameFromKey(key)),
		"key": vh.Bytes(key)}
}

func runNamePair(c *Case) {
	c.Obs = map[string]any{"a": nameObs(fromInts(c.NS), fromInts(c.Name)), "b": nameObs(fromInts(c.NS2), fromInts(c.Name2))}
}

// longLegal: a DNS-1123 subdomain of exactly n bytes (labels of at most 63 bytes)
func longLegal(r *vh.Rng, n int) string {
	b := make([]byte, n)
	run := 0
	for i := range b {
		last := i == n-1
		switch {
		case run >= 60 && !last && i > 0 && b[i-1] != '.' && b[i-1] != '-':
			b[i], run = '.', 0
			continue
		case i == 0 || last || b[i-1] == '.':
			b[i] = "abcxyz019"[r.Intn(9)]
		case r.Chance(1, 12) && i+1 < n-1:
			b[i] = '-'
		default:
			b[i] = "abcxyz019"[r.Intn(9)]
		}
		if i > 0 && b[i-1] == '-' && last {
			b[i] = 'a'
		}
		run++
	}
	// no "-." or ".-" : a '-' is never followed by '.', because '.' is only placed after an alphanumeric
	return string(b)
}

// longPair: two different DNS-legal names of total length n sharing their first n-d bytes
func longPair(r *vh.Rng, n, d int) (string, string) {
	a := longLegal(r, n)
	bb := []byte(a)
	if d > n {
		d = n
	}
	i := n - 1 - r.Intn(d)
	c := byte('q')
	if bb[i] == 'q' {
		c = 'r'
	}
	if bb[i] == '.' || (i > 0 && bb[i-1] == '.') || (i+1 < n && bb[i+1] == '.') {
		i = n - 1
		if bb[i] == 'q' {
			c = 'r'
		}
	}
	bb[i] = c
	return a, string(bb)
}

func genNamePair(r *vh.Rng, id int) Case {
	c := Case{Fam: "namepair", ID: id}
	ns := legalName(r, false)
	if r.Chance(1, 3) {
		ns = strings.ReplaceAll(longLegal(r, 20+r.Intn(44)), ".", "a")
	}
	switch k := r.Intn(10); {
	case k < 6:
		// long names with a long common prefix, around and beyond what a file name can hold
		c.Class = "long-common-prefix"
		n := vh.Pick(r, []int{253, 253, 252, 250, 247, 246, 245, 240, 200})
		if r.Chance(1, 3) {
			n = 150 + r.Intn(104)
		}
		a, b := longPair(r, n, 1+r.Intn(12))
		c.NS, c.Name, c.NS2, c.Name2 = vh.Bytes(ns), vh.Bytes(a), vh.Bytes(ns), vh.Bytes(b)
	case k < 8:
		c.Class = "long-other-namespace"
		a := longLegal(r, 200+r.Intn(54))
		c.NS, c.Name, c.NS2, c.Name2 = vh.Bytes(ns), vh.Bytes(a), vh.Bytes(ns+"x"), vh.Bytes(a)
	default:
		c.Class = "short"
		c.NS, c.Name, c.NS2, c.Name2 = vh.Bytes(ns), vh.Bytes(legalName(r, true)), vh.Bytes(legalName(r, false)), vh.Bytes(legalName(r, true))
	}
	return c
}

// genLong: histories over resources with names at and beyond the length a file name can hold, run in a
// child process.  vs_<ns>_<name>.conf is 9+len(ns)+len(name) bytes, <ns>-<name>.conf is 6+len(ns)+len(name).
func genLong(r *vh.Rng, id int) Case {
	g := &gen{r: r, served: map[string]Res{}}
	ns := vh.Pick(r, []string{"team-a", "a", "default"})
	c := Case{Fam: "hist", ID: id, Isolate: true, Plus: r.Chance(1, 4)}
	var total int
	switch k := r.Intn(10); {
	case k < 4:
		c.Class, total = "long-fits", 255-r.Intn(3) // the longest names that still fit
	case k < 7:
		c.Class, total = "long-over", 256+r.Intn(3) // just beyond
	default:
		c.Class, total = "long-max", 0 // 253-byte names
	}
	mk := func(kind string) (ident, ident) {
		over := 9
		if kind == "ing" {
			over = 6
		}
		n := total - over - len(ns)
		if total == 0 || n > 253 {
			n = 253
		}
		a, b := longPair(r, n, 1+r.Intn(8))
		return ident{ns, a}, ident{ns, b}
	}
	i1, i2 := mk("ing")
	v1, v2 := mk("vs")
	t1, t2 := mk("ts")
	g.ings, g.vss, g.tss = []ident{i1, i2, {ns, "short"}}, []ident{v1, v2, {ns, "short"}}, []ident{t1, t2, {ns, "short"}}
	n := 4 + r.Intn(6)
	for i := 0; i < n; i++ {
		c.Events = append(c.Events, g.event())
	}
	return c
}

// ---------- startup family: which Manager methods the start-up code of main.go calls ----------

// The restart model rests on: between process start and the first sync nothing removes files from
// conf.d / stream-conf.d.  This case lists, syntactically, every method called on a value named
// nginxManager in cmd/nginx-ingress/main.go, and every call of os.Remove*/os.ReadDir/filepath.Glob/
// filepath.Walk* in main.go and internal/nginx/manager.go together with the enclosing function.
func runStartup(repo string, c *Case) {
	fset := token.NewFileSet()
	calls := map[string]bool{}
	fsops := map[string]bool{}
	scan := func(rel string, mgrCalls bool) error {
		f, err := parser.ParseFile(fset, filepath.Join(repo, rel), nil, 0)
		if err != nil {
			return err
		}
		for _, d := range f.Decls {
			fd, ok := d.(*ast.FuncDecl)
			if !ok || fd.Body == nil {
				continue
			}
			ast.Inspect(fd.Body, func(n ast.Node) bool {
				ce, ok := n.(*ast.CallExpr)
				if !ok {
					return true
				}
				se, ok := ce.Fun.(*ast.SelectorExpr)
				if !ok {
					return true
				}
				id, ok := se.X.(*ast.Ident)
				if !ok {
					return true
				}
				if mgrCalls && id.Name == "nginxManager" {
					calls[se.Sel.Name] = true
				}
				if (id.Name == "os" && (strings.HasPrefix(se.Sel.Name, "Remove") || se.Sel.Name == "ReadDir")) ||
					(id.Name == "filepath" && (se.Sel.Name == "Glob" || strings.HasPrefix(se.Sel.Name, "Walk"))) {
					fsops[filepath.Base(rel)+":"+fd.Name.Name+":"+id.Name+"."+se.Sel.Name] = true
				}
				return true
			})
		}
		return nil
	}
	if err := scan("cmd/nginx-ingress/main.go", true); err != nil {
		c.Obs = map[string]any{"error": err.Error()}
		return
	}
	if err := scan("internal/nginx/manager.go", false); err != nil {
		c.Obs = map[string]any{"error": err.Error()}
		return
	}
	sorted := func(m map[string]bool) []string {
		out := []string{}
		for k := range m {
			out = append(out, k)
		}
		sort.Strings(out)
		return out
	}
	c.Obs = map[string]any{"manager_calls": sorted(calls), "fs_ops": sorted(fsops)}
}

func main() {
	a := vh.ParseArgs()
	work := os.Getenv("VERIF_WORK")
	if work == "" {
		work = "/verif/.work"
	}
	repo := os.Getenv("VERIF_REPO")
	if repo == "" {
		repo = "/repo"
	}
	var cases []Case
	if a.Replay != "" {
		if err := vh.ReadReplay(a.Replay, &cases); err != nil {
			fmt.Fprintln(os.Stderr, err)
			os.Exit(3)
		}
	} else {
		cases = generate(a)
	}
	w, err := vh.NewWriter(a.Out)
	if err != nil {
		fmt.Fprintln(os.Stderr, err)
		os.Exit(3)
	}
	dir, err := os.MkdirTemp(work, "t10-")
	if err != nil {
		fmt.Fprintln(os.Stderr, err)
		os.Exit(3)
	}
	defer os.RemoveAll(dir)
	for i := range cases {
		c := &cases[i]
		func() {
			defer func() {
				if r := recover(); r != nil {
					c.Obs = map[string]any{"error": fmt.Sprint("harness panic: ", r)}
				}
			}()
			switch c.Fam {
			case "hist":
				if c.Isolate && os.Getenv("VERIF_C10_CHILD") == "" {
					runIsolated(dir, c)
				} else {
					runHist(dir, repo, c)
				}
			case "namepair":
				runNamePair(c)
			case "nsl":
				runNsl(dir, repo, c)
			case "names":
				runNames(dir, repo, c)
			case "mgr":
				runMgr(dir, c)
			case "startup":
				runStartup(repo, c)
			default:
				c.Obs = map[string]any{"error": "unknown family " + c.Fam}
			}
		}()
		w.Emit(c)
	}
	w.Close()
}

// ---------- generators ----------

var labelPool = []string{"a", "b", "c", "d", "ab", "x", "a1", "0"}

// dashed builds l1-l2-...-lk ; every split at a dash gives (namespace, name) with the same ns-name.
func dashed(r *vh.Rng, k int) []string {
	out := make([]string, k)
	for i := range out {
		out[i] = vh.Pick(r, labelPool)
	}
	return out
}

func legalName(r *vh.Rng, dots bool) string {
	// DNS-1123: [a-z0-9]([-a-z0-9]*[a-z0-9])? ; with dots: labels joined by '.'
	alnum := "abc01"
	inner := "abc0--"
	if dots {
		inner = "abc0--.."
	}
	n := 1 + r.Intn(6)
	b := make([]byte, n)
	for i := range b {
		if i == 0 || i == n-1 {
			b[i] = alnum[r.Intn(len(alnum))]
		} else {
			b[i] = inner[r.Intn(len(inner))]
			if b[i] == '.' && (b[i-1] == '.' || b[i-1] == '-') {
				b[i] = 'a'
			}
			if b[i] == '-' && b[i-1] == '.' {
				b[i] = 'b'
			}
		}
	}
	return string(b)
}

type ident [2]string

type gen struct {
	r      *vh.Rng
	stamp  int
	ings   []ident
	vss    []ident
	tss    []ident
	served map[string]Res   // kind(i|v|t):ns/name -> latest Res
	past   map[string][]Res // every version ever added, per identity (for byte-identical re-adds and change-backs)
	order  []string         // insertion order of served keys (deterministic iteration)
}

func rkind(k string) string {
	switch k {
	case "ing", "ming":
		return "i"
	case "vs":
		return "v"
	}
	return "t"
}

func rkey(kind, ns, name string) string { return rkind(kind) + ":" + ns + "/" + name }

func (g *gen) setServed(res Res) {
	k := rkey(res.Kind, res.NS, res.Name)
	if g.past == nil {
		g.past = map[string][]Res{}
	}
	seen := false
	for _, x := range g.past[k] {
		seen = seen || x.Stamp == res.Stamp
	}
	if !seen {
		g.past[k] = append(g.past[k], res)
	}
	if _, ok := g.served[k]; !ok {
		g.order = append(g.order, k)
	}
	g.served[k] = res
}

func (g *gen) unsetServed(kind, ns, name string) {
	k := rkey(kind, ns, name)
	if _, ok := g.served[k]; ok {
		delete(g.served, k)
		for i, x := range g.order {
			if x == k {
				g.order = append(g.order[:i:i], g.order[i+1:]...)
				break
			}
		}
	}
}

func (g *gen) servedList() []Res {
	out := make([]Res, 0, len(g.order))
	for _, k := range g.order {
		out = append(out, g.served[k])
	}
	return out
}

func (g *gen) servedOfKind(k string) []Res {
	var out []Res
	for _, x := range g.servedList() {
		if rkind(x.Kind) == k {
			out = append(out, x)
		}
	}
	return out
}

func (g *gen) next() int { g.stamp++; return g.stamp }

func injective(ids []ident) bool {
	seen := map[string]bool{}
	for _, x := range ids {
		f := x[0] + "-" + x[1]
		if seen[f] {
			return false
		}
		seen[f] = true
	}
	return true
}

func dedup(ids []ident) []ident {
	seen := map[ident]bool{}
	var out []ident
	for _, x := range ids {
		if !seen[x] {
			seen[x] = true
			out = append(out, x)
		}
	}
	return out
}

func (g *gen) universe(collide bool) {
	r := g.r
	nsPool := []string{"a", "a-b", "b", "default", "x", "a-b-c", "d-e"}
	namePool := []string{"c", "b-c", "a.b", "b.c", "c-d", "a-b", "x.y-z", "b-c-d", "c.d", "d", "web"}
	mk := func(n int) []ident {
		var out []ident
		for i := 0; i < n; i++ {
			if r.Chance(1, 3) {
				out = append(out, ident{legalName(r, false), legalName(r, true)})
			} else {
				out = append(out, ident{vh.Pick(r, nsPool), vh.Pick(r, namePool)})
			}
		}
		return dedup(out)
	}
	for tries := 0; ; tries++ {
		g.ings = mk(3 + r.Intn(4))
		if collide {
			for p := 0; p < 1+r.Intn(2); p++ {
				w := dashed(r, 3+r.Intn(2))
				i := 1 + r.Intn(len(w)-1)
				j := 1 + r.Intn(len(w)-1)
				for j == i {
					j = 1 + r.Intn(len(w)-1)
				}
				g.ings = append(g.ings, ident{strings.Join(w[:i], "-"), strings.Join(w[i:], "-")},
					ident{strings.Join(w[:j], "-"), strings.Join(w[j:], "-")})
			}
			g.ings = dedup(g.ings)
			break
		}
		if injective(g.ings) || tries > 50 {
			if !injective(g.ings) {
				g.ings = g.ings[:1]
			}
			break
		}
	}
	g.vss = mk(2 + r.Intn(4))
	g.tss = mk(2 + r.Intn(4))
	if r.Chance(1, 2) {
		// underscore-free names make vs_/ts_ names injective; put the dash/dot look-alikes next to each other
		g.vss = dedup(append(g.vss, ident{"a-b", "c"}, ident{"a", "b-c"}, ident{"a", "b.c"}))
		g.tss = dedup(append(g.tss, ident{"a-b", "c"}, ident{"a", "b-c"}))
	}
	if r.Chance(1, 2) {
		// a name and the same name with the file suffix: `x` and `x.conf` are different DNS-legal names and
		// must not be confused by anything that appends or strips ".conf"
		g.vss = dedup(append(g.vss, ident{"ns1", "x"}, ident{"ns1", "x.conf"}))
		g.tss = dedup(append(g.tss, ident{"ns1", "x"}, ident{"ns1", "x.conf"}))
		if cand := dedup(append(append([]ident{}, g.ings...), ident{"ns1", "x"}, ident{"ns1", "x.conf"})); injective(cand) {
			g.ings = cand
		}
	}
	if r.Chance(1, 2) && len(g.ings) > 0 {
		// the same key as Ingress, VirtualServer and TransportServer
		g.vss = dedup(append(g.vss, g.ings[0]))
		g.tss = dedup(append(g.tss, g.ings[0]))
	}
}

func (g *gen) tsIndex(id ident) int {
	for i, x := range g.tss {
		if x == id {
			return i
		}
	}
	return 99
}

// newRes makes a fresh add/update of identity id.
func (g *gen) newRes(kind string, id ident) Res {
	r := g.r
	// the same object again, byte for byte: re-applied after a delete, or changed back to an earlier version
	if old := g.past[rkey(kind, id[0], id[1])]; len(old) > 0 && r.Chance(2, 5) {
		return vh.Pick(r, old)
	}
	res := Res{Kind: kind, NS: id[0], Name: id[1], Stamp: g.next()}
	switch kind {
	case "ming":
		for i := 0; i < r.Intn(3); i++ {
			m := vh.Pick(r, g.ings)
			if m != id {
				res.Minions = append(res.Minions, [2]string{m[0], m[1]})
			}
		}
	case "vs":
		for i := 0; i < r.Intn(3); i++ {
			m := vh.Pick(r, g.vss)
			res.VSRs = append(res.VSRs, [2]string{m[0], m[1] + "-r"})
		}
	case "ts":
		idx := g.tsIndex(id)
		switch {
		case r.Chance(55, 100):
			res.PT = true
			res.Host = fmt.Sprintf("pt%d.example.com", idx)
			if r.Chance(1, 5) {
				res.Host = fmt.Sprintf("pt%d-b.example.com", idx)
			}
		case r.Chance(1, 10):
			res.PT = true // passthrough listener without a host: not entered into the map
		case r.Chance(1, 4):
			res.Host = fmt.Sprintf("tcp%d.example.com", idx)
		}
	}
	return res
}

func (g *gen) pickAdd() Res {
	r := g.r
	k := r.Intn(100)
	switch {
	case k < 30 && len(g.ings) > 0:
		return g.newRes("ing", vh.Pick(r, g.ings))
	case k < 45 && len(g.ings) > 0:
		return g.newRes("ming", vh.Pick(r, g.ings))
	case k < 72:
		return g.newRes("vs", vh.Pick(r, g.vss))
	default:
		return g.newRes("ts", vh.Pick(r, g.tss))
	}
}

func (g *gen) pickDel(kind string) (ident, bool) {
	r := g.r
	sv := g.servedOfKind(rkind(kind))
	if len(sv) > 0 && r.Chance(4, 5) {
		x := vh.Pick(r, sv)
		return ident{x.NS, x.Name}, true
	}
	var pool []ident
	switch kind {
	case "ing":
		pool = g.ings
	case "vs":
		pool = g.vss
	default:
		pool = g.tss
	}
	if len(pool) == 0 {
		return ident{}, false
	}
	return vh.Pick(r, pool), true
}

func (g *gen) event() Event {
	r := g.r
	k := r.Intn(100)
	switch {
	case k < 45:
		res := g.pickAdd()
		g.setServed(res)
		return Event{Op: "add", Res: &res}
	case k < 68:
		kind := vh.Pick(r, []string{"ing", "vs", "ts"})
		id, ok := g.pickDel(kind)
		if !ok {
			break
		}
		g.unsetServed(kind, id[0], id[1])
		return Event{Op: "del", Kind: kind, NS: id[0], Name: id[1]}
	case k < 80:
		kind, op := "vs", "upd_vss"
		if r.Bool() {
			kind, op = "ts", "upd_tss"
		}
		e := Event{Op: op}
		pool := g.vss
		if kind == "ts" {
			pool = g.tss
		}
		for i := 0; i < r.Intn(3); i++ {
			res := g.newRes(kind, vh.Pick(r, pool))
			dup := false
			for _, x := range e.Adds {
				dup = dup || (x.NS == res.NS && x.Name == res.Name)
			}
			if dup {
				continue
			}
			e.Adds = append(e.Adds, res)
		}
		for i := 0; i < r.Intn(3); i++ {
			if id, ok := g.pickDel(kind); ok {
				e.Dels = append(e.Dels, [2]string{id[0], id[1]})
			}
		}
		for _, x := range e.Adds {
			g.setServed(x)
		}
		for _, d := range e.Dels {
			g.unsetServed(kind, d[0], d[1])
		}
		return e
	case k < 88:
		kind, op := "vs", "bdel_vs"
		if r.Bool() {
			kind, op = "ing", "bdel_ing"
		}
		e := Event{Op: op}
		for i := 0; i < 1+r.Intn(3); i++ {
			if id, ok := g.pickDel(kind); ok {
				e.Dels = append(e.Dels, [2]string{id[0], id[1]})
			}
		}
		for _, d := range e.Dels {
			g.unsetServed(kind, d[0], d[1])
		}
		return e
	case k < 94:
		// AddOrUpdateResources: some served resources again (e.g. a Secret or Service they use changed), maybe updated
		e := Event{Op: "add_res"}
		if r.Chance(1, 2) {
			e.Op = "upd_eps"
		}
		for _, x := range g.servedList() {
			if r.Chance(1, 2) {
				if r.Chance(1, 3) {
					x = g.newRes(x.Kind, ident{x.NS, x.Name})
				}
				e.Adds = append(e.Adds, x)
			}
		}
		for _, x := range e.Adds {
			g.setServed(x)
		}
		return e
	default:
		// UpdateConfig: ConfigMap changed, everything served is regenerated
		return Event{Op: "upd_cfg", Adds: g.servedList()}
	}
	res := g.pickAdd()
	g.setServed(res)
	return Event{Op: "add", Res: &res}
}

// restartEvent: the cluster as the restarted controller finds it.
func (g *gen) restartEvent(deletions bool) Event {
	r := g.r
	var cluster []Res
	sv := g.servedList()
	deleted := 0
	for i, x := range sv {
		if deletions && (r.Chance(35, 100) || (deleted == 0 && i == len(sv)-1)) {
			deleted++
			continue // deleted while the controller was down
		}
		if r.Chance(3, 10) {
			x = g.newRes(x.Kind, ident{x.NS, x.Name}) // changed while down
		}
		cluster = append(cluster, x)
	}
	for i := 0; i < r.Intn(3); i++ {
		res := g.pickAdd()
		dup := false
		for _, x := range cluster {
			dup = dup || rkey(x.Kind, x.NS, x.Name) == rkey(res.Kind, res.NS, res.Name)
		}
		if !dup {
			cluster = append(cluster, res) // created while down
		}
	}
	for i := len(cluster) - 1; i > 0; i-- {
		j := r.Intn(i + 1)
		cluster[i], cluster[j] = cluster[j], cluster[i]
	}
	g.served, g.order = map[string]Res{}, nil
	for _, x := range cluster {
		g.setServed(x)
	}
	return Event{Op: "restart", Adds: cluster}
}

func genHist(r *vh.Rng, id int) Case {
	g := &gen{r: r, served: map[string]Res{}}
	k := r.Intn(100)
	class, collide, rst, dels := "plain", false, false, false
	switch {
	case k < 32:
	case k < 50:
		class, collide = "collide", true
	case k < 72:
		class, rst = "restart-keep", true
	case k < 94:
		class, rst, dels = "restart-del", true, true
	default:
		class, collide, rst, dels = "collide-restart", true, true, r.Bool()
	}
	g.universe(collide)
	n := 5 + r.Intn(14)
	at := -1
	if rst {
		at = 1 + r.Intn(n)
	}
	c := Case{Fam: "hist", ID: id, Class: class, Plus: r.Chance(1, 4)}
	for i := 0; i < n; i++ {
		if i == at {
			c.Events = append(c.Events, g.restartEvent(dels))
		}
		c.Events = append(c.Events, g.event())
	}
	if at == n {
		c.Events = append(c.Events, g.restartEvent(dels))
	}
	return c
}

// fixed witnesses (run first): the ones the _refuted theorems are about
func witnesses(id *int) []Case {
	mk := func(class string, evs ...Event) Case {
		c := Case{Fam: "hist", ID: *id, Class: class, Events: evs}
		*id++
		return c
	}
	add := func(kind, ns, name string, stamp int) Event {
		return Event{Op: "add", Res: &Res{Kind: kind, NS: ns, Name: name, Stamp: stamp}}
	}
	addPT := func(ns, name string, stamp int, pt bool, host string) Event {
		return Event{Op: "add", Res: &Res{Kind: "ts", NS: ns, Name: name, Stamp: stamp, PT: pt, Host: host}}
	}
	return []Case{
		// ingress_file_name_refuted: a-b/c and a/b-c share a-b-c.conf
		mk("witness-collide", add("ing", "a-b", "c", 1), add("ing", "a", "b-c", 2), Event{Op: "del", Kind: "ing", NS: "a", Name: "b-c"}),
		// C10_restart_refuted: deleted while down, file stays
		mk("witness-restart", add("vs", "a", "b", 1), add("ts", "a", "b", 2), add("ing", "a", "b", 3), Event{Op: "restart"}),
		// restart with everything still there (and one more): fine
		mk("witness-restart-keep", add("vs", "a", "b", 1), addPT("a", "t", 2, true, "pt0.example.com"),
			Event{Op: "restart", Adds: []Res{{Kind: "ts", NS: "a", Name: "t", Stamp: 2, PT: true, Host: "pt0.example.com"}, {Kind: "vs", NS: "a", Name: "b", Stamp: 1}, {Kind: "ing", NS: "n", Name: "i", Stamp: 3}}}),
		// passthrough TS that stops being passthrough, then is deleted
		mk("witness-pt-update", addPT("a", "t", 1, true, "pt0.example.com"), addPT("a", "t", 2, false, ""), Event{Op: "del", Kind: "ts", NS: "a", Name: "t"}),
		// add -> delete -> re-add of the byte-identical object, for every kind (the files must come back)
		mk("witness-readd", add("ing", "a", "i", 1), add("vs", "a", "v", 2), add("ts", "a", "t", 3), addPT("a", "p", 4, true, "pt0.example.com"),
			Event{Op: "del", Kind: "ing", NS: "a", Name: "i"}, Event{Op: "del", Kind: "vs", NS: "a", Name: "v"},
			Event{Op: "del", Kind: "ts", NS: "a", Name: "t"}, Event{Op: "del", Kind: "ts", NS: "a", Name: "p"},
			add("ing", "a", "i", 1), add("vs", "a", "v", 2), add("ts", "a", "t", 3), addPT("a", "p", 4, true, "pt0.example.com")),
		// the same through the batch paths
		mk("witness-readd-batch", Event{Op: "upd_tss", Adds: []Res{{Kind: "ts", NS: "a", Name: "t", Stamp: 1}}},
			Event{Op: "upd_tss", Dels: [][2]string{{"a", "t"}}}, Event{Op: "upd_tss", Adds: []Res{{Kind: "ts", NS: "a", Name: "t", Stamp: 1}}},
			Event{Op: "upd_vss", Adds: []Res{{Kind: "vs", NS: "a", Name: "v", Stamp: 2}}}, Event{Op: "bdel_vs", Dels: [][2]string{{"a", "v"}}},
			Event{Op: "upd_vss", Adds: []Res{{Kind: "vs", NS: "a", Name: "v", Stamp: 2}}},
			add("ing", "a", "i", 3), Event{Op: "bdel_ing", Dels: [][2]string{{"a", "i"}}}, add("ing", "a", "i", 3)),
		// change -> change back
		mk("witness-change-back", add("ing", "a", "i", 1), add("vs", "a", "v", 2), add("ts", "a", "t", 3),
			add("ing", "a", "i", 4), add("vs", "a", "v", 5), add("ts", "a", "t", 6),
			add("ing", "a", "i", 1), add("vs", "a", "v", 2), add("ts", "a", "t", 3)),
		// two 253-byte names of one namespace differing in the last byte: a file each (if a file can be created at all)
		func() Case {
			a := strings.Repeat("abcdefghi.", 25) + "ab1"
			b := strings.Repeat("abcdefghi.", 25) + "ab2"
			c := mk("witness-long-pair", add("vs", "team-a", a, 1), add("vs", "team-a", b, 2), add("ts", "team-a", a, 3), add("ts", "team-a", b, 4),
				add("ing", "team-a", a, 5), add("ing", "team-a", b, 6),
				Event{Op: "del", Kind: "vs", NS: "team-a", Name: a}, Event{Op: "del", Kind: "ts", NS: "team-a", Name: a}, Event{Op: "del", Kind: "ing", NS: "team-a", Name: a})
			c.Isolate = true
			return c
		}(),
		// the same key as Ingress, VS and TS; delete one at a time
		mk("witness-same-key", add("ing", "a", "b", 1), add("vs", "a", "b", 2), addPT("a", "b", 3, true, "pt0.example.com"),
			Event{Op: "del", Kind: "vs", NS: "a", Name: "b"}, Event{Op: "del", Kind: "ing", NS: "a", Name: "b"}, Event{Op: "del", Kind: "ts", NS: "a", Name: "b"}),
	}
}

func genNames(r *vh.Rng, id int) Case {
	alpha := "ab-._/c"
	mk := func() []int {
		n := r.Intn(6)
		out := make([]int, n)
		for i := range out {
			if r.Chance(1, 12) {
				out[i] = r.Intn(256)
			} else {
				out[i] = int(alpha[r.Intn(len(alpha))])
			}
		}
		return out
	}
	c := Case{Fam: "names", ID: id, Class: "arbitrary", NS: mk(), Name: mk()}
	if r.Chance(1, 2) {
		c.Class = "legal"
		c.NS, c.Name = vh.Bytes(legalName(r, false)), vh.Bytes(legalName(r, true))
	}
	return c
}

// believe replays what the harness believes is served after events (last add wins, delete removes).
func believe(g *gen, evs []Event) {
	g.served, g.order = map[string]Res{}, nil
	for _, e := range evs {
		switch e.Op {
		case "add":
			g.setServed(*e.Res)
		case "del":
			g.unsetServed(e.Kind, e.NS, e.Name)
		case "upd_vss", "upd_tss", "add_res", "upd_cfg", "upd_eps":
			for _, x := range e.Adds {
				g.setServed(x)
			}
			k := "vs"
			if e.Op == "upd_tss" {
				k = "ts"
			}
			for _, d := range e.Dels {
				g.unsetServed(k, d[0], d[1])
			}
		case "bdel_vs":
			for _, d := range e.Dels {
				g.unsetServed("vs", d[0], d[1])
			}
		case "bdel_ing":
			for _, d := range e.Dels {
				g.unsetServed("ing", d[0], d[1])
			}
		case "restart":
			g.served, g.order = map[string]Res{}, nil
			for _, x := range e.Adds {
				g.setServed(x)
			}
		}
	}
}

// genEveryPoint: one base history (no restart) and, for EVERY position of it, the variant with a
// restart inserted there (cluster changed while down, with or without deletions).
func genEveryPoint(r *vh.Rng, id *int) []Case {
	g := &gen{r: r, served: map[string]Res{}}
	g.universe(false)
	n := 4 + r.Intn(7)
	var base []Event
	for i := 0; i < n; i++ {
		base = append(base, g.event())
	}
	plus := r.Chance(1, 4)
	var out []Case
	for p := 0; p <= n; p++ {
		believe(g, base[:p])
		dels := r.Bool()
		class := "everypoint-keep"
		if dels {
			class = "everypoint-del"
		}
		evs := append([]Event{}, base[:p]...)
		evs = append(evs, g.restartEvent(dels))
		evs = append(evs, base[p:]...)
		out = append(out, Case{Fam: "hist", ID: *id, Class: class, Plus: plus, Events: evs})
		*id++
	}
	return out
}

func generate(a vh.Args) []Case {
	root := vh.NewRng(a.Seed)
	id := 0
	cases := witnesses(&id)
	cases = append(cases, Case{Fam: "startup", ID: id, Class: "startup"})
	id++
	cases = append(cases, mgrWitnesses(&id)...)
	for i := 0; i < a.N/6+10; i++ {
		cases = append(cases, genMgr(root.Fork(uint64(id)+2<<32), id))
		id++
	}
	for i := 0; i < a.N; i++ {
		cases = append(cases, genHist(root.Fork(uint64(id)), id))
		id++
	}
	for i := 0; i < a.N/60+2; i++ {
		cases = append(cases, genEveryPoint(root.Fork(uint64(id)+1<<32), &id)...)
	}
	cases = append(cases, nslWitnesses(&id)...)
	for i := 0; i < a.N/8+10; i++ {
		cases = append(cases, genNsl(root.Fork(uint64(id)+5<<32), id))
		id++
	}
	for i := 0; i < a.N/10+10; i++ {
		cases = append(cases, genNslArb(root.Fork(uint64(id)+6<<32), id))
		id++
	}
	for i := 0; i < a.N/25+6; i++ {
		cases = append(cases, genLong(root.Fork(uint64(id)+3<<32), id))
		id++
	}
	for i := 0; i < a.N/4+20; i++ {
		cases = append(cases, genNamePair(root.Fork(uint64(id)+4<<32), id))
		id++
	}
	for i := 0; i < a.N/2+20; i++ {
		cases = append(cases, genNames(root.Fork(uint64(id)), id))
		id++
	}
	return cases
}
