(* C05 -- Every resource not serving traffic has been told why; active ones are not.
   Only statements, each closed by [exact] and followed by Print Assumptions.

   FULL STATEMENT (C05_truthful):
     for every history, after each event, for every object the controller knows (last upsert in the
     cluster, own class): the judge [Arb.Cases.truthful] -- the function evaluated at run time on the
     implementation's own reports -- returns 0 on the accumulated reports: applied <-> the most recent report
     is a success; not applied (invalid, lost its host/listener, orphaned, ignored) -> the most recent report
     is a rejection, warning or problem; and the validation error of the processed object is reported in that
     very step.
   Proved below: [C05_truthful] -- exactly that, for Ingresses, masters, minions, VirtualServers,
   VirtualServerRoutes and TransportServers, valid or not, for EVERY history (no bound); and
   [C05_validation_error_reported] for every event in every state.  ([C05_truthful_partial] is the same without
   the hypothesis that a UID belongs to one name, and leaves verdict 3 -- a minion attached, serving none of its
   paths, last told "success" without the warning -- open.)  Hypotheses ([hyps]): what the API server
   and the validators guarantee (K3; a master has one host, a minion a path, a VirtualServer a host, a route a
   UID; a passthrough TransportServer is only valid when passthrough is enabled; [ev_role]) and
   cert_manager = false.  The cert-manager corner and the tie of the model to the code are decided on every run by
   evaluating Arb.Cases.c05_run on the implementation's own change and problem lists. *)
From Coq Require Import List ZArith String Bool.
From NIC Require Import Base.SMap Arb.Types Arb.Model Arb.Spec Arb.InvProofs Arb.ClassProofs Arb.Cases Arb.ChangeProofs Arb.ReportProofs Arb.ShadowProofs Arb.ShadowAttrs Arb.Truth01 Arb.Truth07 Arb.Truth17 Arb.Truth18 Arb.Truth22 Arb.Truth24 Arb.Truth26 Arb.Truth27.
Import ListNotations.
Open Scope Z_scope.

(* THE STATEMENT.  [cluster es] is what the informers hold after the history: the last upsert of every object that
   still exists, with the verdicts of the class filter and of the validator.  [last_reports c es] accumulates, per
   object, the reports of every step ([step_reports]: the transcription of processChanges / processProblems /
   processChangesFromGlobalConfiguration applied to the batch and the problems of the step), forgetting what was
   said about an object that was deleted or re-created with another UID.  [view_ob (run c es)] is what
   GetResources() and the host maps show.  For every such object the judge returns 0 -- or 3 for a minion. *)
Theorem C05_truthful_partial :
  forall c es, hyps c es ->
  forall k e0, lookup k (cluster es) = Some e0 ->
  truthful c (objs_after es) (view_ob (run c es)) (last_reports c es) k e0 = 0 \/
  (minion_event e0 /\ truthful c (objs_after es) (view_ob (run c es)) (last_reports c es) k e0 = 3).
Proof. exact accumulated_reports_truthful. Qed.
Print Assumptions C05_truthful_partial.

(* THE FULL STATEMENT: with the API-server guarantee that a UID belongs to one name ([uid_hist]) the judge returns 0
   for every known object after every history.  (The extra hypothesis is what makes "the least claimant of a path"
   well defined among the minions of a host; the proof goes through the general path-arbitration theorem of C04
   and [unserving_minion_warned]: an attached minion that serves none of its paths carries a child warning.) *)
Theorem C05_truthful :
  forall c es, hyps c es -> uid_hist es ->
  forall k e0, lookup k (cluster es) = Some e0 ->
  truthful c (objs_after es) (view_ob (run c es)) (last_reports c es) k e0 = 0.
Proof. exact accumulated_reports_truthful_full. Qed.
Print Assumptions C05_truthful.

(* the validation error of the object being processed is reported in that very step: in the change that removes
   it or as a problem about it -- for every event in every state *)
Theorem C05_validation_error_reported :
  forall c s e, let '(s', cs, ps) := step c s e in error_reported e (mkObs cs ps [] [] []) = true.
Proof. exact validation_error_reported. Qed.
Print Assumptions C05_validation_error_reported.

(* the invariant behind it, for every history: a standing problem has been told and nothing better has been said
   since; an object whose last upsert was invalid has been told so; an applied object (active resource, attached
   minion, attached route) has a success as its last report *)
Theorem C05_report_invariant : forall c es, hyps c es -> inv c es.
Proof. exact inv_all. Qed.
Print Assumptions C05_report_invariant.

(* For EVERY history: a resource (Ingress, VirtualServer, TransportServer) is active -- it is in
   GetResources() -- if and only if the most recent change about it, over the whole history, is an
   addOrUpdate.  processChanges reports a success exactly with an addOrUpdate change, so a resource that
   becomes active again always receives a fresh success, and a resource whose last change is a removal is
   never active.  ([all_changes] concatenates the batches of every event; hypothesis as in C03.) *)
Theorem C05_active_iff_last_change_is_update_partial :
  forall c es, Forall ev_role es ->
  forall k, In k (keys (get_resources (run c es))) <-> last_op k (all_changes c init es) None = Some AddOrUpdate.
Proof. exact active_iff_last_change_is_update. Qed.
Print Assumptions C05_active_iff_last_change_is_update_partial.

(* Problems are emitted as deltas against the previous problem set.  For EVERY history: every problem
   that is standing in hostProblems at the end has been sent, and it is the most recent problem sent
   about that object -- also when the problem had been dropped from the set in between and came
   back (it is then re-sent).  [told_hosts] accumulates, per object, the last problem of the deltas. *)
Theorem C05_standing_problems_were_told_partial :
  forall c es, let '(acc, s) := told_hosts c init [] es in told acc (hprobs s) /\ s = run c es.
Proof. exact standing_problems_were_told. Qed.
Print Assumptions C05_standing_problems_were_told_partial.

(* one round of delta suppression, for arbitrary problem maps *)
Theorem C05_delta_suppression_sound :
  forall acc old new, wf new -> keyed_by_obj new -> told acc old -> told (tell acc (problem_delta new old)) new.
Proof. exact delta_sound. Qed.
Print Assumptions C05_delta_suppression_sound.

(* the problem maps are a function of the object set: nothing about an object that left can linger *)
Theorem C05_problem_sets_function_of_objects : forall c es, full_inv c (run c es).
Proof. exact run_full_inv. Qed.
Print Assumptions C05_problem_sets_function_of_objects.

(* a re-sync that changes nothing is silent: no change, no problem (no report is repeated) *)
Theorem C05_resync_is_silent :
  forall c s, full_inv c s -> rebuild_hosts c s = (s, [], []).
Proof. exact rebuild_hosts_idem. Qed.
Print Assumptions C05_resync_is_silent.

(* Non-vacuity: a VirtualServer loses its host (problem), the winner is deleted (problem dropped,
   success), a new winner arrives (the problem comes back and is sent again). *)
Definition vA := mkVS (mkMeta "ns" "a" "u1" 200 1 0) "h.example.com" [] None.
Definition vB u := mkVS (mkMeta "ns" "b" u 100 1 0) "h.example.com" [] None.
Example C05_problem_comes_back :
  let c := mkCfg true true in
  let s2 := run c [EVS vA true true; EVS (vB "u2") true true] in
  let s3 := run c [EVS vA true true; EVS (vB "u2") true true; EDelVS "ns/b"] in
  map fst (hprobs s2) = ["VirtualServer/ns/a"%string] /\ hprobs s3 = [] /\
  map p_obj (host_delta c s3 (EVS (vB "u3") true true)) = ["VirtualServer/ns/a"%string].
Proof. vm_compute. auto. Qed.

(* Non-vacuity of [C05_truthful_partial]: the history of the example above (a VirtualServer loses its host to an
   older one, the winner is deleted and comes back under a new UID) satisfies [hyps] with cert_manager off, and the
   cluster knows two objects at the end. *)
Example C05_truthful_nonvacuous :
  let es := [EVS vA true true; EVS (vB "u2") true true; EDelVS "ns/b"; EVS (vB "u3") true true] in
  hyps (mkCfg true false) es /\ uid_hist es /\ List.length (cluster es) = 2%nat.
Proof.
  split; [|split; [intros a b Ha; cbn [In] in Ha; destruct Ha as [Ha|[Ha|[Ha|[Ha|[]]]]]; discriminate Ha|vm_compute; reflexivity]]. constructor; [reflexivity|repeat constructor| |repeat constructor; discriminate].
  repeat split; intros a b Ha Hb Hm; cbn [In] in Ha, Hb;
    destruct Ha as [Ha|[Ha|[Ha|[Ha|[]]]]]; try discriminate Ha; injection Ha as Ea; subst a;
    destruct Hb as [Hb|[Hb|[Hb|[Hb|[]]]]]; try discriminate Hb; injection Hb as Eb; subst b;
    first [reflexivity | vm_compute in Hm; discriminate Hm].
Qed.
