//go:build verif

package configs

import (
	"context"
	"io"
	"log/slog"
	"path"

	"github.com/nginx/kubernetes-ingress/internal/configs/version1"
	"github.com/nginx/kubernetes-ingress/internal/configs/version2"
	nl "github.com/nginx/kubernetes-ingress/internal/logger"
	"github.com/nginx/kubernetes-ingress/internal/nginx"
)

// VerifC12Context is a context carrying a logger that discards everything.
func VerifC12Context() context.Context {
	return nl.ContextWithLogger(context.Background(), slog.New(slog.NewTextHandler(io.Discard, nil)))
}

// VerifC12NewConfigurator builds the production Configurator (NewConfigurator, production
// templates of repoDir) over the given Manager.  Reloads start disabled, as in production.
func VerifC12NewConfigurator(repoDir string, mgr nginx.Manager, plus, dynWeights bool) (*Configurator, error) {
	return VerifC12NewConfiguratorSSL(repoDir, mgr, plus, dynWeights, false)
}

// VerifC12NewConfiguratorSSL is VerifC12NewConfigurator with -ssl-dynamic-reload chosen.
func VerifC12NewConfiguratorSSL(repoDir string, mgr nginx.Manager, plus, dynWeights, dynSSL bool) (*Configurator, error) {
	d := path.Join(repoDir, "internal", "configs")
	main, ing, vs, ts := "nginx.tmpl", "nginx.ingress.tmpl", "nginx.virtualserver.tmpl", "nginx.transportserver.tmpl"
	if plus {
		main, ing, vs, ts = "nginx-plus.tmpl", "nginx-plus.ingress.tmpl", "nginx-plus.virtualserver.tmpl", "nginx-plus.transportserver.tmpl"
	}
	te, err := version1.NewTemplateExecutor(path.Join(d, "version1", main), path.Join(d, "version1", ing))
	if err != nil {
		return nil, err
	}
	te2, err := version2.NewTemplateExecutor(path.Join(d, "version2", vs), path.Join(d, "version2", ts))
	if err != nil {
		return nil, err
	}
	ctx := VerifC12Context()
	static := &StaticConfigParams{
		HealthStatus:               true,
		HealthStatusURI:            "/nginx-health",
		NginxStatus:                true,
		NginxStatusAllowCIDRs:      []string{"127.0.0.1"},
		NginxStatusPort:            8080,
		TLSPassthrough:             true,
		DynamicWeightChangesReload: dynWeights,
		DynamicSSLReload:           dynSSL,
		StaticSSLPath:              mgr.GetSecretsDir(),
		DefaultHTTPListenerPort:    80,
		DefaultHTTPSListenerPort:   443,
		NginxVersion:               nginx.NewVersion("nginx version: nginx/1.25.3 (nginx-plus-r31)"),
	}
	cnf := NewConfigurator(ConfiguratorParams{
		NginxManager:              mgr,
		StaticCfgParams:           static,
		Config:                    NewDefaultConfigParams(ctx, plus),
		MGMTCfgParams:             NewDefaultMGMTConfigParams(ctx),
		TemplateExecutor:          te,
		TemplateExecutorV2:        te2,
		IsPlus:                    plus,
		IsDynamicSSLReloadEnabled: dynSSL,
		NginxVersion:              static.NginxVersion,
	})
	return cnf, nil
}

// VerifC12ReloadsEnabled reads the reload gate.
func (cnf *Configurator) VerifC12ReloadsEnabled() bool { return cnf.isReloadsEnabled }
