//go:build verif

// Harness for the listener-admission part of C02.  It lives in package main of the controller
// binary (the original main() is renamed by a build-time rewrite, see vlib/common.py REWRITES)
// so that the REAL wiring of the reserved ports, createGlobalConfigurationValidator(), is what
// runs: flags are set, the validator is built by that function, and generated listener lists
// go through the real ValidateGlobalConfiguration.
package main

import (
	"fmt"
	"os"

	"github.com/nginx/kubernetes-ingress/internal/verifh/vh"
	conf_v1 "github.com/nginx/kubernetes-ingress/pkg/apis/configuration/v1"
)

type c02Flags struct {
	Status          bool `json:"status"`
	StatusPort      int  `json:"status_port"`
	Metrics         bool `json:"metrics"`
	MetricsPort     int  `json:"metrics_port"`
	Insight         bool `json:"insight"`
	InsightPort     int  `json:"insight_port"`
	Passthrough     bool `json:"passthrough"`
	PassthroughPort int  `json:"passthrough_port"`
	// the default_server ports; ports 80 and 443 stay reserved whatever these are (every Ingress and
	// VirtualServer server listens on 80/443)
	DefaultHTTP  int `json:"default_http"`
	DefaultHTTPS int `json:"default_https"`
}

type c02Listener struct {
	Name  string `json:"name"`
	Port  int    `json:"port"`
	Proto string `json:"proto"`
	IPv4  string `json:"ipv4"`
	IPv6  string `json:"ipv6"`
	Ssl   bool   `json:"ssl"`
}

type c02Entry struct {
	L      c02Listener `json:"l"`
	NameOK bool        `json:"name_ok"`
	IP4OK  bool        `json:"ip4_ok"`
	IP6OK  bool        `json:"ip6_ok"`
}

type c02Case struct {
	ID      int        `json:"id"`
	Flags   c02Flags   `json:"flags"`
	Entries []c02Entry `json:"entries"`
	Obs     any        `json:"obs"`
}

type c02Obs struct {
	Admitted []c02Listener `json:"admitted"`
	Err      bool          `json:"err"`
}

func toConf(l c02Listener) conf_v1.Listener {
	return conf_v1.Listener{Name: l.Name, Port: l.Port, Protocol: l.Proto, IPv4: l.IPv4, IPv6: l.IPv6, Ssl: l.Ssl}
}

func c02SetFlags(f c02Flags) {
	*nginxStatus, *nginxStatusPort = f.Status, f.StatusPort
	*enablePrometheusMetrics, *prometheusMetricsListenPort = f.Metrics, f.MetricsPort
	*enableServiceInsight, *serviceInsightListenPort = f.Insight, f.InsightPort
	*enableTLSPassthrough, *tlsPassthroughPort = f.Passthrough, f.PassthroughPort
	if f.DefaultHTTP != 0 {
		*defaultHTTPListenerPort = f.DefaultHTTP
	}
	if f.DefaultHTTPS != 0 {
		*defaultHTTPSListenerPort = f.DefaultHTTPS
	}
}

func c02Validate(ls []conf_v1.Listener) ([]conf_v1.Listener, bool) {
	gc := &conf_v1.GlobalConfiguration{Spec: conf_v1.GlobalConfigurationSpec{Listeners: ls}}
	err := createGlobalConfigurationValidator().ValidateGlobalConfiguration(gc)
	return gc.Spec.Listeners, err != nil
}

// probe: is one attribute syntactically acceptable on its own (port 64999 and TCP are never rejected)
func c02Probe(l conf_v1.Listener) bool {
	out, _ := c02Validate([]conf_v1.Listener{l})
	return len(out) == 1
}

func c02Gen(r *vh.Rng, id int) c02Case {
	c := c02Case{ID: id}
	c.Flags = c02Flags{Status: r.Bool(), StatusPort: vh.Pick(r, []int{8080, 9000}), Metrics: r.Bool(), MetricsPort: vh.Pick(r, []int{9113, 5353}),
		Insight: r.Bool(), InsightPort: vh.Pick(r, []int{9114, 8443}), Passthrough: r.Bool(), PassthroughPort: vh.Pick(r, []int{443, 8443, 9443}),
		DefaultHTTP: vh.Pick(r, []int{80, 80, 8080}), DefaultHTTPS: vh.Pick(r, []int{443, 443, 8443})}
	n := r.Intn(9)
	for i := 0; i < n; i++ {
		// mostly well-formed values on few ip:port pairs (so conflicts are common), plus a malformed stream
		l := c02Listener{
			Name:  vh.Pick(r, []string{"l1", "l2", "l3", "l4", "dns", "x-y", "l1", "l2"}),
			Port:  vh.Pick(r, []int{5353, 9000, 53, 53, 8081}),
			Proto: vh.Pick(r, []string{"TCP", "UDP", "HTTP"}),
			IPv4:  vh.Pick(r, []string{"", "", "127.0.0.1", "10.0.0.1", "0.0.0.0"}),
			IPv6:  vh.Pick(r, []string{"", "", "::1", "::", "fe80::1"}),
		}
		if r.Chance(1, 4) {
			switch r.Intn(5) {
			case 0:
				l.Name = vh.Pick(r, []string{"tls-passthrough", "Bad_Name", ""})
			case 1:
				l.Port = vh.Pick(r, []int{8080, 8443, 9113, 9114, 9443, 80, 443, 0, 70000, -1})
			case 2:
				l.Proto = vh.Pick(r, []string{"BOGUS", "tcp", ""})
			case 3:
				l.IPv4 = vh.Pick(r, []string{"999.1.1.1", "::1"})
			default:
				l.IPv6 = vh.Pick(r, []string{"zz::1", "127.0.0.1"})
			}
		}
		if l.Proto == "HTTP" {
			l.Ssl = r.Bool()
		}
		c.Entries = append(c.Entries, c02Entry{L: l})
	}
	return c
}

func c02Run(c *c02Case) {
	defer func() {
		if r := recover(); r != nil {
			c.Obs = map[string]any{"error": fmt.Sprintf("panic: %v", r)}
		}
	}()
	c02SetFlags(c.Flags)
	var ls []conf_v1.Listener
	for i := range c.Entries {
		e := &c.Entries[i]
		e.NameOK = c02Probe(conf_v1.Listener{Name: e.L.Name, Port: 64999, Protocol: "TCP"}) || e.L.Name == conf_v1.TLSPassthroughListenerName
		e.IP4OK = c02Probe(conf_v1.Listener{Name: "probe", Port: 64999, Protocol: "TCP", IPv4: e.L.IPv4})
		e.IP6OK = c02Probe(conf_v1.Listener{Name: "probe", Port: 64999, Protocol: "TCP", IPv6: e.L.IPv6})
		ls = append(ls, toConf(e.L))
	}
	out, failed := c02Validate(ls)
	o := c02Obs{Admitted: []c02Listener{}, Err: failed}
	for _, l := range out {
		o.Admitted = append(o.Admitted, c02Listener{Name: l.Name, Port: l.Port, Proto: l.Protocol, IPv4: l.IPv4, IPv6: l.IPv6, Ssl: l.Ssl})
	}
	c.Obs = o
}

func main() {
	a := vh.ParseArgs()
	if os.Getenv("VERIF_C13PLUS") != "" {
		plusMain(a.Out, a.N)
		return
	}
	var cases []c02Case
	if a.Replay != "" {
		if err := vh.ReadReplay(a.Replay, &cases); err != nil {
			fmt.Fprintln(os.Stderr, err)
			os.Exit(3)
		}
	} else {
		root := vh.NewRng(a.Seed)
		for i := 0; i < a.N; i++ {
			cases = append(cases, c02Gen(root.Fork(uint64(i)), i))
		}
	}
	w, err := vh.NewWriter(a.Out)
	if err != nil {
		fmt.Fprintln(os.Stderr, err)
		os.Exit(3)
	}
	for i := range cases {
		c02Run(&cases[i])
		w.Emit(cases[i])
	}
	w.Close()
}
