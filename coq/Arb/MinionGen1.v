(* C04/C05: the scan of buildMinionConfigs for arbitrary minions, a minion may list a path any number of times *)
From Coq Require Import List ZArith String Ascii Bool Lia.
From NIC Require Import Base.SMap Arb.Types Arb.Model Arb.Spec Arb.WinsProofs Arb.InvProofs Arb.OwnerProofs Arb.Cases Arb.MinionProofs.
Import ListNotations.
Open Scope Z_scope.

(* one (minion, path) pair at a time *)
Definition pairs_of (ms : list ingress) : list (ingress * string) := flat_map (fun i => map (fun p => (i, p)) (i_paths i)) ms.
Definition scanp (cs : list (ingress * string)) (s : mstate) : mstate := fold_left (fun s ip => minion_path (fst ip) s (snd ip)) cs s.
Definition claim_of (ip : ingress * string) : string * hold := (snd ip, (mkey (i_meta (fst ip)), i_meta (fst ip))).

Lemma scan_scanp ms : forall s, scan ms s = scanp (pairs_of ms) s.
Proof.
  induction ms as [|i ms IH]; intros s; [reflexivity|]. unfold scan, scanp, pairs_of in *. cbn [fold_left flat_map].
  rewrite fold_left_app. rewrite <- IH. f_equal. clear. generalize s. induction (i_paths i) as [|p ps IHp]; intros s0; [reflexivity|].
  cbn [fold_left map]. apply IHp.
Qed.

Lemma claims_pairs ms : claims_of ms = map claim_of (pairs_of ms).
Proof.
  unfold claims_of, pairs_of. induction ms as [|i ms IH]; [reflexivity|]. cbn [flat_map]. rewrite map_app, IH. f_equal.
  rewrite map_map. reflexivity.
Qed.

Definition cw_get (cw : smap (list string)) (k : string) : list string := match lookup k cw with Some l => l | None => [] end.

Lemma cw_get_add cw k w k' : cw_get (cw_add k w cw) k' = if String.eqb k' k then (cw_get cw k +++ [w]) else cw_get cw k'.
Proof.
  unfold cw_get, cw_add. destruct (String.eqb_spec k' k) as [->|Hne].
  - rewrite lookup_insert_eq. reflexivity.
  - rewrite lookup_insert_neq by exact Hne. reflexivity.
Qed.

Lemma cw_add_mono cw k w k' : cw_get cw k' <> [] -> cw_get (cw_add k w cw) k' <> [].
Proof.
  rewrite cw_get_add. destruct (String.eqb_spec k' k) as [->|Hne]; [|auto]. intros _ H. apply app_eq_nil in H. destruct H; discriminate.
Qed.

Lemma cw_add_self cw k w : cw_get (cw_add k w cw) k <> [].
Proof. rewrite cw_get_add, String.eqb_refl. intros H. apply app_eq_nil in H. destruct H; discriminate. Qed.

(* the invariant of the scan after the pairs [cs] *)
Record scan_inv (cs : list (ingress * string)) (s : mstate) : Prop := {
  si_marks : marks_ok s;
  si_paths : forall q, lookup q (ms_paths s) = lookup q (fold_left claim1 (map claim_of cs) []);
  si_who : forall p k m, lookup p (ms_paths s) = Some (k, m) -> exists i, In i (map fst cs) /\ k = mkey (i_meta i) /\ m = i_meta i;
  (* every minion that listed a path holds it or has been warned *)
  si_warn : forall i p, In (i, p) cs -> (exists m, lookup p (ms_paths s) = Some (mkey (i_meta i), m)) \/ cw_get (ms_cw s) (mkey (i_meta i)) <> []
}.

Lemma lookup_insert_congr {A} (m1 m2 : smap A) k v q : (forall q, lookup q m1 = lookup q m2) -> lookup q (insert k v m1) = lookup q (insert k v m2).
Proof.
  intros E. destruct (string_dec q k) as [->|Hne]; [rewrite !lookup_insert_eq; reflexivity|rewrite !lookup_insert_neq by exact Hne; apply E].
Qed.

Lemma marks_ok_step_gen i s p : marks_ok s -> marks_ok (minion_path i s p).
Proof.
  intros Hinv. unfold minion_path. destruct (lookup p (ms_paths s)) as [[hk hm]|] eqn:Hl.
  - cbn [fst snd]. destruct (String.eqb hk (mkey (i_meta i))) eqn:Hself; [exact Hinv|].
    assert (Hf : forall m, lookup p (ms_paths s) <> Some (mkey (i_meta i), m)).
    { intros m E. rewrite Hl in E. inversion E. subst hk. rewrite String.eqb_refl in Hself. discriminate. }
    pose proof (marks_ok_step i s p Hinv Hf) as H. unfold minion_path in H. rewrite Hl in H. cbn [fst snd] in H. rewrite Hself in H. exact H.
  - assert (Hf : forall m, lookup p (ms_paths s) <> Some (mkey (i_meta i), m)) by (intros m E; rewrite Hl in E; discriminate).
    pose proof (marks_ok_step i s p Hinv Hf) as H. unfold minion_path in H. rewrite Hl in H. exact H.
Qed.

Lemma paths_other i s p q : q <> p -> lookup q (ms_paths (minion_path i s p)) = lookup q (ms_paths s).
Proof.
  intros Hne. unfold minion_path. destruct (lookup p (ms_paths s)) as [[hk hm]|]; cbn [fst snd].
  - destruct (String.eqb hk (mkey (i_meta i))); [reflexivity|]. destruct (wins hm (i_meta i)); cbn [negb ms_paths]; [reflexivity|].
    apply lookup_insert_neq. exact Hne.
  - cbn [ms_paths]. apply lookup_insert_neq. exact Hne.
Qed.

Lemma paths_at i s p : lookup p (ms_paths (minion_path i s p)) =
  match lookup p (ms_paths s) with
  | None => Some (mkey (i_meta i), i_meta i)
  | Some h => if String.eqb (fst h) (mkey (i_meta i)) then Some h
              else if wins (snd h) (i_meta i) then Some h else Some (mkey (i_meta i), i_meta i)
  end.
Proof.
  unfold minion_path. destruct (lookup p (ms_paths s)) as [[hk hm]|] eqn:Hl; cbn [fst snd].
  - destruct (String.eqb hk (mkey (i_meta i))); [exact Hl|]. destruct (wins hm (i_meta i)); cbn [negb ms_paths]; [exact Hl|apply lookup_insert_eq].
  - cbn [ms_paths]. apply lookup_insert_eq.
Qed.

Section Scan.
  Variable ms : list ingress.
  (* the minions of one host are distinct objects with distinct keys *)
  Hypothesis U : forall i j, In i ms -> In j ms -> mkey (i_meta i) = mkey (i_meta j) -> i = j.

  Lemma scan_inv_step cs s i p : (forall j, In j (map fst cs) -> In j ms) -> In i ms ->
    scan_inv cs s -> scan_inv (cs +++ [(i, p)]) (minion_path i s p).
  Proof.
    intros Hsub Hi [Hm Hp Hw Hc]. set (mk := mkey (i_meta i)).
    assert (Hrhs : forall q, lookup q (fold_left claim1 (map claim_of (cs +++ [(i, p)])) []) =
                             lookup q (claim1 (fold_left claim1 (map claim_of cs) []) (p, (mk, i_meta i)))).
    { intros q. rewrite map_app, fold_left_app. reflexivity. }
    constructor.
    - apply marks_ok_step_gen. exact Hm.
    - intros q. rewrite Hrhs. destruct (string_dec q p) as [->|Hne].
      + pose proof (lookup_claim1_eq (fold_left claim1 (map claim_of cs) []) (p, (mk, i_meta i))) as E. cbn [fst snd] in E. rewrite E.
        rewrite paths_at, <- (Hp p). fold mk. unfold keep.
        destruct (lookup p (ms_paths s)) as [[hk hm]|] eqn:Hl; [|reflexivity]. cbn [fst snd].
        destruct (String.eqb hk mk) eqn:Hself.
        * apply String.eqb_eq in Hself. subst hk.
          destruct (Hw p mk hm Hl) as (j & Hj & Hk & Hmeta). assert (j = i) by (apply U; auto). subst j hm.
          destruct (wins (i_meta i) (i_meta i)); reflexivity.
        * destruct (wins hm (i_meta i)); reflexivity.
      + rewrite paths_other by exact Hne. rewrite (lookup_claim1_neq _ (p, (mk, i_meta i)) q Hne). apply Hp.
    - assert (Hl0 : forall j, In j (map fst cs) -> In j (map fst (cs +++ [(i, p)]))) by (intros j Hj; rewrite map_app, in_app_iff; left; exact Hj).
      assert (Hi0 : In i (map fst (cs +++ [(i, p)]))) by (rewrite map_app, in_app_iff; right; left; reflexivity).
      intros q k m Hq. destruct (string_dec q p) as [->|Hne].
      + rewrite paths_at in Hq. fold mk in Hq. destruct (lookup p (ms_paths s)) as [[hk hm]|] eqn:Hl.
        * cbn [fst snd] in Hq.
          assert (Hold : exists i0, In i0 (map fst (cs +++ [(i, p)])) /\ hk = mkey (i_meta i0) /\ hm = i_meta i0).
          { destruct (Hw p hk hm Hl) as (j & Hj & E). exists j. auto. }
          destruct (String.eqb hk mk); [inversion Hq; subst; exact Hold|].
          destruct (wins hm (i_meta i)); inversion Hq; subst; [exact Hold|exists i; auto].
        * inversion Hq; subst. exists i. auto.
      + rewrite paths_other in Hq by exact Hne. destruct (Hw q k m Hq) as (j & Hj & E). exists j. auto.
    - intros j q Hin. apply in_app_or in Hin. unfold minion_path.
      destruct (lookup p (ms_paths s)) as [[hk hm]|] eqn:Hl.
      + cbn [fst snd]. destruct (String.eqb hk (mkey (i_meta i))) eqn:Hself; cbv beta iota.
        * destruct Hin as [Hin|[Heq|[]]]; [exact (Hc j q Hin)|]. inversion Heq; subst j q. left. apply String.eqb_eq in Hself. subst hk. eauto.
        * destruct (wins hm (i_meta i)) eqn:Hwin; cbn [negb]; cbv beta iota; cbn [ms_paths ms_cw].
          -- (* the holder keeps the path, i is warned *)
             destruct Hin as [Hin|[Heq|[]]].
             ++ destruct (Hc j q Hin) as [H|H]; [left; exact H|right; apply cw_add_mono; exact H].
             ++ inversion Heq; subst j q. right. apply cw_add_self.
          -- (* i takes the path over, the former holder is warned *)
             destruct Hin as [Hin|[Heq|[]]].
             ++ destruct (Hc j q Hin) as [(m & H)|H].
                ** destruct (string_dec q p) as [->|Hne].
                   --- right. rewrite Hl in H. inversion H; subst. apply cw_add_self.
                   --- left. exists m. rewrite lookup_insert_neq by exact Hne. exact H.
                ** right. apply cw_add_mono. exact H.
             ++ inversion Heq; subst j q. left. exists (i_meta i). apply lookup_insert_eq.
      + cbn [ms_paths ms_cw]. destruct Hin as [Hin|[Heq|[]]].
        * destruct (Hc j q Hin) as [(m & H)|H]; [|right; exact H].
          destruct (string_dec q p) as [->|Hne]; [rewrite Hl in H; discriminate|]. left. exists m. rewrite lookup_insert_neq by exact Hne. exact H.
        * inversion Heq; subst j q. left. exists (i_meta i). apply lookup_insert_eq.
  Qed.

  Lemma scan_inv_all : forall cs pre s, (forall j, In j (map fst (pre +++ cs)) -> In j ms) ->
    scan_inv pre s -> scan_inv (pre +++ cs) (scanp cs s).
  Proof.
    induction cs as [|[i p] cs IH]; intros pre s Hsub Hinv; [rewrite app_nil_r; exact Hinv|].
    cbn [scanp fold_left fst snd]. fold (scanp cs (minion_path i s p)).
    replace (pre +++ (i, p) :: cs) with ((pre +++ [(i, p)]) +++ cs) by (rewrite <- app_assoc; reflexivity).
    apply IH.
    - intros j Hj. apply Hsub. rewrite <- app_assoc in Hj. exact Hj.
    - apply scan_inv_step; [|apply Hsub; rewrite map_app, in_app_iff; right; left; reflexivity|exact Hinv].
      intros j Hj. apply Hsub. rewrite map_app, in_app_iff. left. exact Hj.
  Qed.

  Lemma pairs_fst i : In i (map fst (pairs_of ms)) -> In i ms.
  Proof.
    intros H. apply in_map_iff in H. destruct H as ([j p] & E & Hin). cbn in E. subst j.
    unfold pairs_of in Hin. apply in_flat_map in Hin. destruct Hin as (j & Hj & Hp). apply in_map_iff in Hp. destruct Hp as (q & E & _). inversion E; subst. exact Hj.
  Qed.

  Theorem scan_general : scan_inv (pairs_of ms) (scan ms (mkMS [] [] [])).
  Proof.
    rewrite scan_scanp. apply (scan_inv_all (pairs_of ms) [] (mkMS [] [] [])).
    - cbn [app]. exact pairs_fst.
    - constructor; [apply marks_ok_init|reflexivity|intros p k m H; discriminate H|intros i p []].
  Qed.
End Scan.
