(* C19 -- reconcileUserSigs recomputes the in-force flags from scratch: whatever valid / duplicate
   flags the well-formed tagged signatures carry before the call, afterwards every signature
   carries exactly the flag the specification assigns to the current object set. *)
From Coq Require Import List ZArith String Ascii Bool Lia Permutation.
From NIC Require Import Base.SMap AppProtect.Model AppProtect.Spec AppProtect.ProofsBase.
Import ListNotations.
Open Scope string_scope.
Open Scope list_scope.
Open Scope Z_scope.

(* K1: simultaneously existing signature objects have distinct uids *)
Definition sigs_distinct (S : smap sigobj) : Prop :=
  forall k1 o1 k2 o2, In (k1, o1) S -> In (k2, o2) S -> k1 <> k2 -> so_uid o1 <> so_uid o2.

(* ------------------------------------------------------------------------------------------ *)
(* writes *)

Fixpoint last_write {A} (k : string) (ws : list (string * A)) (d : option A) : option A :=
  match ws with
  | [] => d
  | kv :: r => last_write k r (if String.eqb k (fst kv) then Some (snd kv) else d)
  end.

Lemma apply_writes_lookup {A} (ws : list (string * A)) : forall m k,
  lookup k (apply_writes m ws) = last_write k ws (lookup k m).
Proof.
  unfold apply_writes. induction ws as [|[k' v] r IH]; intros m k; cbn; [reflexivity|].
  rewrite IH. destruct (String.eqb k k') eqn:E.
  - apply String.eqb_eq in E. subst. rewrite lookup_insert_eq. reflexivity.
  - apply String.eqb_neq in E. rewrite lookup_insert_neq by exact E. reflexivity.
Qed.

Lemma last_write_cases {A} (ws : list (string * A)) : forall k d,
  (last_write k ws d = d /\ ~ In k (map fst ws)) \/ (exists e, In (k, e) ws /\ last_write k ws d = Some e).
Proof.
  induction ws as [|[k' v] r IH]; intros k d; cbn; [left; split; [reflexivity|tauto]|].
  destruct (String.eqb k k') eqn:E.
  - apply String.eqb_eq in E. subst k'.
    destruct (IH k (Some v)) as [[H1 H2]|[e [H1 H2]]].
    + right. exists v. split; [left; reflexivity|exact H1].
    + right. exists e. split; [right; exact H1|exact H2].
  - destruct (IH k d) as [[H1 H2]|[e [H1 H2]]].
    + left. split; [exact H1|]. intros [H|H]; [|exact (H2 H)].
      apply String.eqb_neq in E. congruence.
    + right. exists e. split; [right; exact H1|exact H2].
Qed.

Lemma wf_apply_writes {A} (ws : list (string * A)) : forall m, wf m -> wf (apply_writes m ws).
Proof.
  unfold apply_writes. induction ws as [|[k v] r IH]; intros m W; cbn; [exact W|].
  apply IH. apply wf_insert. exact W.
Qed.

(* ------------------------------------------------------------------------------------------ *)
(* detectDuplicateTags *)

Definition elig (e : UserSigEx) : bool := negb (err_eqb (s_err e) EFailed).
Definition in_group (t : string) (ke : string * UserSigEx) : bool :=
  elig (snd ke) && String.eqb (s_tag (snd ke)) t.

Definition combine_grp {X} (o : option (list X)) (add : list X) : option (list X) :=
  match o with
  | Some v => Some (v ++ add)
  | None => match add with [] => None | _ => Some add end
  end.

Lemma dd_fold (l : list (string * UserSigEx)) : forall tmp t,
  lookup t (fold_left dd_add l tmp) = combine_grp (lookup t tmp) (filter (in_group t) l).
Proof.
  induction l as [|ke l IH]; intros tmp t; cbn [fold_left filter].
  - unfold combine_grp. destruct (lookup t tmp); [rewrite app_nil_r|]; reflexivity.
  - rewrite IH. unfold dd_add, in_group at 2, elig.
    destruct (err_eqb (s_err (snd ke)) EFailed) eqn:Ef; cbn [negb andb].
    + destruct (lookup (s_tag (snd ke)) tmp); reflexivity.
    + destruct (String.eqb (s_tag (snd ke)) t) eqn:Et.
      * apply String.eqb_eq in Et. subst t.
        destruct (lookup (s_tag (snd ke)) tmp) as [val|] eqn:El; rewrite lookup_insert_eq; cbn.
        -- rewrite <- app_assoc. reflexivity.
        -- reflexivity.
      * assert (Hne : t <> s_tag (snd ke)) by (apply String.eqb_neq in Et; congruence).
        destruct (lookup (s_tag (snd ke)) tmp) as [val|] eqn:El;
          rewrite lookup_insert_neq by exact Hne; reflexivity.
Qed.

Lemma wf_dd_fold (l : list (string * UserSigEx)) : forall tmp, wf tmp -> wf (fold_left dd_add l tmp).
Proof.
  induction l as [|ke l IH]; intros tmp W; cbn; [exact W|]. apply IH.
  unfold dd_add. destruct (lookup (s_tag (snd ke)) tmp); destruct (negb _); try exact W; apply wf_insert; exact W.
Qed.

Lemma in_detect (m : smap UserSigEx) (g : list (string * UserSigEx)) :
  In g (detect_duplicate_tags m) <-> exists t, t <> "" /\ filter (in_group t) m = g /\ g <> [].
Proof.
  unfold detect_duplicate_tags. rewrite in_map_iff.
  assert (W : wf (fold_left dd_add m [])) by (apply wf_dd_fold; constructor).
  split.
  - intros [[t g'] [E Hin]]. cbn in E. subst g'. apply filter_In in Hin. destruct Hin as [Hin Ht].
    cbn in Ht. apply negb_true_iff, String.eqb_neq in Ht.
    apply (In_lookup _ _ _ W) in Hin. rewrite dd_fold in Hin. cbn in Hin.
    exists t. split; [exact Ht|]. destruct (filter (in_group t) m) eqn:F; [discriminate|].
    inversion Hin. split; [reflexivity|discriminate].
  - intros [t [Ht [F Hne]]]. exists (t, g). split; [reflexivity|].
    apply filter_In. split.
    + apply lookup_In. rewrite dd_fold. cbn. rewrite F. destruct g; [contradiction|reflexivity].
    + cbn. apply negb_true_iff, String.eqb_neq. exact Ht.
Qed.

(* ------------------------------------------------------------------------------------------ *)
(* the entries before the call: right object, tag, revision; any valid / duplicate flag *)

Definition wf_ex (o : sigobj) (v : bool) (e : err) : UserSigEx :=
  {| s_obj := o; s_tag := so_tag o; s_rev := tf_opt (so_rev o); s_valid := v; s_err := e |}.

Definition pert (fl : string -> sigobj -> bool) (k : string) (o : sigobj) : UserSigEx :=
  if sig_competes o then
    if fl k o then sig_base o else sig_set_invalid (sig_base o) EDup
  else sig_base o.

Lemma competes_base o : sig_competes o = true -> sig_base o = wf_ex o true ENone.
Proof.
  unfold sig_competes, sig_wf, sig_base, create_usersig_ex, wf_ex.
  destruct (so_valid o); cbn; [|discriminate].
  destruct (so_rev o); cbn; try discriminate; reflexivity.
Qed.

Lemma competes_tag o : sig_competes o = true -> so_tag o <> "".
Proof.
  unfold sig_competes. intros H. apply andb_true_iff in H. destruct H as [_ H].
  apply negb_true_iff, String.eqb_neq in H. exact H.
Qed.

Lemma pert_competes fl k o : sig_competes o = true ->
  pert fl k o = if fl k o then wf_ex o true ENone else wf_ex o false EDup.
Proof.
  intros H. unfold pert. rewrite H, (competes_base _ H). destruct (fl k o); reflexivity.
Qed.

Lemma spec_ex_competes S k o : sig_competes o = true ->
  spec_sig_ex S k o = if in_force S k o then wf_ex o true ENone else wf_ex o false EDup.
Proof.
  intros H. unfold spec_sig_ex. rewrite H, (competes_base _ H). destruct (in_force S k o); reflexivity.
Qed.

Lemma base_obj o : s_obj (sig_base o) = o.
Proof.
  unfold sig_base, create_usersig_ex. destruct (so_valid o); cbn; [|reflexivity].
  destruct (so_rev o); reflexivity.
Qed.

Lemma pert_obj fl k o : s_obj (pert fl k o) = o.
Proof.
  unfold pert. destruct (sig_competes o); [destruct (fl k o)|]; cbn; apply base_obj.
Qed.

Lemma pert_in_group fl k o t : t <> "" ->
  in_group t (k, pert fl k o) = sig_competes o && String.eqb (so_tag o) t.
Proof.
  intros Ht. destruct (sig_competes o) eqn:C.
  - rewrite (pert_competes _ _ _ C). unfold in_group, elig. destruct (fl k o); reflexivity.
  - unfold pert. rewrite C. unfold in_group, elig, sig_base, create_usersig_ex. cbn [snd andb].
    assert (E0 : String.eqb "" t = false) by (apply String.eqb_neq; congruence).
    unfold sig_competes, sig_wf in C.
    destruct (so_valid o); cbn in *; [|reflexivity].
    destruct (so_rev o); cbn in *; try exact E0.
    + apply negb_false_iff, String.eqb_eq in C. rewrite C. exact E0.
    + apply negb_false_iff, String.eqb_eq in C. rewrite C. exact E0.
Qed.

Lemma nodup_keys_unique {A} (l : list (string * A)) k a b :
  NoDup (map fst l) -> In (k, a) l -> In (k, b) l -> a = b.
Proof.
  induction l as [|[k' v] r IH]; cbn; [tauto|]. intros N. inversion N as [|? ? Hn N']; subst.
  intros [H1|H1] [H2|H2].
  - congruence.
  - inversion H1; subst. exfalso. apply Hn. apply in_map_iff. exists (k, b). auto.
  - inversion H2; subst. exfalso. apply Hn. apply in_map_iff. exists (k, a). auto.
  - auto.
Qed.

Lemma nodup_filter_keys {A} (p : string * A -> bool) (l : list (string * A)) :
  NoDup (map fst l) -> NoDup (map fst (filter p l)).
Proof.
  induction l as [|x r IH]; cbn; [auto|]. intros N. inversion N as [|? ? Hn N']; subst.
  destruct (p x); cbn; [constructor|]; auto.
  intros Hin. apply Hn. apply in_map_iff in Hin. destruct Hin as [y [E Hy]].
  apply filter_In in Hy. apply in_map_iff. exists y. tauto.
Qed.

Section Reconcile.
  Variable S : smap sigobj.
  Hypothesis WS : wf S.
  Hypothesis K1 : sigs_distinct S.
  Variable fl : string -> sigobj -> bool.

  Let m := mapk (pert fl) S.

  Lemma m_entries k e : In (k, e) m <-> exists o, In (k, o) S /\ e = pert fl k o.
  Proof. apply in_mapk. Qed.

  Lemma m_nodup : NoDup (map fst m).
  Proof. change (NoDup (keys m)). unfold m. rewrite keys_mapk. apply wf_keys_NoDup. exact WS. Qed.

  Lemma S_unique k o o' : In (k, o) S -> In (k, o') S -> o = o'.
  Proof. intros H1 H2. apply (In_lookup _ _ _ WS) in H1, H2. congruence. Qed.

  Section Group.
    Variable t : string.
    Hypothesis Ht : t <> "".
    Let g := filter (in_group t) m.
    Variable w : string * UserSigEx.
    Variable rest : list (string * UserSigEx).
    Hypothesis Hsort : sig_sort g = w :: rest.

    Lemma g_member k e : In (k, e) g <->
      exists o, In (k, o) S /\ e = pert fl k o /\ sig_competes o = true /\ so_tag o = t.
    Proof.
      unfold g. rewrite filter_In, m_entries. split.
      - intros [[o [H1 H2]] H3]. subst e. rewrite (pert_in_group _ _ _ _ Ht) in H3.
        apply andb_true_iff in H3. destruct H3 as [H3 H4]. apply String.eqb_eq in H4. eauto.
      - intros [o [H1 [H2 [H3 H4]]]]. split; [eauto|]. subst e.
        rewrite (pert_in_group _ _ _ _ Ht), H3, H4, String.eqb_refl. reflexivity.
    Qed.

    Lemma g_nodup : NoDup (map fst g).
    Proof. apply nodup_filter_keys. apply m_nodup. Qed.

    Lemma sorted_perm : Permutation (w :: rest) g.
    Proof. rewrite <- Hsort. apply sig_sort_perm. Qed.

    Lemma sorted_nodup : NoDup (map fst (w :: rest)).
    Proof.
      eapply Permutation_NoDup; [apply Permutation_map, Permutation_sym, sorted_perm|apply g_nodup].
    Qed.

    Lemma w_in_g : In w g.
    Proof. eapply Permutation_in; [apply sorted_perm|left; reflexivity]. Qed.

    Lemma rest_in_g x : In x rest -> In x g.
    Proof. intros H. eapply Permutation_in; [apply sorted_perm|right; exact H]. Qed.

    Lemma g_split x : In x g -> x = w \/ In x rest.
    Proof.
      intros H. assert (H' : In x (w :: rest)) by (eapply Permutation_in; [apply Permutation_sym, sorted_perm|exact H]).
      destruct H' as [<-|H']; auto.
    Qed.

    Lemma winner_in_force ow : In (fst w, ow) S -> in_force S (fst w) ow = true.
    Proof.
      intros HS. pose proof w_in_g as Hw. rewrite (surjective_pairing w) in Hw.
      set (kw := fst w) in *. set (ew := snd w) in *.
      apply g_member in Hw. destruct Hw as [o [H1 [H2 [H3 H4]]]].
      assert (o = ow) by (eapply S_unique; eauto). subst o.
      unfold in_force. unfold sig_competes in H3. pose proof H3 as H3'.
      apply andb_true_iff in H3. destruct H3 as [Hwf _]. rewrite Hwf. cbn [andb].
      apply orb_true_iff. right. apply forallb_forall. intros [k' o'] Hin.
      destruct (rival kw ow (k', o')) eqn:R; [|reflexivity]. cbn [negb orb snd].
      unfold rival in R. cbn [fst snd] in R.
      apply andb_true_iff in R. destruct R as [R R3]. apply andb_true_iff in R. destruct R as [R1 R2].
      apply negb_true_iff, String.eqb_neq in R1. apply String.eqb_eq in R3.
      assert (Hg : In (k', pert fl k' o') g).
      { apply g_member. exists o'. repeat split; auto. congruence. }
      pose proof (sig_sort_head _ _ _ Hsort _ Hg) as Hle. cbn [snd] in Hle.
      fold ew in Hle. rewrite H2, !pert_obj in Hle.
      rewrite older_is_obj_less.
      destruct (obj_less_total ow o') as [L|L]; [|exact L|].
      - apply (K1 kw ow k' o'); auto.
      - unfold obj_le in Hle. rewrite L in Hle. discriminate.
    Qed.

    Lemma loser_not_in_force k e o : In (k, e) rest -> In (k, o) S -> in_force S k o = false.
    Proof.
      intros Hr HS. pose proof (rest_in_g _ Hr) as Hg. apply g_member in Hg.
      destruct Hg as [o0 [H1 [H2 [H3 H4]]]]. assert (o0 = o) by (eapply S_unique; eauto). subst o0.
      pose proof w_in_g as Hw. rewrite (surjective_pairing w) in Hw.
      set (kw := fst w) in *. set (ew := snd w) in *.
      apply g_member in Hw. destruct Hw as [ow [W1 [W2 [W3 W4]]]].
      assert (Hne : kw <> k).
      { pose proof sorted_nodup as N. cbn in N. inversion N as [|? ? Hn _].
        intros E. apply Hn. fold kw. rewrite E. apply in_map_iff. exists (k, e). auto. }
      unfold in_force. rewrite H3. cbn [negb orb].
      destruct (forallb _ S) eqn:F; [|apply andb_false_r].
      exfalso. rewrite forallb_forall in F. specialize (F (kw, ow) W1). cbn [snd] in F.
      assert (R : rival k o (kw, ow) = true).
      { unfold rival. cbn [fst snd]. rewrite W3, W4, H4, String.eqb_refl.
        assert (E : String.eqb kw k = false) by (apply String.eqb_neq; exact Hne). rewrite E. reflexivity. }
      rewrite R in F. cbn in F. rewrite older_is_obj_less in F.
      pose proof (sig_sort_head _ _ _ Hsort _ (rest_in_g _ Hr)) as Hle. cbn [snd] in Hle.
      fold ew in Hle. rewrite W2, H2, !pert_obj in Hle. unfold obj_le in Hle. rewrite F in Hle. discriminate.
    Qed.

    Let ws := fst (fst (reconcile_group g)).

    Lemma ws_eq : ws =
      (if s_valid (snd w) then [] else [(fst w, sig_set_valid (snd w))]) ++
      map (fun ke => (fst ke, sig_set_invalid (snd ke) EDup)) (filter (fun ke => s_valid (snd ke)) rest).
    Proof. unfold ws, reconcile_group. rewrite Hsort. reflexivity. Qed.

    Lemma ws_keys k : In k (map fst ws) -> In k (map fst g).
    Proof.
      rewrite ws_eq, map_app, in_app_iff. intros [H|H].
      - destruct (s_valid (snd w)); cbn in H; [tauto|]. destruct H as [<-|[]].
        apply in_map. apply w_in_g.
      - rewrite map_map in H. cbn in H. apply in_map_iff in H. destruct H as [x [<- Hx]].
        apply filter_In in Hx. apply in_map. apply rest_in_g. tauto.
    Qed.

    (* the group decides exactly as the specification does *)
    Lemma group_ok k e o : In (k, e) g -> In (k, o) S ->
      (forall e', In (k, e') ws -> e' = spec_sig_ex S k o) /\
      (~ In k (map fst ws) -> e = spec_sig_ex S k o).
    Proof.
      intros Hg HS. pose proof Hg as Hg'. apply g_member in Hg'.
      destruct Hg' as [o0 [H1 [H2 [H3 H4]]]]. assert (o0 = o) by (eapply S_unique; eauto). subst o0.
      rewrite (spec_ex_competes _ _ _ H3). rewrite (pert_competes _ _ _ H3) in H2.
      assert (Hv : s_valid e = fl k o) by (rewrite H2; destruct (fl k o); reflexivity).
      assert (Hsv : sig_set_valid e = wf_ex o true ENone) by (rewrite H2; destruct (fl k o); reflexivity).
      assert (Hsi : sig_set_invalid e EDup = wf_ex o false EDup) by (rewrite H2; destruct (fl k o); reflexivity).
      pose proof sorted_nodup as N. cbn in N. apply NoDup_cons_iff in N. destruct N as [Hn N'].
      destruct (g_split _ Hg) as [Ew|Hr].
      - (* the winner *)
        assert (Ek : fst w = k) by (rewrite <- Ew; reflexivity).
        assert (Ee : snd w = e) by (rewrite <- Ew; reflexivity).
        assert (HF : in_force S k o = true).
        { rewrite <- Ek. apply winner_in_force. rewrite Ek. exact HS. }
        rewrite HF. split.
        + intros e' Hin. rewrite ws_eq in Hin. apply in_app_iff in Hin. destruct Hin as [Hin|Hin].
          * rewrite Ee in Hin. destruct (s_valid e); cbn in Hin; [tauto|]. destruct Hin as [Hin|[]].
            injection Hin as E1 E2. rewrite <- E2. exact Hsv.
          * exfalso. apply in_map_iff in Hin. destruct Hin as [x [Ex Hx]]. apply filter_In in Hx.
            injection Ex as E1 E2. apply Hn. rewrite Ek, <- E1. apply in_map. tauto.
        + intros Hnot. rewrite ws_eq, map_app, in_app_iff in Hnot. rewrite Ee, Hv in Hnot.
          destruct (fl k o) eqn:F; [exact H2|]. exfalso. apply Hnot. left. left. exact Ek.
      - (* a loser *)
        rewrite (loser_not_in_force _ _ _ Hr HS). split.
        + intros e' Hin. rewrite ws_eq in Hin. apply in_app_iff in Hin. destruct Hin as [Hin|Hin].
          * exfalso. destruct (s_valid (snd w)); cbn in Hin; [tauto|]. destruct Hin as [Hin|[]].
            injection Hin as E1 E2. apply Hn. rewrite E1. apply in_map_iff. exists (k, e). auto.
          * apply in_map_iff in Hin. destruct Hin as [[k2 e2] [Ex Hx]]. cbn in Ex. injection Ex as E1 E2.
            subst k2. apply filter_In in Hx. destruct Hx as [Hx _].
            assert (e2 = e) by (eapply (nodup_keys_unique rest); eauto). subst e2.
            rewrite <- E2. exact Hsi.
        + intros Hnot. rewrite ws_eq, map_app, in_app_iff in Hnot.
          destruct (fl k o) eqn:F; [|exact H2]. exfalso. apply Hnot. right.
          rewrite map_map. cbn. apply in_map_iff. exists (k, e). split; [reflexivity|].
          apply filter_In. split; [exact Hr|]. cbn. exact Hv.
    Qed.
  End Group.

  Let ws_all := flat_map (fun r => fst (fst r)) (map reconcile_group (detect_duplicate_tags m)).

  Lemma nonempty_sorted g : g <> [] -> exists w rest, sig_sort g = w :: rest.
  Proof.
    intros Hne. destruct (sig_sort g) as [|w rest] eqn:E; [|eauto].
    exfalso. apply Hne. pose proof (sig_sort_perm g) as P. rewrite E in P.
    apply Permutation_nil in P. exact P.
  Qed.

  Lemma ws_all_in k e' : In (k, e') ws_all ->
    exists t, t <> "" /\ In (k, e') (fst (fst (reconcile_group (filter (in_group t) m)))) /\
              filter (in_group t) m <> [].
  Proof.
    unfold ws_all. rewrite in_flat_map. intros [r [Hr Hin]]. apply in_map_iff in Hr.
    destruct Hr as [g [<- Hg]]. apply in_detect in Hg. destruct Hg as [t [Ht [<- Hne]]]. eauto.
  Qed.

  Lemma written_is_spec k o e' : In (k, o) S -> In (k, e') ws_all -> e' = spec_sig_ex S k o.
  Proof.
    intros HS Hin. apply ws_all_in in Hin. destruct Hin as [t [Ht [Hin Hne]]].
    destruct (nonempty_sorted _ Hne) as [w [rest Hsort]].
    assert (Hk : In k (map fst (filter (in_group t) m))).
    { eapply ws_keys; eauto. apply in_map_iff. exists (k, e'). auto. }
    apply in_map_iff in Hk. destruct Hk as [[k2 e] [Ek Hg]]. cbn in Ek. subst k2.
    destruct (group_ok t Ht w rest Hsort k e o Hg HS) as [Ha _]. apply Ha. exact Hin.
  Qed.

  Lemma unwritten_is_spec k o : In (k, o) S -> ~ In k (map fst ws_all) -> pert fl k o = spec_sig_ex S k o.
  Proof.
    intros HS Hnot. destruct (sig_competes o) eqn:C.
    - pose proof (competes_tag _ C) as Ht.
      assert (Hg : In (k, pert fl k o) (filter (in_group (so_tag o)) m)).
      { apply (g_member _ Ht). exists o. auto. }
      assert (Hne : filter (in_group (so_tag o)) m <> []) by (intros E; rewrite E in Hg; exact Hg).
      destruct (nonempty_sorted _ Hne) as [w [rest Hsort]].
      destruct (group_ok _ Ht w rest Hsort k _ o Hg HS) as [_ Hb]. apply Hb.
      intros Hin. apply Hnot. unfold ws_all. apply in_map_iff in Hin. destruct Hin as [[k2 e2] [Ek Hin]].
      cbn in Ek. subst k2. apply in_map_iff. exists (k, e2). split; [reflexivity|].
      apply in_flat_map. exists (reconcile_group (filter (in_group (so_tag o)) m)). split; [|exact Hin].
      apply in_map. apply in_detect. exists (so_tag o). auto.
    - unfold pert, spec_sig_ex. rewrite C. reflexivity.
  Qed.

  Lemma written_keys k : In k (map fst ws_all) -> In k (keys S).
  Proof.
    intros Hin. apply in_map_iff in Hin. destruct Hin as [[k2 e'] [Ek Hin]]. cbn in Ek. subst k2.
    apply ws_all_in in Hin. destruct Hin as [t [Ht [Hin Hne]]].
    destruct (nonempty_sorted _ Hne) as [w [rest Hsort]].
    assert (Hk : In k (map fst (filter (in_group t) m))).
    { eapply ws_keys; eauto. apply in_map_iff. exists (k, e'). auto. }
    apply in_map_iff in Hk. destruct Hk as [[k2 e] [Ek Hg]]. cbn in Ek. subst k2.
    apply filter_In in Hg. destruct Hg as [Hg _]. apply m_entries in Hg. destruct Hg as [o [Ho _]].
    apply in_map_iff. exists (k, o). auto.
  Qed.

  (* reconcileUserSigs lands on the specified flags, from any valid/duplicate flags *)
  Theorem reconcile_is_spec :
    fst (fst (reconcile_user_sigs m)) = mapk (spec_sig_ex S) S.
  Proof.
    unfold reconcile_user_sigs. cbn [fst]. fold ws_all.
    apply smap_ext.
    - apply wf_apply_writes. apply wf_mapk. exact WS.
    - apply wf_mapk. exact WS.
    - intros k. rewrite apply_writes_lookup, lookup_mapk. unfold m. rewrite lookup_mapk.
      destruct (last_write_cases ws_all k (option_map (pert fl k) (lookup k S))) as [[H1 H2]|[e [H1 H2]]].
      + rewrite H1. destruct (lookup k S) as [o|] eqn:L; [|reflexivity]. cbn.
        f_equal. apply unwritten_is_spec; [apply lookup_In; exact L|exact H2].
      + rewrite H2. assert (Hk : In k (keys S)).
        { apply written_keys. apply in_map_iff. exists (k, e). auto. }
        apply in_keys_lookup in Hk. destruct (lookup k S) as [o|] eqn:L; [|congruence]. cbn.
        f_equal. eapply written_is_spec; [apply lookup_In; exact L|exact H1].
  Qed.
End Reconcile.
