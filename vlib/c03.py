"""C03 -- emitted change batches keep the applied configuration equal to the arbitrated state."""
import json
from . import common as C, arb

ID, MASK, FIRST, STEP, CODE, NEV, LSTEP, LCODE = range(8)
RELEVANT = 1 | 16          # changes, resources

FIELDS = {11: "uid", 12: "generation-or-annotations", 13: "valid-hosts", 14: "minions", 15: "routes", 16: "ts-listener-port",
          17: "ts-listener-address", 18: "vs-http-listener", 19: "vs-https-port", 20: "vs-https-address", 21: "other",
          30: "active-resource-missing", 31: "removed-resource-still-applied", 40: "delete-after-update"}


def describe(c, step):
    ev = c["histories"][0]["events"][step - 1]
    st = c["histories"][0]["steps"][step - 1]
    return {"event": ev.get("note"), "kind": ev["spec"]["kind"], "m": ev["m"],
            "changes": [(x["op"], x["res"]["k"], (x["res"].get(x["res"]["k"]) or {}).get("meta", {}).get("name")) for x in st["changes"]]}


def signature(c, r):
    code = r[CODE]
    sig = {"kind": "stale-config" if code < 30 else FIELDS.get(code, "other"), "field": FIELDS.get(code, str(code))}
    ev = c["histories"][0]["events"][r[STEP] - 1]
    sig["event_kind"] = ev["spec"]["kind"]
    return sig


def judge(run, cases, rows):
    for c in cases:
        if c.get("error"):
            run.failing({"kind": "harness-case-error"}, [c], "harness could not run case %d: %s" % (c["id"], c["error"][:300]),
                        theorem="correspondence harness arb", found_input="panic" in c["error"])
            continue
        r = rows[c["id"]]
        nontrivial = sum(len(s["changes"]) for s in c["histories"][0]["steps"]) >= 2
        run.count_case(arb.canon(c), nontrivial)
        run.cov["traces_validated_against_impl"] += 1
        if r[STEP] != 0:
            sig = signature(c, r)
            run.failing(sig, [c],
                        "C03: replaying the changes returned by the real Configuration into an empty shadow, after step %d of case %d the shadow differs from "
                        "GetResources(): %s (%s)" % (r[STEP], c["id"], FIELDS.get(r[CODE], r[CODE]), json.dumps(describe(c, r[STEP]))[:500]),
                        theorem="Arb.Cases.shadow_run")
        elif r[LSTEP] != 0:
            ev = c["histories"][0]["events"][r[LSTEP] - 1]
            run.failing({"kind": "stale-config", "field": FIELDS.get(10 + r[LCODE], str(r[LCODE])), "against": "current-globalconfiguration", "event_kind": ev["spec"]["kind"]}, [c],
                        "C03: after step %d of case %d (%s) a resource in GetResources() carries listener ports / addresses that the current GlobalConfiguration (the listeners that passed "
                        "validation) does not give it: %s; the change batches and GetResources() agree with each other, both are stale"
                        % (r[LSTEP], c["id"], ev.get("note"), FIELDS.get(10 + r[LCODE], r[LCODE])), theorem="Arb.Cases.listeners_current_run")
        elif r[MASK] & RELEVANT:
            run.failing({"kind": "correspondence", "components": r[MASK] & RELEVANT}, [c],
                        "model and implementation disagree on changes/resources (mask %d, first step %d, case %d) while the shadow stays equal to the active set"
                        % (r[MASK], r[FIRST], c["id"]),
                        theorem="correspondence Arb.Model ~ internal/k8s/configuration.go (changes, GetResources)", found_input=False)


def check(run):
    n = 250 if run.tier == "quick" else 5000
    run.proof_obligations()
    cases = arb.generate(run, n, ctl=True)
    rows = arb.evaluate(run, cases, fn="c03_case")
    judge(run, cases, rows)
    # the layer that applies the batches: real lbc.sync -> processChanges / processChangesFromGlobalConfiguration -> Configurator
    part = [c for c in cases if not c.get("error")][: (100 if run.tier == "quick" else 2000)]
    crow = arb.evaluate(run, part, fn="ctl_case", extra=arb.ctl_term, tag="arbctl")
    arb.judge_files(run, part, crow, "C03")
    arb.judge_delivery(run, part, crow, "C03", "the batch that would apply the change is never computed")
    run.cov["controller_level_histories"] = len(part)
    for c in cases[:2]:
        run.sample(arb.summarize_case(c))
    run.cov["changes_total"] = sum(len(s["changes"]) for c in cases for s in c["histories"][0]["steps"])
    run.cov["rule"] = ("histories of the arb harness (see C01) with GlobalConfiguration edits that change exactly one attribute of one listener (port / ipv4 / ipv6 / ssl / protocol / "
                       "name), TransportServer protocol flips, delete-and-recreate with a new UID; after every event the implementation's own change batch is applied to a shadow "
                       "(delete removes the key, addOrUpdate stores the attributes the config is rendered from) which must equal GetResources(); non-trivial = the history emitted >= 2 changes; "
                       "controller level: the same histories through the real lbc.sync / processChanges / processChangesFromGlobalConfiguration / Configurator over a manager that remembers the files: "
                       "one file per active resource after every event, and every event that differs from the last one about its object is passed on by the real informer handler")
    run.cov["trusted_base"] = arb.TRUSTED
    run.assumptions += ["attributes rendered from = everything in the Resource except warnings; the spec of an object is identified by (UID, generation, annotation set) (K3)"]


def replay(run, path):
    cases = arb.replay_cases(run, path, ctl=True)
    crow = arb.evaluate(run, cases, fn="ctl_case", extra=arb.ctl_term, tag="arbctl")
    for c in cases:
        if not c.get("error") and c["id"] in crow:
            print("replay case %d (controller level): first step where files != active resources = %d; first undelivered event = %d" % (c["id"], crow[c["id"]][arb.DFILES], crow[c["id"]][arb.DD]))
    arb.judge_files(run, cases, crow, "C03")
    arb.judge_delivery(run, cases, crow, "C03", "the batch that would apply the change is never computed")
    rows = arb.evaluate(run, cases, fn="c03_case")
    for c in cases:
        if not c.get("error"):
            r = rows[c["id"]]
            print("replay case %d: disagreement mask=%d first=%d; shadow first failing step=%d code=%s" % (c["id"], r[MASK], r[FIRST], r[STEP], FIELDS.get(r[CODE], r[CODE])))
            if r[STEP]:
                print("   ", json.dumps(describe(c, r[STEP]))[:800])
    judge(run, cases, rows)
