(* C05 truth proof, part 5: "applied" resources and how one step changes them *)
From Coq Require Import List ZArith String Ascii Bool Lia.
From NIC Require Import Base.SMap Arb.Types Arb.Model Arb.Spec Arb.WinsProofs Arb.InvProofs Arb.OwnerProofs
     Arb.ListenerProofs Arb.ClassProofs Arb.ChangeProofs Arb.ReportProofs Arb.ComposeProofs Arb.Cases Arb.ShadowProofs Arb.ShadowAttrs.
From NIC Require Import Arb.Truth01 Arb.Truth02 Arb.Truth03 Arb.Truth04.
Import ListNotations.
Open Scope string_scope.
Open Scope Z_scope.

Lemma roles_ok_run c es : Forall ev_role es -> roles_ok (objs_of_state (run c es)).
Proof.
  intros He. unfold run. assert (Hr0 : roles_ok (objs_of_state init)) by (intros k0 t []).
  revert He. generalize init Hr0. induction es as [|e r IH]; intros s Hs Hev; cbn [fold_left]; [exact Hs|].
  inversion Hev; subst. apply IH; [|assumption]. rewrite step_objs. apply roles_ok_event; assumption.
Qed.

Lemma objs_ok_run c es : objs_ok (objs_of_state (run c es)).
Proof. rewrite run_objs. apply objs_after_ok. Qed.

Lemma key_val_get_resources c s k r : fn_inv c s -> objs_ok (objs_of_state s) -> roles_ok (objs_of_state s) ->
  key_val (hosts_of_objs c (objs_of_state s)) k r \/ key_val (smap_map RTS (lhosts_of_objs (objs_of_state s))) k r ->
  lookup k (get_resources s) = Some r.
Proof.
  intros Hf Hok Hr Hkv.
  assert (Hin : In k (keys (get_resources s))).
  { apply (keys_get_resources c s k Hf). destruct Hkv as [H|H]; [left|right]; exact (key_val_in _ _ _ H). }
  apply in_keys_lookup in Hin. destruct (lookup k (get_resources s)) as [r2|] eqn:L; [|congruence].
  f_equal. apply (key_val_unique c (objs_of_state s) k r2 r Hok Hr); [|exact Hkv].
  exact (get_resources_key_val c s k r2 Hf Hok Hr L).
Qed.

Section Step.
  Variables (c : cfg) (es : list event) (e : event).
  Hypothesis He : Forall ev_role (es ++ [e])%list.

  Lemma step_upd_current ch : In ch (batch c es e) -> c_op ch = AddOrUpdate ->
    lookup (ckey ch) (get_resources (run c (es ++ [e])%list)) = Some (c_res ch).
  Proof.
    intros Hin Hop. destruct (step_ud c (run c es) e (run_fn_inv c es) (objs_ok_run c es)) as [U _].
    specialize (U ch Hin Hop). rewrite <- run_snoc in U.
    pose proof (run_fn_inv c (es ++ [e])%list) as Hf. destruct Hf as [Hh Hl].
    apply (key_val_get_resources c _ _ _ (run_fn_inv c _) (objs_ok_run c _) (roles_ok_run c _ He)).
    rewrite <- Hh, <- Hl. destruct U as [(h & U)|(h & U)]; [left|right]; exists h; split; auto.
  Qed.

  Lemma step_del_old k : has_del k (batch c es e) = true -> lookup k (get_resources (run c es)) <> None.
  Proof.
    intros Hd. destruct (step_ud c (run c es) e (run_fn_inv c es) (objs_ok_run c es)) as [_ D].
    specialize (D k Hd). apply in_keys_lookup. apply (keys_get_resources c _ k (run_fn_inv c es)).
    destruct (run_fn_inv c es) as [Hh Hl]. unfold KH, KL. rewrite <- Hh, <- Hl. exact D.
  Qed.
End Step.

(* ---------- applied: named by GetResources() as a resource, as an attached minion or as an attached route ---------- *)

Definition Ap (s : state) (k : string) : Prop :=
  lookup k (get_resources s) <> None \/
  (exists M ic m, lookup M (get_resources s) = Some (RIng ic) /\ In m (ic_minions ic) /\ k = "Ingress/" ++ key_of_ing (mc_ing m)) \/
  (exists V vc x, lookup V (get_resources s) = Some (RVS vc) /\ In x (vc_vsrs vc) /\ k = vsr_pkey x).

Section Step2.
  Variables (c : cfg) (es : list event) (e : event).
  Hypothesis Hcm : cert_manager c = false.
  Hypothesis He : Forall ev_role (es ++ [e])%list.
  Hypothesis HK : k3_hist (es ++ [e])%list.

  (* what a change of the batch reports as a success is applied in the state reached *)
  Lemma covered_applied ch k : In ch (batch c es e) -> covers ch k -> Ap (run c (es ++ [e])%list) k.
  Proof.
    intros Hin [Hop Hcov]. pose proof (step_upd_current c es e He ch Hin Hop) as L.
    destruct Hcov as [->|[(ic & m & Hr & Hm & ->)|(vc & x & Hr & Hx & ->)]].
    - left. congruence.
    - right; left. exists (ckey ch), ic, m. rewrite L, Hr. auto.
    - right; right. exists (ckey ch), vc, x. rewrite L, Hr. auto.
  Qed.

  (* applied after the step and not covered by a change of the batch: applied before, through the same resource
     with the same objects *)
  Lemma applied_not_covered k :
    Ap (run c (es ++ [e])%list) k -> (forall ch, In ch (batch c es e) -> ~ covers ch k) ->
    (exists r r', lookup k (get_resources (run c (es ++ [e])%list)) = Some r' /\ lookup k (get_resources (run c es)) = Some r /\
                  attrs r = attrs r' /\ has_del k (batch c es e) = false) \/
    (exists M ic ic' m, lookup M (get_resources (run c (es ++ [e])%list)) = Some (RIng ic') /\
                        lookup M (get_resources (run c es)) = Some (RIng ic) /\ attrs (RIng ic) = attrs (RIng ic') /\
                        In m (ic_minions ic') /\ k = "Ingress/" ++ key_of_ing (mc_ing m)) \/
    (exists V vc vc' x, lookup V (get_resources (run c (es ++ [e])%list)) = Some (RVS vc') /\
                        lookup V (get_resources (run c es)) = Some (RVS vc) /\ attrs (RVS vc) = attrs (RVS vc') /\
                        In x (vc_vsrs vc') /\ k = vsr_pkey x).
  Proof.
    intros HA Hnc.
    (* a key whose resource after the step speaks about k is not updated by the batch *)
    assert (NU : forall K r', lookup K (get_resources (run c (es ++ [e])%list)) = Some r' ->
                 (forall ch, ckey ch = K -> c_res ch = r' -> c_op ch = AddOrUpdate -> covers ch k) ->
                 upd_res K (batch c es e) None = None).
    { intros K r' L Hc. destruct (upd_res K (batch c es e) None) as [r|] eqn:U; [|reflexivity]. exfalso.
      destruct (upd_res_in K _ r U) as (ch & Hch & Hk & Hnd & Hr).
      assert (Hop : c_op ch = AddOrUpdate) by (unfold is_delete in Hnd; destruct (c_op ch); [discriminate|reflexivity]).
      pose proof (step_upd_current c es e He ch Hch Hop) as L2. rewrite Hk, L in L2. inversion L2.
      apply (Hnc ch Hch). apply Hc; auto. }
    destruct HA as [HA|[(M & ic' & m & L & Hm & ->)|(V & vc' & x & L & Hx & ->)]].
    - left. destruct (lookup k (get_resources (run c (es ++ [e])%list))) as [r'|] eqn:L; [|congruence].
      assert (U : upd_res k (batch c es e) None = None).
      { apply (NU k r' L). intros ch Hk _ Hop. split; [exact Hop|left; congruence]. }
      destruct (not_upd_active c es e Hcm He HK k r' U L) as [Hd (r & Lr & Ha)]. exists r, r'. auto.
    - right; left.
      assert (U : upd_res M (batch c es e) None = None).
      { apply (NU M _ L). intros ch Hk Hr Hop. split; [exact Hop|right; left]. exists ic', m. auto. }
      destruct (not_upd_active c es e Hcm He HK M _ U L) as [Hd (r & Lr & Ha)].
      destruct r as [ic|vc|tc]; try discriminate Ha. exists M, ic, ic', m. auto.
    - right; right.
      assert (U : upd_res V (batch c es e) None = None).
      { apply (NU V _ L). intros ch Hk Hr Hop. split; [exact Hop|right; right]. exists vc', x. auto. }
      destruct (not_upd_active c es e Hcm He HK V _ U L) as [Hd (r & Lr & Ha)].
      destruct r as [ic|vc|tc]; try discriminate Ha. exists V, vc, vc', x. auto.
  Qed.
End Step2.
