(* C03: the listener ports and addresses of every applied resource come from the CURRENT GlobalConfiguration.
   [Arb.Cases.listener_attrs_stale] is the run-time judge that the harness evaluates on the implementation's own
   GetResources(); here it is shown to return 0 on every resource of every reachable state of the model. *)
From Coq Require Import List String ZArith Bool Lia.
From NIC Require Import Base.SMap Arb.Types Arb.Model Arb.Spec Arb.Cases Arb.InvProofs Arb.ListenerProofs Arb.ClassProofs Arb.ReportProofs Arb.ShadowProofs Arb.ShadowAttrs Arb.Truth05.
Import ListNotations.
Open Scope Z_scope.

Lemma build_vs_cfg_ports g v rl w :
  let a := build_vs_cfg g v rl w in let e := build_vs_cfg g v [] [] in
  vc_http_port a = vc_http_port e /\ vc_http4 a = vc_http4 e /\ vc_http6 a = vc_http6 e /\
  vc_https_port a = vc_https_port e /\ vc_https4 a = vc_https4 e /\ vc_https6 a = vc_https6 e.
Proof.
  unfold build_vs_cfg. destruct (v_listener v) as [[h hs]|]; [destruct g|]; cbn.
  - destruct (assign (Some l) h false) as [[p1 a4] a6]. destruct (assign (Some l) hs true) as [[p2 b4] b6]. cbn. repeat split.
  - repeat split.
  - repeat split.
Qed.

Lemma stale_vs_zero g v rl w ws :
  let vc := build_vs_cfg g v rl w in
  listener_attrs_stale g (RVS (mkVC (vc_vs vc) (vc_vsrs vc) ws (vc_http_port vc) (vc_https_port vc) (vc_http4 vc) (vc_http6 vc) (vc_https4 vc) (vc_https6 vc))) = 0.
Proof.
  cbv zeta. destruct (build_vs_cfg_ports g v rl w) as (E1 & E2 & E3 & E4 & E5 & E6).
  destruct (build_vs_cfg_proj g v rl w) as [P1 P2].
  unfold listener_attrs_stale. cbn [vc_vs vc_http_port vc_http4 vc_http6 vc_https_port vc_https4 vc_https6].
  rewrite P1, E1, E2, E3, E4, E5, E6. rewrite !Z.eqb_refl, !String.eqb_refl. reflexivity.
Qed.

Lemma build_res_current c is_ vss rs tss g k r :
  lookup k (b_res (build c is_ vss rs tss g)) = Some r -> listener_attrs_stale g r = 0.
Proof.
  unfold build. destruct (run_claims host_warning [] (all_claims c is_ vss tss)) as [hs claim_ws].
  cbn [b_res]. intros Hl. apply of_list_lookup_in in Hl.
  apply in_app_or in Hl. destruct Hl as [H|H]; [|apply in_app_or in H; destruct H as [H|H]].
  - apply in_filter_map in H. destruct H as ([k0 i] & Hi & Hf). cbn [snd] in Hf.
    destruct (ing_claims_hosts c vss i); [|discriminate].
    destruct (if is_master i then build_minions is_ (host0 i) else ([], [])) as [mins cw]. inversion Hf; subst. reflexivity.
  - apply in_map_iff in H. destruct H as ([k0 v] & Hf & Hv). cbn [snd] in Hf.
    destruct (build_vsrs rs v (v_routes v)) as [rl w] eqn:Hb.
    inversion Hf; subst. apply stale_vs_zero.
  - destruct (tls_passthrough c); [|destruct H].
    apply in_filter_map in H. destruct H as ([k0 t] & Hi & Hf). cbn [snd] in Hf.
    destruct (is_passthrough t) eqn:Hp; [|discriminate]. inversion Hf; subst.
    unfold listener_attrs_stale. cbn [tc_ts]. rewrite Hp. reflexivity.
Qed.

Lemma lb_value_in_cfgs g tss h tc : lookup h (lb_hosts (build_listeners g tss)) = Some tc -> In tc (lb_cfgs (build_listeners g tss)).
Proof.
  unfold build_listeners. destruct (run_claims lwarning [] (lclaims g tss)) as [hs ws]. cbn [lb_hosts lb_cfgs].
  intros H. apply lookup_In in H. apply in_filter_map in H. destruct H as ([h1 y] & _ & Hfm). cbn [fst snd] in Hfm.
  match type of Hfm with context [lookup ?k ?m] => destruct (lookup k m) as [c1|] eqn:Hc1 end; inversion Hfm; subst.
  apply of_list_lookup_in in Hc1. apply in_map_iff in Hc1. destruct Hc1 as (c2 & Heq & Hin). inversion Heq; subst. exact Hin.
Qed.

Lemma lb_cfg_current g tss tc : In tc (lb_cfgs (build_listeners g tss)) -> listener_attrs_stale g (RTS tc) = 0.
Proof.
  unfold build_listeners. destruct (run_claims lwarning [] (lclaims g tss)) as [hs ws]. cbn [lb_cfgs].
  intros H. apply in_filter_map in H. destruct H as ([k0 t] & _ & Hfm). cbn [snd] in Hfm.
  destruct (is_listener_ts t); [|discriminate].
  unfold listener_attrs_stale. destruct (ts_listener g t) as [l|] eqn:Hl; inversion Hfm; subst; cbn [tc_ts tc_port tc_ipv4 tc_ipv6];
    rewrite Hl; destruct (negb (is_passthrough t)); try reflexivity;
    rewrite ?Z.eqb_refl, ?String.eqb_refl; reflexivity.
Qed.

Lemma b_hosts_value_in_res c is_ vss rs tss g h r :
  lookup h (b_hosts (build c is_ vss rs tss g)) = Some r -> exists k, lookup k (b_res (build c is_ vss rs tss g)) = Some r.
Proof.
  unfold build. destruct (run_claims host_warning [] (all_claims c is_ vss tss)) as [hs claim_ws].
  cbn [b_hosts b_res]. intros H. apply lookup_In in H. apply in_filter_map in H. destruct H as ([h1 y] & _ & Hfm). cbn [fst snd] in Hfm.
  match type of Hfm with context [lookup ?k ?m] => destruct (lookup k m) as [r1|] eqn:Hr1 end; inversion Hfm; subst.
  eexists. exact Hr1.
Qed.

Theorem listener_attributes_current c es :
  Forall ev_role es ->
  forall k r, lookup k (get_resources (run c es)) = Some r -> listener_attrs_stale (o_gc (objs_after es)) r = 0.
Proof.
  intros He k r L.
  assert (Hok : objs_ok (objs_of_state (run c es))) by apply objs_ok_run.
  assert (Hr : roles_ok (objs_of_state (run c es))) by (apply roles_ok_run; exact He).
  destruct (get_resources_key_val c _ k r (run_fn_inv c es) Hok Hr L) as [(h & Hh & _)|(h & Hh & _)].
  - rewrite run_objs in Hh. unfold hosts_of_objs in Hh.
    apply b_hosts_value_in_res in Hh. destruct Hh as (k1 & Hk1). eapply build_res_current. exact Hk1.
  - rewrite run_objs in Hh. rewrite lookup_smap_map in Hh.
    destruct (lookup h (lhosts_of_objs (objs_after es))) as [tc|] eqn:Ht; [|discriminate]. cbn in Hh. inversion Hh; subst.
    apply lb_cfg_current with (tss := o_tss (objs_after es)). eapply lb_value_in_cfgs. exact Ht.
Qed.

