(* C05 truth proof, part 4: every addOrUpdate of a batch carries the resource of the state reached; every delete is
   about a resource of the state left *)
From Coq Require Import List ZArith String Ascii Bool Lia.
From NIC Require Import Base.SMap Arb.Types Arb.Model Arb.Spec Arb.WinsProofs Arb.InvProofs Arb.OwnerProofs
     Arb.ListenerProofs Arb.ClassProofs Arb.ChangeProofs Arb.ReportProofs Arb.ComposeProofs Arb.Cases Arb.ShadowProofs Arb.ShadowAttrs.
From NIC Require Import Arb.Truth01 Arb.Truth02 Arb.Truth03.
Import ListNotations.
Open Scope string_scope.
Open Scope Z_scope.

Definition upds_in (H : smap resource) (LH : smap ts_cfg) (cs : list change) : Prop :=
  forall ch, In ch cs -> c_op ch = AddOrUpdate ->
    (exists h, lookup h H = Some (c_res ch)) \/ (exists h, lookup h (smap_map RTS LH) = Some (c_res ch)).
Definition dels_in (H : smap resource) (LH : smap ts_cfg) (cs : list change) : Prop :=
  forall k, has_del k cs = true -> key_in H k \/ key_in (smap_map RTS LH) k.

Lemma upds_in_app H LH a b : upds_in H LH a -> upds_in H LH b -> upds_in H LH (a +++ b).
Proof. intros Ha Hb ch Hin. apply in_app_or in Hin. destruct Hin; auto. Qed.
Lemma upds_in_odf H LH cs : upds_in H LH cs -> upds_in H LH (order_deletes_first cs).
Proof.
  intros Hc ch Hin. unfold order_deletes_first in Hin. apply in_app_or in Hin.
  destruct Hin as [Hin|Hin]; apply filter_In in Hin; apply Hc; tauto.
Qed.
Lemma dels_in_app H LH a b : dels_in H LH a -> dels_in H LH b -> dels_in H LH (a +++ b).
Proof. intros Ha Hb k Hd. rewrite has_del_app in Hd. apply orb_true_iff in Hd. destruct Hd; auto. Qed.
Lemma dels_in_odf H LH cs : dels_in H LH cs -> dels_in H LH (order_deletes_first cs).
Proof. intros Hc k Hd. rewrite has_del_odf in Hd. auto. Qed.

Lemma upds_in_wve H LH b k u out : upds_in H LH (snd (fst out)) -> upds_in H LH (snd (fst (with_validation_error b k u out))).
Proof.
  destruct out as [[s cs] ps]. cbn [fst snd]. intros Hc. unfold with_validation_error. destruct b; [|exact Hc].
  destruct (attach_error k cs) as [cs'|] eqn:Ha; cbn [fst snd]; [|exact Hc].
  intros ch Hin Hop. destruct (attach_error_in _ _ _ _ Ha Hin) as (c0 & Hc0 & Ho & Hr). rewrite Hr. apply Hc; congruence.
Qed.
Lemma dels_in_wve H LH b k u out : dels_in H LH (snd (fst out)) -> dels_in H LH (snd (fst (with_validation_error b k u out))).
Proof. intros Hc k0 Hd. rewrite (proj2 (has_wve b k u out k0)) in Hd. auto. Qed.

Lemma rebuild_hosts_ud c s LH LH' :
  coherent (hosts s) -> objs_ok (objs_of_state s) ->
  upds_in (hosts (fst (fst (rebuild_hosts c s)))) LH (snd (fst (rebuild_hosts c s))) /\
  dels_in (hosts s) LH' (snd (fst (rebuild_hosts c s))).
Proof.
  intros CO Hok. split.
  - unfold rebuild_hosts. cbn [fst snd hosts]. intros ch Hin Hop. left.
    apply in_repoint in Hin. destruct Hin as (c0 & Hc0 & Hop0 & Hres).
    apply squash_in in Hc0. rewrite Hop in Hop0. symmetry in Hop0.
    destruct (create_changes_upd _ _ _ _ _ _ _ Hc0 Hop0) as (h & Hh).
    exists h. pose proof (b_hosts_res _ _ _ _ _ _ _ _ Hh) as Hr. unfold ckey in Hres. rewrite Hr in Hres. rewrite Hres. exact Hh.
  - intros k Hd. left. exact (proj2 (proj2 (proj2 (proj2 (rebuild_hosts_keys c s CO Hok)))) k Hd).
Qed.

Lemma rebuild_listeners_ud s H H' :
  coherent (smap_map RTS (lhosts s)) -> objs_ok (objs_of_state s) ->
  upds_in H (lhosts (fst (fst (rebuild_listeners s)))) (snd (fst (rebuild_listeners s))) /\
  dels_in H' (lhosts s) (snd (fst (rebuild_listeners s))).
Proof.
  intros CO Hok. split.
  - unfold rebuild_listeners. cbn [fst snd lhosts]. intros ch Hin Hop. right.
    apply squash_in in Hin. exact (create_changes_upd _ _ _ _ _ _ _ Hin Hop).
  - intros k Hd. right. exact (proj2 (proj2 (proj2 (proj2 (rebuild_listeners_keys s CO Hok)))) k Hd).
Qed.

Lemma rebuild_ts_ud c s :
  coherent (hosts s) -> coherent (smap_map RTS (lhosts s)) -> objs_ok (objs_of_state s) ->
  upds_in (hosts (fst (fst (rebuild_ts c s)))) (lhosts (fst (fst (rebuild_ts c s)))) (snd (fst (rebuild_ts c s))) /\
  dels_in (hosts s) (lhosts s) (snd (fst (rebuild_ts c s))).
Proof.
  intros CH CL Hok. unfold rebuild_ts.
  pose proof (rebuild_listeners_ud s) as L. pose proof (hosts_rebuild_listeners s) as Hh1. pose proof (objs_rebuild_listeners s) as Ho1.
  destruct (rebuild_listeners s) as [[s1 c1] p1]. cbn [fst snd] in *.
  destruct (tls_passthrough c).
  - pose proof (rebuild_hosts_ud c s1) as Hh. pose proof (lhosts_rebuild_hosts c s1) as Hl2.
    destruct (rebuild_hosts c s1) as [[s2 c2] p2]. cbn [fst snd] in *.
    rewrite Hh1, Ho1 in Hh. split.
    + apply upds_in_odf, upds_in_app.
      * rewrite Hl2. exact (proj1 (L (hosts s2) (hosts s) CL Hok)).
      * exact (proj1 (Hh (lhosts s2) (lhosts s) CH Hok)).
    + apply dels_in_odf, dels_in_app.
      * exact (proj2 (L (hosts s2) (hosts s) CL Hok)).
      * exact (proj2 (Hh (lhosts s2) (lhosts s) CH Hok)).
  - cbn [fst snd]. split.
    + exact (proj1 (L (hosts s1) (hosts s) CL Hok)).
    + exact (proj2 (L (hosts s1) (hosts s) CL Hok)).
Qed.

Lemma rebuild_gc_ud c s :
  coherent (hosts s) -> coherent (smap_map RTS (lhosts s)) -> objs_ok (objs_of_state s) ->
  upds_in (hosts (fst (fst (rebuild_gc c s)))) (lhosts (fst (fst (rebuild_gc c s)))) (snd (fst (rebuild_gc c s))) /\
  dels_in (hosts s) (lhosts s) (snd (fst (rebuild_gc c s))).
Proof.
  intros CH CL Hok. unfold rebuild_gc.
  pose proof (rebuild_listeners_ud s) as L. pose proof (hosts_rebuild_listeners s) as Hh1. pose proof (objs_rebuild_listeners s) as Ho1.
  destruct (rebuild_listeners s) as [[s1 c1] p1]. cbn [fst snd] in *.
  pose proof (rebuild_hosts_ud c s1) as Hh. pose proof (lhosts_rebuild_hosts c s1) as Hl2.
  destruct (rebuild_hosts c s1) as [[s2 c2] p2]. cbn [fst snd] in *.
  rewrite Hh1, Ho1 in Hh. split.
  - apply upds_in_odf, upds_in_app.
    + rewrite Hl2. exact (proj1 (L (hosts s2) (hosts s) CL Hok)).
    + exact (proj1 (Hh (lhosts s2) (lhosts s) CH Hok)).
  - apply dels_in_odf, dels_in_app.
    + exact (proj2 (L (hosts s2) (hosts s) CL Hok)).
    + exact (proj2 (Hh (lhosts s2) (lhosts s) CH Hok)).
Qed.

Lemma step_ud c s e : fn_inv c s -> objs_ok (objs_of_state s) ->
  upds_in (hosts (step_state c s e)) (lhosts (step_state c s e)) (snd (fst (step c s e))) /\
  dels_in (hosts s) (lhosts s) (snd (fst (step c s e))).
Proof.
  intros [Hh Hl] Hok.
  assert (CH : coherent (hosts s)) by (rewrite Hh; apply coherent_hosts_of_objs; exact Hok).
  assert (CL : coherent (smap_map RTS (lhosts s))) by (rewrite Hl; apply coherent_lhosts_of_objs; exact Hok).
  pose proof (objs_ok_event _ e Hok) as Hok'.
  assert (Nil : upds_in (hosts s) (lhosts s) [] /\ dels_in (hosts s) (lhosts s) []) by (split; [intros ch []|intros k Hd; discriminate Hd]).
  unfold step_state.
  destruct e as [i cls valid|k|v cls valid|k|r cls valid|k|t cls valid|k|ls x|]; cbn [step].
  - set (s1 := set_ings s _).
    assert (Eo : objs_of_state s1 = apply_event (objs_of_state s) (EIng i cls valid)) by reflexivity. rewrite <- Eo in Hok'.
    rewrite objs_with_error. destruct (rebuild_hosts_ud c s1 (lhosts (fst (fst (rebuild_hosts c s1)))) (lhosts s) CH Hok') as [U D].
    split; [apply upds_in_wve; exact U|apply dels_in_wve; exact D].
  - destruct (mem k (ings s)); [|exact Nil]. set (s1 := set_ings s _).
    assert (Eo : objs_of_state s1 = apply_event (objs_of_state s) (EDelIng k)) by reflexivity. rewrite <- Eo in Hok'.
    exact (rebuild_hosts_ud c s1 (lhosts (fst (fst (rebuild_hosts c s1)))) (lhosts s) CH Hok').
  - set (s1 := set_vss s _).
    assert (Eo : objs_of_state s1 = apply_event (objs_of_state s) (EVS v cls valid)) by reflexivity. rewrite <- Eo in Hok'.
    rewrite objs_with_error. destruct (rebuild_hosts_ud c s1 (lhosts (fst (fst (rebuild_hosts c s1)))) (lhosts s) CH Hok') as [U D].
    split; [apply upds_in_wve; exact U|apply dels_in_wve; exact D].
  - destruct (mem k (vss s)); [|exact Nil]. set (s1 := set_vss s _).
    assert (Eo : objs_of_state s1 = apply_event (objs_of_state s) (EDelVS k)) by reflexivity. rewrite <- Eo in Hok'.
    exact (rebuild_hosts_ud c s1 (lhosts (fst (fst (rebuild_hosts c s1)))) (lhosts s) CH Hok').
  - set (s1 := set_vsrs s _).
    assert (Eo : objs_of_state s1 = apply_event (objs_of_state s) (EVSR r cls valid)) by reflexivity. rewrite <- Eo in Hok'.
    pose proof (rebuild_hosts_ud c s1 (lhosts (fst (fst (rebuild_hosts c s1)))) (lhosts s) CH Hok') as UD.
    destruct (rebuild_hosts c s1) as [[s2 cs] ps]. exact UD.
  - destruct (mem k (vsrs s)); [|exact Nil]. set (s1 := set_vsrs s _).
    assert (Eo : objs_of_state s1 = apply_event (objs_of_state s) (EDelVSR k)) by reflexivity. rewrite <- Eo in Hok'.
    exact (rebuild_hosts_ud c s1 (lhosts (fst (fst (rebuild_hosts c s1)))) (lhosts s) CH Hok').
  - set (s1 := set_tss s _).
    assert (Eo : objs_of_state s1 = apply_event (objs_of_state s) (ETS t cls valid)) by reflexivity. rewrite <- Eo in Hok'.
    rewrite objs_with_error. destruct (rebuild_ts_ud c s1 CH CL Hok') as [U D].
    split; [apply upds_in_wve; exact U|apply dels_in_wve; exact D].
  - destruct (mem k (tss s)); [|exact Nil]. set (s1 := set_tss s _).
    assert (Eo : objs_of_state s1 = apply_event (objs_of_state s) (EDelTS k)) by reflexivity. rewrite <- Eo in Hok'.
    exact (rebuild_ts_ud c s1 CH CL Hok').
  - set (s1 := set_gc s _).
    assert (Eo : objs_of_state s1 = apply_event (objs_of_state s) (EGC ls x)) by reflexivity. rewrite <- Eo in Hok'.
    exact (rebuild_gc_ud c s1 CH CL Hok').
  - set (s1 := set_gc s _).
    assert (Eo : objs_of_state s1 = apply_event (objs_of_state s) EDelGC) by reflexivity. rewrite <- Eo in Hok'.
    exact (rebuild_gc_ud c s1 CH CL Hok').
Qed.
