(* C14 -- executable model of the endpoint resolution of the NGINX Ingress Controller:
     internal/k8s/controller.go   getEndpointsForIngressBackend, getEndpointsForUpstream,
                                  getEndpointsForPortFromEndpointSlices, getTargetPort,
                                  selectEndpointSlicesForPort, filterReadyEndpointsFrom,
                                  getEndpointsForSubselector (+ ...ForServiceWithSubselector,
                                  getEndpointsFromEndpointSlicesForSubselectedPods),
                                  ipv6SafeAddrPort, the useClusterIP branches of
                                  createIngressEx / createVirtualServerEx
     internal/k8s/utils.go        findPort, storeToEndpointSliceLister.GetServiceEndpointSlices,
                                  indexerToPodLister.ListByNamespace
     internal/k8s/transport_server.go createTransportServerEx
     internal/configs             generateEndpointsForUpstream (nginx502Server), createUpstream
                                  (NewUpstreamWithDefaultServer), generateStreamUpstream.

   Port numbers are Z.  A Go map used as a set is a duplicate-free list (order is not
   observable: the harness sorts).  The order in which the pod lister returns pods is Go map
   order; it is the order of [c_pods], and every theorem quantifies over all clusters, hence
   over all orders.  No proofs in this file. *)
From Coq Require Import List ZArith String Ascii Bool.
Import ListNotations.
Open Scope string_scope.
Open Scope Z_scope.

(* ---------- strconv.Itoa ---------- *)
Fixpoint show_digits (fuel : nat) (n : Z) (acc : string) : string :=
  match fuel with
  | O => acc
  | S f => let acc' := String (ascii_of_nat (Z.to_nat (48 + n mod 10))) acc in
           if n <? 10 then acc' else show_digits f (n / 10) acc'
  end.

Definition show_Z (n : Z) : string :=
  if n <? 0 then "-" ++ show_digits 24 (- n) "" else show_digits 24 n "".

(* ---------- net.JoinHostPort: brackets iff the host contains a colon ---------- *)
Fixpoint has_colon (s : string) : bool :=
  match s with
  | EmptyString => false
  | String c r => Ascii.eqb c ":"%char || has_colon r
  end.

Definition host_part (a : string) : string :=
  if has_colon a then "[" ++ a ++ "]" else a.

Definition join (a : string) (p : Z) : string := host_part a ++ ":" ++ show_Z p.

(* fmt.Sprintf("%s:%d") -- used for ExternalName services (a DNS name, never bracketed) *)
Definition join_plain (a : string) (p : Z) : string := a ++ ":" ++ show_Z p.

(* ---------- the three object kinds ---------- *)
Inductive target := TUnset | TNum (n : Z) | TNamed (s : string).

Record SvcPort := { sp_name : string; sp_port : Z; sp_proto : string; sp_target : target }.

Inductive svctype := ClusterIPT | ExternalNameT.

Definition labels := list (string * string).      (* a Go map: keys are distinct *)

Record Service := {
  s_ns : string; s_name : string; s_type : svctype; s_clusterIP : string; s_extname : string;
  s_selector : labels; s_ports : list SvcPort }.

Record SlicePort := { slp_name : string; slp_num : option Z }.

(* e_ready: Conditions.Ready (nil / false / true); e_ref: TargetRef name, empty for nil *)
Record Endpoint := { e_addrs : list string; e_ready : option bool; e_ref : string }.

(* sl_svc: the label kubernetes.io/service-name *)
Record Slice := { sl_ns : string; sl_svc : string; sl_ports : list SlicePort; sl_eps : list Endpoint }.

Record CPort := { cp_name : string; cp_num : Z; cp_proto : string }.

(* p_ports: the ports of all containers, in container order *)
Record Pod := { p_ns : string; p_name : string; p_ip : string; p_labels : labels; p_ports : list CPort }.

Record Cluster := { c_svcs : list Service; c_slices : list Slice; c_pods : list Pod }.

(* an Ingress backend port: a name, or (name empty) a number.  VirtualServer and
   TransportServer upstreams always have an empty name. *)
Record BPort := { bp_name : string; bp_num : Z }.

(* ---------- results ---------- *)
Inductive err :=
| ENoSvc | ENoSlices | ENoPort | ENoPods | ENoNamedPort | ENoEndpoints | EExternalOSS.

Inductive result (A : Type) := Ok (a : A) | Err (e : err).
Arguments Ok {A} a.
Arguments Err {A} e.

(* a podEndpoint projected on (Address, PodName); owner type and name are functions of
   the pod name, so this is the key of the Go set *)
Definition pep := (string * string)%type.

Definition pep_dec (x y : pep) : {x = y} + {x <> y}.
Proof. decide equality; apply string_dec. Defined.

Definition dedup (l : list pep) : list pep := nodup pep_dec l.

(* ---------- code variants ---------- *)
(* Three defects of the resolution have a proposed repair (fixes/F40, F41, F42).  The model
   follows the REPAIRED code ([repaired]); the behaviour before each repair is kept as the
   other value of a flag, so that the correspondence check can follow the tree it is run
   against (the flags are read off the corpus cases on every run) and so that the *_refuted
   theorems stay statements about the unrepaired code ([legacy]). *)
Record Fixes := {
  fx40 : bool;    (* a backend port without a name matches a service port by number only *)
  fx41 : bool;    (* getIPAddressesFromEndpoints returns every address once *)
  fx42 : bool }.  (* ExternalName: a named backend port is looked up in the service *)

Definition repaired : Fixes := {| fx40 := true; fx41 := true; fx42 := true |}.
Definition legacy : Fixes := {| fx40 := false; fx41 := false; fx42 := false |}.

(* ---------- lookups ---------- *)
Definition find_svc (c : Cluster) (ns name : string) : option Service :=
  find (fun s => String.eqb (s_ns s) ns && String.eqb (s_name s) name) (c_svcs c).

(* the port loop of getEndpointsForPortFromEndpointSlices / getServicePortForIngressPort:
     (backendPort.Name == "" && port.Port == backendPort.Number) ||
     (backendPort.Name != "" && port.Name == backendPort.Name)
   before F40 the second disjunct was  port.Name == backendPort.Name  alone *)
Definition port_matches (fx : Fixes) (bp : BPort) (p : SvcPort) : bool :=
  (String.eqb (bp_name bp) "" && (sp_port p =? bp_num bp)) ||
  ((if fx40 fx then negb (String.eqb (bp_name bp) "") else true) && String.eqb (sp_name p) (bp_name bp)).

Definition find_svc_port (fx : Fixes) (bp : BPort) (ports : list SvcPort) : option SvcPort :=
  find (port_matches fx bp) ports.

(* labels.Set(sel).AsSelector().Matches(labels): every pair of sel is in the labels *)
Fixpoint lookup_label (k : string) (l : labels) : option string :=
  match l with
  | [] => None
  | (k', v) :: r => if String.eqb k k' then Some v else lookup_label k r
  end.

Definition sel_matches (sel lbls : labels) : bool :=
  forallb (fun kv => match lookup_label (fst kv) lbls with
                     | Some v => String.eqb v (snd kv)
                     | None => false
                     end) sel.

(* labels.Merge(a, b): b wins *)
Definition merge_labels (a b : labels) : labels :=
  (b ++ filter (fun kv => match lookup_label (fst kv) b with Some _ => false | None => true end) a)%list.

(* podLister.ListByNamespace(ns, selector) *)
Definition list_pods (c : Cluster) (ns : string) (sel : labels) : list Pod :=
  filter (fun p => String.eqb (p_ns p) ns && sel_matches sel (p_labels p)) (c_pods c).

(* findPort for a named target port *)
Definition find_port (pod : Pod) (name proto : string) : option Z :=
  match find (fun cp => String.eqb (cp_name cp) name && String.eqb (cp_proto cp) proto) (p_ports pod) with
  | Some cp => Some (cp_num cp)
  | None => None
  end.

(* getTargetPort *)
Definition get_target_port (c : Cluster) (svc : Service) (sp : SvcPort) : result Z :=
  match sp_target sp with
  | TUnset => Ok (sp_port sp)
  | TNum n => Ok n
  | TNamed s =>
      match list_pods c (s_ns svc) (s_selector svc) with
      | [] => Err ENoPods
      | pod :: _ => match find_port pod s (sp_proto sp) with
                    | Some n => Ok n
                    | None => Err ENoNamedPort
                    end
      end
  end.

(* GetServiceEndpointSlices *)
Definition slice_of (svc : Service) (sl : Slice) : bool :=
  String.eqb (s_name svc) (sl_svc sl) && String.eqb (s_ns svc) (sl_ns sl).

Definition svc_slices (c : Cluster) (svc : Service) : list Slice := filter (slice_of svc) (c_slices c).

Definition port_is (P : Z) (p : SlicePort) : bool :=
  match slp_num p with Some n => n =? P | None => false end.

(* selectEndpointSlicesForPort: a slice is appended once per matching port entry *)
Definition select_slices (P : Z) (sls : list Slice) : list Slice :=
  flat_map (fun sl => flat_map (fun p => if port_is P p then [sl] else []) (sl_ports sl)) sls.

Definition is_ready (e : Endpoint) : bool :=
  match e_ready e with Some true => true | _ => false end.

(* filterReadyEndpointsFrom *)
Definition ready_eps (sls : list Slice) : list Endpoint :=
  flat_map (fun sl => filter is_ready (sl_eps sl)) sls.

(* makePodEndpoints of getEndpointsForPortFromEndpointSlices *)
Definition make_peps (P : Z) (eps : list Endpoint) : list pep :=
  dedup (flat_map (fun e => map (fun a => (join a P, e_ref e)) (e_addrs e)) eps).

(* getEndpointsForPortFromEndpointSlices *)
Definition eps_for_port (fx : Fixes) (c : Cluster) (svc : Service) (bp : BPort) (sls : list Slice) : result (list pep) :=
  match find_svc_port fx bp (s_ports svc) with
  | None => Err ENoPort
  | Some sp =>
      match get_target_port c svc sp with
      | Err e => Err e
      | Ok P =>
          if P =? 0 then Err ENoPort else
          match make_peps P (ready_eps (select_slices P sls)) with
          | [] => Err ENoEndpoints
          | l => Ok l
          end
      end
  end.

(* getExternalEndpointsForIngressBackend: ExternalName:port.  The port is the number of the
   backend port, or (F42) for a named backend port the number of the service port of that name *)
Definition external_eps (fx : Fixes) (svc : Service) (bp : BPort) : result (list pep * bool) :=
  if fx42 fx && negb (String.eqb (bp_name bp) "") then
    match find_svc_port fx bp (s_ports svc) with
    | Some sp => Ok ([(join_plain (s_extname svc) (sp_port sp), "")], true)
    | None => Err ENoPort
    end
  else Ok ([(join_plain (s_extname svc) (bp_num bp), "")], true).

(* getEndpointsForIngressBackend: (endpoints, isExternal) *)
Definition eps_for_backend (fx : Fixes) (plus : bool) (c : Cluster) (svc : Service) (bp : BPort) : result (list pep * bool) :=
  match svc_slices c svc with
  | [] =>
      match s_type svc with
      | ExternalNameT => if plus then external_eps fx svc bp else Err EExternalOSS
      | ClusterIPT => Err ENoSlices
      end
  | sls => match eps_for_port fx c svc bp sls with
           | Ok l => Ok (l, false)
           | Err e => Err e
           end
  end.

(* getServiceForIngressBackend + getEndpointsForIngressBackend; also getEndpointsForUpstream *)
Definition resolve (fx : Fixes) (plus : bool) (c : Cluster) (ns svcname : string) (bp : BPort) : result (list pep * bool) :=
  match find_svc c ns svcname with
  | None => Err ENoSvc
  | Some svc => eps_for_backend fx plus c svc bp
  end.

(* ---------- the sub-selector variant ---------- *)
(* getEndpointsFromEndpointSlicesForSubselectedPods *)
Definition sub_peps (P : Z) (pods : list Pod) (eps : list Endpoint) : list pep :=
  dedup (flat_map (fun pod =>
           flat_map (fun e =>
             flat_map (fun a => if String.eqb (p_ip pod) a then [(join (p_ip pod) P, e_ref e)] else [])
                      (e_addrs e)) eps) pods).

(* getEndpointsForSubselector: the port is matched by number only *)
Definition resolve_sub (c : Cluster) (ns svcname : string) (port : Z) (subsel : labels) : result (list pep) :=
  match find_svc c ns svcname with
  | None => Err ENoSvc
  | Some svc =>
      match find (fun p => sp_port p =? port) (s_ports svc) with
      | None => Err ENoPort
      | Some sp =>
          match get_target_port c svc sp with
          | Err e => Err e
          | Ok P =>
              if P =? 0 then Err ENoPort else
              match svc_slices c svc with
              | [] => Err ENoSlices
              | sls => Ok (sub_peps P (list_pods c (s_ns svc) (merge_labels (s_selector svc) subsel))
                                    (ready_eps (select_slices P sls)))
              end
          end
      end
  end.

(* ---------- the Endpoints map entry of an extended resource ---------- *)
Inductive bkind := KIng | KVS | KVSR | KTS.

Record Backend := {
  b_kind : bkind; b_svc : string; b_port : BPort;
  b_clusterip : bool;          (* Ingress annotation nginx.org/use-cluster-ip / upstream useClusterIP *)
  b_subsel : labels }.         (* VirtualServer(Route) upstream subselector *)

(* getIPAddressesFromEndpoints: the addresses; (F41) each address once *)
Definition addr_list (fx : Fixes) (l : list pep) : list string :=
  if fx41 fx then nodup string_dec (map fst l) else map fst l.

Definition addrs_of (fx : Fixes) (r : result (list pep * bool)) : list string :=
  match r with Ok (l, _) => addr_list fx l | Err _ => [] end.

Definition is_external (r : result (list pep * bool)) : bool :=
  match r with Ok (_, x) => x | Err _ => false end.

(* port number used in cluster-IP mode by createIngressEx: the backend number, or for a
   named backend port the number of the first service port with that name (0 if none) *)
Definition clusterip_port (svc : Service) (bp : BPort) : Z :=
  if bp_num bp =? 0 then
    match find (fun p => String.eqb (sp_name p) (bp_name bp)) (s_ports svc) with
    | Some p => sp_port p
    | None => 0
    end
  else bp_num bp.

(* (addresses written to Endpoints[key], service recorded in ExternalNameSvcs) *)
Definition endpoints_entry (fx : Fixes) (plus : bool) (c : Cluster) (ns : string) (b : Backend) : list string * bool :=
  match b_kind b with
  | KIng =>
      let r := resolve fx plus c ns (b_svc b) (b_port b) in
      match find_svc c ns (b_svc b) with
      | Some svc =>
          if negb (is_external r) && b_clusterip b
          then ([join (s_clusterIP svc) (clusterip_port svc (b_port b))], false)
          else (addrs_of fx r, is_external r && plus)
      | None => ([], false)
      end
  | KVS | KVSR =>
      if b_clusterip b then
        match find_svc c ns (b_svc b) with
        | Some svc => ([join (s_clusterIP svc) (bp_num (b_port b))], false)
        | None => ([], false)
        end
      else
        match b_subsel b with
        | [] => let r := resolve fx plus c ns (b_svc b) (b_port b) in (addrs_of fx r, is_external r && plus)
        | sub => match resolve_sub c ns (b_svc b) (bp_num (b_port b)) sub with
                 | Ok l => (addr_list fx l, false)
                 | Err _ => ([], false)
                 end
        end
  | KTS => let r := resolve fx plus c ns (b_svc b) (b_port b) in (addrs_of fx r, is_external r && plus)
  end.

(* ---------- the server entries of the generated upstream block ---------- *)
Definition vs502 : string := "unix:/var/lib/nginx/nginx-502-server.sock".
Definition ing_default_server : string := "127.0.0.1:8181".
Definition stream_nonexisting : string := "unix:/var/lib/nginx/non-existing-unix-socket.sock".

Definition placeholder (k : bkind) : string :=
  match k with KIng => ing_default_server | KVS | KVSR => vs502 | KTS => stream_nonexisting end.

Definition is_nil {A} (l : list A) : bool := match l with [] => true | _ => false end.

Definition rendered (plus resolver : bool) (k : bkind) (entry : list string * bool) : list string :=
  let '(endps, external) := entry in
  match k with
  | KVS | KVSR =>
      if negb plus && is_nil endps then [placeholder k]
      else if external && negb resolver then [] else endps
  | KIng | KTS =>
      let endps := if external && negb resolver then [] else endps in
      if negb plus && is_nil endps then [placeholder k] else endps
  end.

(* ====================== resource level: every backend of one resource ====================== *)

(* ---------- createIngressEx ---------- *)
(* The Go function declares  var endps []string  ONCE, outside the loop over the backends, and
   stores  ingEx.Endpoints[key] = endps  at the end of every iteration.  The body of an
   iteration is modelled as an optional assignment to that variable; a path through the body
   that assigned nothing would store the value the previous backend left there.
   [ingress_assign]: the body for one backend -- (what is assigned to endps, ExternalNameSvcs). *)
Definition ingress_assign (fx : Fixes) (plus : bool) (c : Cluster) (ns : string) (b : Backend)
  : option (list string) * bool :=
  match find_svc c ns (b_svc b) with
  | None =>
      (* getServiceForIngressBackend failed: svc == nil, podEndps is the empty slice of this
         iteration, the else branch assigns getIPAddressesFromEndpoints(podEndps) *)
      (Some (addr_list fx []), false)
  | Some svc =>
      let r := eps_for_backend fx plus c svc (b_port b) in
      if negb (is_external r) && b_clusterip b
      then (Some [join (s_clusterIP svc) (clusterip_port svc (b_port b))], false)
      else (Some (addrs_of fx r), is_external r && plus)
  end.

(* the loop: [endps] is the function-scoped variable; the result lists what was stored per backend *)
Fixpoint ingress_loop (fx : Fixes) (plus : bool) (c : Cluster) (ns : string) (endps : list string)
         (bs : list Backend) : list (list string * bool) :=
  match bs with
  | [] => []
  | b :: rest =>
      let '(a, ext) := ingress_assign fx plus c ns b in
      let endps' := match a with Some v => v | None => endps end in
      (endps', ext) :: ingress_loop fx plus c ns endps' rest
  end.

(* ---------- createVirtualServerEx: the Endpoints map ---------- *)
(* GenerateEndpointsKey(namespace of the OWNER of the upstream, service, subselector, port); the
   key is kept as the tuple it is printed from *)
Definition ep_key := (string * string * labels * Z)%type.

Definition key_of (ns : string) (b : Backend) : ep_key := (ns, b_svc b, b_subsel b, bp_num (b_port b)).

Definition labels_eqb (a b : labels) : bool :=
  (List.length a =? List.length b)%nat &&
  forallb (fun p => String.eqb (fst (fst p)) (fst (snd p)) && String.eqb (snd (fst p)) (snd (snd p))) (combine a b).

Definition key_eqb (a b : ep_key) : bool :=
  let '(n1, s1, l1, p1) := a in
  let '(n2, s2, l2, p2) := b in
  String.eqb n1 n2 && String.eqb s1 s2 && labels_eqb l1 l2 && (p1 =? p2).

(* a Go map written in list order: the last write of a key wins *)
Fixpoint map_get {V} (k : ep_key) (m : list (ep_key * V)) : option V :=
  match m with
  | [] => None
  | (k', v) :: r => match map_get k r with
                    | Some v' => Some v'
                    | None => if key_eqb k k' then Some v else None
                    end
  end.

(* upstreams of the VirtualServer (its namespace) and of its VirtualServerRoutes (their own
   namespaces), in the order createVirtualServerEx walks them: (owner namespace, upstream) *)
Definition vs_entries (fx : Fixes) (plus : bool) (c : Cluster) (ups : list (string * Backend))
  : list (ep_key * (list string * bool)) :=
  map (fun u => (key_of (fst u) (snd u), endpoints_entry fx plus c (fst u) (snd u))) ups.

(* what the generators and createUpstreamsForPlus read for the upstream [b] owned by namespace [ns] *)
Definition vs_entry_of (fx : Fixes) (plus : bool) (c : Cluster) (ups : list (string * Backend))
           (ns : string) (b : Backend) : list string * bool :=
  match map_get (key_of ns b) (vs_entries fx plus c ups) with
  | Some e => e
  | None => ([], false)
  end.

(* ---------- the NGINX Plus API write (endpoints-only update) ---------- *)
(* updatePlusEndpoints / updatePlusEndpointsForVirtualServer / ...ForTransportServer: the servers
   given to UpdateServersInPlus / UpdateStreamServersInPlus for the upstream of a backend; None =
   no call (NGINX OSS; ExternalName services of Ingresses and VirtualServers are skipped) *)
Definition pushed (plus : bool) (k : bkind) (entry : list string * bool) : option (list string) :=
  if plus then
    match k with
    | KTS => Some (fst entry)
    | _ => if snd entry then None else Some (fst entry)
    end
  else None.

(* ====================== NGINX as a process: loaded files + API state ====================== *)
(* What NGINX balances over for an upstream is what the files said at the LAST RELOAD,
   overwritten by every successful NGINX Plus API call since.  State of one upstream:
   (servers in the file on disk, servers NGINX uses). *)
Definition ustate := (list string * list string)%type.

(* Configurator.UpdateEndpoints* for ONE resource of the list: the file is rewritten; with
   NGINX Plus the API is called (updateServersInPlus does nothing while reloads are disabled,
   i.e. inside a batch of sync()); result: the new state and whether this resource asks for a
   reload (API failure) *)
Definition upd_one (plus reloads_on api_ok : bool) (new : list string) (st : ustate) : ustate * bool :=
  if plus then
    if reloads_on then (if api_ok then ((new, new), false) else ((new, snd st), true))
    else ((new, snd st), false)
  else ((new, snd st), false).

(* the loop over the resources that use the Service; the reload request is LATCHED (or-ed) *)
Fixpoint upd_all (plus reloads_on : bool) (xs : list (bool * list string * ustate)) : list ustate * bool :=
  match xs with
  | [] => ([], false)
  | (api_ok, new, st) :: r =>
      let '(st', need) := upd_one plus reloads_on api_ok new st in
      let '(sts, need') := upd_all plus reloads_on r in
      (st' :: sts, need || need')
  end.

Definition reload_all (sts : list ustate) : list ustate := map (fun st => (fst st, fst st)) sts.

(* UpdateEndpoints / ...ForVirtualServers / ...ForTransportServers: NGINX OSS always reloads, NGINX Plus
   only after an API failure; cnf.Reload does nothing while reloads are disabled *)
Definition update_endpoints (plus reloads_on : bool) (xs : list (bool * list string * ustate)) : list ustate :=
  let '(sts, need) := upd_all plus reloads_on xs in
  if (negb plus || need) && reloads_on then reload_all sts else sts.

(* the end of a batch of sync(): reloads are enabled again and, when an EndpointSlice task of the
   batch concerned a resource, NGINX is reloaded *)
Definition end_of_batch (batch_reload : bool) (sts : list ustate) : list ustate :=
  if batch_reload then reload_all sts else sts.
