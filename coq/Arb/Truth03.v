(* C05 truth proof, part 3: the reports of one step *)
From Coq Require Import List ZArith String Ascii Bool Lia.
From NIC Require Import Base.SMap Arb.Types Arb.Model Arb.Spec Arb.WinsProofs Arb.InvProofs Arb.OwnerProofs
     Arb.ListenerProofs Arb.ClassProofs Arb.ChangeProofs Arb.ReportProofs Arb.ComposeProofs Arb.Cases Arb.ShadowProofs Arb.ShadowAttrs.
From NIC Require Import Arb.Truth01 Arb.Truth02.
Import ListNotations.
Open Scope string_scope.
Open Scope Z_scope.

Definition chg_reports (e : event) (inc : string -> bool) (cs : list change) : list (string * report) :=
  if is_gc_event e then flat_map reports_of_gc_change cs else flat_map (reports_of_change inc) cs.

Definition prob_reports (ps : list problem) : list (string * report) :=
  map (fun p => (p_obj p, RProblem (p_is_error p) (p_reason p))) ps.

Lemma step_reports_eq c es e :
  step_reports c es e =
  (chg_reports e (own_in_cluster (cluster (es ++ [e])%list)) (batch c es e) ++ prob_reports (probs c es e))%list.
Proof.
  unfold step_reports, batch, probs, chg_reports, prob_reports, reports_of_step_ev.
  destruct (step c (run c es) e) as [[s' cs] ps]. cbn [fst snd ob_changes ob_problems]. reflexivity.
Qed.

(* an addOrUpdate change speaks about its own resource, about the minions of a master and about the routes of a
   VirtualServer *)
Definition covers (ch : change) (k : string) : Prop :=
  c_op ch = AddOrUpdate /\
  (k = ckey ch \/
   (exists ic m, c_res ch = RIng ic /\ In m (ic_minions ic) /\ k = "Ingress/" ++ key_of_ing (mc_ing m)) \/
   (exists vc x, c_res ch = RVS vc /\ In x (vc_vsrs vc) /\ k = vsr_pkey x)).

Lemma ok_report_covered e inc cs k w :
  In (k, ROk w) (chg_reports e inc cs) -> exists ch, In ch cs /\ covers ch k.
Proof.
  unfold chg_reports. intros H.
  assert (G : exists ch, In ch cs /\ (In (k, ROk w) (reports_of_gc_change ch) \/ In (k, ROk w) (reports_of_change inc ch))).
  { destruct (is_gc_event e); apply in_flat_map in H; destruct H as (ch & Hch & Hin); exists ch; auto. }
  destruct G as (ch & Hch & Hin). exists ch. split; [exact Hch|]. unfold covers.
  destruct Hin as [Hin|Hin].
  - unfold reports_of_gc_change in Hin. destruct (c_op ch) eqn:Hop; [destruct (c_res ch); destruct Hin|].
    split; [reflexivity|]. destruct (c_res ch) as [ic|vc|tc] eqn:Hr; [destruct Hin| |].
    + destruct Hin as [Heq|Hin]; [inversion Heq; left; unfold ckey; rewrite Hr; reflexivity|].
      apply in_map_iff in Hin. destruct Hin as (x & Heq & Hx). inversion Heq; subst. apply filter_In in Hx.
      right; right. exists vc, x. tauto.
    + destruct Hin as [Heq|[]]. inversion Heq. left. unfold ckey. rewrite Hr. reflexivity.
  - unfold reports_of_change in Hin. destruct (c_op ch) eqn:Hop.
    + destruct (inc (rkey (c_res ch)) && (c_err ch || nonempty (res_warnings (c_res ch)))); [|destruct Hin].
      destruct Hin as [Heq|[]]. discriminate Heq.
    + split; [reflexivity|]. destruct Hin as [Heq|Hin]; [inversion Heq; left; reflexivity|].
      destruct (c_res ch) as [ic|vc|tc] eqn:Hr.
      * apply in_map_iff in Hin. destruct Hin as (m & Heq & Hm). inversion Heq; subst. right; left. exists ic, m. auto.
      * apply in_map_iff in Hin. destruct Hin as (x & Heq & Hx). inversion Heq; subst. apply filter_In in Hx.
        right; right. exists vc, x. tauto.
      * destruct Hin.
Qed.

(* every report about a delete change is a rejection of the resource deleted *)
Lemma chg_report_kinds e inc cs k r :
  In (k, r) (chg_reports e inc cs) -> is_ok r = true \/ (r = RRejected /\ has_del k cs = true).
Proof.
  unfold chg_reports. intros H.
  assert (G : exists ch, In ch cs /\ (In (k, r) (reports_of_gc_change ch) \/ In (k, r) (reports_of_change inc ch))).
  { destruct (is_gc_event e); apply in_flat_map in H; destruct H as (ch & Hch & Hin); exists ch; auto. }
  destruct G as (ch & Hch & [Hin|Hin]).
  - left. unfold reports_of_gc_change in Hin. destruct (c_op ch); [destruct (c_res ch); destruct Hin|].
    destruct (c_res ch) as [ic|vc|tc]; [destruct Hin| |].
    + destruct Hin as [Heq|Hin]; [inversion Heq; reflexivity|].
      apply in_map_iff in Hin. destruct Hin as (x & Heq & _). inversion Heq; reflexivity.
    + destruct Hin as [Heq|[]]. inversion Heq; reflexivity.
  - unfold reports_of_change in Hin. destruct (c_op ch) eqn:Hop.
    + right. destruct (inc (rkey (c_res ch)) && (c_err ch || nonempty (res_warnings (c_res ch)))); [|destruct Hin].
      destruct Hin as [Heq|[]]. inversion Heq; subst. split; [reflexivity|].
      unfold has_del. apply existsb_exists. exists ch. split; [exact Hch|]. unfold ckey, is_delete. rewrite String.eqb_refl, Hop. reflexivity.
    + left. destruct Hin as [Heq|Hin]; [inversion Heq; reflexivity|].
      destruct (c_res ch) as [ic|vc|tc].
      * apply in_map_iff in Hin. destruct Hin as (m & Heq & _). inversion Heq; reflexivity.
      * apply in_map_iff in Hin. destruct Hin as (x & Heq & _). inversion Heq; reflexivity.
      * destruct Hin.
Qed.

(* with removals first the batch is a list of deletes followed by a list of addOrUpdates *)
Lemma deletes_first_split : forall cs, deletes_first cs false = true ->
  exists ds us, cs = (ds ++ us)%list /\ all_deletes ds /\ all_updates us.
Proof.
  induction cs as [|x r IH]; intros H; [exists [], []; repeat split; intros ? []|].
  cbn [deletes_first] in H. destruct (c_op x) eqn:Hop.
  - cbn in H. destruct (IH H) as (ds & us & -> & Hd & Hu). exists (x :: ds), us. repeat split; auto.
    intros y [<-|Hy]; auto.
  - exists [], (x :: r). repeat split; [intros ? []|].
    assert (G : forall l, deletes_first l true = true -> all_updates l).
    { induction l as [|y l IHl]; intros Hl; [intros ? []|]. cbn [deletes_first] in Hl. destruct (c_op y) eqn:Hy; [discriminate|].
      intros z [<-|Hz]; [exact Hy|exact (IHl Hl z Hz)]. }
    intros y [<-|Hy]; [exact Hop|exact (G r H y Hy)].
Qed.

(* the reports of addOrUpdate changes are all successes *)
Lemma update_reports_ok e inc us k r : all_updates us -> In (k, r) (chg_reports e inc us) -> is_ok r = true.
Proof.
  intros Hu Hin. destruct (chg_report_kinds e inc us k r Hin) as [H|[_ H]]; [exact H|].
  unfold has_del in H. apply existsb_exists in H. destruct H as (ch & Hch & Hb). apply andb_true_iff in Hb. destruct Hb as [_ Hb].
  unfold is_delete in Hb. rewrite (Hu ch Hch) in Hb. discriminate.
Qed.

Lemma chg_reports_app e inc a b : chg_reports e inc (a ++ b)%list = (chg_reports e inc a ++ chg_reports e inc b)%list.
Proof. unfold chg_reports. destruct (is_gc_event e); apply flat_map_app. Qed.

(* a covering change is reported: a success for k is the last thing the changes of the batch say about k *)
Lemma covered_last_ok e inc cs k :
  deletes_first cs false = true ->
  (* a GlobalConfiguration batch touches no Ingress *)
  (is_gc_event e = true -> forall ch ic, In ch cs -> c_op ch = AddOrUpdate -> c_res ch <> RIng ic) ->
  (* the routes attached to a VirtualServer are cluster objects *)
  (forall ch vc x, In ch cs -> c_op ch = AddOrUpdate -> c_res ch = RVS vc -> In x (vc_vsrs vc) -> m_uid (r_meta x) <> "") ->
  (exists ch, In ch cs /\ covers ch k) ->
  exists w, last_report k (chg_reports e inc cs) None = Some (ROk w) /\ In (k, ROk w) (chg_reports e inc cs).
Proof.
  intros Hdf Hgc Huid (ch & Hch & Hop & Hcov).
  destruct (deletes_first_split cs Hdf) as (ds & us & -> & Hd & Hu).
  assert (Hus : In ch us).
  { apply in_app_or in Hch. destruct Hch as [H|H]; [|exact H]. rewrite (Hd ch H) in Hop. discriminate. }
  (* some report about k comes from ch *)
  assert (Hrep : exists w, In (k, ROk w) (chg_reports e inc us)).
  { unfold chg_reports. destruct (is_gc_event e) eqn:Eg.
    - assert (Hni : forall ic, c_res ch <> RIng ic) by (intros ic; apply (Hgc eq_refl ch ic Hch Hop)).
      destruct Hcov as [->|[(ic & m & Hr & _)|(vc & x & Hr & Hx & ->)]].
      + destruct (c_res ch) as [ic|vc|tc] eqn:Hr; [exfalso; exact (Hni ic eq_refl)| |].
        * exists (nonempty (vc_warnings vc)). apply in_flat_map. exists ch. split; [exact Hus|].
          unfold reports_of_gc_change. rewrite Hop, Hr. left. unfold ckey. rewrite Hr. reflexivity.
        * exists (nonempty (tc_warnings tc)). apply in_flat_map. exists ch. split; [exact Hus|].
          unfold reports_of_gc_change. rewrite Hop, Hr. left. unfold ckey. rewrite Hr. reflexivity.
      + exfalso. exact (Hni ic Hr).
      + exists false. apply in_flat_map. exists ch. split; [exact Hus|].
        unfold reports_of_gc_change. rewrite Hop, Hr. right. apply in_map_iff. exists x. split; [reflexivity|].
        apply filter_In. split; [exact Hx|]. apply negb_true_iff. apply String.eqb_neq. exact (Huid ch vc x Hch Hop Hr Hx).
    - destruct Hcov as [->|[(ic & m & Hr & Hm & ->)|(vc & x & Hr & Hx & ->)]].
      + exists (nonempty (res_warnings (c_res ch))). apply in_flat_map. exists ch. split; [exact Hus|].
        unfold reports_of_change. rewrite Hop. left. reflexivity.
      + eexists. apply in_flat_map. exists ch. split; [exact Hus|].
        unfold reports_of_change. rewrite Hop, Hr. right. apply in_map_iff. exists m. split; [reflexivity|exact Hm].
      + exists false. apply in_flat_map. exists ch. split; [exact Hus|].
        unfold reports_of_change. rewrite Hop, Hr. right. apply in_map_iff. exists x. split; [reflexivity|].
        apply filter_In. split; [exact Hx|]. apply negb_true_iff. apply String.eqb_neq. exact (Huid ch vc x Hch Hop Hr Hx). }
  destruct Hrep as (w0 & Hw0).
  rewrite chg_reports_app, last_report_app.
  destruct (last_report_some k _ _ Hw0) as (r & Hr). rewrite Hr.
  assert (Hin : In (k, r) (chg_reports e inc us)) by (apply last_report_in in Hr; destruct Hr as [Hr|Hr]; [exact Hr|discriminate]).
  pose proof (update_reports_ok e inc us k r Hu Hin) as Hok. destruct r as [w| |]; try discriminate.
  exists w. split; [reflexivity|]. apply in_or_app. right. exact Hin.
Qed.
