"""Shared machinery of the /verif checks (python3 stdlib only).

Layout:  /verif/coq            the Rocq development (coq_makefile project, logical root NIC)
         /verif/harness/overlay  files laid over /repo with `go build -overlay` (build tag verif)
         /verif/.work          everything generated (binaries, cases, logs); git-ignored
"""
import glob, json, os, re, shutil, subprocess, sys, time, hashlib

ROOT = os.path.dirname(os.path.dirname(os.path.abspath(__file__)))
REPO = os.environ.get("VERIF_REPO", "/repo")
# a run against a scratch tree (VERIF_REPO=<worktree>, used to try the checks on seeded changes) keeps its
# binaries, cases, replays and evidence apart from those of /repo
ALT = os.path.realpath(REPO) != "/repo"
WORK = os.path.join(ROOT, ".work-alt-" + re.sub(r"[^A-Za-z0-9]+", "_", os.path.realpath(REPO)).strip("_") if ALT else ".work")
COQ = os.path.join(ROOT, "coq")
OVERLAY_SRC = os.path.join(ROOT, "harness", "overlay")
EVID = os.path.join(WORK, "evidence") if ALT else os.path.join(ROOT, "evidence")
REPLAYS = os.path.join(WORK, "replays")
KNOWN = os.path.join(ROOT, "KNOWN_FINDINGS.jsonl")
FAKEBIN = os.path.join(WORK, "fakebin")

ALLOWED_AXIOMS = {
    # standard-library axioms that may appear in Print Assumptions; each is named in DESIGN.md 5
    "functional_extensionality_dep", "FunctionalExtensionality.functional_extensionality_dep",
    "Eqdep.Eq_rect_eq.eq_rect_eq", "Eq_rect_eq.eq_rect_eq", "JMeq_eq", "JMeq.JMeq_eq",
    "proof_irrelevance", "ProofIrrelevance.proof_irrelevance", "classic", "Classical_Prop.classic",
}


def sh(cmd, cwd=None, env=None, timeout=None, input=None):
    """run a command; returns (rc, stdout+stderr)"""
    e = dict(os.environ)
    if env:
        e.update(env)
    try:
        p = subprocess.run(cmd, cwd=cwd, env=e, shell=isinstance(cmd, str), input=input,
                           stdout=subprocess.PIPE, stderr=subprocess.STDOUT, timeout=timeout, text=True)
        return p.returncode, p.stdout
    except subprocess.TimeoutExpired as ex:
        out = ex.stdout or ""
        if isinstance(out, bytes):
            out = out.decode("utf-8", "replace")
        return 124, out + "\n[timeout after %ss]" % timeout


def go_env():
    return {"GOFLAGS": "-mod=mod", "GOPROXY": "off", "VERIF_WORK": WORK,
            "GOCACHE": os.environ.get("GOCACHE", os.path.expanduser("~/.cache/go-build"))}


def ensure_dirs():
    for d in (WORK, EVID, REPLAYS, FAKEBIN, os.path.join(WORK, "bin"), os.path.join(WORK, "cases"),
              os.path.join(WORK, "ovl"), os.path.join(WORK, "log")):
        os.makedirs(d, exist_ok=True)
    fake = os.path.join(FAKEBIN, "nginx")
    want = '#!/bin/sh\n# stand-in for the nginx binary (none exists in this sandbox): `-s reload` succeeds\n' \
           '# unless the file "fail" exists next to this script.\n[ -f "$(dirname "$0")/fail" ] && exit 1\nexit 0\n'
    if not os.path.exists(fake) or open(fake).read() != want:
        with open(fake, "w") as f:
            f.write(want)
        os.chmod(fake, 0o755)


# ------------------------------------------------------------------ overlay / go build

# Source rewrites applied to a copy of a /repo file at build time (the copy replaces the
# original through the overlay; /repo itself is never touched).  Each is (repo-relative path,
# regex, replacement, minimum number of substitutions).  If a pattern no longer matches the
# current tree the tie is reported as broken instead of silently building something else.
REWRITES = [
    ("internal/nginx/manager.go", r'nginxBinaryPath(\s*)= "/usr/sbin/nginx"',
     lambda m: 'nginxBinaryPath%s= "%s"' % (m.group(1), os.path.join(FAKEBIN, "nginx")), 1),
    # the C02 admission harness lives in package main of the controller so that the real
    # createGlobalConfigurationValidator() (reserved-port wiring) runs; the original entry point is renamed
    ("cmd/nginx-ingress/main.go", r'(?m)^func main\(\) \{', 'func verifOriginalMain() {', 1),
]


class TieBroken(Exception):
    pass


def _hook_tag(fname):
    m = re.match(r'zz_verif_([a-z0-9]+)(_.*)?\.go$', fname)
    return m.group(1) if m else None


def build_overlay(name=None, tags=None):
    """write .work/overlay_<name>.json mapping files of harness/overlay onto /repo.
    Hook files are named zz_verif_<tag>[_x].go; a harness <name> sees the hooks tagged `hooks`
    (shared), its own tag, and any tag listed in harness/overlay/internal/verifh/<name>/TAGS.
    Other harnesses' main packages are left out, so one broken harness cannot break another."""
    ensure_dirs()
    want = None
    if name is not None:
        want = {"hooks", name}
        tf = os.path.join(OVERLAY_SRC, "internal", "verifh", name, "TAGS")
        if os.path.exists(tf):
            want |= set(open(tf).read().split())
        if tags:
            want |= set(tags)
    repl = {}
    for d, _, files in os.walk(OVERLAY_SRC):
        for f in files:
            src = os.path.join(d, f)
            rel = os.path.relpath(src, OVERLAY_SRC)
            if not f.endswith(".go"):
                continue
            parts = rel.split(os.sep)
            if want is not None:
                if parts[:2] == ["internal", "verifh"] and len(parts) > 3 and parts[2] not in ("vh", name) and parts[2] not in want:
                    continue
                t = _hook_tag(f)
                if t is not None and t not in want:
                    continue
            dst = os.path.join(REPO, rel)
            if os.path.exists(dst):
                raise TieBroken("overlay file %s would shadow an existing file of /repo" % rel)
            repl[dst] = src
    for rel, pat, rep, minn in REWRITES:
        p = os.path.join(REPO, rel)
        if not os.path.exists(p):
            raise TieBroken("rewrite target %s missing from /repo" % rel)
        s = open(p).read()
        s2, n = re.subn(pat, rep, s)
        if n < minn:
            raise TieBroken("rewrite pattern %r no longer matches %s" % (pat, rel))
        out = os.path.join(WORK, "ovl", rel.replace("/", "__"))
        if not os.path.exists(out) or open(out).read() != s2:
            with open(out, "w") as f:
                f.write(s2)
        repl[p] = out
    path = os.path.join(WORK, "overlay_%s.json" % (name or "all"))
    with open(path, "w") as f:
        json.dump({"Replace": repl}, f, indent=1, sort_keys=True)
    return path


def modfile_copy(name):
    """-mod=mod may rewrite go.mod/go.sum (a translator that imports golang.org/x/tools turns an indirect
    requirement into a direct one).  /repo must never be modified by a check, so every build works on a
    fresh copy of /repo's current go.mod and go.sum, passed with -modfile."""
    d = os.path.join(WORK, "gomod", name)
    os.makedirs(d, exist_ok=True)
    for f in ("go.mod", "go.sum"):
        shutil.copyfile(os.path.join(REPO, f), os.path.join(d, f))
    return os.path.join(d, "go.mod")


def go_build(name, pkg=None, race=False):
    """build harness binary /repo/internal/verifh/<name> (overlaid) -> .work/bin/<name>"""
    ov = build_overlay(name)
    out = os.path.join(WORK, "bin", name + ("-race" if race else ""))
    pkg = pkg or "./internal/verifh/" + name
    cmd = ["go", "build", "-tags", "verif", "-overlay", ov, "-modfile", modfile_copy(name), "-o", out]
    if race:
        cmd.append("-race")
    cmd.append(pkg)
    rc, log = sh(cmd, cwd=REPO, env=go_env(), timeout=1500)
    with open(os.path.join(WORK, "log", "gobuild_%s.log" % name), "w") as f:
        f.write(log)
    if rc != 0:
        raise TieBroken("go build of harness %s against /repo failed:\n%s" % (name, log[-3000:]))
    return out


def run_harness(binary, args, timeout=1200, env=None):
    e = go_env()
    if env:
        e.update(env)
    rc, out = sh([binary] + args, cwd=WORK, env=e, timeout=timeout)
    return rc, out


def read_jsonl(path):
    out = []
    with open(path) as f:
        for line in f:
            line = line.strip()
            if line:
                out.append(json.loads(line))
    return out


# ------------------------------------------------------------------ coq

def write_coqproject(only=None, fname="_CoqProject"):
    """_CoqProject = every .v file under /verif/coq (or only the given directories)"""
    files = []
    for d, _, fs in os.walk(COQ):
        for f in fs:
            if f.endswith(".v"):
                rel = os.path.relpath(os.path.join(d, f), COQ)
                if only is None or rel.split(os.sep)[0] in only or rel in only:
                    files.append(rel)
    body = "-Q . NIC\n" + "\n".join(sorted(files)) + "\n"
    p = os.path.join(COQ, fname)
    if not os.path.exists(p) or open(p).read() != body:
        with open(p, "w") as f:
            f.write(body)
    return p


def coq_make(timeout=3000, clean=False, only=None, tag=None):
    """full .vo build of /verif/coq (never -vos).  With only=[dirs/files] and tag, a separate
    makefile (Makefile.<tag>) builds just those files and what they depend on."""
    proj = "_CoqProject" if tag is None else "_CoqProject." + tag
    mk = "Makefile" if tag is None else "Makefile." + tag
    write_coqproject(only, proj)
    if not os.path.exists(os.path.join(COQ, mk)) or \
            os.path.getmtime(os.path.join(COQ, mk)) < os.path.getmtime(os.path.join(COQ, proj)):
        rc, out = sh("coq_makefile -f %s -o %s" % (proj, mk), cwd=COQ, timeout=120)
        if rc != 0:
            return rc, out
    if clean:
        sh("make -f %s clean" % mk, cwd=COQ, timeout=300)
    # every coqc under a shell timeout: one runaway proof must not block the whole build; one build of
    # /verif/coq at a time, whichever tree or property the run is about
    import fcntl
    with open(os.path.join(COQ, ".make.lock"), "w") as lk:
        fcntl.flock(lk, fcntl.LOCK_EX)
        rc, out = sh("make -f %s -k -j16 COQC='timeout 1500 coqc'" % mk, cwd=COQ, timeout=timeout)
    with open(os.path.join(WORK, "log", "coq_make%s.log" % ("" if tag is None else "_" + tag)), "w") as f:
        f.write(out)
    return rc, out


def coqc(vfile, timeout=1800, mem_kb=24_000_000):
    """compile one file outside the project (cases, property re-check); returns (rc, output)"""
    cmd = "ulimit -v %d; exec coqc -Q %s NIC %s" % (mem_kb, COQ, vfile)
    return sh(cmd, cwd=os.path.dirname(vfile), timeout=timeout)


def check_property_file(pid):
    """Re-compile Properties/<pid>.v from scratch and read its Print Assumptions output.
    Returns dict(obligations, discharged, axioms, theorems, log, ok)."""
    src = os.path.join(COQ, "Properties", pid + ".v")
    text = open(src).read()
    theorems = re.findall(r'^\s*Theorem\s+([A-Za-z0-9_\']+)', text, re.M)
    printed = re.findall(r'^\s*Print Assumptions\s+([A-Za-z0-9_\']+)\s*\.', text, re.M)
    tmpdir = os.path.join(WORK, "propcheck", pid)
    shutil.rmtree(tmpdir, ignore_errors=True)
    os.makedirs(tmpdir)
    dst = os.path.join(tmpdir, pid + "_recheck.v")
    shutil.copy(src, dst)
    rc, out = coqc(dst, timeout=900)
    res = {"theorems": theorems, "obligations": len(theorems), "discharged": 0, "axioms": [],
           "log": out, "ok": False, "problems": []}
    if rc != 0:
        res["problems"].append("coqc rejected Properties/%s.v: %s" % (pid, out[-1500:]))
        return res
    if set(theorems) - set(printed):
        res["problems"].append("theorems without Print Assumptions: %s" % sorted(set(theorems) - set(printed)))
    # every "exact" closed?
    bodies = re.findall(r'Theorem\s+([A-Za-z0-9_\']+)(.*?)Qed\.', text, re.S)
    for name, body in bodies:
        m = re.search(r'Proof\.\s*(.*?)\s*$', body, re.S)
        if not m or not re.fullmatch(r'exact\s+[^.]+(\.[A-Za-z0-9_\']+)*\s*\.', m.group(1).strip()):
            res["problems"].append("theorem %s is not closed by a single `exact`" % name)
    # parse assumption blocks: either "Closed under the global context" or "Axioms:\n name : type ..."
    blocks = re.split(r'(?=Closed under the global context|Axioms:)', out)
    closed = 0
    axioms = set()
    for b in blocks:
        if b.startswith("Closed under the global context"):
            closed += 1
        elif b.startswith("Axioms:"):
            names = re.findall(r'^([A-Za-z0-9_\.\']+)\s*:', b, re.M)
            bad = [n for n in names if n not in ALLOWED_AXIOMS and n.split(".")[-1] not in
                   {a.split(".")[-1] for a in ALLOWED_AXIOMS}]
            axioms.update(names)
            if bad:
                res["problems"].append("non-standard axioms: %s" % bad)
            else:
                closed += 1
    res["axioms"] = sorted(axioms)
    res["discharged"] = min(closed, len(theorems)) if not res["problems"] else 0
    if closed < len(printed):
        res["problems"].append("only %d of %d Print Assumptions blocks found" % (closed, len(printed)))
        res["discharged"] = 0
    res["ok"] = not res["problems"] and res["discharged"] == res["obligations"] and res["obligations"] > 0
    return res


FORBIDDEN = re.compile(r'\b(Admitted|admit|Axiom|Axioms|Parameter|Parameters|Conjecture|Conjectures|Hypothesis|Hypotheses|Variable|Variables)\b'
                       r'|Unset\s+Guard|bypass_check|type-in-type|impredicative-set|Admit\s+Obligations|native_compute')


def stranger_grep():
    """no Admitted/admit/Axiom/Parameter/... anywhere in the development (comments stripped).
    Variable/Hypothesis are allowed only between Section ... End."""
    problems = []
    for d, _, files in os.walk(COQ):
        for f in files:
            if not f.endswith(".v"):
                continue
            p = os.path.join(d, f)
            s = open(p).read()
            s = strip_coq_comments(s)
            depth = 0
            for ln, line in enumerate(s.split("\n"), 1):
                if re.match(r'\s*Section\b', line):
                    depth += 1
                if re.match(r'\s*End\b', line) and depth > 0:
                    depth -= 1
                for m in FORBIDDEN.finditer(line):
                    w = m.group(0)
                    if w.split()[0] in ("Variable", "Variables", "Hypothesis", "Hypotheses") and depth > 0:
                        continue
                    problems.append("%s:%d: %s" % (os.path.relpath(p, ROOT), ln, w))
    rc, out = sh("grep -n -e '-type-in-type\\|-impredicative-set\\|-vos\\|-vok' _CoqProject || true", cwd=COQ)
    if out.strip():
        problems.append("_CoqProject: " + out.strip())
    return problems


def strip_coq_comments(s):
    """remove comments and blank out the contents of string literals (generated files carry
    source identifiers such as SplitClient.Variable inside strings)"""
    out = []
    i, depth, instr = 0, 0, False
    while i < len(s):
        c = s[i]
        if depth == 0 and c == '"':
            instr = not instr
            out.append(c)
        elif depth == 0 and instr:
            out.append("\n" if c == "\n" else "_")
        elif not instr and s.startswith("(*", i):
            depth += 1
            i += 1
        elif not instr and depth > 0 and s.startswith("*)", i):
            depth -= 1
            i += 1
        elif depth == 0:
            out.append(c)
        elif c == "\n":
            out.append(c)
        i += 1
    return "".join(out)


# ------------------------------------------------------------------ Coq term rendering

def cq_bytes(bs):
    """Coq string from a list of byte values (NIC.Base.Bytes.bs)"""
    if all(32 <= b < 127 and b != 34 for b in bs):
        return '"%s"' % "".join(chr(b) for b in bs)
    return "(bs [%s]%%nat)" % ";".join(str(b) for b in bs)


def cq_str(s):
    return cq_bytes(list(s.encode("utf-8")) if isinstance(s, str) else list(s))


def cq_z(n):
    return "(%d)" % n if n < 0 else "%d" % n


def cq_bool(b):
    return "true" if b else "false"


def cq_list(items):
    return "[" + "; ".join(items) + "]"


def cq_opt(x, f=lambda v: v):
    return "None" if x is None else "(Some %s)" % f(x)


HEADER = """From Coq Require Import List ZArith String Ascii Bool.
From NIC Require Import Base.Bytes.
Import ListNotations.
Open Scope string_scope.
Open Scope Z_scope.
Set Printing Width 1000000.
Set Printing Depth 1000000.
"""


def parse_z_lists(out, name):
    """parse `name = [[a; b]; [c; d]] : list (list Z)` printed by `Print name.` -> list of lists of int"""
    m = re.search(re.escape(name) + r'\s*=\s*(\[.*?\])\s*:\s*list', out, re.S)
    if not m:
        return None
    body = m.group(1)
    body = re.sub(r'%Z|\s+', '', body)
    body = body.replace(";", ",").replace("(", "").replace(")", "")
    try:
        return json.loads(body)
    except Exception:
        return None


# ------------------------------------------------------------------ findings / verdicts

def load_known():
    """KNOWN_FINDINGS.jsonl plus known/*.jsonl (one JSON object per line; # starts a comment line)"""
    out = []
    paths = [KNOWN] + sorted(glob.glob(os.path.join(ROOT, "known", "*.jsonl")))
    for p in paths:
        if not os.path.exists(p):
            continue
        for line in open(p):
            line = line.strip()
            if line and not line.startswith("#"):
                try:
                    out.append(json.loads(line))
                except ValueError as e:
                    print("warning: %s: unreadable known-finding line ignored (%s)" % (os.path.basename(p), e), file=sys.stderr)
    return out


def match_known(pid, sig):
    """sig: dict describing a failing case.  An open finding matches when every key of its
    `match` equals the corresponding key of sig.  `fixed` entries never suppress anything."""
    for k in load_known():
        if k.get("property") != pid or k.get("status") != "open":
            continue
        m = k.get("match", {})
        if m and all(sig.get(a) == b for a, b in m.items()):
            return k
    return None


class Run:
    """collects what one check run did; writes evidence, replays, verdict lines"""

    def __init__(self, pid, tier, seed):
        self.pid, self.tier, self.seed = pid, tier, seed
        self.t0 = time.time()
        self.violations = []      # (signature, replay_path)
        self.known_hits = {}      # finding id -> text
        self.cov = {"evaluations": 0, "distinct_nontrivial": 0, "rule": "", "samples": [],
                    "obligations": 0, "discharged": 0, "checker_cmd": "", "trusted_base": [],
                    "traces_validated_against_impl": 0}
        self.assumptions = []
        self.notes = []
        self._distinct = set()
        self._groups = {}

    def log(self, *a):
        print("[%s %6.1fs]" % (self.pid, time.time() - self.t0), *a, flush=True)

    def count_case(self, canon, nontrivial=True):
        self.cov["evaluations"] += 1
        if nontrivial:
            self._distinct.add(hashlib.sha1(json.dumps(canon, sort_keys=True).encode()).hexdigest())

    def sample(self, s, limit=4):
        if len(self.cov["samples"]) < limit:
            self.cov["samples"].append(s)

    def failing(self, sig, cases, what, theorem=None, found_input=True):
        """register a failing case: known finding or violation.  Violations with the same
        signature are grouped into one replay file (first 3 cases kept) and one VIOLATION line."""
        k = match_known(self.pid, sig) if found_input else None
        if k is not None:
            self.known_hits.setdefault(k["id"], k.get("what", what))
            return
        key = json.dumps(sig, sort_keys=True) + ("|input" if found_input else "|noinput")
        g = self._groups.get(key)
        if g is None:
            g = {"property": self.pid, "what": what, "signature": sig, "theorem_or_tie": theorem,
                 "failing_input_found": found_input, "seed": self.seed, "count": 0, "cases": []}
            self._groups[key] = g
        g["count"] += 1
        if len(g["cases"]) < 3:
            g["cases"].extend(cases[:3 - len(g["cases"])])

    def _flush_groups(self):
        os.makedirs(REPLAYS, exist_ok=True)
        groups = sorted(self._groups.values(), key=lambda g: not g["failing_input_found"])
        for i, g in enumerate(groups):
            path = os.path.join(REPLAYS, "%s_%s_%d.json" % (self.pid, self.tier, i))
            with open(path, "w") as f:
                json.dump(g, f, indent=1)
            self.violations.append((g["signature"], path, g["failing_input_found"],
                                    g["what"] + (" (+%d more with the same signature)" % (g["count"] - 1) if g["count"] > 1 else "")))

    def proof_obligations(self, pid=None):
        """stranger's grep + property file re-check; a failure is a violation without input"""
        pid = pid or self.pid
        # incremental full .vo build (a no-op when everything is up to date); serialised by a lock file
        import fcntl
        with open(os.path.join(WORK, "make.lock"), "w") as lk:
            fcntl.flock(lk, fcntl.LOCK_EX)
            rc, out = coq_make(timeout=7200)
        if rc != 0:
            self.notes.append("coq make reported errors (files of other families may be broken): " + out[-300:])
        probs = stranger_grep()
        if probs:
            self.failing({"kind": "forbidden-construct"}, [], "forbidden construct in the development: %s" % probs[:5],
                         theorem="stranger_grep", found_input=False)
        r = check_property_file(pid)
        self.cov["obligations"] += r["obligations"]
        self.cov["discharged"] += r["discharged"]
        self.cov["checker_cmd"] = "coqc -Q /verif/coq NIC Properties/%s.v (full .vo build by `make -j16` in /verif/coq; Print Assumptions parsed)" % pid
        self.cov["theorems"] = r["theorems"]
        self.cov["axioms_reported_by_Print_Assumptions"] = r["axioms"]
        if not r["ok"]:
            self.failing({"kind": "proof-broken"}, [], "Properties/%s.v no longer checks: %s" % (pid, r["problems"]),
                         theorem="Properties/%s.v" % pid, found_input=False)
        return r

    def add_obligation(self, ok, name, detail=""):
        """a generated / computed obligation (e.g. analyzer run on a translated template)"""
        self.cov["obligations"] += 1
        if ok:
            self.cov["discharged"] += 1
        else:
            self.failing({"kind": "obligation", "name": name}, [], "obligation %s failed: %s" % (name, detail),
                         theorem=name, found_input=False)

    def finish(self):
        self._flush_groups()
        self.cov["distinct_nontrivial"] = len(self._distinct)
        for fid, what in sorted(self.known_hits.items()):
            print("KNOWN-FINDING: property=%s %s: %s" % (self.pid, fid, what))
        # an undischarged obligation with no violation recorded must still fail the run
        ev = {"property_id": self.pid, "tier": self.tier, "seed": self.seed, "level": "proof",
              "coverage": self.cov, "assumptions": self.assumptions,
              "wall_s": round(time.time() - self.t0, 2), "violations": len(self.violations),
              "known_findings_hit": sorted(self.known_hits), "notes": self.notes}
        os.makedirs(EVID, exist_ok=True)
        with open(os.path.join(EVID, self.pid + ".json"), "w") as f:
            json.dump(ev, f, indent=1)
        for sig, path, found, what in self.violations:
            print("  violation: %s" % what[:600])
            print("VIOLATION property=%s replay=%s%s" % (self.pid, path, "" if found else " no-failing-input-found"))
        if self.violations:
            return 1
        print("OK property=%s tier=%s obligations=%d/%d evaluations=%d distinct=%d wall=%.1fs" % (
            self.pid, self.tier, self.cov["discharged"], self.cov["obligations"], self.cov["evaluations"],
            self.cov["distinct_nontrivial"], time.time() - self.t0))
        return 0


def write_cases_v(path, body):
    with open(path, "w") as f:
        f.write(HEADER)
        f.write(body)
