(* Lex/IngressPath.v -- model of the Ingress path validator (internal/k8s/validation.go validatePath)
   and its relation to bare-word safety at the site  location <path> {  of the Ingress templates.

     ingress_path_ok p     pathFmt /[^\s;]* (RE2 \s = TAB LF FF CR space), ValidateEscapedString
                           ([^dq bs]|bs .)*, validateCurlyBraces (no letter inside a shortest {..}),
                           validateIllegalKeywords (the regex ^/etc/|/root|/var|\\n|\\r$ as Go parses it:
                           prefix /etc/, or contains /root, /var, backslash-n, or ends in backslash-r).
                           NOT modelled: regexp2.Compile must succeed.  So: real accepts => model accepts
                           (checked by the c07 harness, class paths).
     one_bare_word p       the DFA reads  p followed by a space  from between tokens as exactly one word
     ingress_path_bare_safe_refuted   exists accepted p that is not one bare word        (F06: /{ )
     ingress_path_bare_safe_partial   accepted and no left brace  =>  one bare word      (all strings) *)
From Coq Require Import List String Ascii Bool Arith.
From NIC Require Import Lex.Lexer Lex.Check Lex.LexerProofs.
Import ListNotations.
Open Scope string_scope.

Definition go_space (c : ascii) : bool :=
  let n := nat_of_ascii c in
  Nat.eqb n 9 || Nat.eqb n 10 || Nat.eqb n 12 || Nat.eqb n 13 || Nat.eqb n 32.

Definition path_byte_ok (c : ascii) : bool := negb (go_space c || Ascii.eqb c ch_semi).

Definition is_alpha (c : ascii) : bool :=
  let n := nat_of_ascii c in
  (Nat.leb 65 n && Nat.leb n 90) || (Nat.leb 97 n && Nat.leb n 122).

Fixpoint all_bytes (f : ascii -> bool) (s : string) : bool :=
  match s with EmptyString => true | String c r => f c && all_bytes f r end.

Fixpoint has_byte (c : ascii) (s : string) : bool :=
  match s with EmptyString => false | String a r => Ascii.eqb a c || has_byte c r end.

(* validateCurlyBraces: FindAll of the lazy regex {(.*?)} : from a left brace to the next right brace *)
Fixpoint curly_ok (inside seen_alpha : bool) (s : string) : bool :=
  match s with
  | EmptyString => true
  | String c r =>
      if inside then
        (if Ascii.eqb c ch_close then (if seen_alpha then false else curly_ok false false r)
         else curly_ok true (seen_alpha || is_alpha c) r)
      else if Ascii.eqb c ch_open then curly_ok true false r
      else curly_ok false false r
  end.

Definition bs_n : string := String ch_bs "n".
Definition bs_r : string := String ch_bs "r".

Definition illegal_keyword (s : string) : bool :=
  starts_with "/etc/" s || contains "/root" s || contains "/var" s || contains bs_n s || ends_with bs_r s.

Definition ingress_path_ok (p : string) : bool :=
  match p with
  | String c r =>
      Ascii.eqb c "/" && all_bytes path_byte_ok r && dq_frag p && curly_ok false false p &&
      negb (illegal_keyword p)
  | EmptyString => false
  end.

Definition one_bare_word (p : string) : bool :=
  match run QBetween (p ++ " ") with
  | (QBetween, [TokEnd]) => true
  | _ => false
  end.

Theorem ingress_path_bare_safe_refuted : exists p, ingress_path_ok p = true /\ one_bare_word p = false.
Proof. exists "/{". split; vm_compute; reflexivity. Qed.

(* other witnesses, for the record *)
Example brace_quantifier_accepted :
  ingress_path_ok "/a{1,3}" = true /\ one_bare_word "/a{1,3}" = false /\
  ingress_path_ok "/a{1" = true /\ one_bare_word "/a{1" = false /\
  ingress_path_ok "/a{b}" = false.
Proof. vm_compute. repeat split. Qed.

(* ---------------------------------------------------------------- the partial theorem *)

Definition stt (e v : bool) : lstate := if e then QBareEsc else if v then QVar else QBare.

Lemma path_byte_bare : forall c,
    path_byte_ok c = true -> c <> ch_open -> c <> ch_bs -> c <> ch_dollar -> bare_ok c = true.
Proof.
  intros c H A B D. destruct c as [b0 b1 b2 b3 b4 b5 b6 b7].
  destruct b0, b1, b2, b3, b4, b5, b6, b7; try discriminate H; try reflexivity;
    first [now elim A | now elim B | now elim D].
Qed.

Lemma tail_one_word : forall r e v,
    all_bytes path_byte_ok r = true -> has_byte ch_open r = false ->
    dq_scan e r = Some false ->
    run (stt e v) (r ++ " ") = (QBetween, [TokEnd]).
Proof.
  induction r as [|c r IH]; intros e v Hok Hbr Hs.
  - cbn in Hs. injection Hs as ->. destruct v; reflexivity.
  - cbn [all_bytes] in Hok. apply andb_true_iff in Hok as [Hc Hok].
    cbn [has_byte] in Hbr. apply orb_false_elim in Hbr as [Hco Hbr].
    apply Ascii.eqb_neq in Hco.
    cbn [append run]. unfold dq_scan in Hs. cbn [q_scan] in Hs. destruct e.
    + cbn [stt step]. pose proof (IH false false Hok Hbr Hs) as R. cbn [stt] in R. rewrite R. reflexivity.
    + destruct (Ascii.eqb c ch_bs) eqn:Eb.
      * apply Ascii.eqb_eq in Eb. subst c.
        assert (E : step (stt false v) ch_bs = (QBareEsc, [])) by (destruct v; reflexivity).
        rewrite E. pose proof (IH true false Hok Hbr Hs) as R. cbn [stt] in R. rewrite R. reflexivity.
      * destruct (Ascii.eqb c ch_dq) eqn:Eq; [discriminate Hs|].
        destruct (Ascii.eqb c ch_dollar) eqn:Ed.
        -- apply Ascii.eqb_eq in Ed. subst c.
           assert (E : step (stt false v) ch_dollar = (QVar, [])) by (destruct v; reflexivity).
           rewrite E. pose proof (IH false true Hok Hbr Hs) as R. cbn [stt] in R. rewrite R. reflexivity.
        -- apply Ascii.eqb_neq in Eb, Ed.
           pose proof (path_byte_bare c Hc Hco Eb Ed) as Hb.
           destruct (step_bare_ok c Hb) as [E1 E2].
           assert (E : step (stt false v) c = (QBare, [])) by (destruct v; assumption).
           rewrite E. pose proof (IH false false Hok Hbr Hs) as R. cbn [stt] in R. rewrite R. reflexivity.
Qed.

Theorem ingress_path_bare_safe_partial :
  forall p, ingress_path_ok p = true -> has_byte ch_open p = false -> one_bare_word p = true.
Proof.
  intros p H Hbr. destruct p as [|c r]; [discriminate H|].
  unfold ingress_path_ok in H.
  apply andb_true_iff in H as [H _]. apply andb_true_iff in H as [H _].
  apply andb_true_iff in H as [H Hdq]. apply andb_true_iff in H as [Hc Hok].
  apply Ascii.eqb_eq in Hc. subst c.
  cbn [has_byte] in Hbr. apply orb_false_elim in Hbr as [_ Hbr].
  unfold dq_frag in Hdq. destruct (dq_scan false (String "/" r)) as [[|]|] eqn:Es; try discriminate Hdq.
  unfold dq_scan in Es. cbn [q_scan] in Es.
  change (Ascii.eqb "/" ch_bs) with false in Es. change (Ascii.eqb "/" ch_dq) with false in Es. cbn iota in Es.
  unfold one_bare_word. cbn [append run].
  assert (E : step QBetween "/" = (QBare, [])) by reflexivity. rewrite E.
  pose proof (tail_one_word r false false Hok Hbr Es) as R. cbn [stt] in R. rewrite R. reflexivity.
Qed.
