"""C20 -- derived Certificates / DNSEndpoints track their VirtualServer, spare foreign ones."""
import os, json
from . import common as C

S, Z, B = C.cq_str, C.cq_z, C.cq_bool


def kvs(l):
    return C.cq_list(["(%s, %s)" % (S(k), S(v)) for k, v in (l or [])])


def strs(l):
    return C.cq_list([S(x) for x in (l or [])])


def owner(u):
    return "(OCtl %s)" % S(u) if u else "ONone"


def cert(o):
    return "(mkCert %s %s %s %s (mkCertSpec %s %s %s %s %s %s %s %s %s %s))" % (
        S(o["name"]), owner(o["owner"]), kvs(o["labels"]), C.cq_opt(o["temp"], S),
        S(o["cn"]), strs(o["dns"]), S(o["secret"]), S(o["iname"]), S(o["ikind"]), S(o["igroup"]),
        C.cq_opt(o["dur"], Z), C.cq_opt(o["renew"], Z), strs(o["usages"]), B(o["is_ca"]))


def endpoint(e):
    return "(mkEndpoint %s %s %s %s %s %s)" % (S(e["dns_name"]), strs(e["targets"]), S(e["rtype"]), Z(e["ttl"]),
                                              C.cq_opt(e["labels"], kvs), kvs(e["provider"]))


def dnsep(o):
    return "(mkDnsep %s %s %s %s)" % (S(o["name"]), owner(o["owner"]), kvs(o["labels"]),
                                      C.cq_list([endpoint(e) for e in (o["endpoints"] or [])]))


def store(objs, f):
    return C.cq_list(["(%s, %s)" % (S(o["name"]), f(o)) for o in (objs or [])])


def dur(kind, ns):
    return {"none": "DNone", "bad": "DBad"}.get(kind) or "(DOk %s)" % Z(ns)


def vs(v):
    t = v["tls"]
    if t is None:
        tls = "None"
    else:
        c = t["cm"]
        cm = "None" if c is None else "(Some (mkCertmgr %s %s %s %s %s %s %s %s %s))" % (
            S(c["cluster_issuer"]), S(c["issuer"]), S(c["issuer_kind"]), S(c["issuer_group"]), S(c["common_name"]),
            dur(c["dur_kind"], c["dur_ns"]), dur(c["renew_kind"], c["renew_ns"]), S(c["usages"]), B(c["temp"]))
        tls = "(Some (mkTls %s %s))" % (S(t["secret"]), cm)
    x = v["xdns"]
    xd = "(mkExtdns %s %s %s %s %s)" % (B(x["enable"]), S(x["rtype"]), Z(x["ttl"]), C.cq_opt(x["labels"], kvs), kvs(x["provider"]))
    cls = {"v4": "IPv4", "v6": "IPv6"}
    eps = C.cq_opt(v["endpoints"], lambda l: C.cq_list(
        ["(mkExtep %s %s %s)" % (S(e["ip"]), S(e["hostname"]), cls.get(e["ipclass"], "IPBad")) for e in l]))
    return "(mkVs %s %s %s %s %s %s %s)" % (S(v["name"]), S(v["uid"]), kvs(v["labels"]), S(v["host"]), tls, xd, eps)


FAULT = {"conflict": "FConflict", "exists": "FExists", "internal": "FInternal"}


def faults(l):
    return C.cq_list(["(Some %s)" % FAULT[f] if f in FAULT else "None" for f in (l or [])])


def result(e):
    if e == "":
        return "ROk"
    if e in FAULT:
        return "(RFault %s)" % FAULT[e]
    return "ROther"


VERB = {"create": "VCreate", "update": "VUpdate", "delete": "VDelete"}


def log(l):
    return C.cq_list(["(%s, %s)" % (VERB[v], S(n)) for v, n in (l or [])])


def step(st, ob, delivery=False):
    odd = bool(ob.get("unexpected")) or bool(ob.get("panic")) or ob["fresh_cert_err"] in ("panic", "harness") or ob["fresh_dns_err"] in ("panic", "harness")
    nox = bool(delivery and (st["cm_faults"] or st["dns_faults"]))
    return "(mkOstep %s %s %s %s %s %s %s %s %s %s %s %s %s %s %s %s %s %s %s %s)" % (
        vs(st["vs"]), faults(st["cm_faults"]), faults(st["dns_faults"]),
        log(ob["cm"]["log"]), result(ob["cm"]["err"]), store(ob["cm"]["store"], cert),
        log(ob["dns"]["log"]), result(ob["dns"]["err"]), store(ob["dns"]["store"], dnsep),
        B(nox), C.cq_opt(ob["cm"].get("pre"), lambda l: store(l, cert)), C.cq_opt(ob["dns"].get("pre"), lambda l: store(l, dnsep)),
        C.cq_opt(ob["cm"].get("cache"), lambda l: store(l, cert)), C.cq_opt(ob["dns"].get("cache"), lambda l: store(l, dnsep)),
        B(bool(ob.get("cache_mutated"))), B(odd), C.cq_opt(ob["fresh_cert"], cert), result(ob["fresh_cert_err"]),
        C.cq_opt(ob["fresh_dns"], dnsep), result(ob["fresh_dns_err"]))


def cmpset(p):
    return "(mkCmpset %s %s %s %s)" % (B(p["dur"]), B(p["renew"]), B(p["usages"]), B(p["igroup"]))


def case_to_coq(c, probe):
    obs = c["obs"]["steps"]
    steps = C.cq_list([step(st, ob, bool(c.get("delivery"))) for st, ob in zip(c["steps"], obs)])
    return "c20_case %d %s %s %s\n     %s" % (c["id"], cmpset(probe), store(c["init_certs"], cert), store(c["init_dns"], dnsep), steps)


def usable(c):
    return not c["obs"].get("error") and c["obs"].get("steps")


def evaluate(run, cases, probe, tag):
    cases = [c for c in cases if usable(c)]
    if not cases:
        return []
    body = "From NIC Require Import Base.SMap Sync.Model Sync.Cases.\n"
    body += "Definition results : list (list Z) := Eval vm_compute in\n  [" + ";\n   ".join(case_to_coq(c, probe) for c in cases) + "].\n"
    body += "Print results.\n"
    path = os.path.join(C.WORK, "cases", "C20_%s.v" % tag)
    C.write_cases_v(path, body)
    rc, out = C.coqc(path)
    res = C.parse_z_lists(out, "results")
    if rc != 0 or res is None or len(res) != len(cases):
        raise C.TieBroken("coqc could not evaluate the C20 cases file (%s): %s" % (path, out[-1500:]))
    return res


FRESH_BITS = [(1, "spec.duration"), (2, "spec.renewBefore"), (4, "spec.usages"), (8, "spec.issuerRef.group"),
              (16, "annotation issue-temporary-certificate"), (32, "spec field the controller never sets"),
              (64, "compared field"), (128, "object missing")]
GC_BITS = [(1, "certificate", "feature-removed"), (2, "dnsendpoint", "feature-removed"),
           (4, "certificate", "other-name"), (8, "dnsendpoint", "other-name")]


def via(c):
    """for messages: how the synchronizations of this history were triggered"""
    if not c.get("delivery"):
        return ""
    parts = []
    for i, (st, ob) in enumerate(zip(c["steps"], c["obs"]["steps"])):
        d = ob.get("delivery") or {}
        parts.append("%d:%s%s vs-event=%s enqueued=%s ran=%s" % (i, st["kind"], ("/" + st["tamper"]) if st.get("tamper") else "", d.get("vs_event"),
                                                              d.get("enqueued"), [k for k, f in (("cert-manager", d.get("ran_cm")), ("externaldns", d.get("ran_dns"))) if f]))
    return " [through the real event handlers / work queues / processItem: " + "; ".join(parts) + "]"


def trigger(c, upto=None):
    """what the history did (for messages only)"""
    return ",".join(s["kind"] for s in c["steps"][:upto])


def judge(run, cases, res, probe):
    byid = {c["id"]: c for c in cases}
    for c in cases:
        if not usable(c):
            run.failing({"kind": "harness-case-error"}, [c], "the harness could not run case %d on the implementation: %s"
                        % (c["id"], str(c["obs"].get("error"))[:300]), theorem="correspondence harness c20", found_input=False)
            continue
        for i, so in enumerate(c["obs"]["steps"]):
            if so.get("panic"):
                run.failing({"kind": "panic"}, [c], "synchronization panicked at step %d of case %d: %s" % (i, c["id"], so["panic"][:300]),
                            theorem="Sync.Cases (no panic)")
    for row in res:
        cid, agree, spec, nontrivial, tags, xbad, fbad, idem, fc, fd, gc, writes, cbad = row
        c = byid[cid]
        canon = {"init_certs": c["init_certs"], "init_dns": c["init_dns"], "steps": c["steps"]}
        run.count_case(canon, bool(nontrivial))
        run.cov["traces_validated_against_impl"] += 1
        run.cov["steps_validated"] = run.cov.get("steps_validated", 0) + len(c["obs"]["steps"])
        run.cov["writes_observed"] = run.cov.get("writes_observed", 0) + writes
        bt = run.cov.setdefault("histories_reaching_branch", {})
        for bit, name in ((1, "create"), (2, "update"), (4, "delete(gc)"), (8, "api-fault-hit"), (16, "certificate-foreign-or-unowned-skip"),
                          (32, "dnsendpoint-foreign-or-unowned-skip"), (64, "config-or-endpoint-error")):
            if tags & bit:
                bt[name] = bt.get(name, 0) + 1
        cl = run.cov.setdefault("by_class", {})
        cl[c["class"]] = cl.get(c["class"], 0) + 1
        for st in c["steps"]:
            if st["kind"] == "retry":
                run.cov["retries_after_failed_write"] = run.cov.get("retries_after_failed_write", 0) + 1
        if c.get("delivery"):
            dl = run.cov.setdefault("delivery_family", {"histories": 0, "virtualserver_events_offered": 0, "derived_object_events_handled": 0,
                                                        "processItem_runs": 0, "foreign_deletes_or_edits_of_derived_objects": 0})
            dl["histories"] += 1
            for st, ob in zip(c["steps"], c["obs"]["steps"]):
                d = ob.get("delivery") or {}
                dl["virtualserver_events_offered"] += 1 if d.get("vs_event") in ("add", "update") else 0
                dl["derived_object_events_handled"] += d.get("derived_evts", 0)
                dl["processItem_runs"] += len(d.get("processed") or [])
                dl["steps_with_a_failed_write_and_retry"] = dl.get("steps_with_a_failed_write_and_retry", 0) + (1 if (st["cm_faults"] or st["dns_faults"]) else 0)
                dl["foreign_deletes_or_edits_of_derived_objects"] += 1 if (ob["cm"].get("pre") is not None or ob["dns"].get("pre") is not None) else 0
        if cbad >= 0:
            mut = c["obs"]["steps"][cbad].get("cache_mutated") or []
            run.failing({"kind": "cache-mutated", "resource": sorted(set(m.split(" ")[0] for m in mut))}, [c],
                        "case %d step %d (%s): the synchronization wrote into lister-cache objects in place: %s (cm log %s err %r, dns log %s err %r); "
                        "the informer cache no longer reflects the cluster, later synchronizations decide on content the cluster never received"
                        % (cid, cbad, c["steps"][cbad]["kind"], mut, c["obs"]["steps"][cbad]["cm"]["log"], c["obs"]["steps"][cbad]["cm"]["err"],
                           c["obs"]["steps"][cbad]["dns"]["log"], c["obs"]["steps"][cbad]["dns"]["err"]), theorem="Sync.Cases (lister cache untouched)")
        if fbad >= 0:
            run.failing({"kind": "foreign-touched"}, [c],
                        "case %d step %d: a write/delete targeted an object the VirtualServer does not control, or such an object changed "
                        "(cm log %s, dns log %s, unexpected %s)" % (cid, fbad, c["obs"]["steps"][fbad]["cm"]["log"], c["obs"]["steps"][fbad]["dns"]["log"],
                                                                    c["obs"]["steps"][fbad]["unexpected"]), theorem="Sync.Cases.s_foreign")
        for bit, res_name, cause in ((1, "certificate", "other"), (2, "dnsendpoint", "other"), (4, "dnsendpoint", "empty-endpoint-labels")):
            if idem & bit:
                run.failing({"kind": "not-idempotent", "resource": res_name, "cause": cause}, [c],
                            "case %d: a second synchronization of the same VirtualServer after a successful one wrote the %s again (%s)"
                            % (cid, res_name, cause), theorem="Sync.Cases.s_idem")
        for bit, name in FRESH_BITS:
            if fc & bit:
                run.failing({"kind": "stale-certificate", "field": name}, [c],
                            "case %d: after a successful synchronization the Certificate differs from what a first-time synchronization creates in: %s%s"
                            % (cid, name, via(c)), theorem="Sync.Cases.s_fresh_cert")
        if fd:
            run.failing({"kind": "stale-dnsendpoint", "mask": fd}, [c],
                        "case %d: after a successful synchronization the DNSEndpoint differs from what a first-time synchronization creates%s" % (cid, via(c)),
                        theorem="Sync.Cases.s_fresh_dns")
        for bit, res_name, why in GC_BITS:
            if gc & bit:
                run.failing({"kind": "not-removed", "resource": res_name, "when": why}, [c],
                            "case %d: a %s controlled by the VirtualServer is still there after a successful synchronization that no longer needs it (%s)"
                            % (cid, res_name, why), theorem="Sync.Cases.s_gc")
        if not agree:
            so = c["obs"]["steps"][xbad] if 0 <= xbad < len(c["obs"]["steps"]) else {}
            run.failing({"kind": "correspondence", "spec_holds": bool(spec)}, [c],
                        "model and implementation disagree at step %d of case %d (class %s, step kind %s): cm log=%s err=%r dns log=%s err=%r"
                        % (xbad, cid, c["class"], c["steps"][xbad]["kind"] if 0 <= xbad < len(c["steps"]) else "?",
                           so.get("cm", {}).get("log"), so.get("cm", {}).get("err"), so.get("dns", {}).get("log"), so.get("dns", {}).get("err")),
                        theorem="correspondence Sync.Model ~ internal/certmanager/sync.go, helper.go, internal/externaldns/sync.go", found_input=False)


TRUSTED = [
    "Rocq 8.16.1 kernel incl. vm_compute (no native_compute); no axioms (Print Assumptions: closed)",
    "hand-written model coq/Sync/Model.v of internal/certmanager/sync.go + helper.go and internal/externaldns/sync.go, tied by the correspondence "
    "harness harness/overlay/internal/verifh/c20 (real SyncFnFor of both packages, generated fake clientsets as the cluster, generated listers over "
    "cache indexers as the informer caches, reactors for faults)",
    "the object tracker of the fake clientset is the cluster; the indexers behind the real generated listers are the informer caches and hand the "
    "synchronization functions the very pointers they store; after every synchronization the harness delivers the watch event (fresh JSON-decoded "
    "object) of each object whose stored version changed and of nothing else, and deep-compares every cache object with a copy taken before the call",
    "delivery family: the controllers are built by the production NewController (externaldns) / assembled like NewCmController with the production "
    "addHandlers (certmanager); their informers are not started (the fake clientset cannot LIST DNSEndpoints), the harness feeds the informers' indexers "
    "and calls handler values constructed by the hook files exactly as newNamespacedInformer / addHandlers construct the ones they register "
    "(QueuingEventHandler{Queue}, BlockingEventHandler{externalDNSHandler / certificateHandler}); the production runWorker loops run on the real work queue "
    "behind a wrapper whose Get reports shut-down when nothing is queued and whose AddRateLimited re-adds without delay (an item failing 6 times in a row "
    "waits for the next step); the registration calls themselves and the informer "
    "machinery of client-go are not exercised; generation / resourceVersion bookkeeping of the API server is reproduced by the harness",
    "all histories of a run share one harness process and hence the package-level state of the code under test; the first-time reference of the "
    "specification (what a first synchronization of this VirtualServer creates on an empty cluster) is computed by a child process per distinct "
    "VirtualServer (the harness binary with -fresh-one), so it cannot be contaminated by earlier synchronizations",
    "library verdicts used as oracles and passed to the model: time.ParseDuration, validation.IsValidIP, netutils.ParseIPSloppy; the cert-manager "
    "key-usage table is transcribed (23 names) and compared through the harness",
]


def split_probe(rows):
    probe = None
    cases = []
    for r in rows:
        if "probe" in r and "id" not in r:
            probe = r["probe"]
        else:
            cases.append(r)
    if probe is None:
        raise C.TieBroken("c20 harness did not report the certNeedsUpdate probe")
    return probe, cases


def check_probe(run, probe):
    always = ["labels", "cn", "dns", "secret", "iname", "ikind"]
    ok = all(probe.get(k) for k in always) and not probe.get("same") and probe.get("dur") == probe.get("dur_nil")
    run.add_obligation(ok, "certNeedsUpdate-probe",
                       "the real certNeedsUpdate must answer false on equal objects and true on a difference in each of %s: %s" % (always, probe))
    run.cov["certNeedsUpdate_sensitive_to"] = sorted(k for k, v in probe.items() if v)
    run.cov["model_variant"] = ("fixed (F22.diff applied)" if all(probe[k] for k in ("dur", "renew", "usages", "igroup"))
                                else "current" if not any(probe[k] for k in ("dur", "renew", "usages", "igroup")) else "mixed")


def check(run):
    n = 260 if run.tier == "quick" else 4000
    run.proof_obligations()
    binary = C.go_build("c20")
    out = os.path.join(C.WORK, "cases", "c20_%s.jsonl" % run.tier)
    rc, lg = C.run_harness(binary, ["-seed", str(run.seed), "-n", str(n), "-out", out, "-tier", run.tier], timeout=3000)
    if rc != 0:
        raise C.TieBroken("c20 harness failed rc=%d: %s" % (rc, lg[-1500:]))
    probe, cases = split_probe(C.read_jsonl(out))
    check_probe(run, probe)
    shard = 150
    for k in range(0, len(cases), shard):
        part = cases[k:k + shard]
        judge(run, part, evaluate(run, part, probe, "%s_%d" % (run.tier, k // shard)), probe)
    for c in cases[:2]:
        s = {"id": c["id"], "class": c["class"], "init_certs": [o["name"] + ":" + (o["owner"] or "-") for o in c["init_certs"]],
             "steps": [{"kind": st["kind"], "cm_faults": st["cm_faults"], "cm_log": ob["cm"]["log"], "cm_err": ob["cm"]["err"],
                        "dns_log": ob["dns"]["log"], "dns_err": ob["dns"]["err"]} for st, ob in zip(c["steps"], c["obs"].get("steps") or [])]}
        run.sample(s)
    run.cov["rule"] = ("one case = one history: an initial cluster (classes clean / preexisting / faults / mixed; pre-existing same-named Certificates and "
                       "DNSEndpoints with no owner, a foreign controller, a non-controller reference to the VirtualServer, or owned and drifted) and 3-8 "
                       "synchronizations of a VirtualServer that is edited in between (each cert-manager and ExternalDNS field, secret rename, host, labels, "
                       "external endpoints, feature removal, re-sync without edit, retry after a failed write, another VirtualServer / same name with a new uid), "
                       "API faults popped per write; one history in eight (class delivery, plus three fixed ones) does not call the sync functions but offers every "
                       "VirtualServer change (spec, labels, status.externalEndpoints, irrelevant status noise) and foreign deletes/edits of the derived objects to the real "
                       "event handlers with the real work queues, drained by the real worker loops (runWorker -> processItem -> SyncFnFor, real AddRateLimited / Forget / Done on the real work queue; Get returns instead of blocking and the back-off delay is skipped), including steps in which a write fails and is retried, followed by further edits; freshness / gc / idempotence are judged on the cluster object after every synchronization that returns nil.  A history is distinct by its full input and non-trivial when at least one write was issued.  Fixed witness histories of "
                       "the refutation theorems run first.")
    run.cov["trusted_base"] = TRUSTED
    run.assumptions += ["the lister reflects the cluster at the start of every synchronization (explicit hypothesis: C20_lister_reflects_cluster; established by the "
                        "harness through watch delivery and reported when the code under test breaks it); informer lag between synchronizations is not explored",
                        "owned Certificates are named after their secret (what the controller itself creates); hand-edited owned objects are only "
                        "compared with the model, the four properties are not judged on them",
                        "one namespace; a decoy pair in another namespace must stay untouched"]


def replay(run, path):
    binary = C.go_build("c20")
    out = os.path.join(C.WORK, "cases", "c20_replay.jsonl")
    rc, lg = C.run_harness(binary, ["-replay", path, "-out", out], timeout=600)
    if rc != 0:
        raise C.TieBroken("c20 harness failed on replay: %s" % lg[-1500:])
    probe, cases = split_probe(C.read_jsonl(out))
    res = evaluate(run, cases, probe, "replay")
    rows = {r[0]: r for r in res}
    for c in cases:
        print("replay case %d (class %s), certNeedsUpdate probe %s" % (c["id"], c["class"], {k: v for k, v in probe.items() if k in ("dur", "renew", "usages", "igroup")}))
        for i, (st, ob) in enumerate(zip(c["steps"], c["obs"].get("steps") or [])):
            print("  step %d %-8s vs=%s/%s faults cm=%s dns=%s impl: cm log=%s err=%r | dns log=%s err=%r | unexpected=%s | cache_mutated=%s" % (
                i, st["kind"], st["vs"]["name"], st["vs"]["uid"], st["cm_faults"], st["dns_faults"], ob["cm"]["log"], ob["cm"]["err"],
                ob["dns"]["log"], ob["dns"]["err"], ob["unexpected"], ob.get("cache_mutated")))
            if ob["cm"].get("cache") is not None or ob["dns"].get("cache") is not None:
                print("         lister cache before the step differed from the cluster: certs=%s dns=%s" % (
                    json.dumps(ob["cm"].get("cache"))[:500], json.dumps(ob["dns"].get("cache"))[:500]))
            print("         stores: certs=%s dns=%s" % (json.dumps(ob["cm"]["store"])[:600], json.dumps(ob["dns"]["store"])[:400]))
            if ob.get("delivery"):
                d = ob["delivery"]
                print("         delivery: tamper=%r vs-event=%s enqueued-by=%s derived-object-events=%d processItem=%s" % (
                    st.get("tamper", ""), d["vs_event"], d["enqueued"], d["derived_evts"], d["processed"]))
        r = rows.get(c["id"])
        if r:
            print("  model: agrees=%d (first disagreeing step %d)  spec=%d foreign-bad-step=%d cache-mutating-step=%d idem-mask=%d fresh-cert-mask=%d fresh-dns-mask=%d gc-mask=%d"
                  % (r[1], r[5], r[2], r[6], r[12], r[7], r[8], r[9], r[10]))
    judge(run, cases, res, probe)
