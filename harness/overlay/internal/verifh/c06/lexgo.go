//go:build verif

package main

import "strconv"

// A Go transcription of coq/Lex/Lexer.v (step / run), used ONLY to pre-screen and prioritise
// cases; the verdict that counts is computed by Rocq on the same bytes, and the two verdicts are
// compared on every case Rocq evaluates (a disagreement is reported as a broken tie).

const (
	qBetween = iota
	qBare
	qBareEsc
	qVar
	qDQ
	qDQEsc
	qSQ
	qSQEsc
	qComment
	qNeedSpace
	qErr
)

// structural events: ';' '{' '}' '!' (Err); TokEnd is counted separately (arity)
type lexSummary struct {
	Struct string // sequence of ; { } !
	Words  int    // number of TokEnd events
	Final  int
	// Shape: the structural events with the number of words before each, e.g. "2;1{1;}"
	Shape string
}

func isWS(c byte) bool { return c == ' ' || c == '\t' || c == '\r' || c == '\n' }

func lexRun(b []byte) lexSummary {
	q := qBetween
	st := make([]byte, 0, 256)
	sh := make([]byte, 0, 512)
	words, cur := 0, 0
	tok := func() { words++; cur++ }
	ev := func(c byte) {
		st = append(st, c)
		sh = strconv.AppendInt(sh, int64(cur), 10)
		sh = append(sh, c)
		cur = 0
	}
	bare := func(c byte) {
		switch {
		case c == '\\':
			q = qBareEsc
		case c == '$':
			q = qVar
		case isWS(c):
			tok()
			q = qBetween
		case c == ';':
			tok()
			ev(';')
			q = qBetween
		case c == '{':
			tok()
			ev('{')
			q = qBetween
		default:
			q = qBare
		}
	}
	for _, c := range b {
		switch q {
		case qErr:
		case qComment:
			if c == '\n' {
				q = qBetween
			}
		case qBareEsc:
			q = qBare
		case qDQEsc:
			q = qDQ
		case qSQEsc:
			q = qSQ
		case qNeedSpace:
			switch {
			case isWS(c):
				q = qBetween
			case c == ';':
				ev(';')
				q = qBetween
			case c == '{':
				ev('{')
				q = qBetween
			case c == ')':
				q = qBare
			default:
				ev('!')
				q = qErr
			}
		case qBetween:
			switch {
			case isWS(c):
			case c == ';':
				ev(';')
			case c == '{':
				ev('{')
			case c == '}':
				ev('}')
			case c == '#':
				q = qComment
			case c == '\\':
				q = qBareEsc
			case c == '"':
				q = qDQ
			case c == '\'':
				q = qSQ
			case c == '$':
				q = qVar
			default:
				q = qBare
			}
		case qVar:
			if c == '{' {
				q = qVar
			} else {
				bare(c)
			}
		case qBare:
			bare(c)
		case qDQ:
			switch c {
			case '\\':
				q = qDQEsc
			case '"':
				tok()
				q = qNeedSpace
			}
		case qSQ:
			switch c {
			case '\\':
				q = qSQEsc
			case '\'':
				tok()
				q = qNeedSpace
			}
		}
	}
	return lexSummary{Struct: string(st), Words: words, Final: q, Shape: string(sh)}
}

// verdict of the Go pre-screen: 0 = identical event lists, 1 = same structure, arity differs,
// 2 = structure differs
func goVerdict(real, harmless []byte) int {
	a, b := lexRun(real), lexRun(harmless)
	return summaryVerdict(&a, &b)
}

func summaryVerdict(a, b *lexSummary) int {
	if a.Struct != b.Struct || a.Final != b.Final {
		return 2
	}
	if a.Shape != b.Shape || a.Words != b.Words {
		return 1
	}
	return 0
}
