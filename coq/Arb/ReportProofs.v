(* C16 (and C05): whom the controller talks to.  For every history, every report the controller derives
   from one event (success, rejection, problem -- the transcription [reports_of_step_ev] of
   processChanges / processProblems, tied to the Events recorded by the real LoadBalancerController.sync
   by the controller-level correspondence) names an object that is, at that moment, not of a foreign
   class: it is stored (hence of the controller's class and valid), or it is the object of the event
   itself arriving with the controller's class, or it still exists with the controller's class. *)
From Coq Require Import List ZArith String Ascii Bool Lia.
From NIC Require Import Base.SMap Arb.Types Arb.Model Arb.Spec Arb.WinsProofs Arb.InvProofs Arb.OwnerProofs
     Arb.ListenerProofs Arb.ClassProofs Arb.ChangeProofs Arb.ComposeProofs Arb.Cases.
Import ListNotations.
Open Scope string_scope.
Open Scope Z_scope.

(* ---------- objects named by a key with kind ---------- *)

Definition named (o : objs) (k : string) : Prop :=
  (exists k0 i, In (k0, i) (o_ings o) /\ k = ing_rkey i) \/
  (exists k0 v, In (k0, v) (o_vss o) /\ k = vs_rkey v) \/
  (exists k0 r, In (k0, r) (o_vsrs o) /\ k = vsr_pkey r) \/
  (exists k0 t, In (k0, t) (o_tss o) /\ k = ts_rkey t).

(* everything processChanges reports for an AddOrUpdate change of this resource *)
Definition res_named (o : objs) (r : resource) : Prop :=
  named o (rkey r) /\
  match r with
  | RIng ic => forall m, In m (ic_minions ic) -> named o ("Ingress/" ++ key_of_ing (mc_ing m))
  | RVS vc => forall x, In x (vc_vsrs vc) -> m_uid (r_meta x) <> "" -> named o (vsr_pkey x)
  | RTS _ => True
  end.

Lemma build_vs_cfg_proj g v rl w : vc_vs (build_vs_cfg g v rl w) = v /\ vc_vsrs (build_vs_cfg g v rl w) = rl.
Proof.
  unfold build_vs_cfg. destruct (v_listener v) as [[a b]|]; [destruct g|]; cbn;
    repeat match goal with |- context [assign ?x ?y ?z] => destruct (assign x y z) as [[? ?] ?] end; auto.
Qed.

Section Build.
  Variables (c : cfg) (is_ : smap ingress) (vs_ : smap vserver) (rs : smap vsroute) (ts_ : smap tserver)
            (g : option (list listener)).
  Let o := mkObjs is_ vs_ rs ts_ g.

  Lemma b_res_in_named k r : In (k, r) (b_res (build c is_ vs_ rs ts_ g)) -> rkey r = k /\ res_named o r.
  Proof.
    intros Hin.
    assert (Hl : lookup k (b_res (build c is_ vs_ rs ts_ g)) = Some r).
    { apply In_lookup; [|exact Hin]. unfold build.
      destruct (run_claims host_warning [] (all_claims c is_ vs_ ts_)) as [hs claim_ws]. cbn [b_res]. apply wf_of_list. }
    split; [apply (b_res_key _ _ _ _ _ _ _ _ Hl)|]. clear Hin.
    unfold build in Hl. destruct (run_claims host_warning [] (all_claims c is_ vs_ ts_)) as [hs claim_ws].
    cbn [b_res] in Hl. apply of_list_lookup_in in Hl.
    apply in_app_or in Hl. destruct Hl as [H|H]; [|apply in_app_or in H; destruct H as [H|H]].
    - apply in_filter_map in H. destruct H as ([k0 i] & Hi & Hf). cbn [snd] in Hf.
      destruct (ing_claims_hosts c vs_ i); [|discriminate].
      destruct (is_master i) eqn:Hm.
      + destruct (build_minions is_ (host0 i)) as [mins cw] eqn:Hb. inversion Hf; subst. split.
        * left. exists k0, i. split; [exact Hi|reflexivity].
        * cbn [ic_minions]. intros m Hmin.
          assert (Hmo : In (mc_ing m) (minions_of is_ (host0 i))).
          { rewrite <- build_minions_list. rewrite Hb. cbn [fst]. apply in_map. exact Hmin. }
          apply minions_of_exact in Hmo. destruct Hmo as (k1 & Hk1 & _). left. exists k1, (mc_ing m). split; [exact Hk1|reflexivity].
      + inversion Hf; subst. split.
        * left. exists k0, i. split; [exact Hi|reflexivity].
        * cbn [ic_minions]. intros m [].
    - apply in_map_iff in H. destruct H as ([k0 v] & Hf & Hv). cbn [snd] in Hf.
      destruct (build_vsrs rs v (v_routes v)) as [rl w] eqn:Hb.
      destruct (build_vs_cfg_proj g v (rl +++ filter (fun r0 => String.eqb (v_host v) (r_host r0)) (challenge_vsrs c vs_ is_)) w) as [P1 P2].
      inversion Hf; subst. rewrite P1, P2. split.
      + right; left. exists k0, v. split; [exact Hv|reflexivity].
      + cbn [vc_vsrs]. intros x Hx Huid. apply in_app_or in Hx. destruct Hx as [Hx|Hx].
        * assert (Hx' : In x (fst (build_vsrs rs v (v_routes v)))) by (rewrite Hb; exact Hx).
          apply vsrs_exact in Hx'. destruct Hx' as (p & q & _ & _ & Hlk & _). apply lookup_In in Hlk.
          right; right; left. exists (route_key v q), x. split; [exact Hlk|reflexivity].
        * apply filter_In in Hx. destruct Hx as [Hx _]. unfold challenge_vsrs in Hx. apply in_filter_map in Hx.
          destruct Hx as ([k1 i] & _ & Hf1). cbn [snd] in Hf1.
          destruct (negb (is_minion i) && converted c vs_ i); [|discriminate]. inversion Hf1; subst.
          exfalso. apply Huid. reflexivity.
    - destruct (tls_passthrough c); [|destruct H].
      apply in_filter_map in H. destruct H as ([k0 t] & Ht & Hf). cbn [snd] in Hf.
      destruct (is_passthrough t); inversion Hf; subst. split; [|exact I].
      right; right; right. exists k0, t. split; [exact Ht|reflexivity].
  Qed.

  Lemma b_hosts_value h r : lookup h (b_hosts (build c is_ vs_ rs ts_ g)) = Some r ->
                            exists k, In (k, r) (b_res (build c is_ vs_ rs ts_ g)).
  Proof.
    rewrite b_hosts_lookup. destruct (lookup h (holders (all_claims c is_ vs_ ts_))) as [y|]; [|discriminate].
    intros H. exists (fst y). apply lookup_In. exact H.
  Qed.
End Build.

(* ---------- the change pipeline keeps the resources it was given ---------- *)

Lemma create_changes_upd rk removed updated added old new ch :
  In ch (create_changes rk removed updated added old new) -> c_op ch = AddOrUpdate ->
  exists h, lookup h new = Some (c_res ch).
Proof.
  unfold create_changes. intros Hin Hop.
  apply in_app_or in Hin. destruct Hin as [Hin|Hin]; apply in_app_or in Hin; destruct Hin as [Hin|Hin];
    apply in_filter_map in Hin; destruct Hin as (h & _ & Hf).
  - destruct (lookup h old); inversion Hf; subst; discriminate.
  - destruct (lookup h old) as [o0|]; [|discriminate]. destruct (lookup h new) as [n0|]; [|discriminate].
    destruct (negb (String.eqb (rk o0) (rk n0))); inversion Hf; subst; discriminate.
  - destruct (lookup h new) as [r|] eqn:Hl; inversion Hf; subst. exists h. exact Hl.
  - destruct (lookup h new) as [r|] eqn:Hl; inversion Hf; subst. exists h. exact Hl.
Qed.

Lemma squash_go_in all_ : forall cs seen ds us,
  squash_go all_ cs seen = (ds, us) -> forall ch, In ch ds \/ In ch us -> In ch all_.
Proof.
  induction cs as [|c0 r IH]; intros seen ds us H ch Hin; cbn [squash_go] in H.
  - inversion H; subst. destruct Hin as [[]|[]].
  - destruct (existsb (String.eqb (rkey (c_res c0))) seen); [exact (IH _ _ _ H ch Hin)|].
    destruct (squash_go all_ r (rkey (c_res c0) :: seen)) as [ds0 us0] eqn:Hr.
    destruct (last_change_for (rkey (c_res c0)) all_ None) as [s|] eqn:Hl.
    + apply last_change_for_some in Hl. destruct Hl as [Hl|Hl]; [|discriminate].
      destruct (c_op s); inversion H; subst.
      * destruct Hin as [[<-|Hin]|Hin]; [exact Hl| |]; apply (IH _ _ _ Hr ch); auto.
      * destruct Hin as [Hin|[<-|Hin]]; [|exact Hl|]; apply (IH _ _ _ Hr ch); auto.
    + inversion H; subst. exact (IH _ _ _ Hr ch Hin).
Qed.

Lemma squash_in cs ch : In ch (squash cs) -> In ch cs.
Proof.
  unfold squash. destruct (squash_go cs cs []) as [ds us] eqn:H. intros Hin.
  apply in_app_or in Hin. exact (squash_go_in _ _ _ _ _ H ch Hin).
Qed.

Lemma repoint_in res cs ch :
  In ch (repoint res cs) ->
  exists c0, In c0 cs /\ c_op ch = c_op c0 /\
             (c_res ch = c_res c0 \/ exists k, In (k, c_res ch) res).
Proof.
  unfold repoint. intros Hin. apply in_map_iff in Hin. destruct Hin as (c0 & Heq & Hc0). exists c0.
  split; [exact Hc0|]. destruct (lookup (rkey (c_res c0)) res) as [r|] eqn:Hl; subst ch; cbn.
  - split; [reflexivity|]. right. exists (rkey (c_res c0)). apply lookup_In. exact Hl.
  - split; [reflexivity|]. left; reflexivity.
Qed.

(* ---------- rebuildHosts ---------- *)

Lemma wf_b_res c is_ vs_ rs ts_ g : wf (b_res (build c is_ vs_ rs ts_ g)).
Proof.
  unfold build. destruct (run_claims host_warning [] (all_claims c is_ vs_ ts_)) as [hs claim_ws]. cbn [b_res]. apply wf_of_list.
Qed.

Definition changes_named (o : objs) (cs : list change) : Prop :=
  forall ch, In ch cs -> c_op ch = AddOrUpdate -> res_named o (c_res ch).
Definition problems_named (o : objs) (ps : list problem) : Prop :=
  forall p, In p ps -> named o (p_obj p).

Lemma rebuild_hosts_named c s :
  changes_named (objs_of_state s) (snd (fst (rebuild_hosts c s))) /\
  problems_named (objs_of_state s) (snd (rebuild_hosts c s)).
Proof.
  unfold rebuild_hosts. cbn [fst snd]. split.
  - intros ch Hin Hop. apply repoint_in in Hin. destruct Hin as (c0 & Hc0 & Hop0 & Hres).
    destruct Hres as [Hres|(k & Hk)].
    + rewrite Hres. apply squash_in in Hc0. rewrite Hop in Hop0. symmetry in Hop0.
      destruct (create_changes_upd _ _ _ _ _ _ _ Hc0 Hop0) as (h & Hh).
      apply b_hosts_value in Hh. destruct Hh as (k & Hk).
      apply (b_res_in_named c (ings s) (vss s) (vsrs s) (tss s) (gc s)) in Hk. exact (proj2 Hk).
    + apply (b_res_in_named c (ings s) (vss s) (vsrs s) (tss s) (gc s)) in Hk. exact (proj2 Hk).
  - intros p Hin. apply in_problem_delta in Hin. destruct Hin as (k & Hin & _).
    apply In_lookup in Hin; [|apply wf_of_list]. apply of_list_lookup_in in Hin.
    apply in_app_or in Hin. destruct Hin as [Hin|Hin]; [|apply in_app_or in Hin; destruct Hin as [Hin|Hin]].
    + unfold problems_no_host in Hin. apply in_filter_map in Hin. destruct Hin as ([k0 r] & Hr & Hf). cbn [fst snd] in Hf.
      apply (b_res_in_named c (ings s) (vss s) (vsrs s) (tss s) (gc s)) in Hr. destruct Hr as [Hk [Hn _]].
      assert (Hp : p_obj p = k0).
      { destruct r as [ic|vc|tc].
        - destruct (negb (any_true (ic_valid_hosts ic))); inversion Hf; subst; reflexivity.
        - destruct (negb (String.eqb (holder_key _ (v_host (vc_vs vc))) k0)); inversion Hf; subst; reflexivity.
        - destruct (negb (String.eqb (holder_key _ (t_host (tc_ts tc))) k0)); inversion Hf; subst; reflexivity. }
      rewrite Hp, <- Hk. exact Hn.
    + unfold problems_orphan_minions in Hin. apply in_filter_map in Hin. destruct Hin as ([k0 i] & Hi & Hf). cbn [snd] in Hf.
      destruct (is_minion i); [|discriminate].
      match type of Hf with (if ?b then _ else _) = _ => destruct b end; inversion Hf; subst. cbn [p_obj].
      left. exists k0, i. split; [exact Hi|reflexivity].
    + unfold problems_vsrs in Hin. apply in_filter_map in Hin. destruct Hin as ([k0 r] & Hr & Hf). cbn [snd] in Hf.
      assert (Hp : p_obj p = vsr_pkey r).
      { destruct (lookup (r_host r) _) as [[ic|vc|tc]|]; try (inversion Hf; subst; reflexivity).
        match type of Hf with (if ?b then _ else _) = _ => destruct b end; inversion Hf; subst; reflexivity. }
      rewrite Hp. right; right; left. exists k0, r. split; [exact Hr|reflexivity].
Qed.

(* ---------- rebuildListenerHosts ---------- *)

Lemma lb_cfgs_named g tss_ tc : In tc (lb_cfgs (build_listeners g tss_)) -> exists k0, In (k0, tc_ts tc) tss_.
Proof.
  unfold build_listeners. destruct (run_claims lwarning [] (lclaims g tss_)) as [hs ws]. cbn [lb_cfgs].
  intros H. apply in_filter_map in H. destruct H as ([k0 t] & Ht & Hf). cbn [snd] in Hf.
  destruct (is_listener_ts t); [|discriminate]. exists k0.
  destruct (ts_listener g t); inversion Hf; subst; exact Ht.
Qed.

Lemma lb_hosts_named g tss_ h tc : In (h, tc) (lb_hosts (build_listeners g tss_)) -> exists k0, In (k0, tc_ts tc) tss_.
Proof.
  intros H. assert (Hc : In tc (lb_cfgs (build_listeners g tss_))).
  { unfold build_listeners in *. destruct (run_claims lwarning [] (lclaims g tss_)) as [hs ws]. cbn [lb_hosts lb_cfgs] in *.
    apply in_filter_map in H. destruct H as ([h0 y] & _ & Hf). cbn [fst snd] in Hf.
    match type of Hf with match lookup ?a ?b with _ => _ end = _ => destruct (lookup a b) as [c0|] eqn:Hl end; [|discriminate].
    inversion Hf; subst. apply of_list_lookup_in in Hl. apply in_map_iff in Hl. destruct Hl as (c1 & Heq & Hc1).
    inversion Heq; subst. exact Hc1. }
  exact (lb_cfgs_named _ _ _ Hc).
Qed.

Lemma rebuild_listeners_named s :
  changes_named (objs_of_state s) (snd (fst (rebuild_listeners s))) /\
  problems_named (objs_of_state s) (snd (rebuild_listeners s)).
Proof.
  unfold rebuild_listeners. cbn [fst snd]. split.
  - intros ch Hin Hop. apply squash_in in Hin.
    destruct (create_changes_upd _ _ _ _ _ _ _ Hin Hop) as (h & Hh).
    apply lookup_In in Hh. unfold smap_map in Hh. apply in_map_iff in Hh. destruct Hh as ([h0 tc] & Heq & Htc).
    cbn [fst snd] in Heq. assert (Hr : c_res ch = RTS tc) by congruence. rewrite Hr.
    apply lb_hosts_named in Htc. destruct Htc as (k0 & Hk0). split; [|exact I].
    right; right; right. exists k0, (tc_ts tc). split; [exact Hk0|reflexivity].
  - intros p Hin. apply in_problem_delta in Hin. destruct Hin as (k & Hin & _).
    apply In_lookup in Hin; [|apply wf_of_list]. apply of_list_lookup_in in Hin.
    unfold listener_problems in Hin. apply in_filter_map in Hin. destruct Hin as (tc & Htc & Hf).
    apply lb_cfgs_named in Htc. destruct Htc as (k0 & Hk0).
    assert (Hp : p_obj p = ts_rkey (tc_ts tc)).
    { destruct (lookup (lkey (t_lname (tc_ts tc)) (t_host (tc_ts tc))) _) as [holder|].
      - destruct (negb (ts_is_equal tc holder)); inversion Hf; subst; reflexivity.
      - inversion Hf; subst; reflexivity. }
    rewrite Hp. right; right; right. exists k0, (tc_ts tc). split; [exact Hk0|reflexivity].
Qed.

Lemma changes_named_app o a b : changes_named o a -> changes_named o b -> changes_named o (a +++ b).
Proof. intros Ha Hb ch Hin. apply in_app_or in Hin. destruct Hin; auto. Qed.
Lemma problems_named_app o a b : problems_named o a -> problems_named o b -> problems_named o (a +++ b).
Proof. intros Ha Hb p Hin. apply in_app_or in Hin. destruct Hin; auto. Qed.
Lemma changes_named_odf o cs : changes_named o cs -> changes_named o (order_deletes_first cs).
Proof.
  intros H ch Hin. unfold order_deletes_first in Hin. apply in_app_or in Hin.
  destruct Hin as [Hin|Hin]; apply filter_In in Hin; apply H; tauto.
Qed.

Lemma rebuild_ts_named c s :
  changes_named (objs_of_state s) (snd (fst (rebuild_ts c s))) /\
  problems_named (objs_of_state s) (snd (rebuild_ts c s)).
Proof.
  unfold rebuild_ts. pose proof (rebuild_listeners_named s) as [Hc1 Hp1]. pose proof (objs_rebuild_listeners s) as Ho.
  destruct (rebuild_listeners s) as [[s1 c1] p1]. cbn [fst snd] in *.
  destruct (tls_passthrough c); [|split; assumption].
  pose proof (rebuild_hosts_named c s1) as [Hc2 Hp2]. rewrite Ho in Hc2, Hp2.
  destruct (rebuild_hosts c s1) as [[s2 c2] p2]. cbn [fst snd] in *. split.
  - apply changes_named_odf. apply changes_named_app; assumption.
  - apply problems_named_app; assumption.
Qed.

Lemma rebuild_gc_named c s :
  changes_named (objs_of_state s) (snd (fst (rebuild_gc c s))) /\
  problems_named (objs_of_state s) (snd (rebuild_gc c s)).
Proof.
  unfold rebuild_gc. pose proof (rebuild_listeners_named s) as [Hc1 Hp1]. pose proof (objs_rebuild_listeners s) as Ho.
  destruct (rebuild_listeners s) as [[s1 c1] p1]. cbn [fst snd] in *.
  pose proof (rebuild_hosts_named c s1) as [Hc2 Hp2]. rewrite Ho in Hc2, Hp2.
  destruct (rebuild_hosts c s1) as [[s2 c2] p2]. cbn [fst snd] in *. split.
  - apply changes_named_odf. apply changes_named_app; assumption.
  - apply problems_named_app; assumption.
Qed.

(* ---------- one event ---------- *)

Lemma attach_error_in k : forall cs cs' ch, attach_error k cs = Some cs' -> In ch cs' ->
  exists c0, In c0 cs /\ c_op ch = c_op c0 /\ c_res ch = c_res c0.
Proof.
  induction cs as [|c0 r IH]; intros cs' ch H Hin; cbn [attach_error] in H; [discriminate|].
  destruct (String.eqb (rkey (c_res c0)) k).
  - inversion H; subst. destruct Hin as [Heq|Hin].
    + exists c0. subst ch. cbn. auto.
    + exists ch. cbn. auto.
  - destruct (attach_error k r) as [r'|] eqn:Hr; [|discriminate]. inversion H; subst.
    destruct Hin as [Heq|Hin].
    + exists c0. subst ch. cbn. auto.
    + destruct (IH _ _ eq_refl Hin) as (c1 & Hc1 & Hx). exists c1. cbn; auto.
Qed.

(* the object an event is about, when it arrives with the controller's class *)
Definition own_event (e : event) (k : string) : Prop := event_obj e = Some (k, true).

Lemma wve_named o b k u out :
  changes_named o (snd (fst out)) -> problems_named o (snd out) ->
  changes_named o (snd (fst (with_validation_error b k u out))) /\
  (forall p, In p (snd (with_validation_error b k u out)) -> named o (p_obj p) \/ (b = true /\ p_obj p = k)).
Proof.
  destruct out as [[s cs] ps]. cbn [fst snd]. intros Hc Hp. unfold with_validation_error.
  destruct b; [|cbn [fst snd]; split; [exact Hc|intros p Hin; left; exact (Hp p Hin)]].
  destruct (attach_error k cs) as [cs'|] eqn:Ha; cbn [fst snd].
  - split; [|intros p Hin; left; exact (Hp p Hin)].
    intros ch Hin Hop. destruct (attach_error_in _ _ _ _ Ha Hin) as (c0 & Hc0 & Ho & Hr). rewrite Hr. apply Hc; congruence.
  - split; [exact Hc|]. intros p Hin. apply in_app_or in Hin. destruct Hin as [Hin|[<-|[]]]; [left; exact (Hp p Hin)|right; auto].
Qed.

(* what one event makes the controller say, and about whom *)
Definition step_named (c : cfg) (s : state) (e : event) : Prop :=
  let '(s', cs, ps) := step c s e in
  changes_named (objs_of_state s') cs /\
  forall p, In p ps -> named (objs_of_state s') (p_obj p) \/ own_event e (p_obj p).

Lemma nothing_named o : changes_named o [] /\ forall p, In p (@nil problem) -> named o (p_obj p) \/ False.
Proof. split; [intros ch []|intros p []]. Qed.

Lemma step_is_named c s e : step_named c s e.
Proof.
  unfold step_named. destruct e as [i cls valid|k|v cls valid|k|r cls valid|k|t cls valid|k|ls x|]; cbn [step].
  - set (s1 := set_ings s _).
    pose proof (rebuild_hosts_named c s1) as [Hc Hp]. pose proof (objs_rebuild_hosts c s1) as Ho.
    pose proof (objs_with_error (cls && negb valid) (ing_rkey i) (m_uid (i_meta i)) (rebuild_hosts c s1)) as Hw.
    pose proof (wve_named (objs_of_state s1) (cls && negb valid) (ing_rkey i) (m_uid (i_meta i)) (rebuild_hosts c s1) Hc Hp) as [Hc' Hp'].
    destruct (with_validation_error (cls && negb valid) (ing_rkey i) (m_uid (i_meta i)) (rebuild_hosts c s1)) as [[s' cs] ps]. cbn [fst snd] in *.
    rewrite Hw, Ho. split; [exact Hc'|]. intros p Hin. destruct (Hp' p Hin) as [H|[Hb Hk]]; [left; exact H|right].
    apply andb_true_iff in Hb. destruct Hb as [Hcls _]. subst cls. unfold own_event. cbn. rewrite Hk. reflexivity.
  - destruct (mem k (ings s)); [|split; [intros ch []|intros p []]].
    set (s1 := set_ings s _). pose proof (rebuild_hosts_named c s1) as [Hc Hp]. pose proof (objs_rebuild_hosts c s1) as Ho.
    destruct (rebuild_hosts c s1) as [[s' cs] ps]. cbn [fst snd] in *. rewrite Ho. split; [exact Hc|intros p Hin; left; exact (Hp p Hin)].
  - set (s1 := set_vss s _).
    pose proof (rebuild_hosts_named c s1) as [Hc Hp]. pose proof (objs_rebuild_hosts c s1) as Ho.
    pose proof (objs_with_error (cls && negb valid) (vs_rkey v) (m_uid (v_meta v)) (rebuild_hosts c s1)) as Hw.
    pose proof (wve_named (objs_of_state s1) (cls && negb valid) (vs_rkey v) (m_uid (v_meta v)) (rebuild_hosts c s1) Hc Hp) as [Hc' Hp'].
    destruct (with_validation_error (cls && negb valid) (vs_rkey v) (m_uid (v_meta v)) (rebuild_hosts c s1)) as [[s' cs] ps]. cbn [fst snd] in *.
    rewrite Hw, Ho. split; [exact Hc'|]. intros p Hin. destruct (Hp' p Hin) as [H|[Hb Hk]]; [left; exact H|right].
    apply andb_true_iff in Hb. destruct Hb as [Hcls _]. subst cls. unfold own_event. cbn. rewrite Hk. reflexivity.
  - destruct (mem k (vss s)); [|split; [intros ch []|intros p []]].
    set (s1 := set_vss s _). pose proof (rebuild_hosts_named c s1) as [Hc Hp]. pose proof (objs_rebuild_hosts c s1) as Ho.
    destruct (rebuild_hosts c s1) as [[s' cs] ps]. cbn [fst snd] in *. rewrite Ho. split; [exact Hc|intros p Hin; left; exact (Hp p Hin)].
  - set (s1 := set_vsrs s _).
    pose proof (rebuild_hosts_named c s1) as [Hc Hp]. pose proof (objs_rebuild_hosts c s1) as Ho.
    destruct (rebuild_hosts c s1) as [[s' cs] ps]. cbn [fst snd] in *. rewrite Ho. split; [exact Hc|].
    intros p Hin. destruct (cls && negb valid) eqn:Hb; [|left; exact (Hp p Hin)].
    apply in_app_or in Hin. destruct Hin as [Hin|[<-|[]]]; [left; exact (Hp p Hin)|right].
    apply andb_true_iff in Hb. destruct Hb as [Hcls _]. subst cls. reflexivity.
  - destruct (mem k (vsrs s)); [|split; [intros ch []|intros p []]].
    set (s1 := set_vsrs s _). pose proof (rebuild_hosts_named c s1) as [Hc Hp]. pose proof (objs_rebuild_hosts c s1) as Ho.
    destruct (rebuild_hosts c s1) as [[s' cs] ps]. cbn [fst snd] in *. rewrite Ho. split; [exact Hc|intros p Hin; left; exact (Hp p Hin)].
  - set (s1 := set_tss s _).
    pose proof (rebuild_ts_named c s1) as [Hc Hp]. pose proof (objs_rebuild_ts c s1) as Ho.
    pose proof (objs_with_error (cls && negb valid) (ts_rkey t) (m_uid (t_meta t)) (rebuild_ts c s1)) as Hw.
    pose proof (wve_named (objs_of_state s1) (cls && negb valid) (ts_rkey t) (m_uid (t_meta t)) (rebuild_ts c s1) Hc Hp) as [Hc' Hp'].
    destruct (with_validation_error (cls && negb valid) (ts_rkey t) (m_uid (t_meta t)) (rebuild_ts c s1)) as [[s' cs] ps]. cbn [fst snd] in *.
    rewrite Hw, Ho. split; [exact Hc'|]. intros p Hin. destruct (Hp' p Hin) as [H|[Hb Hk]]; [left; exact H|right].
    apply andb_true_iff in Hb. destruct Hb as [Hcls _]. subst cls. unfold own_event. cbn. rewrite Hk. reflexivity.
  - destruct (mem k (tss s)); [|split; [intros ch []|intros p []]].
    set (s1 := set_tss s _). pose proof (rebuild_ts_named c s1) as [Hc Hp]. pose proof (objs_rebuild_ts c s1) as Ho.
    destruct (rebuild_ts c s1) as [[s' cs] ps]. cbn [fst snd] in *. rewrite Ho. split; [exact Hc|intros p Hin; left; exact (Hp p Hin)].
  - set (s1 := set_gc s _). pose proof (rebuild_gc_named c s1) as [Hc Hp]. pose proof (objs_rebuild_gc c s1) as Ho.
    destruct (rebuild_gc c s1) as [[s' cs] ps]. cbn [fst snd] in *. rewrite Ho. split; [exact Hc|intros p Hin; left; exact (Hp p Hin)].
  - set (s1 := set_gc s _). pose proof (rebuild_gc_named c s1) as [Hc Hp]. pose proof (objs_rebuild_gc c s1) as Ho.
    destruct (rebuild_gc c s1) as [[s' cs] ps]. cbn [fst snd] in *. rewrite Ho. split; [exact Hc|intros p Hin; left; exact (Hp p Hin)].
Qed.

(* ---------- the cluster as the informers see it, and the stored objects ---------- *)

Definition cluster (es : list event) : smap event := fold_left cluster_apply es [].

(* every stored object is the most recent version in the cluster and arrived with the controller's class *)
Definition stored_own (cl : smap event) (o : objs) : Prop :=
  (forall k i, lookup k (o_ings o) = Some i -> lookup ("Ingress/" ++ k) cl = Some (EIng i true true)) /\
  (forall k v, lookup k (o_vss o) = Some v -> lookup ("VirtualServer/" ++ k) cl = Some (EVS v true true)) /\
  (forall k r, lookup k (o_vsrs o) = Some r -> lookup ("VirtualServerRoute/" ++ k) cl = Some (EVSR r true true)) /\
  (forall k t, lookup k (o_tss o) = Some t -> lookup ("TransportServer/" ++ k) cl = Some (ETS t true true)).

Ltac kinds_differ :=
  let H := fresh in intros H; cbn in H; repeat (injection H as H; try discriminate); try discriminate.

Lemma lookup_upd_some {A} b k (v : A) m k2 v2 : wf m ->
  lookup k2 (upd b k v m) = Some v2 -> (k2 = k /\ b = true /\ v2 = v) \/ (k2 <> k /\ lookup k2 m = Some v2).
Proof.
  intros W H. unfold upd in H. destruct (string_dec k2 k) as [->|Hne].
  - destruct b; [rewrite lookup_insert_eq in H; inversion H; auto|rewrite lookup_remove_eq in H; [discriminate|exact W]].
  - right. split; [exact Hne|]. destruct b; [rewrite lookup_insert_neq in H|rewrite lookup_remove_neq in H]; auto.
Qed.

Lemma lookup_remove_some {A} k (m : smap A) k2 v2 : wf m ->
  lookup k2 (remove k m) = Some v2 -> k2 <> k /\ lookup k2 m = Some v2.
Proof.
  intros W H. destruct (string_dec k2 k) as [->|Hne]; [rewrite lookup_remove_eq in H; [discriminate|exact W]|].
  split; [exact Hne|]. rewrite lookup_remove_neq in H; auto.
Qed.

Lemma pre_neq (p a b : string) : a <> b -> (p ++ a)%string <> (p ++ b)%string.
Proof. intros H E. apply H. exact (append_inj_l _ _ _ E). Qed.

Lemma stored_own_event cl o e : objs_ok o -> stored_own cl o -> stored_own (cluster_apply cl e) (apply_event o e).
Proof.
  intros (W1 & W2 & W3 & W4 & _) (S1 & S2 & S3 & S4).
  destruct e as [i cls valid|k|v cls valid|k|r cls valid|k|t cls valid|k|ls x|];
    cbn [cluster_apply apply_event]; unfold stored_own; cbn [o_ings o_vss o_vsrs o_tss];
    unfold ing_rkey, vs_rkey, vsr_pkey, ts_rkey.
  - repeat split.
    + intros k2 j H. apply lookup_upd_some in H; [|exact W1]. destruct H as [(-> & Hb & ->)|(Hne & H)].
      * apply andb_true_iff in Hb. destruct Hb as [-> ->]. apply lookup_insert_eq.
      * rewrite lookup_insert_neq; [apply S1; exact H|apply pre_neq; exact Hne].
    + intros k2 j H. rewrite lookup_insert_neq; [apply S2; exact H|kinds_differ].
    + intros k2 j H. rewrite lookup_insert_neq; [apply S3; exact H|kinds_differ].
    + intros k2 j H. rewrite lookup_insert_neq; [apply S4; exact H|kinds_differ].
  - repeat split.
    + intros k2 j H. apply lookup_remove_some in H; [|exact W1]. destruct H as [Hne H].
      rewrite lookup_remove_neq; [apply S1; exact H|apply pre_neq; exact Hne].
    + intros k2 j H. rewrite lookup_remove_neq; [apply S2; exact H|kinds_differ].
    + intros k2 j H. rewrite lookup_remove_neq; [apply S3; exact H|kinds_differ].
    + intros k2 j H. rewrite lookup_remove_neq; [apply S4; exact H|kinds_differ].
  - repeat split.
    + intros k2 j H. rewrite lookup_insert_neq; [apply S1; exact H|kinds_differ].
    + intros k2 j H. apply lookup_upd_some in H; [|exact W2]. destruct H as [(-> & Hb & ->)|(Hne & H)].
      * apply andb_true_iff in Hb. destruct Hb as [-> ->]. apply lookup_insert_eq.
      * rewrite lookup_insert_neq; [apply S2; exact H|apply pre_neq; exact Hne].
    + intros k2 j H. rewrite lookup_insert_neq; [apply S3; exact H|kinds_differ].
    + intros k2 j H. rewrite lookup_insert_neq; [apply S4; exact H|kinds_differ].
  - repeat split.
    + intros k2 j H. rewrite lookup_remove_neq; [apply S1; exact H|kinds_differ].
    + intros k2 j H. apply lookup_remove_some in H; [|exact W2]. destruct H as [Hne H].
      rewrite lookup_remove_neq; [apply S2; exact H|apply pre_neq; exact Hne].
    + intros k2 j H. rewrite lookup_remove_neq; [apply S3; exact H|kinds_differ].
    + intros k2 j H. rewrite lookup_remove_neq; [apply S4; exact H|kinds_differ].
  - repeat split.
    + intros k2 j H. rewrite lookup_insert_neq; [apply S1; exact H|kinds_differ].
    + intros k2 j H. rewrite lookup_insert_neq; [apply S2; exact H|kinds_differ].
    + intros k2 j H. apply lookup_upd_some in H; [|exact W3]. destruct H as [(-> & Hb & ->)|(Hne & H)].
      * apply andb_true_iff in Hb. destruct Hb as [-> ->]. apply lookup_insert_eq.
      * rewrite lookup_insert_neq; [apply S3; exact H|apply pre_neq; exact Hne].
    + intros k2 j H. rewrite lookup_insert_neq; [apply S4; exact H|kinds_differ].
  - repeat split.
    + intros k2 j H. rewrite lookup_remove_neq; [apply S1; exact H|kinds_differ].
    + intros k2 j H. rewrite lookup_remove_neq; [apply S2; exact H|kinds_differ].
    + intros k2 j H. apply lookup_remove_some in H; [|exact W3]. destruct H as [Hne H].
      rewrite lookup_remove_neq; [apply S3; exact H|apply pre_neq; exact Hne].
    + intros k2 j H. rewrite lookup_remove_neq; [apply S4; exact H|kinds_differ].
  - repeat split.
    + intros k2 j H. rewrite lookup_insert_neq; [apply S1; exact H|kinds_differ].
    + intros k2 j H. rewrite lookup_insert_neq; [apply S2; exact H|kinds_differ].
    + intros k2 j H. rewrite lookup_insert_neq; [apply S3; exact H|kinds_differ].
    + intros k2 j H. apply lookup_upd_some in H; [|exact W4]. destruct H as [(-> & Hb & ->)|(Hne & H)].
      * apply andb_true_iff in Hb. destruct Hb as [-> ->]. apply lookup_insert_eq.
      * rewrite lookup_insert_neq; [apply S4; exact H|apply pre_neq; exact Hne].
  - repeat split.
    + intros k2 j H. rewrite lookup_remove_neq; [apply S1; exact H|kinds_differ].
    + intros k2 j H. rewrite lookup_remove_neq; [apply S2; exact H|kinds_differ].
    + intros k2 j H. rewrite lookup_remove_neq; [apply S3; exact H|kinds_differ].
    + intros k2 j H. apply lookup_remove_some in H; [|exact W4]. destruct H as [Hne H].
      rewrite lookup_remove_neq; [apply S4; exact H|apply pre_neq; exact Hne].
  - repeat split; assumption.
  - repeat split; assumption.
Qed.

Lemma stored_own_after : forall es cl o, objs_ok o -> stored_own cl o ->
  stored_own (fold_left cluster_apply es cl) (fold_left apply_event es o).
Proof.
  induction es as [|e r IH]; intros cl o Hok Hs; cbn [fold_left]; [exact Hs|].
  apply IH; [apply objs_ok_event; exact Hok|apply stored_own_event; assumption].
Qed.

Theorem stored_objects_are_own es : stored_own (cluster es) (objs_after es).
Proof.
  apply stored_own_after.
  - unfold objs_ok, objs0; cbn. repeat split; try constructor; intros ? ? [].
  - unfold stored_own, objs0; cbn. repeat split; intros; discriminate.
Qed.

(* a named object is not of a foreign class *)
Lemma named_not_foreign cl o k : objs_ok o -> stored_own cl o -> named o k -> foreign_in_cluster cl k = false.
Proof.
  intros (W1 & W2 & W3 & W4 & K1 & K2 & K3 & K4) (S1 & S2 & S3 & S4) [H|[H|[H|H]]];
    destruct H as (k0 & x & Hin & ->); unfold foreign_in_cluster.
  - pose proof (K1 _ _ Hin) as Hk. apply In_lookup in Hin; [|exact W1]. apply S1 in Hin. subst k0.
    unfold ing_rkey. rewrite Hin. reflexivity.
  - pose proof (K2 _ _ Hin) as Hk. apply In_lookup in Hin; [|exact W2]. apply S2 in Hin. subst k0.
    unfold vs_rkey. rewrite Hin. reflexivity.
  - pose proof (K3 _ _ Hin) as Hk. apply In_lookup in Hin; [|exact W3]. apply S3 in Hin. subst k0.
    unfold vsr_pkey. rewrite Hin. reflexivity.
  - pose proof (K4 _ _ Hin) as Hk. apply In_lookup in Hin; [|exact W4]. apply S4 in Hin. subst k0.
    unfold ts_rkey. rewrite Hin. reflexivity.
Qed.

Lemma own_event_not_foreign cl e k : own_event e k -> foreign_in_cluster (cluster_apply cl e) k = false.
Proof.
  unfold own_event, foreign_in_cluster.
  destruct e as [i cls valid|k1|v cls valid|k1|r cls valid|k1|t cls valid|k1|ls x|]; cbn [event_obj cluster_apply]; intros H;
    try discriminate; inversion H; subst; rewrite lookup_insert_eq; reflexivity.
Qed.

Lemma own_in_cluster_not_foreign cl k : own_in_cluster cl k = true -> foreign_in_cluster cl k = false.
Proof.
  unfold own_in_cluster, foreign_in_cluster. destruct (lookup k cl) as [e|]; [|reflexivity].
  destruct (event_obj e) as [[k1 cls]|]; [|reflexivity]. intros ->. reflexivity.
Qed.

(* ---------- the theorem ---------- *)

(* the reports the controller derives from one event, in the state the history has led to *)
Definition step_reports (c : cfg) (es : list event) (e : event) : list (string * report) :=
  let '(s', cs, ps) := step c (run c es) e in
  reports_of_step_ev e (own_in_cluster (cluster (es ++ [e]))) (mkObs cs ps [] [] []).

Lemma reports_of_change_named o inc ch k r :
  (c_op ch = AddOrUpdate -> res_named o (c_res ch)) ->
  In (k, r) (reports_of_change inc ch) -> named o k \/ inc k = true.
Proof.
  intros Hn Hin. unfold reports_of_change in Hin. destruct (c_op ch) eqn:Hop.
  - destruct (inc (rkey (c_res ch)) && (c_err ch || nonempty (res_warnings (c_res ch)))) eqn:Hb; [|destruct Hin].
    destruct Hin as [Heq|[]]. inversion Heq; subst. right. apply andb_true_iff in Hb. tauto.
  - destruct (Hn eq_refl) as [Hk Hrest]. destruct Hin as [Heq|Hin]; [inversion Heq; subst; left; exact Hk|].
    destruct (c_res ch) as [ic|vc|tc].
    + apply in_map_iff in Hin. destruct Hin as (m & Heq & Hm). inversion Heq; subst. left. exact (Hrest m Hm).
    + apply in_map_iff in Hin. destruct Hin as (x & Heq & Hx). inversion Heq; subst. apply filter_In in Hx. destruct Hx as [Hx Hu].
      left. apply (Hrest x Hx). intros E. rewrite E in Hu. discriminate.
    + destruct Hin.
Qed.

Lemma reports_of_gc_change_named o ch k r :
  (c_op ch = AddOrUpdate -> res_named o (c_res ch)) ->
  In (k, r) (reports_of_gc_change ch) -> named o k.
Proof.
  intros Hn Hin. unfold reports_of_gc_change in Hin. destruct (c_op ch) eqn:Hop; [destruct (c_res ch); destruct Hin|].
  destruct (Hn eq_refl) as [Hk Hrest]. destruct (c_res ch) as [ic|vc|tc]; [destruct Hin| |].
  - destruct Hin as [Heq|Hin]; [inversion Heq; subst; exact Hk|].
    apply in_map_iff in Hin. destruct Hin as (x & Heq & Hx). inversion Heq; subst. apply filter_In in Hx. destruct Hx as [Hx Hu].
    apply (Hrest x Hx). intros E. rewrite E in Hu. discriminate.
  - destruct Hin as [Heq|[]]. inversion Heq; subst. exact Hk.
Qed.

Theorem reports_never_foreign c es e k r :
  In (k, r) (step_reports c es e) -> foreign_in_cluster (cluster (es ++ [e])) k = false.
Proof.
  unfold step_reports. pose proof (step_is_named c (run c es) e) as Hn. unfold step_named in Hn.
  assert (Hobjs : objs_of_state (step_state c (run c es) e) = objs_after (es ++ [e])).
  { rewrite step_objs, run_objs. unfold objs_after. rewrite fold_left_app. reflexivity. }
  unfold step_state in Hobjs. destruct (step c (run c es) e) as [[s' cs] ps]. cbn [fst] in Hobjs.
  destruct Hn as [Hc Hp]. rewrite Hobjs in Hc, Hp.
  assert (Hcl : cluster (es ++ [e]) = cluster_apply (cluster es) e).
  { unfold cluster. rewrite fold_left_app. reflexivity. }
  pose proof (objs_after_ok (es ++ [e])) as Hok. pose proof (stored_objects_are_own (es ++ [e])) as Hso.
  intros Hin. unfold reports_of_step_ev in Hin. cbn [ob_changes ob_problems] in Hin. apply in_app_or in Hin.
  destruct Hin as [Hin|Hin].
  - destruct (is_gc_event e).
    + apply in_flat_map in Hin. destruct Hin as (ch & Hch & Hin).
      eapply named_not_foreign; [exact Hok|exact Hso|]. eapply reports_of_gc_change_named; [|exact Hin]. intros Hop. exact (Hc ch Hch Hop).
    + apply in_flat_map in Hin. destruct Hin as (ch & Hch & Hin).
      destruct (reports_of_change_named (objs_after (es ++ [e])) _ ch k r (fun Hop => Hc ch Hch Hop) Hin) as [H|H].
      * eapply named_not_foreign; eassumption.
      * apply own_in_cluster_not_foreign. exact H.
  - apply in_map_iff in Hin. destruct Hin as (p & Heq & Hpin). inversion Heq; subst.
    destruct (Hp p Hpin) as [H|H].
    + eapply named_not_foreign; eassumption.
    + rewrite Hcl. apply own_event_not_foreign. exact H.
Qed.
