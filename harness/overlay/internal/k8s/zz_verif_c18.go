//go:build verif

package k8s

import (
	conf_v1 "github.com/nginx/kubernetes-ingress/pkg/apis/configuration/v1"
	"k8s.io/client-go/tools/leaderelection"

	"github.com/nginx/kubernetes-ingress/internal/k8s/secrets"
)

// Add-only exports for the C18 race harness: the production closures / methods themselves,
// nothing re-implemented.

// VerifLeaderCallbacks returns the production leader-election callbacks (createLeaderHandler).
func VerifLeaderCallbacks(lbc *LoadBalancerController) leaderelection.LeaderCallbacks {
	return createLeaderHandler(lbc)
}

// VerifGetAllPolicies is the function the controller hands to the telemetry collector
// (CollectorConfig.Policies: lbc.getAllPolicies).
func VerifGetAllPolicies(lbc *LoadBalancerController) func() []*conf_v1.Policy {
	return lbc.getAllPolicies
}

// VerifSecretStore is the store the controller hands to the telemetry collector.
func VerifSecretStore(lbc *LoadBalancerController) secrets.SecretStore { return lbc.secretStore }

// VerifQueueLen is the length of the (thread-safe) work queue.
func VerifQueueLen(lbc *LoadBalancerController) int { return lbc.syncQueue.Len() }
