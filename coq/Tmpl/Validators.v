(* Tmpl/Validators.v -- the validator regular expressions of /repo, transcribed BY HAND into
   Regex.re (the Go source text is next to each one).  DEFINITIONS ONLY; the theorems are in
   ValidatorsProofs.v.  The driver compares [matches] with Go's regexp on a corpus through
   [validator_regexes] (keyed by the names used here), so a wrong transcription is detected.

   All Go regexes below are anchored ^...$ and compiled without flags: $ is end of text, dot does
   not match LF, \s = [\t\n\f\r ], \d = [0-9], a negated class matches LF.  See Regex.v for why
   the byte-wise reading of these classes has the same language as Go's rune-wise one. *)
From Coq Require Import List String Ascii Bool.
From NIC Require Import Lex.Lexer Tmpl.LexAux Tmpl.Regex.
Import ListNotations.
Open Scope string_scope.
Open Scope char_scope.

Definition r_digits : re := RPlus (RCls cs_digit).                     (* \d+ *)
Definition r_ws : re := RStar (RCls cs_space).                         (* \s* *)
Definition r_one_of (l : list ascii) : re := RCls (cs_of l).

(* ^/[^\s{};\\]*$    pathFmt, pkg/apis/configuration/validation/virtualserver.go:1300
   (VirtualServer route path; rendered bare after  location ) *)
Definition vs_path : re :=
  RCat (RChr "/") (RStar (RCls (cs_not_ws ["{"; "}"; ";"; "\"]))).

(* ^/[^\s{};$\\]*$   pathRegexp, internal/configs/parsing_helpers.go:403
   (nginx.org/rewrites rewrite=...; rendered bare, glued after  proxy_pass http://upstream ).
   History: until /repo commit d7c2e82 (finding F27) the class did not exclude the backslash and
   the language was NOT safe at this site (slash x backslash swallowed the terminator). *)
Definition ing_rewrite : re :=
  RCat (RChr "/") (RStar (RCls (cs_not_ws ["{"; "}"; ";"; "$"; "\"]))).

(* ^/[^\s;]*$        pathFmt, internal/k8s/validation.go:895   (Ingress path; bare after  location ) *)
Definition ing_path : re :=
  RCat (RChr "/") (RStar (RCls (cs_not_ws [";"]))).

(* ^([^dq\\]|\\.)*$  escapedStringsFmt, validation/common.go:15 and internal/k8s/validation.go:961
   (rendered inside double quotes) *)
Definition escaped : re :=
  RStar (RAlt (RCls (cs_not [ch_dq; "\"])) (RCat (RChr "\") (RCls cs_dot))).

(* ^([^dq$\\]|\\[^$])*$   realmFmt (policy.go:646, internal/k8s/validation.go:838), headerValueFmt
   (virtualserver.go:557), annotationValueFmt (internal/k8s/validation.go:78), stickyCookieRegex
   (parsing_helpers.go:404): one language *)
Definition realm : re :=
  RStar (RAlt (RCls (cs_not [ch_dq; "$"; "\"])) (RCat (RChr "\") (RCls (cs_not ["$"])))).

(* ^\$([^dq$\\]|\\[^$])*$   jwtTokenValueFmt, internal/k8s/validation.go:79 *)
Definition jwt_token : re := RCat (RChr "$") realm.

(* ^([^;\{\}dq\\]|\\.)*$    actionReturnTypeFmt, virtualserver.go:1021
   (rendered as  default_type dq VALUE dq ) *)
Definition return_type : re :=
  RStar (RAlt (RCls (cs_not [";"; "{"; "}"; ch_dq; "\"])) (RCat (RChr "\") (RCls cs_dot))).

(* ^[^\s{};]*$       grpcFmt, virtualserver.go:1318
   (rendered bare, glued after  grpc_service=  in the health_check directive) *)
Definition grpc_service : re := RStar (RCls (cs_not_ws ["{"; "}"; ";"])).

(* ^hash (\S+)(?: consistent)?$     hashMethodRegexp, transportserver.go:243
   (TransportServer loadBalancingMethod; rendered bare as a whole line of the stream upstream) *)
Definition ts_hash : re :=
  RSeq [RStr "hash "; RPlus (RCls cs_nspace); ROpt (RStr " consistent")].

(* ^\d+[kKmM]?$      SizeFmt, parsing_helpers.go:230 *)
Definition size : re := RCat r_digits (ROpt (r_one_of ["k"; "K"; "m"; "M"])).

(* ^\d+[kKmMgG]?$    OffsetFmt, parsing_helpers.go:215 *)
Definition offset : re := RCat r_digits (ROpt (r_one_of ["k"; "K"; "m"; "M"; "g"; "G"])).

(* ^[1-9]\d*r/[sSmM]$    rateFmt, policy.go:546 *)
Definition rate : re :=
  RSeq [RCls (CS false [(49, 57)]); RStar (RCls cs_digit); RStr "r/"; r_one_of ["s"; "S"; "m"; "M"]].

(* ^\d+ \d+[kKmM]?$  proxyBuffersRegexp, parsing_helpers.go:269 *)
Definition proxy_buffers : re :=
  RSeq [r_digits; RChr " "; r_digits; ROpt (r_one_of ["k"; "K"; "m"; "M"])].

(* ^(\d+y)??\s*(\d+M)??\s*(\d+w)??\s*(\d+d)??\s*(\d+h)??\s*(\d+m)??\s*(\d+s?)??\s*(\d+ms)??$
   timeRegexp, parsing_helpers.go:192   (a lazy ?? has the same language as ?) *)
Definition time_unit (u : re) : re := ROpt (RCat r_digits u).
Definition time : re :=
  RSeq [time_unit (RChr "y"); r_ws; time_unit (RChr "M"); r_ws; time_unit (RChr "w"); r_ws;
        time_unit (RChr "d"); r_ws; time_unit (RChr "h"); r_ws; time_unit (RChr "m"); r_ws;
        time_unit (ROpt (RChr "s")); r_ws; time_unit (RStr "ms")].

(* \w = [0-9A-Za-z_] *)
Definition cs_w : charset := CS false [(48, 57); (65, 90); (95, 95); (97, 122)].

(* ^(\$\{\w+\}|\$\w+|[^\s;{}\\dq'#$])+$     limitReqKeyRegexp, internal/k8s/validation.go:399
   (nginx.org/limit-req-key, validated since /repo commit 3e8e85f (finding F26); rendered bare as the
   first argument of  limit_req_zone ) *)
Definition limit_req_key : re :=
  RPlus (RAlt (RSeq [RChr "$"; RChr "{"; RPlus (RCls cs_w); RChr "}"])
        (RAlt (RCat (RChr "$") (RPlus (RCls cs_w)))
              (RCls (cs_not_ws [";"; "{"; "}"; "\"; ch_dq; ch_sq; "#"; "$"])))).

(* ^(\d+)(r/s|r/m)$   rateRegexp, internal/configs/parsing_helpers.go:244
   (ParseRequestRate: nginx.org/limit-req-rate, validated since 3e8e85f; rendered  rate=VALUE ) *)
Definition ing_rate : re := RSeq [r_digits; RStr "r/"; r_one_of ["s"; "m"]].

(* ^[-A-Za-z0-9]+$     httpHeaderNameFmt, k8s.io/apimachinery/pkg/util/validation (IsHTTPHeaderName):
   every header NAME of /repo: proxy set / add headers, errorPage headers and, since /repo commit
   7a5e973 (finding F52), action.return.headers; rendered bare after  add_header / proxy_set_header ) *)
Definition http_header_name : re :=
  RPlus (RCls (CS false [(45, 45); (48, 57); (65, 90); (97, 122)])).

(* ([^$]|\$[0-9])*\$?   validateStringNoVariables, virtualserver.go:1072: a dollar sign may only be followed by a
   digit (a capture group) or end the string *)
Definition no_vars : re :=
  RCat (RStar (RAlt (RCls (cs_not ["$"])) (RCat (RChr "$") (RCls cs_digit)))) (ROpt (RChr "$")).

(* ---- UPPER BOUNDS of validators that are parsers, not regular expressions.  Tie (every run): every string the real
   validator accepts among the one-byte perturbations of the samples (some of them near misses the validator rejects
   today, e.g. an IPv6 zone) must match the upper bound; a more tolerant parser shows up with the accepted string. *)

(* validateIPorCIDR, validation/policy.go:660  (net.ParseCIDR or net.ParseIP: decimal / hexadecimal digits, dots,
   colons, one slash; NO zone): accessControl allow / deny entries, rendered bare:  allow VALUE;  deny VALUE; *)
Definition ip_or_cidr_upper : re :=
  RPlus (RCls (CS false [(46, 47); (48, 58); (65, 70); (97, 102)])).

(* validateRoutePath, validation/virtualserver.go:1268:  /...  validatePath;  =...  validatePath of the rest;
   ~...  regexp2.Compile + escaped string (of the whole path, the tilde is an ordinary byte) *)
Definition route_path_upper : re :=
  RAlt vs_path (RAlt (RCat (RChr "=") vs_path) (RCat (RChr "~") escaped)).

(* generatePath, internal/configs/virtualserver.go:2263: a regular-expression path is written  MODIFIER dq EXPR dq ,
   whether or not a space separates the modifier from the expression in the resource; other paths are written raw *)
Definition strip_space (s : string) : string :=
  match s with String " " r => r | _ => s end.

Definition dq1 : string := String ch_dq EmptyString.

Definition gen_path (p : string) : string :=
  match p with
  | String "~" (String "*" r) => ("~* " ++ dq1 ++ strip_space r ++ dq1)%string
  | String "~" r => ("~ " ++ dq1 ++ strip_space r ++ dq1)%string
  | _ => p
  end.

(* ---- SELECTOR TABLE for action.proxy.rewritePath: which validator language applies and at which kind of site
   the value is rendered depends on the kind of the route path and on the kind of location.
     validator  validateActionProxy (virtualserver.go:1058):  HasPrefix(path, "~") || internal  selects the
                lenient escaped-string language (for a quoted site), otherwise the strict path language;
                [internal] is what validateRoute / validateMatch / validateSplits pass: false for the action
                of the route itself EVEN WHEN THE ROUTE HAS MATCHES, true inside matches and splits
     generator  generateProxyPassRewrite / generateRewrites (internal/configs/virtualserver.go:2152-2201): a
                top-level location of a prefix or exact path prints the value RAW, glued after
                proxy_pass http://upstream ; every internal location (splits, matches, and the default action
                of a route with matches) and every regular-expression path prints it inside double quotes in
                a rewrite directive
   Both halves are compared with the real validator / generator on every run (harness records "selector"). *)
Inductive path_kind := PKPrefix | PKExact | PKRegex | PKRegexI.
Inductive loc_kind := LTop | LTopWithMatches | LMatch | LSplit.
Inductive site_kind := SBareGlued | SInDQ.

Definition is_regex_kind (k : path_kind) : bool :=
  match k with PKRegex | PKRegexI => true | _ => false end.

Definition validator_internal (l : loc_kind) : bool :=
  match l with LMatch | LSplit => true | LTop | LTopWithMatches => false end.

Definition generator_internal (l : loc_kind) : bool :=
  match l with LTop => false | _ => true end.

Definition rewrite_path_lang (k : path_kind) (l : loc_kind) : re :=
  if is_regex_kind k || validator_internal l then escaped else vs_path.

Definition rewrite_path_site (k : path_kind) (l : loc_kind) : site_kind :=
  if is_regex_kind k || generator_internal l then SInDQ else SBareGlued.

Definition site_state (s : site_kind) : lstate := match s with SBareGlued => QBare | SInDQ => QDQ end.
Definition site_ends (s : site_kind) : list lstate := match s with SBareGlued => [QBare; QVar] | SInDQ => [QDQ] end.

(* what the real validator accepts for the field (the empty string means: no rewrite) *)
Definition rewrite_path_accepts (k : path_kind) (l : loc_kind) (s : string) : bool :=
  match s with
  | EmptyString => true
  | _ => matches (rewrite_path_lang k l) s && matches no_vars s
  end.

(* the rows in which the language chosen by the validator fits the site chosen by the generator; the two
   others (default action of a route with matches, prefix or exact path) are finding F65 *)
Definition rewrite_path_row_ok (k : path_kind) (l : loc_kind) : bool :=
  match l, is_regex_kind k with LTopWithMatches, false => false | _, _ => true end.

(* ---- the languages a repair would use (see the open findings F28 F29 F54) *)

(* ^[^\s{};\\]*$ *)
Definition grpc_service_fixed : re := RStar (RCls (cs_not_ws ["{"; "}"; ";"; "\"])).

(* ^hash ([^\s;{}\\dq'#]+)( consistent)?$ *)
Definition ts_hash_fixed : re :=
  RSeq [RStr "hash "; RPlus (RCls (cs_not_ws [";"; "{"; "}"; "\"; ch_dq; ch_sq; "#"]));
        ROpt (RStr " consistent")].

(* realm restricted to bare-word bytes: ^([^\sdq$\\;{}])*$ *)
Definition sticky_fixed : re := RStar (RCls (cs_not_ws [ch_dq; "$"; "\"; ";"; "{"; "}"])).

Definition validator_regexes : list (string * re) :=
  [("vs_path", vs_path); ("ing_rewrite", ing_rewrite); ("ing_path", ing_path);
   ("escaped", escaped); ("realm", realm); ("jwt_token", jwt_token);
   ("return_type", return_type); ("grpc_service", grpc_service); ("ts_hash", ts_hash);
   ("size", size); ("offset", offset); ("rate", rate); ("proxy_buffers", proxy_buffers);
   ("time", time); ("limit_req_key", limit_req_key); ("ing_rate", ing_rate);
   ("http_header_name", http_header_name); ("no_vars", no_vars);
   ("ip_or_cidr_upper", ip_or_cidr_upper); ("route_path_upper", route_path_upper);
   ("grpc_service_fixed", grpc_service_fixed);
   ("ts_hash_fixed", ts_hash_fixed); ("sticky_fixed", sticky_fixed)]%string.

Fixpoint lookup_re (name : string) (l : list (string * re)) : option re :=
  match l with
  | [] => None
  | (n, r) :: t => if String.eqb n name then Some r else lookup_re name t
  end.

(* what the driver evaluates on a corpus: None = unknown name *)
Definition validator_matches (name : string) (s : string) : option bool :=
  match lookup_re name validator_regexes with
  | Some r => Some (matches r s)
  | None => None
  end.
