(* C07 -- Generated configuration always loads: well-formed, no duplicate identifiers.
   Only statements, each closed by [exact], each followed by Print Assumptions; then Examples.

   What is proved here, for ALL strings / names:
     (a) the checker that decides the property on the implementation's real output is sound
         (C07_checker_sound, C07_lex_sound, C07_parse_sound, C07_lex_events);
     (b) the identifier schemes that use a separator foreign to their components are injective
         (C07_sep_split_unique and its instances);
     (c) the schemes that use - (a legal byte of every component) are NOT injective, and the Ingress
         path validator does not imply bare-word safety: *_refuted, each with a witness that the
         harness replays on the real code (known findings F06 F07 F30 F31).
   The full property (every rendering of every accepted resource set is well formed and free of
   duplicates) is therefore FALSE of the code; what holds is decided per generated file set by S. *)
From Coq Require Import List String Ascii Bool.
From NIC Require Import Lex.Lexer Lex.Parser Lex.Check Lex.LexerProofs Lex.ParserProofs Lex.CheckProofs
     Lex.IngressPath Names.Idents Names.IdentsProofs.
Import ListNotations.
Open Scope string_scope.

(* ---------------------------------------------------------------- (a) the checker *)

(* wf_conf accepts only strings that are, declaratively, a sequence of NGINX tokens forming a
   forest of terminated directives / balanced blocks, with every word below NGINX's buffer limit. *)
Theorem C07_checker_sound : forall s, wf_conf s = true -> WellFormed s.
Proof. exact wf_conf_sound. Qed.
Print Assumptions C07_checker_sound.

Theorem C07_lex_sound : forall s ts, lex s = Some ts -> Lexes s ts.
Proof. exact lex_sound. Qed.
Print Assumptions C07_lex_sound.

Theorem C07_parse_sound : forall ts ds, parse ts = Some ds -> flatten ds = ts.
Proof. exact parse_sound. Qed.
Print Assumptions C07_parse_sound.

(* the token view used by the checker and the event view used by the neutrality theorems are the
   same DFA run: no Err event, legal final state, one event per token *)
Theorem C07_lex_events : forall s ts,
    lex s = Some ts -> exists q, run QBetween s = (q, map ev_of_token ts) /\ final_ok q = true.
Proof. exact lex_events. Qed.
Print Assumptions C07_lex_events.

Theorem C07_shapes_from_events : forall ts ds,
    parse ts = Some ds -> shapes_of_events (map ev_of_token ts) = Some (shapes ds).
Proof. exact shapes_parse. Qed.
Print Assumptions C07_shapes_from_events.

(* exchanging two strings that are neutral in the DFA state reached by the prefix changes neither
   the final state nor the events, hence not the block structure / arities *)
Theorem C07_skeleton_subst : forall pre q e s1 s2 post,
    run QBetween pre = (q, e) -> neutral q s1 -> neutral q s2 ->
    fst (run QBetween (pre ++ s1 ++ post)) = fst (run QBetween (pre ++ s2 ++ post)) /\
    shapes_of_events (snd (run QBetween (pre ++ s1 ++ post))) =
    shapes_of_events (snd (run QBetween (pre ++ s2 ++ post))).
Proof. exact skeleton_subst. Qed.
Print Assumptions C07_skeleton_subst.

(* ---------------------------------------------------------------- (b) injective schemes *)

Theorem C07_sep_split_unique : forall c xs x ys y,
    no_sep c (x :: xs) -> no_sep c (y :: ys) -> join c x xs = join c y ys -> x :: xs = y :: ys.
Proof. exact sep_split_unique. Qed.
Print Assumptions C07_sep_split_unique.

Theorem C07_vs_upstream_name_injective : forall ns1 n1 u1 ns2 n2 u2,
    dns_name ns1 = true -> dns_name n1 = true -> dns_name u1 = true ->
    dns_name ns2 = true -> dns_name n2 = true -> dns_name u2 = true ->
    vs_upstream_name ns1 n1 u1 = vs_upstream_name ns2 n2 u2 -> (ns1, n1, u1) = (ns2, n2, u2).
Proof. exact vs_upstream_name_injective. Qed.
Print Assumptions C07_vs_upstream_name_injective.

Theorem C07_vsr_upstream_name_injective : forall a1 b1 c1 d1 u1 a2 b2 c2 d2 u2,
    Forall (fun s => dns_name s = true) [a1; b1; c1; d1; u1; a2; b2; c2; d2; u2] ->
    vsr_upstream_name a1 b1 c1 d1 u1 = vsr_upstream_name a2 b2 c2 d2 u2 ->
    (a1, b1, c1, d1, u1) = (a2, b2, c2, d2, u2).
Proof. exact vsr_upstream_name_injective. Qed.
Print Assumptions C07_vsr_upstream_name_injective.

Theorem C07_vs_vsr_upstream_names_disjoint : forall ns n u a b c d v,
    Forall (fun s => dns_name s = true) [ns; n; u; a; b; c; d; v] ->
    vs_upstream_name ns n u <> vsr_upstream_name a b c d v.
Proof. exact vs_vsr_upstream_names_disjoint. Qed.
Print Assumptions C07_vs_vsr_upstream_names_disjoint.

Theorem C07_ts_upstream_name_injective : forall ns1 n1 u1 ns2 n2 u2,
    dns_name ns1 = true -> dns_name n1 = true -> dns_name u1 = true ->
    dns_name ns2 = true -> dns_name n2 = true -> dns_name u2 = true ->
    ts_upstream_name ns1 n1 u1 = ts_upstream_name ns2 n2 u2 -> (ns1, n1, u1) = (ns2, n2, u2).
Proof. exact ts_upstream_name_injective. Qed.
Print Assumptions C07_ts_upstream_name_injective.

Theorem C07_rl_zone_name_injective : forall a1 b1 c1 d1 a2 b2 c2 d2,
    Forall (fun s => dns_name s = true) [a1; b1; c1; d1; a2; b2; c2; d2] ->
    rl_zone_name a1 b1 c1 d1 = rl_zone_name a2 b2 c2 d2 -> (a1, b1, c1, d1) = (a2, b2, c2, d2).
Proof. exact rl_zone_name_injective. Qed.
Print Assumptions C07_rl_zone_name_injective.

Theorem C07_match_name_injective : forall u1 u2, match_name u1 = match_name u2 -> u1 = u2.
Proof. exact match_name_injective. Qed.
Print Assumptions C07_match_name_injective.

Theorem C07_ingress_rl_zone_name_injective : forall ns1 n1 ns2 n2,
    has_char "/"%char ns1 = false -> has_char "/"%char ns2 = false ->
    has_char "/"%char n1 = false -> has_char "/"%char n2 = false ->
    ingress_rl_zone_name ns1 n1 = ingress_rl_zone_name ns2 n2 -> (ns1, n1) = (ns2, n2).
Proof. exact ingress_rl_zone_name_injective. Qed.
Print Assumptions C07_ingress_rl_zone_name_injective.

(* The repairs proposed for F32 (JWT redirect location of a minion added once, not once per path) and
   F12 (a VirtualServerRoute attached once, however many routes reference it) are both
   "append unless already present": for EVERY sequence of names the result has no duplicate and
   exactly the same members. *)
Theorem C07_collect_once_nodup : forall xs,
    NoDup (collect_once xs) /\ (forall y, In y (collect_once xs) <-> In y xs).
Proof. exact collect_once_nodup. Qed.
Print Assumptions C07_collect_once_nodup.

(* ---------------------------------------------------------------- (c) refutations *)

(* FULL STATEMENT (false): forall DNS components, ingress_upstream_name is injective. *)
Theorem C07_ingress_upstream_name_refuted :
  exists ns ing1 host1 ing2 host2 svc port,
    Forall (fun s => dns_name s = true) [ns; ing1; host1; ing2; host2; svc; port] /\
    (ing1, host1) <> (ing2, host2) /\
    ingress_upstream_name ns ing1 host1 svc port = ingress_upstream_name ns ing2 host2 svc port.
Proof. exact ingress_upstream_name_refuted. Qed.
Print Assumptions C07_ingress_upstream_name_refuted.

(* FULL STATEMENT (false): the keyval zone (and every VariableNamer name) determines the VirtualServer. *)
Theorem C07_keyval_zone_name_refuted :
  exists ns1 n1 ns2 n2 i,
    Forall (fun s => dns_name s = true) [ns1; n1; ns2; n2] /\ (ns1, n1) <> (ns2, n2) /\
    keyval_zone_name ns1 n1 i = keyval_zone_name ns2 n2 i.
Proof. exact keyval_zone_name_refuted. Qed.
Print Assumptions C07_keyval_zone_name_refuted.

(* FULL STATEMENT (false): the JWT login location of a minion determines the minion. *)
Theorem C07_login_location_name_refuted :
  exists ns1 n1 ns2 n2,
    Forall (fun s => dns_name s = true) [ns1; n1; ns2; n2] /\ (ns1, n1) <> (ns2, n2) /\
    login_location_name ns1 n1 = login_location_name ns2 n2.
Proof. exact login_location_name_refuted. Qed.
Print Assumptions C07_login_location_name_refuted.

(* FULL STATEMENT (false): every path accepted by the Ingress path validator is one bare word. *)
Theorem C07_ingress_path_bare_safe_refuted :
  exists p, ingress_path_ok p = true /\ one_bare_word p = false.
Proof. exact ingress_path_bare_safe_refuted. Qed.
Print Assumptions C07_ingress_path_bare_safe_refuted.

(* What does hold at that site: an accepted path without a left brace is exactly one bare word. *)
Theorem C07_ingress_path_bare_safe_partial :
  forall p, ingress_path_ok p = true -> has_byte ch_open p = false -> one_bare_word p = true.
Proof. exact ingress_path_bare_safe_partial. Qed.
Print Assumptions C07_ingress_path_bare_safe_partial.

(* ---------------------------------------------------------------- non-vacuity *)

Definition sample_conf : string :=
  "upstream vs_a_web_u { zone vs_a_web_u 256k; server 10.0.0.1:80 max_fails=1; }
   # a comment with ; { and }
   server { listen 80; server_name x.example.com;
     location /a { proxy_pass http://vs_a_web_u; set $x ""a b;}""; proxy_set_header X ${y}z; }
     location @hc { return 200 'ok'; } }".

Example sample_is_wf : wf_conf sample_conf = true. Proof. vm_compute. reflexivity. Qed.
Example sample_arity_ok : arity_errors_conf "conf.d/a.conf" sample_conf = []. Proof. vm_compute. reflexivity. Qed.
Example sample_no_dups : dup_idents [("conf.d/a.conf", sample_conf)] = []. Proof. vm_compute. reflexivity. Qed.
Example sample_twice_dups :
  dup_idents [("conf.d/a.conf", sample_conf); ("conf.d/b.conf", sample_conf)] =
  [("upstream", "http", "vs_a_web_u"); ("zone", "shm", "vs_a_web_u"); ("server_name", "http|80", "x.example.com")].
Proof. vm_compute. reflexivity. Qed.
Example brace_path_not_wf : wf_conf "location /a{1,3} { return 200; }" = false. Proof. vm_compute. reflexivity. Qed.
Example unterminated_not_wf : wf_conf "server { listen 80 }" = false. Proof. vm_compute. reflexivity. Qed.
Example bad_arity_found :
  arity_errors_conf "conf.d/a.conf" "server { listen; proxy_pass a b; frobnicate 1; }" =
  [("arity", "listen"); ("arity", "proxy_pass"); ("unknown", "frobnicate")].
Proof. vm_compute. reflexivity. Qed.
Example dns_hyp_met : dns_name "a-b" = true /\ dns_name "c.d" = true /\ dns_name "a_b" = false.
Proof. vm_compute. repeat split. Qed.
Example vs_name_example : vs_upstream_name "a-b" "c" "u" = "vs_a-b_c_u" /\
                          vsr_upstream_name "a" "web" "b" "r" "u" = "vs_a_web_vsr_b_r_u".
Proof. vm_compute. split; reflexivity. Qed.
