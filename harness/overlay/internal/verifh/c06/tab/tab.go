//go:build verif

// Package tab holds the CLASS TABLES of property C06: which language of byte strings every
// string-typed value printed by the six NGINX configuration templates is supposed to belong to.
//
// The tables are consumed by
//   - the template translator internal/verifh/c06t, which turns every output action of the real
//     templates into `Site id <class>` terms of coq/gen/Templates.v, and
//   - the C06 harness internal/verifh/c06, which checks on real generator output that every string
//     of a produced version1/version2 config struct is a member of its declared class (Match).
//
// A class is written as the Coq term of type Tmpl.Syntax.cls it is emitted as:
//
//	CWord | CWordVar | CBareTok | CDQ | CSQ | CQuoted | CInt | CLit ["a"; "b"] | CLines | CEmpty
//
// (definitions: header comment of coq/Tmpl/Syntax.v; InClass below is the byte-exact Go copy).
//
// Keys of FieldClass: "<pkg>.<Type>.<Field>" of the LAST field selected by the template
// (e.g. "version2.Location.Path"); for the elements of a []string field "<...>.<Field>[]", for the
// keys / values of a map field "<...>.<Field>[key]" / "<...>.<Field>[val]".
//
// Values that are legitimately more than one token, or a user part inside fixed punctuation, have
// no single class; they get a SHAPE: a regular expression over literal text and plain classes
// (Pat).  The translator expands a shaped site into an ordinary sub-template
// (Text/Site/Seq/Choice/Star), so the Coq analysis needs no additional class.
//
// How the classes were chosen: for each field the place where the generator sets it
// (internal/configs/{virtualserver,ingress,transportserver,annotations,config_params,configmaps}.go)
// and the validator guarding its source (pkg/apis/configuration/validation/*.go,
// internal/k8s/validation.go, internal/configs/parsing_helpers.go) were read; the class is the
// one the validator/generator is SUPPOSED to guarantee.  The comment of each entry names that
// source.  Entries the author could not fully establish are repeated in Doubtful.
package tab

import (
	"regexp"
	"strings"
)

// Pat is a shape: a regular expression over literal text and plain classes.
type Pat struct {
	K     string // "T" literal text, "C" class leaf, "F" field reference, "S" sequence, "A" alternatives, "M" zero or more
	Text  string // K == "T": the text; K == "F": the field key whose class / shape stands here
	Class string // K == "C": Coq class term
	Kids  []Pat
}

// T is literal text.
func T(s string) Pat { return Pat{K: "T", Text: s} }

// C is a value of a plain class.
func C(c string) Pat { return Pat{K: "C", Class: c} }

// F stands for the class or shape declared for another field key (used in the shapes of helper
// functions, so that the class of a field is written down once).
func F(key string) Pat { return Pat{K: "F", Text: key} }

// Resolve replaces field references by the declarations they refer to (an undeclared key becomes
// the class CUnknown, which nothing matches).
func Resolve(p Pat) Pat {
	switch p.K {
	case "F":
		c, sh, ok := Lookup(p.Text)
		switch {
		case !ok:
			return C("CUnknown \"no class declared for " + p.Text + "\"")
		case sh != nil:
			return Resolve(*sh)
		}
		return C(c)
	case "S", "A", "M":
		k := make([]Pat, len(p.Kids))
		for i := range p.Kids {
			k[i] = Resolve(p.Kids[i])
		}
		return Pat{K: p.K, Kids: k}
	}
	return p
}

// Seq is concatenation.
func Seq(p ...Pat) Pat { return Pat{K: "S", Kids: p} }

// Alt is alternation.
func Alt(p ...Pat) Pat { return Pat{K: "A", Kids: p} }

// Many is zero or more repetitions.
func Many(p ...Pat) Pat { return Pat{K: "M", Kids: []Pat{Seq(p...)}} }

// Opt is zero or one.
func Opt(p ...Pat) Pat { return Alt(Seq(p...), T("")) }

// Lit builds the class term CLit [alts].
func Lit(alts ...string) string {
	q := make([]string, len(alts))
	for i, a := range alts {
		q[i] = `"` + strings.ReplaceAll(a, `"`, `""`) + `"`
	}
	return "CLit [" + strings.Join(q, "; ") + "]"
}

var litRe = regexp.MustCompile(`"((?:[^"]|"")*)"`)

// LitAlts returns the alternatives of a `CLit [...]` class term (nil, false for other classes).
func LitAlts(class string) ([]string, bool) {
	if !strings.HasPrefix(class, "CLit") {
		return nil, false
	}
	var out []string
	for _, m := range litRe.FindAllStringSubmatch(class, -1) {
		out = append(out, strings.ReplaceAll(m[1], `""`, `"`))
	}
	return out, true
}

func wordByte(b byte) bool {
	if b <= 32 || b == 127 {
		return false
	}
	switch b {
	case ';', '{', '}', '\\', '"', '\'', '#', '$':
		return false
	}
	return true
}

func bareByte(b byte) bool {
	switch b {
	case ' ', '\t', '\r', '\n', ';', '{', '\\':
		return false
	}
	return true
}

func quotedBody(s string, q byte) bool {
	for i := 0; i < len(s); i++ {
		switch s[i] {
		case q:
			return false
		case '\\':
			i++
			if i >= len(s) {
				return false
			}
		}
	}
	return true
}

// InClass decides membership of s in a plain class (the Go copy of the definitions in the header
// of coq/Tmpl/Syntax.v).  CLines is "any string" here: it is control, produced by helpers.
func InClass(class, s string) bool {
	switch class {
	case "CWord":
		for i := 0; i < len(s); i++ {
			if !wordByte(s[i]) {
				return false
			}
		}
		return true
	case "CWordVar":
		for i := 0; i < len(s); i++ {
			if !wordByte(s[i]) && s[i] != '$' {
				return false
			}
		}
		return true
	case "CBareTok":
		for i := 0; i < len(s); i++ {
			if !bareByte(s[i]) {
				return false
			}
		}
		if len(s) > 0 {
			switch s[0] {
			case '"', '\'', '#', '}':
				return false
			}
		}
		return true
	case "CDQ":
		return quotedBody(s, '"')
	case "CSQ":
		return quotedBody(s, '\'')
	case "CQuoted":
		return len(s) >= 2 && s[0] == '"' && s[len(s)-1] == '"' && quotedBody(s[1:len(s)-1], '"')
	case "CInt":
		t := strings.TrimPrefix(s, "-")
		if t == "" {
			return false
		}
		for i := 0; i < len(t); i++ {
			if t[i] < '0' || t[i] > '9' {
				return false
			}
		}
		return true
	case "CLines":
		return true
	case "CEmpty":
		return s == ""
	}
	if alts, ok := LitAlts(class); ok {
		for _, a := range alts {
			if a == s {
				return true
			}
		}
	}
	return false
}

// matchPat returns the set of end positions of matches of p against s starting at the positions
// in from (both as sorted, duplicate-free position lists).
func matchPat(p Pat, s string, from []int) []int {
	seen := map[int]bool{}
	var out []int
	add := func(e int) {
		if !seen[e] {
			seen[e] = true
			out = append(out, e)
		}
	}
	switch p.K {
	case "T":
		for _, i := range from {
			if strings.HasPrefix(s[i:], p.Text) {
				add(i + len(p.Text))
			}
		}
	case "C":
		for _, i := range from {
			for e := i; e <= len(s); e++ {
				if InClass(p.Class, s[i:e]) {
					add(e)
				}
			}
		}
	case "S":
		cur := from
		for _, k := range p.Kids {
			cur = matchPat(k, s, cur)
			if len(cur) == 0 {
				return nil
			}
		}
		return cur
	case "A":
		for _, k := range p.Kids {
			for _, e := range matchPat(k, s, from) {
				add(e)
			}
		}
	case "M":
		for _, i := range from {
			add(i)
		}
		frontier := from
		for len(frontier) > 0 {
			var next []int
			for _, e := range matchPat(p.Kids[0], s, frontier) {
				if !seen[e] {
					add(e)
					next = append(next, e)
				}
			}
			frontier = next
		}
	}
	return out
}

// MatchPat decides whether s belongs to the shape p.
func MatchPat(p Pat, s string) bool {
	p = Resolve(p)
	for _, e := range matchPat(p, s, []int{0}) {
		if e == len(s) {
			return true
		}
	}
	return false
}

// Lookup returns the declaration for a field key: a plain class or a shape.
func Lookup(key string) (class string, shape *Pat, ok bool) {
	if p, ok := Shape[key]; ok {
		return "", &p, true
	}
	if c, ok := FieldClass[key]; ok {
		return c, nil, true
	}
	return "", nil, false
}

// Match decides whether value is a member of the class / shape declared for the field key.
// known is false when the key has no declaration.
func Match(key, value string) (ok, known bool) {
	c, p, known := Lookup(key)
	if !known {
		return false, false
	}
	if p != nil {
		return MatchPat(*p, value), true
	}
	return InClass(c, value), true
}

// ClassOf returns the plain class term declared for a field key, or "" when the key has a Shape
// (use Match for those) or no declaration.
func ClassOf(key string) string {
	if _, ok := Shape[key]; ok {
		return ""
	}
	return FieldClass[key]
}

// ---------------------------------------------------------------------------------------------
// TABLES
// ---------------------------------------------------------------------------------------------

// FieldClass: class of string-typed struct fields (see the package comment for the key format).
var FieldClass = map[string]string{}

// FuncClass: class of the output of a template helper function when printed directly.
var FuncClass = map[string]string{}

// PipelineClass: overrides keyed by "<template base name>|<pipeline text as printed by parse>".
var PipelineClass = map[string]string{}

// Shape: shapes for field keys, for helper functions ("func:<name>") and for pipelines
// ("pipe:<template base name>|<pipeline text>").
var Shape = map[string]Pat{}

// Doubtful: field keys whose class the author could not fully establish from the validators.
var Doubtful = []string{}

// KnownWeak: fields that do NOT in fact satisfy the class their site needs (known defects of
// /repo); classified with the class the site needs; value = finding id.
var KnownWeak = map[string]string{}
