//go:build verif

package certmanager

import (
	clientset "github.com/cert-manager/cert-manager/pkg/client/clientset/versioned"
	cmlisters "github.com/cert-manager/cert-manager/pkg/client/listers/certmanager/v1"
	"k8s.io/client-go/tools/record"
)

// VerifSyncFn returns the production reconciliation function (SyncFnFor) wired to the given
// client and Certificate lister exactly the way register() wires it, with one informer group
// entry that watches every namespace.  Add-only export for the C20 correspondence harness:
// namespacedInformer and its cmLister field are unexported.
func VerifSyncFn(rec record.EventRecorder, cl clientset.Interface, lister cmlisters.CertificateLister) SyncFn {
	ig := map[string]*namespacedInformer{"": {cmLister: lister}}
	return SyncFnFor(rec, cl, ig)
}

// VerifCertNeedsUpdate exposes certNeedsUpdate so that the harness can probe which fields the
// update predicate is sensitive to (the model takes that set as a parameter).
var VerifCertNeedsUpdate = certNeedsUpdate
