(* C16 -- The controller acts only on resources of its own class.
   Only statements, each closed by [exact] and followed by Print Assumptions. *)
From Coq Require Import List ZArith String Bool.
From NIC Require Import Base.SMap Arb.Types Arb.Model Arb.Spec Arb.InvProofs Arb.ClassProofs Arb.Cases Arb.ReportProofs.
Import ListNotations.
Open Scope Z_scope.

(* Non-interference, a statement about PAIRS of histories: for every history, replacing every
   event on an object whose class designates another controller (for an Ingress: also `no class`)
   by the deletion of that object leaves every output unchanged -- the change list and the problem
   list returned by every single event, and every intermediate state (hosts, listener hosts,
   problem maps, stored objects).  Hence a foreign-class resource never contributes configuration,
   never occupies a host, listener or path, and never receives a report that a plain deletion
   would not receive; and when a served resource's class changes away the hosts it held pass to
   the next claimant exactly as if it had been deleted. *)
Theorem C16_non_interference : forall c es, outputs c init (map erase es) = outputs c init es.
Proof. exact non_interference. Qed.
Print Assumptions C16_non_interference.

(* only objects that arrived with the controller's own class (and valid) are ever stored *)
Theorem C16_foreign_never_stored :
  forall c es k i, In (k, i) (ings (run c es)) -> In (EIng i true true) es.
Proof. exact foreign_never_stored. Qed.
Print Assumptions C16_foreign_never_stored.

(* all four state components that outlive an event are functions of the stored objects, so nothing
   about a foreign-class object can linger in them *)
Theorem C16_state_is_function_of_own_objects : forall c es, full_inv c (run c es).
Proof. exact run_full_inv. Qed.
Print Assumptions C16_state_is_function_of_own_objects.

(* Whom the controller talks to.  [step_reports c es e] are the reports (success, rejection, problem) the
   controller derives from the changes and problems of event [e] after history [es] -- the transcription of
   processChanges / processProblems that the controller-level correspondence compares with the Events
   recorded by the real LoadBalancerController.sync.  For every history and every event: no report names
   an object that is of a foreign class in the cluster at that moment (the object of the event included:
   a served resource that moves to a foreign class is removed without a word, whatever warnings it carried). *)
Theorem C16_reports_never_name_foreign :
  forall c es e k r, In (k, r) (step_reports c es e) -> foreign_in_cluster (cluster (es ++ [e])) k = false.
Proof. exact reports_never_foreign. Qed.
Print Assumptions C16_reports_never_name_foreign.

(* every stored object is the most recent version of that object in the cluster and arrived with the
   controller's class and valid *)
Theorem C16_stored_objects_are_own : forall es, stored_own (cluster es) (objs_after es).
Proof. exact stored_objects_are_own. Qed.
Print Assumptions C16_stored_objects_are_own.

(* the class predicate (specification used on the implementation): for an Ingress the deprecated
   annotation takes precedence over the class field; an Ingress without any class is not ours *)
Example C16_annotation_precedence :
  has_class "nginx" true (Some "other"%string) (Some "nginx"%string) = false /\
  has_class "nginx" true (Some "nginx"%string) (Some "other"%string) = true /\
  has_class "nginx" true None None = false /\
  has_class "nginx" false None (Some ""%string) = true.
Proof. vm_compute. auto. Qed.

(* Non-vacuity: a VirtualServer that owns a host moves to a foreign class; the younger Ingress takes
   the host; outputs equal those of the history in which the VirtualServer is deleted instead. *)
Definition nI := mkIng (mkMeta "ns" "i" "u2" 200 1 0) IRegular ["h.example.com"%string] [] false.
Definition nV g := mkVS (mkMeta "ns" "v" "u1" 100 g 0) "h.example.com" [] None.
Example C16_nonvacuous :
  let es := [EVS (nV 1) true true; EIng nI true true; EVS (nV 2) false true] in
  map (fun kv => (fst kv, rkey (snd kv))) (hosts (run (mkCfg true true) es)) = [("h.example.com"%string, "Ingress/ns/i"%string)] /\
  map erase es = [EVS (nV 1) true true; EIng nI true true; EDelVS "ns/v"].
Proof. vm_compute. auto. Qed.

(* Non-vacuity of the report theorem: in the history above the VirtualServer holds a host the Ingress also
   claims; when the VirtualServer moves to a foreign class the only report of that step goes to the Ingress
   (which now serves the host); the VirtualServer, although still in the cluster, is not named. *)
Example C16_reports_nonvacuous :
  let es := [EVS (nV 1) true true; EIng nI true true] in
  map fst (step_reports (mkCfg true true) es (EVS (nV 2) false true)) = ["Ingress/ns/i"%string] /\
  foreign_in_cluster (cluster (es ++ [EVS (nV 2) false true])) "VirtualServer/ns/v" = true.
Proof. vm_compute. auto. Qed.
