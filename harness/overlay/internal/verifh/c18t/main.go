//go:build verif

// Translator for C18 (T tie): reads the current source of /repo with go/packages + go/types and
// emits, for every concurrent entry point, the accesses to the shared fields of interest together
// with the locks held at the access, as coq/gen/Accesses.v (a Lockset.Model.access_table) and a
// JSON side file with the source sites.  It transcribes, it does not decide: whether the table is
// race free is computed inside Rocq (Lockset.Model.protected_except_all).
//
// Over-approximations (all towards "unprotected"):
//   - a lock counts as held only if it was taken on every path to the access (branches are joined
//     by intersection; a branch that ends in return/panic/continue/break does not take part);
//   - the idiom `if <field> != nil { mu.Lock(); defer mu.Unlock() }` yields a lock held under the
//     start-up condition <field>!=nil, provided no entry point ever writes <field>;
//   - a function literal is analysed where it is written, with the locks held there; the operand of
//     a `go` statement starts with no locks and is attributed to the pseudo entry "<entry>+go";
//   - a deferred call runs at function exit in LIFO order: it holds what was held when it was
//     registered, is still held at every later exit, and is not released by a later-registered
//     deferred Unlock (so `defer tail(); mu.Lock(); defer mu.Unlock()` runs tail() WITHOUT mu);
//   - any mention of a function or method (call, method value, argument) counts as a call there;
//   - calls through func-typed struct fields go to every function ever stored in that field;
//   - interface calls go to every implementing type declared in the loaded packages (Fake* types
//     are skipped);
//   - an Unlock that cannot be paired, TryLock, or a lock expression that is not a field is
//     reported in gen_unknown, which fails the obligation.
// Not seen: aliasing (a map copied into a local and mutated through it), reflection, assembly.
package main

import (
	"encoding/json"
	"flag"
	"fmt"
	"go/ast"
	"go/token"
	"go/types"
	"os"
	"path/filepath"
	"sort"
	"strings"

	"golang.org/x/tools/go/packages"
)

const modPath = "github.com/nginx/kubernetes-ingress/"

var loadPatterns = []string{
	"./internal/k8s", "./internal/configs", "./internal/healthcheck", "./internal/telemetry", "./internal/k8s/secrets", "./internal/nginx",
	// the validators are handed informer-store objects by the worker and by observers (telemetry, leader callbacks)
	"./pkg/apis/configuration/validation",
}

// owner types whose fields are the shared locations of interest
var ownerTypes = map[string]bool{
	"configs.Configurator":       true,
	"configs.metricLabelsIndex":  true,
	"k8s.Configuration":          true,
	"secrets.LocalSecretStore":   true,
	"k8s.LoadBalancerController": true,
	// the Configurator's NGINX manager (config version counter, child process ids): reached through the
	// nginx.Manager interface from Configurator.Reload and friends
	"nginx.LocalManager": true,
}

type entrySpec struct {
	Name  string
	Multi bool
	// roots: full names of functions/methods; litsIn: every function literal inside these functions;
	// handlerLits: every function literal that is a field value of a cache.ResourceEventHandlerFuncs literal
	Roots       []string
	LitsIn      []string
	HandlerLits bool
	// CondFrom: the entry is started by a go statement whose body calls this function; the enclosing
	// `if` conditions of that go statement become the entry's start-up condition
	CondFrom string
	What     string
}

var entries = []entrySpec{
	{Name: "worker", Roots: []string{"(*" + modPath + "internal/k8s.LoadBalancerController).sync"},
		What: "the single control-loop worker (taskQueue.worker -> lbc.sync)"},
	{Name: "service-insight", Multi: true, Roots: []string{
		"(*" + modPath + "internal/healthcheck.HealthServer).UpstreamStats",
		"(*" + modPath + "internal/healthcheck.HealthServer).StreamStats"},
		What: "service-insight HTTP handlers (one goroutine per connection)"},
	{Name: "telemetry", Roots: []string{"(*" + modPath + "internal/telemetry.Collector).Collect"},
		What: "telemetry collector loop"},
	{Name: "leader-callbacks", LitsIn: []string{modPath + "internal/k8s.createLeaderHandler"},
		What: "leader-election callbacks OnStartedLeading / OnStoppedLeading"},
	{Name: "spiffe-rotation", Roots: []string{"(*" + modPath + "internal/k8s.LoadBalancerController).syncSVIDRotation"},
		CondFrom: "(*" + modPath + "internal/k8s.LoadBalancerController).syncSVIDRotation",
		What:     "SPIFFE certificate rotation goroutine"},
	{Name: "informer-handlers", Multi: true, HandlerLits: true,
		What: "informer event handlers (one goroutine per informer; several informers share the handler functions)"},
}

// ---------------------------------------------------------------- data

type held struct {
	Lock string `json:"lock"`
	Ex   bool   `json:"ex"`
	Cond string `json:"cond"`
}

func (h held) String() string {
	m := "R"
	if h.Ex {
		m = "W"
	}
	return h.Lock + ":" + m + ":" + h.Cond
}

type lockset []held

func (l lockset) clone() lockset { return append(lockset(nil), l...) }
func (l lockset) key() string {
	s := make([]string, len(l))
	for i, h := range l {
		s[i] = h.String()
	}
	sort.Strings(s)
	return strings.Join(s, ",")
}
func (l lockset) canon() lockset {
	m := map[string]held{}
	for _, h := range l {
		m[h.String()] = h
	}
	ks := make([]string, 0, len(m))
	for k := range m {
		ks = append(ks, k)
	}
	sort.Strings(ks)
	out := lockset{}
	for _, k := range ks {
		out = append(out, m[k])
	}
	return out
}
func (l lockset) remove(lock string, ex bool) (lockset, bool) {
	for i := len(l) - 1; i >= 0; i-- {
		if l[i].Lock == lock && l[i].Ex == ex {
			return append(l[:i:i], l[i+1:]...), true
		}
	}
	return l, false
}
func intersect(a, b lockset) lockset {
	out := lockset{}
	bm := map[string]int{}
	for _, h := range b {
		bm[h.String()]++
	}
	for _, h := range a {
		if bm[h.String()] > 0 {
			bm[h.String()]--
			out = append(out, h)
		}
	}
	return out
}

const (
	evAccess = iota
	evCall
)

// argFact classifies one argument of a call for the shared-object analysis
type argFact struct {
	kind  int    // argOther | argFresh | argParam | argNonFresh
	param int    // for argParam: index of the caller's parameter the argument is rooted at
	key   string // object location the argument expression passes through ("" if none)
}

const (
	argOther = iota
	argFresh
	argParam
	argNonFresh
)

// mutFact: the function writes through its parameter [param] into object location [key]
// (key "" = into the parameter itself, a raw map or slice)
type mutFact struct {
	param int
	key   string
}

type event struct {
	akind   string // for reads: alias | len | read | index | range (how the value read is used on the spot)
	args    []argFact
	kind    int
	field   string
	write   bool
	targets []*node
	isGo    bool
	pos     token.Pos
	held    lockset
}

type node struct {
	ftype        *ast.FuncType
	mut          map[mutFact]bool // direct writes through parameters
	retFresh     []bool           // per result: every return hands out a private copy (this pass)
	hasRet       bool
	returnsField []string // fields of owner types this function returns directly (`return x.f`)
	file         string
	line0, line1 int
	key    string
	pkg    *packages.Package
	body   *ast.BlockStmt
	recv   *ast.FieldList
	events []event
	done   bool
}

type analyzer struct {
	fset       *token.FileSet
	pkgs       []*packages.Package
	byFunc     map[*types.Func]*node
	byLit      map[*ast.FuncLit]*node
	byKey      map[string]*node
	fieldFuncs map[*types.Var][]*node
	litsIn     map[string][]*node // enclosing function key -> literals
	handlerLit []*node
	handlerOf  map[*node]string // handler root -> "informer:<Resource>.<AddFunc|UpdateFunc|DeleteFunc>"
	named      []*types.Named
	ifaceCache map[string][]*node
	unknown    []string
	fieldKinds map[string]string   // field key -> map | slice | pointer | other
	summary    map[*node]map[mutFact]bool
	mutPos     map[*node]map[mutFact]map[token.Pos]*node // where the writes behind a summary fact are made
	retFresh   map[*node][]bool // from the previous pass over all functions
	entryLit   map[*node]bool   // function literals that are entry points (run by another goroutine, not where written)
	reachMemo  map[string]map[string]bool
	goConds    map[string][]string // callee key -> canonical conditions of the enclosing ifs of a go statement calling it
}

func short(pkgPath string) string {
	return strings.TrimPrefix(strings.TrimPrefix(pkgPath, modPath+"internal/"), modPath)
}

func shortPkgName(p *types.Package) string {
	if p == nil {
		return ""
	}
	return p.Name()
}

func (a *analyzer) rel(pos token.Pos) (string, int) {
	p := a.fset.Position(pos)
	f := p.Filename
	if i := strings.Index(f, "/internal/"); i >= 0 {
		f = f[i+1:]
	} else if i := strings.Index(f, "/pkg/apis/"); i >= 0 {
		f = f[i+1:]
	}
	return f, p.Line
}

func (a *analyzer) unk(pos token.Pos, msg string) {
	f, l := a.rel(pos)
	a.unknown = append(a.unknown, fmt.Sprintf("%s:%d: %s", f, l, msg))
}

// ---------------------------------------------------------------- loading / indexing

func (a *analyzer) index() {
	for _, p := range a.pkgs {
		for _, name := range p.Types.Scope().Names() {
			if tn, ok := p.Types.Scope().Lookup(name).(*types.TypeName); ok {
				if n, ok := tn.Type().(*types.Named); ok && !tn.IsAlias() {
					a.named = append(a.named, n)
				}
			}
		}
		for _, f := range p.Syntax {
			for _, d := range f.Decls {
				fd, ok := d.(*ast.FuncDecl)
				if !ok || fd.Body == nil {
					continue
				}
				fn, _ := p.TypesInfo.Defs[fd.Name].(*types.Func)
				if fn == nil {
					continue
				}
				n := &node{key: fn.FullName(), pkg: p, body: fd.Body, ftype: fd.Type, mut: map[mutFact]bool{}}
				n.file, n.line0 = a.rel(fd.Pos())
				_, n.line1 = a.rel(fd.End())
				a.byFunc[fn] = n
				a.byKey[n.key] = n
				ast.Inspect(fd.Body, func(x ast.Node) bool {
					switch v := x.(type) {
					case *ast.FuncLit:
						return false
					case *ast.ReturnStmt:
						for _, r := range v.Results {
							if se, ok := r.(*ast.SelectorExpr); ok {
								if f := a.fieldKey(p, se, false); f != "" {
									n.returnsField = append(n.returnsField, f)
								}
							}
						}
					}
					return true
				})
				// literals inside
				cnt := 0
				ast.Inspect(fd.Body, func(x ast.Node) bool {
					if fl, ok := x.(*ast.FuncLit); ok {
						cnt++
						_, line := a.rel(fl.Pos())
						ln := &node{key: fmt.Sprintf("%s$lit%d@%d", n.key, cnt, line), pkg: p, body: fl.Body, ftype: fl.Type, mut: map[mutFact]bool{}}
						ln.file, ln.line0 = a.rel(fl.Pos())
						_, ln.line1 = a.rel(fl.End())
						a.byLit[fl] = ln
						a.byKey[ln.key] = ln
						a.litsIn[n.key] = append(a.litsIn[n.key], ln)
					}
					return true
				})
			}
		}
	}
	// second pass: function values stored in struct fields, handler literals, go-statement conditions
	for _, p := range a.pkgs {
		info := p.TypesInfo
		for _, f := range p.Syntax {
			var stack []ast.Node
			ast.Inspect(f, func(x ast.Node) bool {
				if x == nil {
					stack = stack[:len(stack)-1]
					return true
				}
				stack = append(stack, x)
				switch v := x.(type) {
				case *ast.CompositeLit:
					tv, ok := info.Types[v]
					if !ok {
						break
					}
					isHandlers := false
					if nt, ok := tv.Type.(*types.Named); ok && nt.Obj().Name() == "ResourceEventHandlerFuncs" {
						isHandlers = true
					}
					for _, el := range v.Elts {
						kv, ok := el.(*ast.KeyValueExpr)
						if !ok {
							continue
						}
						if isHandlers {
							owner := "?"
							for i := len(stack) - 1; i >= 0; i-- {
								if fd, ok := stack[i].(*ast.FuncDecl); ok {
									owner = strings.TrimSuffix(strings.TrimPrefix(fd.Name.Name, "create"), "Handlers")
									break
								}
							}
							hk := "?"
							if id, ok := kv.Key.(*ast.Ident); ok {
								hk = id.Name
							}
							name := "informer:" + owner + "." + hk
							if fl, ok := kv.Value.(*ast.FuncLit); ok {
								a.handlerLit = append(a.handlerLit, a.byLit[fl])
								a.handlerOf[a.byLit[fl]] = name
							} else {
								for _, t := range a.funcValue(p, kv.Value) {
									a.handlerLit = append(a.handlerLit, t)
									a.handlerOf[t] = name
								}
							}
						}
						kid, ok := kv.Key.(*ast.Ident)
						if !ok {
							continue
						}
						fv, _ := info.Uses[kid].(*types.Var)
						if fv == nil || !fv.IsField() {
							continue
						}
						if _, ok := fv.Type().Underlying().(*types.Signature); !ok {
							continue
						}
						a.fieldFuncs[fv] = append(a.fieldFuncs[fv], a.funcValue(p, kv.Value)...)
					}
				case *ast.AssignStmt:
					if len(v.Lhs) != len(v.Rhs) {
						break
					}
					for i, lhs := range v.Lhs {
						se, ok := lhs.(*ast.SelectorExpr)
						if !ok {
							continue
						}
						sel := info.Selections[se]
						if sel == nil || sel.Kind() != types.FieldVal {
							continue
						}
						fv, _ := sel.Obj().(*types.Var)
						if fv == nil {
							continue
						}
						if _, ok := fv.Type().Underlying().(*types.Signature); !ok {
							continue
						}
						a.fieldFuncs[fv] = append(a.fieldFuncs[fv], a.funcValue(p, v.Rhs[i])...)
					}
				case *ast.GoStmt:
					// canonical conditions of the enclosing `if` statements (then-branches only)
					var conds []string
					ok := true
					for i := len(stack) - 2; i >= 0; i-- {
						switch s := stack[i].(type) {
						case *ast.IfStmt:
							// is the next inner node the then-block?
							if stack[i+1] == ast.Node(s.Body) {
								if c := a.canonCond(p, s.Cond); c != "" {
									conds = append(conds, c)
								}
							}
						case *ast.FuncDecl, *ast.FuncLit:
							i = -1
						}
					}
					if ok {
						ast.Inspect(v.Call, func(y ast.Node) bool {
							if ce, ok := y.(*ast.CallExpr); ok {
								for _, t := range a.callTargets(p, ce.Fun) {
									if _, seen := a.goConds[t.key]; !seen {
										a.goConds[t.key] = conds
									} else if strings.Join(a.goConds[t.key], "&") != strings.Join(conds, "&") {
										a.goConds[t.key] = nil // started from differently guarded places: no condition
									}
								}
							}
							return true
						})
					}
				}
				return true
			})
		}
	}
}

// canonCond recognises `<x>.<field> != nil` where field belongs to an owner type
func (a *analyzer) canonCond(p *packages.Package, e ast.Expr) string {
	be, ok := e.(*ast.BinaryExpr)
	if !ok || be.Op != token.NEQ {
		return ""
	}
	if id, ok := be.Y.(*ast.Ident); !ok || id.Name != "nil" {
		return ""
	}
	se, ok := be.X.(*ast.SelectorExpr)
	if !ok {
		return ""
	}
	f := a.fieldKey(p, se, false)
	if f == "" {
		return ""
	}
	return f + "!=nil"
}

// funcValue: the functions an expression used as a function value may denote
func (a *analyzer) funcValue(p *packages.Package, e ast.Expr) []*node {
	switch v := e.(type) {
	case *ast.FuncLit:
		if n := a.byLit[v]; n != nil {
			return []*node{n}
		}
	case *ast.ParenExpr:
		return a.funcValue(p, v.X)
	case *ast.Ident, *ast.SelectorExpr:
		return a.callTargets(p, e)
	}
	return nil
}

// callTargets resolves the function expression of a call (or a function-valued mention)
func (a *analyzer) callTargets(p *packages.Package, fun ast.Expr) []*node {
	info := p.TypesInfo
	switch v := fun.(type) {
	case *ast.ParenExpr:
		return a.callTargets(p, v.X)
	case *ast.FuncLit:
		if n := a.byLit[v]; n != nil {
			return []*node{n}
		}
	case *ast.Ident:
		if fn, ok := info.Uses[v].(*types.Func); ok {
			if n := a.byFunc[fn.Origin()]; n != nil {
				return []*node{n}
			}
		}
	case *ast.IndexExpr: // generic instantiation f[T]
		return a.callTargets(p, v.X)
	case *ast.SelectorExpr:
		if sel := info.Selections[v]; sel != nil {
			switch sel.Kind() {
			case types.MethodVal, types.MethodExpr:
				fn, _ := sel.Obj().(*types.Func)
				if fn == nil {
					return nil
				}
				if n := a.byFunc[fn.Origin()]; n != nil {
					return []*node{n}
				}
				// interface method?
				if sig, ok := fn.Type().(*types.Signature); ok && sig.Recv() != nil {
					if it, ok := sig.Recv().Type().Underlying().(*types.Interface); ok {
						return a.implementations(it, fn.Name(), sig.Recv().Type().String())
					}
				}
			case types.FieldVal:
				if fv, ok := sel.Obj().(*types.Var); ok {
					return a.fieldFuncs[fv]
				}
			}
			return nil
		}
		// qualified identifier pkg.Func
		if fn, ok := info.Uses[v.Sel].(*types.Func); ok {
			if n := a.byFunc[fn.Origin()]; n != nil {
				return []*node{n}
			}
		}
	}
	return nil
}

func (a *analyzer) implementations(it *types.Interface, method, ikey string) []*node {
	ck := ikey + "." + method
	if r, ok := a.ifaceCache[ck]; ok {
		return r
	}
	var out []*node
	for _, n := range a.named {
		if strings.HasPrefix(n.Obj().Name(), "Fake") || strings.HasPrefix(n.Obj().Name(), "fake") {
			continue
		}
		if _, isIface := n.Underlying().(*types.Interface); isIface {
			continue
		}
		var t types.Type = n
		if !types.Implements(t, it) {
			t = types.NewPointer(n)
			if !types.Implements(t, it) {
				continue
			}
		}
		obj, _, _ := types.LookupFieldOrMethod(t, true, n.Obj().Pkg(), method)
		if fn, ok := obj.(*types.Func); ok {
			if nd := a.byFunc[fn.Origin()]; nd != nil {
				out = append(out, nd)
			}
		}
	}
	a.ifaceCache[ck] = out
	return out
}

// ownerOf returns "pkg.Type" of the struct that declares field selected by se (through embedding too)
func (a *analyzer) ownerOf(p *packages.Package, se *ast.SelectorExpr) (string, *types.Var) {
	sel := p.TypesInfo.Selections[se]
	if sel == nil || sel.Kind() != types.FieldVal {
		return "", nil
	}
	fv, _ := sel.Obj().(*types.Var)
	if fv == nil {
		return "", nil
	}
	t := sel.Recv()
	idx := sel.Index()
	for k := 0; k < len(idx); k++ {
		if pt, ok := t.Underlying().(*types.Pointer); ok {
			t = pt.Elem()
		}
		if pt, ok := t.(*types.Pointer); ok {
			t = pt.Elem()
		}
		st, ok := t.Underlying().(*types.Struct)
		if !ok {
			return "", nil
		}
		if k == len(idx)-1 {
			if nt, ok := t.(*types.Named); ok {
				return shortPkgName(nt.Obj().Pkg()) + "." + nt.Obj().Name(), fv
			}
			return "", fv
		}
		t = st.Field(idx[k]).Type()
	}
	return "", fv
}

func isSyncType(t types.Type) bool {
	if pt, ok := t.(*types.Pointer); ok {
		t = pt.Elem()
	}
	if nt, ok := t.(*types.Named); ok && nt.Obj().Pkg() != nil {
		pp := nt.Obj().Pkg().Path()
		return pp == "sync" || pp == "sync/atomic"
	}
	return false
}

// fieldKey: "pkg.Type.field" when se selects a field of an owner type (sync-typed fields excluded
// unless anyType), else "".
func (a *analyzer) fieldKey(p *packages.Package, se *ast.SelectorExpr, anyOwner bool) string {
	owner, fv := a.ownerOf(p, se)
	if owner == "" || fv == nil {
		return ""
	}
	if !anyOwner {
		if !ownerTypes[owner] || isSyncType(fv.Type()) {
			return ""
		}
	}
	k := owner + "." + fv.Name()
	if _, ok := a.fieldKinds[k]; !ok {
		switch fv.Type().Underlying().(type) {
		case *types.Map:
			a.fieldKinds[k] = "map"
		case *types.Slice:
			a.fieldKinds[k] = "slice"
		case *types.Pointer:
			a.fieldKinds[k] = "pointer"
		default:
			a.fieldKinds[k] = "other"
		}
	}
	return k
}

// ---------------------------------------------------------------- per-function analysis

type walker struct {
	a           *analyzer
	n           *node
	p           *packages.Package
	defers      []*deferItem
	params      map[types.Object]int
	fresh       freshSet // access paths known to hold a private (deep) copy at this point
	pendingArgs []argFact
	asserted    map[types.Object]*types.Named // interface-typed variables the function type-asserts to an API type
	hints       map[ast.Node]string // how the parent uses the value of an expression: len | range | index | alias
	curKind     string
	local       map[string]argFact // what a local variable was last assigned from (parameter-rooted, shared)
}

type freshSet map[string]bool

func (f freshSet) clone() freshSet {
	o := freshSet{}
	for k := range f {
		o[k] = true
	}
	return o
}

// meet: fresh before the branching construct and still fresh at the end of every branch
func meet(f0 freshSet, rs ...freshSet) freshSet {
	o := freshSet{}
	for k := range f0 {
		ok := true
		for _, r := range rs {
			if !r[k] {
				ok = false
			}
		}
		if ok {
			o[k] = true
		}
	}
	return o
}

func (f freshSet) drop(path string) {
	for k := range f {
		if k == path || strings.HasPrefix(k, path+".") {
			delete(f, k)
		}
	}
}

// A deferred call runs when the function returns, after every defer registered later (LIFO).
// What it holds is therefore: what was held when it was registered, is still held at every exit
// that follows the registration, and is not released by a deferred Unlock registered after it.
type deferItem struct {
	unlock  bool
	lock    string
	ex      bool
	targets []*node
	args    []argFact
	pos     token.Pos
	regL    lockset
	exitL   lockset
	hasExit bool
}

func (w *walker) noteExit(L lockset) {
	for _, d := range w.defers {
		if !d.hasExit {
			d.exitL, d.hasExit = L.clone(), true
		} else {
			d.exitL = intersect(d.exitL, L)
		}
	}
}

func (a *analyzer) analyse(n *node) {
	if n.done {
		return
	}
	n.done = true
	w := &walker{a: a, n: n, p: n.pkg, params: map[types.Object]int{}, fresh: freshSet{}, local: map[string]argFact{}, hints: map[ast.Node]string{}}
	if n.ftype != nil && n.ftype.Params != nil {
		i := 0
		for _, f := range n.ftype.Params.List {
			if len(f.Names) == 0 {
				i++
			}
			for _, nm := range f.Names {
				if o := n.pkg.TypesInfo.Defs[nm]; o != nil {
					w.params[o] = i
				}
				i++
			}
		}
	}
	w.asserted = map[types.Object]*types.Named{}
	ast.Inspect(n.body, func(x ast.Node) bool {
		if _, ok := x.(*ast.FuncLit); ok {
			return false
		}
		if ta, ok := x.(*ast.TypeAssertExpr); ok && ta.Type != nil {
			if id, ok := ta.X.(*ast.Ident); ok {
				if nt := apiNamed(n.pkg.TypesInfo.TypeOf(ta.Type)); nt != nil {
					if o := n.pkg.TypesInfo.Uses[id]; o != nil {
						w.asserted[o] = nt
					}
				}
			}
		}
		return true
	})
	L := lockset{}
	w.block(n.body.List, &L)
	w.noteExit(L)
	for i := len(w.defers) - 1; i >= 0; i-- {
		d := w.defers[i]
		if d.unlock {
			continue
		}
		h := intersect(d.exitL, d.regL)
		for j := i + 1; j < len(w.defers); j++ {
			if u := w.defers[j]; u.unlock {
				h, _ = h.remove(u.lock, u.ex)
			}
		}
		w.pendingArgs = d.args
		w.emitCall(d.targets, false, d.pos, h)
	}
}

func (w *walker) emitAccess(field string, write bool, pos token.Pos, L lockset) {
	k := "write"
	if !write {
		k = w.curKind
		if k == "" {
			k = "read"
		}
	}
	w.n.events = append(w.n.events, event{kind: evAccess, field: field, write: write, pos: pos, held: L.canon(), akind: k})
}

// hint: the parent construct uses the value of e as a whole in a particular way (len(e), range e, e[i], return e)
func (w *walker) hint(e ast.Expr, kind string) {
	for {
		if p, ok := e.(*ast.ParenExpr); ok {
			e = p.X
			continue
		}
		break
	}
	switch e.(type) {
	case *ast.SelectorExpr, *ast.CallExpr:
		w.hints[e] = kind
	}
}

func (w *walker) emitCall(ts []*node, isGo bool, pos token.Pos, L lockset) {
	if len(ts) == 0 {
		w.pendingArgs = nil
		return
	}
	// a callee that returns an owner field directly hands out an alias: whatever the caller does
	// with the result (len, range, index) is a read of that field at the call site
	if !isGo {
		for _, t := range ts {
			for _, f := range t.returnsField {
				w.emitAccess(f, false, pos, L)
			}
		}
	}
	w.n.events = append(w.n.events, event{kind: evCall, targets: ts, isGo: isGo, pos: pos, held: L.canon(), args: w.pendingArgs})
	w.pendingArgs = nil
}

func terminating(s ast.Stmt) bool {
	switch v := s.(type) {
	case *ast.ReturnStmt:
		return true
	case *ast.BranchStmt:
		return true
	case *ast.ExprStmt:
		if ce, ok := v.X.(*ast.CallExpr); ok {
			switch f := ce.Fun.(type) {
			case *ast.Ident:
				return f.Name == "panic"
			case *ast.SelectorExpr:
				return strings.HasPrefix(f.Sel.Name, "Fatal") || f.Sel.Name == "Exit"
			}
		}
	case *ast.BlockStmt:
		return len(v.List) > 0 && terminating(v.List[len(v.List)-1])
	}
	return false
}

// block walks statements in order; returns true when the block always leaves the enclosing flow
func (w *walker) block(list []ast.Stmt, L *lockset) bool {
	for _, s := range list {
		w.stmt(s, L)
	}
	return len(list) > 0 && terminating(list[len(list)-1])
}

func (w *walker) stmt(s ast.Stmt, L *lockset) {
	switch v := s.(type) {
	case nil:
	case *ast.BlockStmt:
		w.block(v.List, L)
	case *ast.ExprStmt:
		w.expr(v.X, L, false)
	case *ast.AssignStmt:
		for _, r := range v.Rhs {
			w.expr(r, L, false)
		}
		for _, l := range v.Lhs {
			w.lhs(l, L)
			w.objMut(l, L, false)
		}
		for i, l := range v.Lhs {
			if len(v.Lhs) == len(v.Rhs) {
				w.assign(l, v.Rhs[i], -1)
			} else if len(v.Rhs) == 1 {
				w.assign(l, v.Rhs[0], i)
			} else {
				w.setFresh(l, false)
			}
		}
	case *ast.IncDecStmt:
		w.lhs(v.X, L)
		w.objMut(v.X, L, false)
	case *ast.DeclStmt:
		if gd, ok := v.Decl.(*ast.GenDecl); ok {
			for _, sp := range gd.Specs {
				if vs, ok := sp.(*ast.ValueSpec); ok {
					for _, e := range vs.Values {
						w.expr(e, L, false)
					}
					for i, nm := range vs.Names {
						switch {
						case len(vs.Values) == 0:
							w.fresh[nm.Name] = true // zero value: nothing shared yet
						case len(vs.Values) == len(vs.Names):
							w.assign(nm, vs.Values[i], -1)
						case len(vs.Values) == 1:
							w.assign(nm, vs.Values[0], i)
						default:
							w.setFresh(nm, false)
						}
					}
				}
			}
		}
	case *ast.ReturnStmt:
		for _, e := range v.Results {
			if _, ok := e.(*ast.SelectorExpr); ok {
				w.hint(e, "alias") // the use is charged to the caller (returnsField)
			}
			w.expr(e, L, false)
		}
		w.noteReturn(v)
		w.noteExit(*L)
	case *ast.SendStmt:
		w.expr(v.Chan, L, false)
		w.expr(v.Value, L, false)
	case *ast.GoStmt:
		w.goOrDefer(v.Call, L, true)
	case *ast.DeferStmt:
		w.goOrDefer(v.Call, L, false)
	case *ast.LabeledStmt:
		w.stmt(v.Stmt, L)
	case *ast.IfStmt:
		w.stmt(v.Init, L)
		w.expr(v.Cond, L, false)
		la := L.clone()
		f0 := w.fresh.clone()
		ta := w.block(v.Body.List, &la)
		fa := w.fresh
		w.fresh = f0.clone()
		lb := L.clone()
		tb := false
		if v.Else != nil {
			w.stmt(v.Else, &lb)
			tb = terminating(v.Else)
		}
		switch {
		case ta && !tb:
			w.fresh = meet(f0, w.fresh)
		case tb && !ta:
			w.fresh = meet(f0, fa)
		default:
			w.fresh = meet(f0, fa, w.fresh)
		}
		switch {
		case ta && tb:
			// both leave: what follows is unreachable from here; keep L
		case ta:
			*L = lb
		case tb:
			*L = la
		default:
			j := intersect(la, lb)
			if v.Else == nil {
				// conditional-lock idiom: locks gained in the then-branch (their release is deferred,
				// they stay held to the end of the function) are held under the start-up condition
				if c := w.a.canonCond(w.p, v.Cond); c != "" {
					base := map[string]int{}
					for _, h := range j {
						base[h.String()]++
					}
					for _, h := range la {
						if base[h.String()] > 0 {
							base[h.String()]--
							continue
						}
						if h.Cond == "" {
							h.Cond = c
							j = append(j, h)
						}
					}
				}
			}
			*L = j
		}
	case *ast.ForStmt:
		w.stmt(v.Init, L)
		if v.Cond != nil {
			w.expr(v.Cond, L, false)
		}
		lb := L.clone()
		f0 := w.fresh.clone()
		w.block(v.Body.List, &lb)
		w.stmt(v.Post, &lb)
		w.fresh = meet(f0, w.fresh)
		*L = intersect(*L, lb)
	case *ast.RangeStmt:
		w.hint(v.X, "range")
		w.expr(v.X, L, false)
		if v.Tok == token.ASSIGN {
			if v.Key != nil {
				w.lhs(v.Key, L)
				w.objMut(v.Key, L, false)
			}
			if v.Value != nil {
				w.lhs(v.Value, L)
				w.objMut(v.Value, L, false)
			}
		}
		// the iteration variables alias the elements of what is ranged over
		if v.Key != nil {
			w.setFresh(v.Key, false)
		}
		if v.Value != nil {
			w.setFresh(v.Value, false)
			if id, ok := v.Value.(*ast.Ident); ok {
				if w.isFreshSource(v.X) {
					w.fresh[id.Name] = true
				} else {
					k, pi := w.classify(w.chainOf(v.X))
					w.local[id.Name] = argFact{kind: k, param: pi}
				}
			}
		}
		lb := L.clone()
		f0 := w.fresh.clone()
		w.block(v.Body.List, &lb)
		w.fresh = meet(f0, w.fresh)
		*L = intersect(*L, lb)
	case *ast.SwitchStmt:
		w.stmt(v.Init, L)
		if v.Tag != nil {
			w.expr(v.Tag, L, false)
		}
		w.clauses(v.Body, L)
	case *ast.TypeSwitchStmt:
		w.stmt(v.Init, L)
		w.stmt(v.Assign, L)
		w.clauses(v.Body, L)
	case *ast.SelectStmt:
		w.clauses(v.Body, L)
	case *ast.BranchStmt, *ast.EmptyStmt:
	default:
		w.a.unk(s.Pos(), fmt.Sprintf("statement %T not interpreted", s))
	}
}

func (w *walker) clauses(body *ast.BlockStmt, L *lockset) {
	res := L.clone()
	hasDefault := false
	first := true
	var acc lockset
	f0 := w.fresh.clone()
	var frs []freshSet
	defer func() { w.fresh = meet(f0, frs...) }()
	for _, c := range body.List {
		lc := L.clone()
		w.fresh = f0.clone()
		var list []ast.Stmt
		switch cc := c.(type) {
		case *ast.CaseClause:
			for _, e := range cc.List {
				w.expr(e, L, false)
			}
			if cc.List == nil {
				hasDefault = true
			}
			list = cc.Body
		case *ast.CommClause:
			if cc.Comm == nil {
				hasDefault = true
			}
			w.stmt(cc.Comm, &lc)
			list = cc.Body
		}
		term := w.block(list, &lc)
		frs = append(frs, w.fresh)
		if term {
			continue
		}
		if first {
			acc = lc
			first = false
		} else {
			acc = intersect(acc, lc)
		}
	}
	if first {
		*L = res
		return
	}
	if !hasDefault {
		acc = intersect(acc, res)
	}
	*L = acc
}

func (w *walker) goOrDefer(call *ast.CallExpr, L *lockset, isGo bool) {
	// deferred Unlock / RUnlock: the lock stays held until the function returns
	if !isGo {
		if lk, op := w.lockOp(call); op != "" {
			switch op {
			case "Unlock", "RUnlock":
				ex := op == "Unlock"
				found := false
				for _, h := range *L {
					if h.Lock == lk && h.Ex == ex {
						found = true
					}
				}
				if !found {
					w.a.unk(call.Pos(), "deferred "+op+" of "+lk+" without a matching Lock in this function")
				}
				w.defers = append(w.defers, &deferItem{unlock: true, lock: lk, ex: ex, pos: call.Pos()})
			default:
				w.a.unk(call.Pos(), "deferred "+op+" on a lock")
			}
			return
		}
	}
	for _, arg := range call.Args {
		w.expr(arg, L, false)
	}
	ts := w.a.callTargets(w.p, call.Fun)
	if se, ok := call.Fun.(*ast.SelectorExpr); ok {
		w.expr(se.X, L, false)
	}
	if isGo {
		w.emitCall(ts, true, call.Pos(), lockset{})
	} else if len(ts) > 0 {
		// the arguments were evaluated here; the call itself runs at function exit (see analyse)
		w.defers = append(w.defers, &deferItem{targets: ts, pos: call.Pos(), regL: L.clone(), args: w.argFacts(call)})
	}
}

// lockOp recognises X.Lock() / Unlock / RLock / RUnlock / TryLock... on sync.Mutex / sync.RWMutex
func (w *walker) lockOp(call *ast.CallExpr) (lock string, op string) {
	se, ok := call.Fun.(*ast.SelectorExpr)
	if !ok {
		return "", ""
	}
	fn, _ := w.p.TypesInfo.Uses[se.Sel].(*types.Func)
	if fn == nil || fn.Pkg() == nil || fn.Pkg().Path() != "sync" {
		return "", ""
	}
	sig, _ := fn.Type().(*types.Signature)
	if sig == nil || sig.Recv() == nil {
		return "", ""
	}
	rt := sig.Recv().Type()
	if pt, ok := rt.(*types.Pointer); ok {
		rt = pt.Elem()
	}
	nt, ok := rt.(*types.Named)
	if !ok || (nt.Obj().Name() != "Mutex" && nt.Obj().Name() != "RWMutex") {
		return "", ""
	}
	// the lock expression
	x := se.X
	if px, ok := x.(*ast.ParenExpr); ok {
		x = px.X
	}
	key := ""
	if xs, ok := x.(*ast.SelectorExpr); ok {
		key = w.a.fieldKey(w.p, xs, true)
	}
	if key == "" {
		// embedded mutex: c.Lock() where c's struct embeds sync.Mutex
		if sel := w.p.TypesInfo.Selections[se]; sel != nil && len(sel.Index()) > 1 {
			t := sel.Recv()
			if pt, ok := t.(*types.Pointer); ok {
				t = pt.Elem()
			}
			if n, ok := t.(*types.Named); ok {
				key = shortPkgName(n.Obj().Pkg()) + "." + n.Obj().Name() + "." + nt.Obj().Name()
			}
		}
	}
	if key == "" {
		w.a.unk(call.Pos(), "lock expression "+types.ExprString(se.X)+" is not a struct field")
		key = "?" + types.ExprString(se.X)
	}
	return key, fn.Name()
}

// lhs: e is assigned to
func (w *walker) lhs(e ast.Expr, L *lockset) {
	switch v := e.(type) {
	case *ast.ParenExpr:
		w.lhs(v.X, L)
	case *ast.Ident:
	case *ast.SelectorExpr:
		if f := w.a.fieldKey(w.p, v, false); f != "" {
			w.emitAccess(f, true, v.Pos(), *L)
		}
		// writing a field of a struct VALUE stored in a field writes that outer field too
		if tv, ok := w.p.TypesInfo.Types[v.X]; ok {
			if _, isStruct := tv.Type.Underlying().(*types.Struct); isStruct {
				w.lhs(v.X, L)
				return
			}
		}
		w.expr(v.X, L, false)
	case *ast.IndexExpr:
		w.expr(v.Index, L, false)
		if tv, ok := w.p.TypesInfo.Types[v.X]; ok {
			switch tv.Type.Underlying().(type) {
			case *types.Map, *types.Slice, *types.Array:
				// element write: the container is written
				w.lhs(v.X, L)
				return
			}
		}
		w.expr(v.X, L, false)
	case *ast.StarExpr:
		w.expr(v.X, L, false)
	default:
		w.expr(e, L, false)
	}
}

func (w *walker) expr(e ast.Expr, L *lockset, _ bool) {
	switch v := e.(type) {
	case nil:
	case *ast.Ident:
		if fn, ok := w.p.TypesInfo.Uses[v].(*types.Func); ok {
			if n := w.a.byFunc[fn.Origin()]; n != nil {
				w.emitCall([]*node{n}, false, v.Pos(), *L) // function value mentioned
			}
		}
	case *ast.BasicLit:
	case *ast.FuncLit:
		if n := w.a.byLit[v]; n != nil && !w.a.entryLit[n] {
			w.emitCall([]*node{n}, false, v.Pos(), *L) // analysed where it is written
		}
	case *ast.CompositeLit:
		for _, el := range v.Elts {
			if kv, ok := el.(*ast.KeyValueExpr); ok {
				if _, isIdent := kv.Key.(*ast.Ident); !isIdent {
					w.expr(kv.Key, L, false)
				}
				w.expr(kv.Value, L, false)
			} else {
				w.expr(el, L, false)
			}
		}
	case *ast.ParenExpr:
		w.expr(v.X, L, false)
	case *ast.SelectorExpr:
		sel := w.p.TypesInfo.Selections[v]
		if sel == nil {
			// qualified identifier
			if fn, ok := w.p.TypesInfo.Uses[v.Sel].(*types.Func); ok {
				if n := w.a.byFunc[fn.Origin()]; n != nil {
					w.emitCall([]*node{n}, false, v.Pos(), *L)
				}
			}
			return
		}
		w.expr(v.X, L, false)
		switch sel.Kind() {
		case types.FieldVal:
			w.curKind = w.hints[v]
			if f := w.a.fieldKey(w.p, v, false); f != "" {
				w.emitAccess(f, false, v.Pos(), *L)
			}
			if k := w.a.objKey(w.p, v); k != "" {
				w.emitAccess(k, false, v.Pos(), *L)
			}
			w.curKind = ""
		case types.MethodVal, types.MethodExpr:
			// method value mentioned outside call position
			w.emitCall(w.a.callTargets(w.p, v), false, v.Pos(), *L)
		}
	case *ast.IndexExpr:
		w.hint(v.X, "index")
		w.expr(v.X, L, false)
		w.expr(v.Index, L, false)
	case *ast.IndexListExpr:
		w.expr(v.X, L, false)
	case *ast.SliceExpr:
		w.expr(v.X, L, false)
		w.expr(v.Low, L, false)
		w.expr(v.High, L, false)
		w.expr(v.Max, L, false)
	case *ast.TypeAssertExpr:
		w.expr(v.X, L, false)
	case *ast.StarExpr:
		w.expr(v.X, L, false)
		if nt := apiNamed(w.p.TypesInfo.TypeOf(v)); nt != nil {
			w.a.reach(nt)
			w.emitAccess("object*:"+typeKey(nt), false, v.Pos(), *L) // copies the whole object
		}
	case *ast.UnaryExpr:
		if v.Op == token.AND {
			// address taken: whoever gets the pointer may write
			if se, ok := v.X.(*ast.SelectorExpr); ok {
				if f := w.a.fieldKey(w.p, se, false); f != "" {
					w.emitAccess(f, true, se.Pos(), *L)
				}
			}
		}
		w.expr(v.X, L, false)
	case *ast.BinaryExpr:
		w.expr(v.X, L, false)
		w.expr(v.Y, L, false)
	case *ast.KeyValueExpr:
		w.expr(v.Key, L, false)
		w.expr(v.Value, L, false)
	case *ast.CallExpr:
		w.call(v, L)
	case *ast.ArrayType, *ast.StructType, *ast.FuncType, *ast.InterfaceType, *ast.MapType, *ast.ChanType, *ast.Ellipsis:
	default:
		w.a.unk(e.Pos(), fmt.Sprintf("expression %T not interpreted", e))
	}
}

func (w *walker) call(c *ast.CallExpr, L *lockset) {
	// conversions: T(x)
	if tv, ok := w.p.TypesInfo.Types[c.Fun]; ok && tv.IsType() {
		for _, a := range c.Args {
			w.expr(a, L, false)
		}
		return
	}
	// lock operations
	if lk, op := w.lockOp(c); op != "" {
		switch op {
		case "Lock":
			*L = append(*L, held{Lock: lk, Ex: true})
		case "RLock":
			*L = append(*L, held{Lock: lk, Ex: false})
		case "Unlock", "RUnlock":
			nl, ok := L.remove(lk, op == "Unlock")
			if !ok {
				w.a.unk(c.Pos(), op+" of "+lk+" without a matching Lock in this function")
			}
			*L = nl
		default:
			w.a.unk(c.Pos(), "lock operation "+op+" not modelled")
		}
		return
	}
	// builtins that write their first argument
	if id, ok := c.Fun.(*ast.Ident); ok {
		if _, isBuiltin := w.p.TypesInfo.Uses[id].(*types.Builtin); isBuiltin {
			switch id.Name {
			case "delete", "clear":
				if len(c.Args) > 0 {
					w.lhs(c.Args[0], L)
					w.objMut(c.Args[0], L, true)
					for _, a := range c.Args[1:] {
						w.expr(a, L, false)
					}
					return
				}
			}
			for _, a := range c.Args {
				if id.Name == "len" || id.Name == "cap" {
					w.hint(a, "len")
				}
				w.expr(a, L, false)
			}
			return
		}
	}
	for _, a := range c.Args {
		w.expr(a, L, false)
	}
	w.wholeReads(c, L)
	w.pendingArgs = w.argFacts(c)
	switch f := c.Fun.(type) {
	case *ast.SelectorExpr:
		sel := w.p.TypesInfo.Selections[f]
		if sel != nil {
			w.expr(f.X, L, false)
			if sel.Kind() == types.FieldVal {
				if fk := w.a.fieldKey(w.p, f, false); fk != "" {
					w.emitAccess(fk, false, f.Pos(), *L)
				}
			}
			// pointer-receiver method called on a struct VALUE held in an owner field: implicit &x.f
			if sel.Kind() == types.MethodVal {
				if fn, ok := sel.Obj().(*types.Func); ok {
					if sig, ok := fn.Type().(*types.Signature); ok && sig.Recv() != nil {
						if _, ptrRecv := sig.Recv().Type().(*types.Pointer); ptrRecv {
							if xs, ok := f.X.(*ast.SelectorExpr); ok {
								if tv, ok := w.p.TypesInfo.Types[xs]; ok {
									if _, isPtr := tv.Type.Underlying().(*types.Pointer); !isPtr {
										if _, isIface := tv.Type.Underlying().(*types.Interface); !isIface {
											if fk := w.a.fieldKey(w.p, xs, false); fk != "" {
												w.emitAccess(fk, true, xs.Pos(), *L)
											}
										}
									}
								}
							}
						}
					}
				}
			}
		}
		w.curKind = w.hints[c]
		w.emitCall(w.a.callTargets(w.p, f), false, c.Pos(), *L)
		w.curKind = ""
	case *ast.FuncLit:
		w.curKind = w.hints[c]
		w.emitCall(w.a.callTargets(w.p, f), false, c.Pos(), *L)
		w.curKind = ""
	case *ast.Ident:
		w.curKind = w.hints[c]
		w.emitCall(w.a.callTargets(w.p, f), false, c.Pos(), *L)
		w.curKind = ""
	default:
		w.expr(c.Fun, L, false)
	}
}

// ---------------------------------------------------------------- shared API objects
//
// Objects of the Kubernetes API types (k8s.io/api, apimachinery meta, pkg/apis/configuration ...) that the
// controller holds are the informer stores' own objects: Configuration.ingresses & co. keep the pointers the
// informers delivered, the *Ex structs handed to the generator point at them again.  Other goroutines read
// them (informer handlers under Configuration.lock, the leader callbacks, the worker).  The sound rule is
// "nobody writes into an API object that is not its own fresh copy": a write (assignment, ++, delete, clear,
// element store, or a call that writes through a parameter) whose target is reached through a field of an
// API-typed value counts as a write of the location "object:<type>.<field>", unless the path it goes through
// was assigned a fresh value (DeepCopy(), a literal, new, make, a zero-valued local) earlier in the same
// function.  Every field read of an API-typed value is a read of that location; DeepCopy(), *x and passing
// an API object to a function outside the loaded packages read all of it.  Instances are conflated per type.

func isAPIPkg(path string) bool {
	return strings.HasPrefix(path, "k8s.io/api/") || strings.HasPrefix(path, "k8s.io/apimachinery/pkg/apis/") ||
		strings.HasPrefix(path, modPath+"pkg/apis/")
}

func apiNamed(t types.Type) *types.Named {
	if t == nil {
		return nil
	}
	if pt, ok := t.Underlying().(*types.Pointer); ok {
		t = pt.Elem()
	}
	nt, ok := t.(*types.Named)
	if !ok || nt.Obj().Pkg() == nil || !isAPIPkg(nt.Obj().Pkg().Path()) {
		return nil
	}
	if _, ok := nt.Underlying().(*types.Struct); !ok {
		return nil
	}
	return nt
}

func typeKey(nt *types.Named) string {
	parts := strings.Split(nt.Obj().Pkg().Path(), "/")
	if len(parts) > 2 {
		parts = parts[len(parts)-2:]
	}
	return strings.Join(parts, "/") + "." + nt.Obj().Name()
}

func pointerLike(t types.Type) bool {
	if t == nil {
		return true
	}
	switch t.Underlying().(type) {
	case *types.Pointer, *types.Map, *types.Slice, *types.Interface, *types.Chan, *types.Signature:
		return true
	}
	return false
}

// objKey: "object:<declaring API struct>.<field>" when se selects a field of an API-typed value
func (a *analyzer) objKey(p *packages.Package, se *ast.SelectorExpr) string {
	sel := p.TypesInfo.Selections[se]
	if sel == nil || sel.Kind() != types.FieldVal {
		return ""
	}
	if apiNamed(sel.Recv()) == nil {
		return ""
	}
	fv, _ := sel.Obj().(*types.Var)
	if fv == nil {
		return ""
	}
	t := sel.Recv()
	idx := sel.Index()
	var owner *types.Named
	for k := 0; k < len(idx); k++ {
		if pt, ok := t.Underlying().(*types.Pointer); ok {
			t = pt.Elem()
		}
		st, ok := t.Underlying().(*types.Struct)
		if !ok {
			return ""
		}
		if k == len(idx)-1 {
			owner, _ = t.(*types.Named)
			break
		}
		t = st.Field(idx[k]).Type()
	}
	if owner == nil || owner.Obj().Pkg() == nil || !isAPIPkg(owner.Obj().Pkg().Path()) {
		return ""
	}
	k := "object:" + typeKey(owner) + "." + fv.Name()
	// a field of the embedded ObjectMeta / TypeMeta reached through the resource keeps the resource type, so
	// that the metadata of Ingresses is not the metadata of Secrets; reached through a bare *ObjectMeta the
	// resource is unknown (generic key, matched against every resource below)
	if outer := apiNamed(sel.Recv()); outer != nil && outer != owner {
		k = "object:" + typeKey(outer) + "#" + owner.Obj().Name() + "." + fv.Name()
	}
	if _, ok := a.fieldKinds[k]; !ok {
		switch fv.Type().Underlying().(type) {
		case *types.Map:
			a.fieldKinds[k] = "map"
		case *types.Slice:
			a.fieldKinds[k] = "slice"
		case *types.Pointer:
			a.fieldKinds[k] = "pointer"
		default:
			a.fieldKinds[k] = "other"
		}
	}
	return k
}

// reach: the API struct types reachable from nt through fields, pointers, slices, maps (incl. nt)
func (a *analyzer) reach(nt *types.Named) map[string]bool {
	k := typeKey(nt)
	if r, ok := a.reachMemo[k]; ok {
		return r
	}
	out := map[string]bool{}
	a.reachMemo[k] = out
	var visit func(t types.Type, depth int)
	seen := map[types.Type]bool{}
	visit = func(t types.Type, depth int) {
		if t == nil || depth > 12 || seen[t] {
			return
		}
		seen[t] = true
		switch u := t.(type) {
		case *types.Pointer:
			visit(u.Elem(), depth+1)
		case *types.Slice:
			visit(u.Elem(), depth+1)
		case *types.Array:
			visit(u.Elem(), depth+1)
		case *types.Map:
			visit(u.Key(), depth+1)
			visit(u.Elem(), depth+1)
		case *types.Named:
			if st, ok := u.Underlying().(*types.Struct); ok {
				if u.Obj().Pkg() != nil && isAPIPkg(u.Obj().Pkg().Path()) {
					out[typeKey(u)] = true
				}
				for i := 0; i < st.NumFields(); i++ {
					visit(st.Field(i).Type(), depth+1)
				}
			} else {
				visit(u.Underlying(), depth+1)
			}
		case *types.Struct:
			for i := 0; i < u.NumFields(); i++ {
				visit(u.Field(i).Type(), depth+1)
			}
		}
	}
	visit(nt, 0)
	return out
}

// reachKey: reach() by type key (types seen during the analysis are memoised as they are met)
func (a *analyzer) reachKey(tk string) map[string]bool {
	if r, ok := a.reachMemo[tk]; ok {
		return r
	}
	return map[string]bool{}
}

// chain: how an expression reaches the memory it denotes
type chain struct {
	root     ast.Expr
	rootObj  types.Object
	prefixes []string // textual access paths from the expression down to its root
	key      string   // object location of the API field selected closest to the root
	indirect bool     // passes through a pointer, map or slice (so the memory may be shared)
}

func (w *walker) chainOf(e ast.Expr) chain {
	var c chain
	info := w.p.TypesInfo
	cur := e
	for {
		switch v := cur.(type) {
		case *ast.ParenExpr:
			cur = v.X
		case *ast.StarExpr:
			c.indirect = true
			cur = v.X
		case *ast.UnaryExpr:
			if v.Op != token.AND {
				c.root = cur
				return c
			}
			cur = v.X
		case *ast.SliceExpr:
			c.indirect = true
			cur = v.X
		case *ast.TypeAssertExpr:
			cur = v.X
		case *ast.IndexExpr:
			if t := info.TypeOf(v.X); t != nil {
				switch t.Underlying().(type) {
				case *types.Map, *types.Slice, *types.Pointer:
					c.indirect = true
				}
			}
			cur = v.X
		case *ast.SelectorExpr:
			sel := info.Selections[v]
			if sel == nil || sel.Kind() != types.FieldVal {
				c.root = cur
				return c
			}
			if t := info.TypeOf(v.X); t != nil {
				if _, ok := t.Underlying().(*types.Pointer); ok {
					c.indirect = true
				}
			}
			if k := w.a.objKey(w.p, v); k != "" {
				c.key = k
			}
			c.prefixes = append(c.prefixes, types.ExprString(v))
			cur = v.X
		case *ast.Ident:
			c.root = v
			c.rootObj = info.Uses[v]
			if c.rootObj == nil {
				c.rootObj = info.Defs[v]
			}
			c.prefixes = append(c.prefixes, v.Name)
			return c
		default:
			c.root = cur
			return c
		}
	}
}

func isDeepCopyCall(e ast.Expr) bool {
	ce, ok := e.(*ast.CallExpr)
	if !ok {
		return false
	}
	se, ok := ce.Fun.(*ast.SelectorExpr)
	return ok && se.Sel.Name == "DeepCopy"
}

func (w *walker) isFreshSource(e ast.Expr) bool {
	switch v := e.(type) {
	case *ast.ParenExpr:
		return w.isFreshSource(v.X)
	case *ast.CompositeLit, *ast.BasicLit, *ast.FuncLit:
		return true
	case *ast.UnaryExpr:
		if v.Op == token.AND {
			return w.isFreshSource(v.X)
		}
		return true
	case *ast.BinaryExpr:
		return true
	case *ast.CallExpr:
		if isDeepCopyCall(v) {
			return true
		}
		if id, ok := v.Fun.(*ast.Ident); ok {
			if _, isB := w.p.TypesInfo.Uses[id].(*types.Builtin); isB {
				return id.Name == "new" || id.Name == "make" || id.Name == "len" || id.Name == "cap"
			}
		}
		return w.callFresh(v, -1)
	case *ast.TypeAssertExpr:
		return w.isFreshSource(v.X)
	case *ast.Ident:
		if v.Name == "nil" || v.Name == "true" || v.Name == "false" {
			return true
		}
		return w.fresh[v.Name]
	case *ast.SelectorExpr:
		c := w.chainOf(v)
		for _, p := range c.prefixes {
			if w.fresh[p] {
				return true
			}
		}
		// a plain value (string, int, bool) copied out of anything is private
		t := w.p.TypesInfo.TypeOf(v)
		return !pointerLike(t) && apiNamed(t) == nil && !isStructWithRefs(t)
	}
	return false
}

// callFresh: does call e hand out a private object as its result idx (-1: the only one)?
// DeepCopy and the allocation builtins do; a loaded function does when every return of it does (previous
// pass); code outside the loaded packages does (API clients deserialise) except the informer caches and
// listers of client-go, which hand out the shared object itself.
func (w *walker) callFresh(e *ast.CallExpr, idx int) bool {
	if isDeepCopyCall(e) {
		return true
	}
	t := w.p.TypesInfo.TypeOf(e)
	if tup, ok := t.(*types.Tuple); ok && idx >= 0 && idx < tup.Len() {
		t = tup.At(idx).Type()
	}
	if !pointerLike(t) && apiNamed(t) == nil && !isStructWithRefs(t) {
		return true
	}
	if idx < 0 {
		idx = 0
	}
	if ts := w.a.callTargets(w.p, e.Fun); len(ts) > 0 {
		for _, tn := range ts {
			rf := w.a.retFresh[tn]
			if idx >= len(rf) || !rf[idx] {
				return false
			}
		}
		return true
	}
	var fn *types.Func
	switch f := e.Fun.(type) {
	case *ast.Ident:
		fn, _ = w.p.TypesInfo.Uses[f].(*types.Func)
	case *ast.SelectorExpr:
		fn, _ = w.p.TypesInfo.Uses[f.Sel].(*types.Func)
	}
	if fn == nil || fn.Pkg() == nil {
		return false // a call through a function value
	}
	pp := fn.Pkg().Path()
	if strings.HasPrefix(pp, modPath+"pkg/client/clientset") {
		return true // generated API clients
	}
	if strings.HasPrefix(pp, "k8s.io/client-go/tools/cache") || strings.Contains(pp, "/listers/") ||
		strings.Contains(pp, "/informers/") || strings.HasPrefix(pp, modPath) {
		return false
	}
	return true
}

// assign: lhs is given the value of rhs (result idx of it when rhs is a multi-valued call)
func (w *walker) assign(lhs, rhs ast.Expr, idx int) {
	fresh := false
	if ce, ok := rhs.(*ast.CallExpr); ok && idx >= 0 {
		fresh = w.callFresh(ce, idx)
	} else if idx < 0 {
		fresh = w.isFreshSource(rhs)
	}
	var lk *argFact
	if !fresh && idx < 0 {
		k, pi := w.classify(w.chainOf(rhs))
		lk = &argFact{kind: k, param: pi}
	}
	w.setFresh(lhs, fresh)
	if id, ok := lhs.(*ast.Ident); ok && id.Name != "_" {
		delete(w.local, id.Name)
		if lk != nil {
			w.local[id.Name] = *lk
		}
	}
}

// noteReturn: which results of this function are private copies at this return
func (w *walker) noteReturn(r *ast.ReturnStmt) {
	if w.n.ftype == nil || w.n.ftype.Results == nil {
		return
	}
	var names []*ast.Ident
	nres := 0
	for _, f := range w.n.ftype.Results.List {
		if len(f.Names) == 0 {
			nres++
			names = append(names, nil)
		}
		for _, nm := range f.Names {
			nres++
			names = append(names, nm)
		}
	}
	cur := make([]bool, nres)
	switch {
	case len(r.Results) == 0:
		for i, nm := range names {
			cur[i] = nm != nil && w.fresh[nm.Name]
		}
	case len(r.Results) == nres:
		for i, e := range r.Results {
			cur[i] = w.isFreshSource(e)
		}
	case len(r.Results) == 1:
		if ce, ok := r.Results[0].(*ast.CallExpr); ok {
			for i := range cur {
				cur[i] = w.callFresh(ce, i)
			}
		}
	}
	if !w.n.hasRet {
		w.n.retFresh, w.n.hasRet = cur, true
		return
	}
	for i := range cur {
		w.n.retFresh[i] = w.n.retFresh[i] && cur[i]
	}
}

func isStructWithRefs(t types.Type) bool {
	if t == nil {
		return true
	}
	_, ok := t.Underlying().(*types.Struct)
	return ok
}

func (w *walker) setFresh(lhs ast.Expr, fresh bool) {
	switch lhs.(type) {
	case *ast.Ident, *ast.SelectorExpr:
	default:
		return
	}
	path := types.ExprString(lhs)
	if path == "_" {
		return
	}
	w.fresh.drop(path)
	if fresh {
		w.fresh[path] = true
	}
}

// classify a chain: is the memory behind it private to this function, does it come in through a parameter
// (then the caller decides), or is it shared
func (w *walker) classify(c chain) (int, int) {
	for _, p := range c.prefixes {
		if w.fresh[p] {
			return argFresh, 0
		}
	}
	switch r := c.root.(type) {
	case *ast.CallExpr:
		if w.isFreshSource(r) {
			return argFresh, 0
		}
		return argNonFresh, 0
	case *ast.CompositeLit:
		return argFresh, 0
	case *ast.Ident:
		if c.rootObj != nil {
			if i, ok := w.params[c.rootObj]; ok {
				t := c.rootObj.Type()
				if apiNamed(t) != nil {
					return argParam, i
				}
				switch t.Underlying().(type) {
				case *types.Map, *types.Slice:
					if len(c.prefixes) == 1 { // the parameter itself, not something reached through it
						return argParam, i
					}
				}
				return argNonFresh, 0
			}
		}
		if lk, ok := w.local[r.Name]; ok && (lk.kind == argParam || lk.kind == argFresh) {
			return lk.kind, lk.param
		}
		return argNonFresh, 0
	}
	return argNonFresh, 0
}

// objMut: expression e is written (assigned, incremented, deleted from)
func (w *walker) objMut(e ast.Expr, L *lockset, container bool) {
	c := w.chainOf(e)
	if container {
		c.indirect = true // delete(m, k) / clear(m) write the map m denotes
	}
	if !c.indirect {
		return // a local variable or a field of a local struct value
	}
	kind, pi := w.classify(c)
	switch kind {
	case argFresh:
	case argParam:
		w.n.mut[mutFact{pi, c.key}] = true
		w.a.notePos(w.n, mutFact{pi, c.key}, e.Pos(), w.n)
	case argNonFresh:
		if c.key != "" {
			w.emitAccess(c.key, true, e.Pos(), *L)
		}
	}
}

func (w *walker) argFacts(call *ast.CallExpr) []argFact {
	out := make([]argFact, len(call.Args))
	for i, a := range call.Args {
		t := w.p.TypesInfo.TypeOf(a)
		if t == nil || !(pointerLike(t) || apiNamed(t) != nil) {
			continue
		}
		if _, ok := a.(*ast.FuncLit); ok {
			continue
		}
		if w.isFreshSource(a) {
			out[i] = argFact{kind: argFresh}
			continue
		}
		c := w.chainOf(a)
		kind, pi := w.classify(c)
		out[i] = argFact{kind: kind, param: pi, key: c.key}
	}
	return out
}

// wholeReads: DeepCopy() and handing an API object to code outside the loaded packages read all of it
func (w *walker) wholeReads(call *ast.CallExpr, L *lockset) {
	if se, ok := call.Fun.(*ast.SelectorExpr); ok && strings.HasPrefix(se.Sel.Name, "DeepCopy") {
		if nt := apiNamed(w.p.TypesInfo.TypeOf(se.X)); nt != nil {
			w.a.reach(nt)
			w.emitAccess("object*:"+typeKey(nt), false, call.Pos(), *L)
		}
	}
	if len(w.a.callTargets(w.p, call.Fun)) > 0 {
		return
	}
	for _, a := range call.Args {
		nt := apiNamed(w.p.TypesInfo.TypeOf(a))
		if nt == nil {
			// reflect.DeepEqual(old, cur) on interface{} values the function itself asserts to be API objects
			if id, ok := a.(*ast.Ident); ok {
				nt = w.asserted[w.p.TypesInfo.Uses[id]]
			}
		}
		if nt != nil {
			w.a.reach(nt)
			w.emitAccess("object*:"+typeKey(nt), false, a.Pos(), *L)
		}
	}
}

func (a *analyzer) notePos(n *node, f mutFact, pos token.Pos, at *node) bool {
	if a.mutPos[n] == nil {
		a.mutPos[n] = map[mutFact]map[token.Pos]*node{}
	}
	if a.mutPos[n][f] == nil {
		a.mutPos[n][f] = map[token.Pos]*node{}
	}
	if _, ok := a.mutPos[n][f][pos]; ok {
		return false
	}
	a.mutPos[n][f][pos] = at
	return true
}

// summaries: which parameters a function writes through, directly or by passing them on
func (a *analyzer) summarise() {
	var all []*node
	for _, n := range a.byKey {
		all = append(all, n)
	}
	sort.Slice(all, func(i, j int) bool { return all[i].key < all[j].key })
	// which functions hand out private copies is needed to analyse their callers: iterate
	base := append([]string(nil), a.unknown...)
	for pass := 0; pass < 5; pass++ {
		a.unknown = append([]string{}, base...)
		for _, n := range all {
			n.events, n.mut, n.done, n.retFresh, n.hasRet = nil, map[mutFact]bool{}, false, nil, false
		}
		a.mutPos = map[*node]map[mutFact]map[token.Pos]*node{}
		for _, n := range all {
			a.analyse(n)
		}
		same := true
		for _, n := range all {
			if fmt.Sprint(a.retFresh[n]) != fmt.Sprint(n.retFresh) {
				same = false
			}
			a.retFresh[n] = n.retFresh
		}
		if same && pass > 0 {
			break
		}
	}
	for _, n := range all {
		a.summary[n] = map[mutFact]bool{}
		for f := range n.mut {
			a.summary[n][f] = true
		}
	}
	for changed := true; changed; {
		changed = false
		for _, n := range all {
			for _, ev := range n.events {
				if ev.kind != evCall || ev.args == nil {
					continue
				}
				for _, t := range ev.targets {
					for f := range a.summary[t] {
						if f.param >= len(ev.args) {
							continue
						}
						af := ev.args[f.param]
						if af.kind != argParam {
							continue
						}
						k := f.key
						if k == "" {
							k = af.key
						}
						nf := mutFact{af.param, k}
						if !a.summary[n][nf] {
							a.summary[n][nf] = true
							changed = true
						}
						for pos, at := range a.mutPos[t][f] {
							if a.notePos(n, nf, pos, at) {
								changed = true
							}
						}
					}
				}
			}
		}
	}
}

// ---------------------------------------------------------------- whole-program pass

type site struct {
	File  string   `json:"file"`
	Line  int      `json:"line"`
	Func  string   `json:"func"`
	Chain []string `json:"chain,omitempty"`
}

type span struct {
	File  string `json:"file"`
	Line0 int    `json:"line0"`
	Line1 int    `json:"line1"`
}

type rowOut struct {
	Idx   int    `json:"idx"`
	Entry string `json:"entry"`
	Multi bool   `json:"multi"`
	Cond  string `json:"cond"`
	Field string `json:"field"`
	Write bool   `json:"write"`
	Kind  string `json:"kind"`
	Held  []held `json:"held"`
	Sites []site `json:"sites"`
}

type collector struct {
	a       *analyzer
	rows    map[string]*rowOut
	order   []string
	seen    map[string]bool
	goRoots map[string][]*node // goroutines launched from an entry: "<entry>+go:<function>" -> the launched functions
	goOrder []string
}

// goName: a goroutine started from an entry point is an entry point of its own
func goName(entry string, t *node) string {
	k := trimKey(t.key)
	if i := strings.Index(k, "@"); i >= 0 {
		k = k[:i]
	}
	if i := strings.LastIndex(k, "."); i >= 0 {
		k = k[i+1:]
	}
	if i := strings.Index(entry, "+go:"); i >= 0 {
		entry = entry[:i]
	}
	return entry + "+go:" + k
}

func trimKey(k string) string {
	k = strings.ReplaceAll(k, modPath+"internal/", "")
	return strings.ReplaceAll(k, modPath, "")
}

func (c *collector) record(entry string, multi bool, cond string, n *node, field string, write bool, akind string, eff lockset, pos token.Pos, chain []string) {
	rk := entry + "|" + field + "|" + fmt.Sprint(write) + "|" + akind + "|" + eff.key()
	r := c.rows[rk]
	if r == nil {
		r = &rowOut{Entry: entry, Multi: multi, Cond: cond, Field: field, Write: write, Kind: akind, Held: eff}
		c.rows[rk] = r
		c.order = append(c.order, rk)
	}
	f, l := c.a.rel(pos)
	for _, s := range r.Sites {
		if s.File == f && s.Line == l {
			return
		}
	}
	s := site{File: f, Line: l, Func: trimKey(n.key)}
	if len(r.Sites) == 0 {
		s.Chain = chain
	}
	r.Sites = append(r.Sites, s)
}

func (c *collector) visit(entry string, multi bool, cond string, n *node, ctx lockset, chain []string) {
	mk := entry + "|" + n.key + "|" + ctx.key()
	if c.seen[mk] {
		return
	}
	c.seen[mk] = true
	c.a.analyse(n)
	chain = append(append([]string(nil), chain...), trimKey(n.key))
	for _, ev := range n.events {
		eff := append(ctx.clone(), ev.held...).canon()
		switch ev.kind {
		case evAccess:
			c.record(entry, multi, cond, n, ev.field, ev.write, ev.akind, eff, ev.pos, chain)
		case evCall:
			for _, t := range ev.targets {
				// the callee writes through a parameter: here a shared object was passed for it
				for f := range c.a.summary[t] {
					if ev.args == nil || f.param >= len(ev.args) || ev.args[f.param].kind != argNonFresh {
						continue
					}
					k := f.key
					if k == "" {
						k = ev.args[f.param].key
					}
					if strings.HasPrefix(k, "object:") {
						c.record(entry, multi, cond, n, k, true, "write", eff, ev.pos, append(append([]string(nil), chain...), trimKey(t.key)))
						// ... and the statements that do the writing, as further sites of the same row
						for pos, at := range c.a.mutPos[t][f] {
							c.record(entry, multi, cond, at, k, true, "write", eff, pos, nil)
						}
					}
				}
				if ev.isGo {
					gn := goName(entry, t)
					if c.goRoots == nil {
						c.goRoots = map[string][]*node{}
					}
					if _, ok := c.goRoots[gn]; !ok {
						c.goOrder = append(c.goOrder, gn)
					}
					dup := false
					for _, r := range c.goRoots[gn] {
						if r == t {
							dup = true
						}
					}
					if !dup {
						c.goRoots[gn] = append(c.goRoots[gn], t)
					}
					c.visit(gn, true, cond, t, lockset{}, chain)
				} else {
					c.visit(entry, multi, cond, t, eff, chain)
				}
			}
		}
	}
}

func cq(s string) string { return "\"" + strings.ReplaceAll(s, "\"", "\"\"") + "\"" }

func main() {
	repo := flag.String("repo", "/repo", "repository root")
	outV := flag.String("coq", "", "output .v file")
	outJ := flag.String("json", "", "output .json file")
	flag.Parse()

	cfg := &packages.Config{
		Mode: packages.NeedName | packages.NeedFiles | packages.NeedSyntax | packages.NeedTypes | packages.NeedTypesInfo | packages.NeedImports,
		Dir:  *repo,
	}
	pkgs, err := packages.Load(cfg, loadPatterns...)
	if err != nil {
		fmt.Fprintln(os.Stderr, "load:", err)
		os.Exit(2)
	}
	bad := false
	for _, p := range pkgs {
		for _, e := range p.Errors {
			fmt.Fprintln(os.Stderr, "package error:", p.PkgPath, e)
			bad = true
		}
	}
	if bad || len(pkgs) != len(loadPatterns) {
		os.Exit(2)
	}
	sort.Slice(pkgs, func(i, j int) bool { return pkgs[i].PkgPath < pkgs[j].PkgPath })
	a := &analyzer{fset: pkgs[0].Fset, pkgs: pkgs, byFunc: map[*types.Func]*node{}, byLit: map[*ast.FuncLit]*node{},
		byKey: map[string]*node{}, fieldFuncs: map[*types.Var][]*node{}, litsIn: map[string][]*node{},
		ifaceCache: map[string][]*node{}, goConds: map[string][]string{}, unknown: []string{}, fieldKinds: map[string]string{}, summary: map[*node]map[mutFact]bool{}, mutPos: map[*node]map[mutFact]map[token.Pos]*node{}, retFresh: map[*node][]bool{}, entryLit: map[*node]bool{}, handlerOf: map[*node]string{}, reachMemo: map[string]map[string]bool{}}
	a.index()
	for _, e := range entries {
		for _, k := range e.LitsIn {
			for _, n := range a.litsIn[k] {
				a.entryLit[n] = true
			}
		}
		if e.HandlerLits {
			for _, n := range a.handlerLit {
				if n != nil && strings.Contains(n.key, "$lit") {
					a.entryLit[n] = true
				}
			}
		}
	}
	a.summarise()

	col := &collector{a: a, rows: map[string]*rowOut{}, seen: map[string]bool{}}
	type entryOut struct {
		Name  string   `json:"name"`
		Multi bool     `json:"multi"`
		Cond  string   `json:"cond"`
		What  string   `json:"what"`
		Roots []string `json:"roots"`
		Spans []span   `json:"spans"`
	}
	var eouts []entryOut
	// every handler function registered with an informer is an entry point of its own: the informer of each
	// resource kind runs its handlers on its own goroutine, and a finding about one handler must not hide a
	// new access made by another
	var specs []entrySpec
	explicit := map[string][]*node{}
	for _, e := range entries {
		if !e.HandlerLits {
			specs = append(specs, e)
			continue
		}
		if len(a.handlerLit) == 0 {
			a.unknown = append(a.unknown, "entry "+e.Name+": no ResourceEventHandlerFuncs literal found")
		}
		var names []string
		for _, n := range a.handlerLit {
			if n == nil {
				continue
			}
			nm := a.handlerOf[n]
			if _, ok := explicit[nm]; !ok {
				names = append(names, nm)
			}
			explicit[nm] = append(explicit[nm], n)
		}
		sort.Strings(names)
		for _, nm := range names {
			specs = append(specs, entrySpec{Name: nm, Multi: true, What: e.What})
		}
	}
	for _, e := range specs {
		var roots []*node
		roots = append(roots, explicit[e.Name]...)
		for _, k := range e.Roots {
			n := a.byKey[k]
			if n == nil {
				a.unknown = append(a.unknown, "entry "+e.Name+": root "+trimKey(k)+" not found in the source")
				continue
			}
			roots = append(roots, n)
		}
		for _, k := range e.LitsIn {
			if a.byKey[k] == nil {
				a.unknown = append(a.unknown, "entry "+e.Name+": function "+trimKey(k)+" not found in the source")
			}
			roots = append(roots, a.litsIn[k]...)
		}
		cond := ""
		if e.CondFrom != "" {
			cs := a.goConds[e.CondFrom]
			if len(cs) == 1 {
				cond = cs[0]
			}
		}
		eo := entryOut{Name: e.Name, Multi: e.Multi, Cond: cond, What: e.What, Roots: []string{}}
		for _, r := range roots {
			if r == nil {
				continue
			}
			eo.Roots = append(eo.Roots, trimKey(r.key))
			eo.Spans = append(eo.Spans, span{r.file, r.line0, r.line1})
			col.visit(e.Name, e.Multi, cond, r, lockset{}, nil)
		}
		eouts = append(eouts, eo)
	}

	for _, gn := range col.goOrder {
		eo := entryOut{Name: gn, Multi: true, What: "goroutine started with a go statement from " + gn[:strings.Index(gn, "+go:")], Roots: []string{}}
		for _, r := range col.goRoots[gn] {
			eo.Roots = append(eo.Roots, trimKey(r.key))
			eo.Spans = append(eo.Spans, span{r.file, r.line0, r.line1})
		}
		eouts = append(eouts, eo)
	}
	// start-up conditions are only trusted when no entry ever writes the field they test
	written := map[string]bool{}
	for _, k := range col.order {
		if r := col.rows[k]; r.Write {
			written[r.Field] = true
		}
	}
	condOK := func(c string) bool { return c == "" || !written[strings.TrimSuffix(c, "!=nil")] }
	// shared API objects: a whole-object read (DeepCopy, *x, handing the object to a library) stands for a
	// read of every written location inside that type; object locations nobody writes are dropped (they
	// cannot take part in a conflict and there are thousands of them)
	writtenObj := map[string]bool{}
	for _, k := range col.order {
		if r := col.rows[k]; r.Write && strings.HasPrefix(r.Field, "object:") {
			writtenObj[r.Field] = true
		}
	}
	ownerOfKey := func(k string) string { // "object:pkg/v1.Type.Field" -> "pkg/v1.Type"
		k = strings.TrimPrefix(k, "object:")
		return k[:strings.LastIndex(k, ".")]
	}
	var expanded []string
	addRead := func(r *rowOut, wk string) {
		rk := r.Entry + "|" + wk + "|false|" + r.Kind + "|" + lockset(r.Held).key()
		nr := col.rows[rk]
		if nr == nil {
			nr = &rowOut{Entry: r.Entry, Multi: r.Multi, Cond: r.Cond, Field: wk, Write: false, Kind: r.Kind, Held: r.Held}
			col.rows[rk] = nr
			expanded = append(expanded, rk)
		}
		for _, st := range r.Sites {
			dup := false
			for _, s2 := range nr.Sites {
				if s2.File == st.File && s2.Line == st.Line {
					dup = true
				}
			}
			if !dup && len(nr.Sites) < 12 {
				nr.Sites = append(nr.Sites, st)
			}
		}
	}
	// "object:T#Meta.F" (typed) and "object:meta/v1.Meta.F" (resource unknown) denote overlapping memory
	metaOf := func(k string) (outer, rest string) { // typed: ("T", "ObjectMeta.F"); generic: ("", "ObjectMeta.F")
		k = strings.TrimPrefix(k, "object:")
		if i := strings.Index(k, "#"); i >= 0 {
			return k[:i], k[i+1:]
		}
		if strings.HasPrefix(k, "meta/v1.ObjectMeta.") || strings.HasPrefix(k, "meta/v1.TypeMeta.") {
			return "", strings.TrimPrefix(k, "meta/v1.")
		}
		return "", ""
	}
	for _, k := range append([]string(nil), col.order...) {
		r := col.rows[k]
		if r.Write || !strings.HasPrefix(r.Field, "object:") {
			continue
		}
		outer, rest := metaOf(r.Field)
		if rest == "" {
			continue
		}
		for wk := range writtenObj {
			wo, wr := metaOf(wk)
			if wr == rest && wk != r.Field && (outer == "" || wo == "") {
				addRead(r, wk)
			}
		}
	}
	for _, k := range append([]string(nil), col.order...) {
		r := col.rows[k]
		if !strings.HasPrefix(r.Field, "object*:") {
			continue
		}
		tk := strings.TrimPrefix(r.Field, "object*:")
		for wk := range writtenObj {
			o := ownerOfKey(wk)
			if i := strings.Index(o, "#"); i >= 0 {
				o = o[:i]
			}
			if o == tk || a.reachKey(tk)[o] {
				r2 := *r
				r2.Kind = "read"
				addRead(&r2, wk)
			}
		}
	}
	sort.Strings(expanded)
	col.order = append(col.order, expanded...)
	var rows []*rowOut
	for _, k := range col.order {
		r := col.rows[k]
		if strings.HasPrefix(r.Field, "object*:") || (strings.HasPrefix(r.Field, "object:") && !writtenObj[r.Field]) {
			continue
		}
		if !condOK(r.Cond) {
			r.Cond = ""
		}
		hs := []held{}
		for _, h := range r.Held {
			if condOK(h.Cond) {
				hs = append(hs, h)
			}
		}
		r.Held = hs
		rows = append(rows, r)
	}
	// informer handlers with the very same access summary are indistinguishable for the table: they are merged
	// into one (multi) entry, so that the inventory stays readable; a handler that gains an access of its own
	// leaves its group and shows up under its own name
	{
		sum := map[string][]string{}
		for _, r := range rows {
			if strings.HasPrefix(r.Entry, "informer:") {
				sum[r.Entry] = append(sum[r.Entry], fmt.Sprintf("%s|%v|%s|%s", r.Field, r.Write, r.Kind, lockset(r.Held).key()))
			}
		}
		for _, eo := range eouts {
			if strings.HasPrefix(eo.Name, "informer:") {
				if _, ok := sum[eo.Name]; !ok {
					sum[eo.Name] = nil
				}
			}
		}
		groups := map[string][]string{}
		for e, l := range sum {
			sort.Strings(l)
			k := strings.Join(l, ";")
			groups[k] = append(groups[k], e)
		}
		rename := map[string]string{}
		biggest, bigN := "", 1
		for k, es := range groups {
			sort.Strings(es)
			if len(es) > bigN || (len(es) == bigN && bigN > 1 && es[0] < groups[biggest][0]) {
				biggest, bigN = k, len(es)
			}
		}
		for k, es := range groups {
			if len(es) < 2 {
				continue
			}
			name := es[0] + "&co"
			if k == biggest {
				name = "informer:enqueue-only"
			}
			for _, e := range es {
				rename[e] = name
			}
		}
		merged := map[string]*rowOut{}
		var out []*rowOut
		for _, r := range rows {
			if nn, ok := rename[r.Entry]; ok {
				r.Entry = nn
			}
			k := fmt.Sprintf("%s|%s|%v|%s|%s", r.Entry, r.Field, r.Write, r.Kind, lockset(r.Held).key())
			if m := merged[k]; m != nil {
				for _, st := range r.Sites {
					dup := false
					for _, s2 := range m.Sites {
						if s2.File == st.File && s2.Line == st.Line {
							dup = true
						}
					}
					if !dup && len(m.Sites) < 24 {
						m.Sites = append(m.Sites, st)
					}
				}
				continue
			}
			merged[k] = r
			out = append(out, r)
		}
		rows = out
		var eo2 []entryOut
		idx := map[string]int{}
		for _, eo := range eouts {
			if nn, ok := rename[eo.Name]; ok {
				if i, seen := idx[nn]; seen {
					eo2[i].Roots = append(eo2[i].Roots, eo.Roots...)
					eo2[i].Spans = append(eo2[i].Spans, eo.Spans...)
					continue
				}
				eo.Name = nn
			}
			idx[eo.Name] = len(eo2)
			eo2 = append(eo2, eo)
		}
		eouts = eo2
	}
	sort.SliceStable(rows, func(i, j int) bool {
		if rows[i].Entry != rows[j].Entry {
			return rows[i].Entry < rows[j].Entry
		}
		if rows[i].Field != rows[j].Field {
			return rows[i].Field < rows[j].Field
		}
		return !rows[i].Write && rows[j].Write
	})
	for i, r := range rows {
		r.Idx = i
	}
	sort.Strings(a.unknown)

	var b strings.Builder
	b.WriteString("(* GENERATED on every run by harness/overlay/internal/verifh/c18t from the Go source -- never\n")
	b.WriteString("   committed as truth.  One row per (entry point, field, read/write, locks held). *)\n")
	b.WriteString("From Coq Require Import List String.\nFrom NIC Require Import Lockset.Model.\nImport ListNotations.\nOpen Scope string_scope.\n\n")
	b.WriteString("Definition gen_accesses : access_table := [\n")
	for i, r := range rows {
		var hs []string
		for _, h := range r.Held {
			m := "Sh"
			if h.Ex {
				m = "Ex"
			}
			hs = append(hs, fmt.Sprintf("(%s, %s, %s)", cq(h.Lock), m, cq(h.Cond)))
		}
		sep := ";"
		if i == len(rows)-1 {
			sep = ""
		}
		fmt.Fprintf(&b, "  mkRow %s %v %s %s %v [%s]%s\n", cq(r.Entry), r.Multi, cq(r.Cond), cq(r.Field), r.Write, strings.Join(hs, "; "), sep)
	}
	b.WriteString("].\n\n(* constructs the translator could not interpret (must be empty) *)\nDefinition gen_unknown : list string := [\n")
	for i, u := range a.unknown {
		sep := ";"
		if i == len(a.unknown)-1 {
			sep = ""
		}
		fmt.Fprintf(&b, "  %s%s\n", cq(u), sep)
	}
	b.WriteString("].\n")
	if *outV != "" {
		os.MkdirAll(filepath.Dir(*outV), 0o755)
		if err := os.WriteFile(*outV, []byte(b.String()), 0o644); err != nil {
			fmt.Fprintln(os.Stderr, err)
			os.Exit(2)
		}
	}
	js, _ := json.MarshalIndent(map[string]any{"entries": eouts, "rows": rows, "unknown": a.unknown,
		"functions_indexed": len(a.byKey), "owner_types": ownerTypes, "field_kinds": a.fieldKinds}, "", " ")
	if *outJ != "" {
		if err := os.WriteFile(*outJ, js, 0o644); err != nil {
			fmt.Fprintln(os.Stderr, err)
			os.Exit(2)
		}
	} else if *outV == "" {
		os.Stdout.Write(js)
	}
	fmt.Fprintf(os.Stderr, "c18t: %d functions, %d rows, %d unknown\n", len(a.byKey), len(rows), len(a.unknown))
}
