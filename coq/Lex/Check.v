(* Lex/Check.v -- executable checks on generated NGINX configuration.  NO PROOFS in this file
   (soundness of wf_conf: Lex/CheckProofs.v).

   INTERFACE
     wf_conf : string -> bool            lexes, parses (blocks balanced, every directive terminated,
                                         no ';' '{' without a name), every word shorter than 4096
     conf_tree : string -> option (list directive)      = Parser.parse_conf
     words_short : list token -> bool
     arity_errors : fctx -> list directive -> list (string * string)
                                         table-driven check of the number of arguments; result =
                                         list of (problem, directive name) with problem one of
                                         [unknown] (name not in the table: closed world, so that a new
                                         directive is noticed), [arity], or [value] (max_conns= /
                                         max_fails= / weight= of an upstream server that is not a
                                         decimal number).  fctx = context of the file.
     arity_ok_conf : string -> string -> bool      (file name, content)
     fctx_of_file : string -> fctx       CMain (file name ends in nginx.conf), CStream (contains
                                         stream-conf.d/), CMapBody (contains tls-passthrough-hosts),
                                         CHttp (everything else: conf.d/*.conf)
     dup_idents : list (string * string) -> list (string * string * string)
                                         over (file name, content) pairs: (kind, scope, identifier)
                                         for every identifier defined twice.  kinds:
        upstream        scope http|stream       upstream NAME blocks
        zone            scope shm               shared-memory zone names: zone=NAME of limit_req_zone,
                                                limit_conn_zone, keyval_zone, proxy_cache_path keys_zone=,
                                                and [zone NAME] inside an upstream (prefixed by the
                                                context for upstream zones: http and stream upstream
                                                zones of the same name clash in NGINX, and so do two
                                                zones of different modules)
        match           scope http|stream       match NAME blocks
        location        scope file              two prefix (or two exact) locations with the same path, or
                                                the same named location, among the children of ONE server
        server_name     scope ctx|listen-addr   the same name (or no name) on the same listen address in
                                                two different server blocks
        default_server  scope ctx|listen-addr   two default servers for one address
        map_key         scope file              the same non-regex key twice inside one map block (or in
                                                the TLS passthrough hosts file)
     Files that do not parse contribute nothing to dup_idents (wf_conf reports them).
     dup_idents_trees : list (string * list directive) -> list ident     the same on parsed files
     tree_idents, arity_errors                          per-file pieces, on the parsed forest

   ARITY TABLE.  Collected from the templates internal/configs/version1/*.tmpl, version2/*.tmpl and
   the helper functions they call.  The numbers are NGINX's NGX_CONF_TAKEn / 1MORE / FLAG / NOARGS
   flags as the author knows them; where the exact rule is not certain (app_protect_*, usage_report,
   the NGINX Plus only directives) the most permissive rule that is certain is used (at least one
   argument, or any number): the table can only accept too much there, never reject a legal file.
   The children of map / split_clients / geo / types blocks are data lines, not directives. *)
From Coq Require Import List String Ascii Bool Arith.
From NIC Require Import Lex.Lexer Lex.Parser.
Import ListNotations.
Open Scope string_scope.
Open Scope list_scope.
Local Infix "+++" := String.append (at level 60, right associativity).

(* ---------------------------------------------------------------- small string helpers *)

Fixpoint starts_with (p s : string) : bool :=
  match p, s with
  | EmptyString, _ => true
  | String a p', String b s' => Ascii.eqb a b && starts_with p' s'
  | _, _ => false
  end.

Fixpoint drop_prefix (p s : string) : string :=
  match p, s with
  | String _ p', String _ s' => drop_prefix p' s'
  | _, _ => s
  end.

Fixpoint contains (p s : string) : bool :=
  starts_with p s || match s with EmptyString => false | String _ s' => contains p s' end.

Definition ends_with (p s : string) : bool :=
  let lp := String.length p in let ls := String.length s in
  Nat.leb lp ls && String.eqb (substring (ls - lp) lp s) p.

Fixpoint take_until (c : ascii) (s : string) : string :=
  match s with
  | EmptyString => EmptyString
  | String a r => if Ascii.eqb a c then EmptyString else String a (take_until c r)
  end.

Definition mem_str (x : string) (l : list string) : bool := existsb (String.eqb x) l.

(* ---------------------------------------------------------------- well-formedness *)

Definition conf_tree (s : string) : option (list directive) := parse_conf s.

Definition words_short (ts : list token) : bool :=
  forallb (fun t => match t with TWord w => Nat.ltb (String.length w) 4096 | _ => true end) ts.

Definition wf_conf (s : string) : bool :=
  match lex s with
  | Some ts => words_short ts && match parse ts with Some _ => true | None => false end
  | None => false
  end.

(* ---------------------------------------------------------------- arity table *)

(* (min, max) number of arguments; max = None: unbounded *)
Definition range := (nat * option nat)%type.
Definition in_range (r : range) (n : nat) : bool :=
  Nat.leb (fst r) n && match snd r with Some m => Nat.leb n m | None => true end.

Definition r0 : range := (0, Some 0).
Definition r1 : range := (1, Some 1).
Definition r2 : range := (2, Some 2).
Definition r3 : range := (3, Some 3).
Definition r01 : range := (0, Some 1).
Definition r12 : range := (1, Some 2).
Definition r13 : range := (1, Some 3).
Definition r23 : range := (2, Some 3).
Definition r34 : range := (3, Some 4).
Definition r1m : range := (1, None).
Definition r2m : range := (2, None).
Definition rany : range := (0, None).

(* name, rule when ended by ';', rule when followed by a block *)
Definition arule := (string * option range * option range)%type.
Definition S_ (n : string) (r : range) : arule := (n, Some r, None).
Definition B_ (n : string) (r : range) : arule := (n, None, Some r).

Definition arity_table : list arule :=
  [ (* main context *)
    S_ "daemon" r1; S_ "worker_processes" r1; S_ "worker_rlimit_nofile" r1; S_ "worker_cpu_affinity" r1m;
    S_ "worker_shutdown_timeout" r1; S_ "pid" r1; S_ "error_log" r1m; S_ "load_module" r1;
    S_ "worker_connections" r1; S_ "include" r1; S_ "env" r1; S_ "user" r12;
    B_ "events" r0; B_ "http" r0; B_ "stream" r0; B_ "mgmt" r0;
    (* blocks *)
    ("server", Some r1m, Some r0);            (* server {..} in http/stream; server ADDR ...; in upstream *)
    B_ "upstream" r1; B_ "location" r12; B_ "if" r1m; B_ "map" r2; B_ "split_clients" r2;
    B_ "match" r1; B_ "geo" r12; B_ "types" r0; B_ "limit_except" r1m;
    (* http core and friends *)
    S_ "access_log" r1m; S_ "add_header" r23; S_ "allow" r1; S_ "deny" r1; S_ "api" r01;
    S_ "auth_basic" r1; S_ "auth_basic_user_file" r1; S_ "auth_jwt" r12; S_ "auth_jwt_claim_set" r2m;
    S_ "auth_jwt_key_cache" r1; S_ "auth_jwt_key_file" r1; S_ "auth_jwt_key_request" r1; S_ "auth_jwt_type" r1;
    S_ "auth_request" r1; S_ "auth_request_set" r2; S_ "client_max_body_size" r1; S_ "client_body_buffer_size" r1;
    S_ "default_type" r1; S_ "error_page" r2m; S_ "gunzip" r1; S_ "gzip" r1; S_ "http2" r1;
    S_ "internal" r0; S_ "js_content" r1; S_ "js_import" r13; S_ "js_set" r23; S_ "js_var" r12;
    S_ "js_preload_object" r13; S_ "js_path" r1;
    S_ "keepalive" r1; S_ "keepalive_requests" r1; S_ "keepalive_timeout" r12; S_ "keyval" r3;
    S_ "keyval_zone" r1m; S_ "limit_req" r13; S_ "limit_req_dry_run" r1; S_ "limit_req_log_level" r1;
    S_ "limit_req_status" r1; S_ "limit_req_zone" r34; S_ "limit_conn_zone" r2; S_ "limit_conn" r2;
    S_ "listen" r1m; S_ "log_format" r2m;
    S_ "map_hash_bucket_size" r1; S_ "map_hash_max_size" r1; S_ "ntlm" r0; S_ "queue" r12;
    S_ "opentracing" r1; S_ "opentracing_load_tracer" r2; S_ "opentracing_tag" r2;
    S_ "opentracing_propagate_context" r0; S_ "opentracing_grpc_propagate_context" r0;
    S_ "opentracing_operation_name" r1; S_ "opentracing_location_operation_name" r1; S_ "opentracing_trace_locations" r1;
    S_ "otel_exporter" r0; S_ "otel_service_name" r1; S_ "otel_trace" r1; S_ "otel_trace_context" r1;
    S_ "otel_span_name" r1; S_ "otel_span_attr" r2; S_ "otel_resource_attr" r2;
    B_ "otel_exporter" r0; S_ "endpoint" r1; S_ "header" r1m; S_ "trusted_certificate" r1;
    S_ "real_ip_header" r1; S_ "real_ip_recursive" r1; S_ "set_real_ip_from" r1;
    S_ "resolver" r1m; S_ "resolver_timeout" r1; S_ "return" r12; S_ "rewrite" r23; S_ "root" r1;
    S_ "sendfile" r1; S_ "tcp_nopush" r1; S_ "tcp_nodelay" r1; S_ "underscores_in_headers" r1;
    S_ "server_name" r1m; S_ "server_names_hash_bucket_size" r1; S_ "server_names_hash_max_size" r1;
    S_ "server_tokens" r1; S_ "set" r2; S_ "status_zone" r1; S_ "sticky" r1m; S_ "stub_status" r01;
    S_ "variables_hash_bucket_size" r1; S_ "variables_hash_max_size" r1; S_ "zone" r12;
    S_ "least_conn" r0; S_ "ip_hash" r0; S_ "hash" r12; S_ "random" (0, Some 2); S_ "least_time" r12;
    S_ "health_check" rany; S_ "health_check_timeout" r1; S_ "slow_start" r1; S_ "state" r1;
    S_ "subrequest_output_buffer_size" r1; S_ "large_client_header_buffers" r2; S_ "client_header_buffer_size" r1;
    S_ "map_hash_bucket_size" r1; S_ "types_hash_max_size" r1; S_ "types_hash_bucket_size" r1;
    (* ssl *)
    S_ "ssl_certificate" r1; S_ "ssl_certificate_key" r1; S_ "ssl_ciphers" r1; S_ "ssl_client_certificate" r1;
    S_ "ssl_crl" r1; S_ "ssl_dhparam" r1; S_ "ssl_prefer_server_ciphers" r1; S_ "ssl_preread" r1;
    S_ "ssl_protocols" r1m; S_ "ssl_reject_handshake" r1; S_ "ssl_trusted_certificate" r1; S_ "ssl_verify" r1;
    S_ "ssl_verify_client" r1; S_ "ssl_verify_depth" r1; S_ "ssl_session_cache" r12; S_ "ssl_session_timeout" r1;
    S_ "ssl_session_tickets" r1; S_ "ssl_conf_command" r2; S_ "ssl_ecdh_curve" r1; S_ "ssl" r1;
    (* mgmt (NGINX Plus R31+): exact rules not certain, at least one argument *)
    S_ "license_token" r1m; S_ "usage_report" rany; S_ "deployment_context" r1m; S_ "enforce_initial_report" r1m;
    S_ "proxy" r1m; S_ "proxy_username" r1m; S_ "proxy_password" r1m;
    (* proxy (http and stream) *)
    S_ "proxy_buffer_size" r1; S_ "proxy_buffering" r1; S_ "proxy_buffers" r2; S_ "proxy_busy_buffers_size" r1;
    S_ "proxy_cache" r1; S_ "proxy_cache_path" r2m; S_ "proxy_cache_valid" r1m; S_ "proxy_cache_key" r1;
    S_ "proxy_connect_timeout" r1; S_ "proxy_hide_header" r1; S_ "proxy_http_version" r1;
    S_ "proxy_ignore_headers" r1m; S_ "proxy_intercept_errors" r1; S_ "proxy_max_temp_file_size" r1;
    S_ "proxy_method" r1; S_ "proxy_next_upstream" r1m; S_ "proxy_next_upstream_timeout" r1;
    S_ "proxy_next_upstream_tries" r1; S_ "proxy_pass" r1; S_ "proxy_pass_header" r1;
    S_ "proxy_pass_request_headers" r1; S_ "proxy_pass_request_body" r1; S_ "proxy_protocol" r1; S_ "proxy_read_timeout" r1;
    S_ "proxy_requests" r1; S_ "proxy_responses" r1; S_ "proxy_send_timeout" r1; S_ "proxy_set_header" r2;
    S_ "proxy_redirect" r12; S_ "proxy_set_body" r1; S_ "proxy_bind" r12;
    S_ "proxy_ssl" r1; S_ "proxy_ssl_certificate" r1; S_ "proxy_ssl_certificate_key" r1; S_ "proxy_ssl_ciphers" r1;
    S_ "proxy_ssl_name" r1; S_ "proxy_ssl_protocols" r1m; S_ "proxy_ssl_server_name" r1;
    S_ "proxy_ssl_session_reuse" r1; S_ "proxy_ssl_trusted_certificate" r1; S_ "proxy_ssl_verify" r1;
    S_ "proxy_ssl_verify_depth" r1; S_ "proxy_timeout" r1;
    (* grpc *)
    S_ "grpc_buffer_size" r1; S_ "grpc_connect_timeout" r1; S_ "grpc_hide_header" r1; S_ "grpc_ignore_headers" r1m;
    S_ "grpc_intercept_errors" r1; S_ "grpc_next_upstream" r1m; S_ "grpc_next_upstream_timeout" r1;
    S_ "grpc_next_upstream_tries" r1; S_ "grpc_pass" r1; S_ "grpc_pass_header" r1; S_ "grpc_read_timeout" r1;
    S_ "grpc_send_timeout" r1; S_ "grpc_set_header" r2; S_ "grpc_ssl_certificate" r1; S_ "grpc_ssl_certificate_key" r1;
    S_ "grpc_ssl_ciphers" r1; S_ "grpc_ssl_name" r1; S_ "grpc_ssl_protocols" r1m; S_ "grpc_ssl_server_name" r1;
    S_ "grpc_ssl_session_reuse" r1; S_ "grpc_ssl_trusted_certificate" r1; S_ "grpc_ssl_verify" r1;
    S_ "grpc_ssl_verify_depth" r1;
    (* App Protect WAF / DoS modules: exact rules not certain, at least one argument *)
    S_ "app_protect_enable" r1m; S_ "app_protect_policy_file" r1m; S_ "app_protect_security_log_enable" r1m;
    S_ "app_protect_security_log" r1m; S_ "app_protect_compressed_requests_action" r1m; S_ "app_protect_cookie_seed" r1m;
    S_ "app_protect_cpu_thresholds" r1m; S_ "app_protect_failure_mode_action" r1m;
    S_ "app_protect_physical_memory_util_thresholds" r1m; S_ "app_protect_reconnect_period_seconds" r1m;
    S_ "app_protect_enforcer_address" r1m; S_ "app_protect_user_defined_signatures" r1m;
    S_ "app_protect_dos_access_file" r1m; S_ "app_protect_dos_api" rany; S_ "app_protect_dos_arb_fqdn" r1m;
    S_ "app_protect_dos_enable" r1m; S_ "app_protect_dos_monitor" r1m; S_ "app_protect_dos_name" r1m;
    S_ "app_protect_dos_policy_file" r1m; S_ "app_protect_dos_security_log" r1m;
    S_ "app_protect_dos_security_log_enable" r1m; S_ "app_protect_dos_liveness" r1m; S_ "app_protect_dos_readiness" r1m;
    S_ "app_protect_dos_accelerated_mitigation" r1m; S_ "app_protect_dos_tls_fp" r1m
  ].

(* directives legal inside a match block (health-check matchers, http and stream) *)
Definition match_table : list arule :=
  [ S_ "status" r1m; S_ "header" r1m; S_ "body" r2; S_ "require" r1m; S_ "send" r1; S_ "expect" r12 ].

Fixpoint lookup_rule (t : list arule) (n : string) : option (option range * option range) :=
  match t with
  | [] => None
  | (m, s, b) :: r => if String.eqb m n then Some (s, b) else lookup_rule r n
  end.

Inductive fctx := CMain | CHttp | CStream | CMapBody.

Definition data_block (n : string) : bool :=
  mem_str n ["map"; "split_clients"; "geo"; "types"; "charset_map"].

(* one directive against a table *)
Definition arity_of (t : list arule) (d : directive) : list (string * string) :=
  match d with
  | Dir n a b =>
      match lookup_rule t n with
      | None => [("unknown", n)]
      | Some (s, bl) =>
          match (match b with None => s | Some _ => bl end) with
          | None => [("arity", n)]                     (* used as a block but is not one, or vice versa *)
          | Some r => if in_range r (List.length a) then [] else [("arity", n)]
          end
      end
  end.

(* a data line of a map-like block: [key value;], [default value;], [include file;], [hostnames;] ...:
   one or two words, never a block *)
Definition data_line_ok (d : directive) : list (string * string) :=
  match d with
  | Dir n a None => if Nat.leb (List.length a) 1 then [] else [("arity", "map-entry:" +++ n)]
  | Dir n _ (Some _) => [("arity", "map-entry:" +++ n)]
  end.

(* numeric parameters of an upstream [server ADDR ...;] line: NGINX parses them with ngx_atoi,
   which accepts decimal digits only (a sign is an error: invalid parameter) *)
Definition all_digits (s : string) : bool :=
  negb (String.eqb s "") &&
  forallb (fun c => Nat.leb 48 (nat_of_ascii c) && Nat.leb (nat_of_ascii c) 57) (list_ascii_of_string s).

Definition server_param_errors (d : directive) : list (string * string) :=
  match d with
  | Dir n a None =>
      if String.eqb n "server" then
        flat_map (fun x =>
                    flat_map (fun k => if starts_with k x && negb (all_digits (drop_prefix k x))
                                       then [("value", "server " +++ x)] else [])
                             ["max_conns="; "max_fails="; "weight="]) a
      else []
  | _ => []
  end.

(* [sticky cookie NAME param ...;]: after the cookie name every parameter is KEY=VALUE or one of
   httponly / secure (NGINX: invalid parameter otherwise) *)
Definition sticky_param_errors (d : directive) : list (string * string) :=
  match d with
  | Dir n (m :: _ :: ps) None =>
      if String.eqb n "sticky" && String.eqb m "cookie" then
        flat_map (fun x => if contains "=" x || String.eqb x "httponly" || String.eqb x "secure"
                           then [] else [("value", "sticky cookie " +++ x)]) ps
      else []
  | _ => []
  end.

Fixpoint arity_errors_d (d : directive) : list (string * string) :=
  match d with
  | Dir n a b =>
      arity_of arity_table d ++ server_param_errors d ++ sticky_param_errors d ++
      match b with
      | None => []
      | Some ds =>
          if data_block n then flat_map data_line_ok ds
          else if String.eqb n "match" then flat_map (arity_of match_table) ds
          else (fix go (l : list directive) : list (string * string) :=
                  match l with [] => [] | x :: r => arity_errors_d x ++ go r end) ds
      end
  end.

Definition arity_errors (c : fctx) (ds : list directive) : list (string * string) :=
  match c with
  | CMapBody => flat_map data_line_ok ds
  | _ => flat_map arity_errors_d ds
  end.

Definition fctx_of_file (name : string) : fctx :=
  if contains "tls-passthrough-hosts" name then CMapBody
  else if contains "stream-conf.d/" name then CStream
  else if ends_with "nginx.conf" name then CMain
  else CHttp.

Definition arity_errors_conf (file content : string) : list (string * string) :=
  match parse_conf content with
  | Some ds => arity_errors (fctx_of_file file) ds
  | None => [("unparsed", file)]
  end.

Definition arity_ok_conf (file content : string) : bool :=
  match arity_errors_conf file content with [] => true | _ => false end.

(* ---------------------------------------------------------------- duplicate identifiers *)

Definition ident := (string * string * string)%type.          (* kind, scope, identifier *)

Definition ident_eqb (a b : ident) : bool :=
  match a, b with (k1, s1, i1), (k2, s2, i2) => String.eqb i1 i2 && String.eqb s1 s2 && String.eqb k1 k2 end.

Definition mem_ident (x : ident) (l : list ident) : bool := existsb (ident_eqb x) l.

(* every element that occurs again later, reported once *)
Fixpoint dups_acc (l : list ident) (seen dup : list ident) : list ident :=
  match l with
  | [] => rev dup
  | x :: r =>
      if mem_ident x seen then
        (if mem_ident x dup then dups_acc r seen dup else dups_acc r seen (x :: dup))
      else dups_acc r (x :: seen) dup
  end.
Definition dups (l : list ident) : list ident := dups_acc l [] [].

Fixpoint nodup_ident (l : list ident) : list ident :=
  match l with
  | [] => []
  | x :: r => if mem_ident x r then nodup_ident r else x :: nodup_ident r
  end.

Definition ctx_name (http : bool) : string := if http then "http" else "stream".

(* zone=NAME[:size] / keys_zone=NAME:size among the arguments *)
Definition zone_args (pre : string) (args : list string) : list string :=
  flat_map (fun a => if starts_with pre a then [take_until ":" (drop_prefix pre a)] else []) args.

(* key of a location among its siblings: None = regex location (duplicates are legal) *)
Definition location_key (args : list string) : option string :=
  match args with
  | [p] =>
      if starts_with "@" p then Some ("named " +++ p)
      else if starts_with "=" p then Some ("exact " +++ drop_prefix "=" p)
      else if starts_with "^~" p then Some ("prefix " +++ drop_prefix "^~" p)
      else if starts_with "~" p then None
      else Some ("prefix " +++ p)
  | [m; p] =>
      if String.eqb m "=" then Some ("exact " +++ p)
      else if String.eqb m "^~" then Some ("prefix " +++ p)
      else None
  | _ => None
  end.

Definition listen_key (args : list string) : string :=
  match args with
  | [] => ""
  | a :: r => if mem_str "udp" r then a +++ " udp" else a
  end.

(* identifiers contributed by one server block: location duplicates are local to it *)
Definition server_idents (file : string) (http : bool) (body : list directive) : list ident * list ident :=
  let listens := map (fun d => listen_key (dargs d)) (find_top "listen" body) in
  let names := match flat_map dargs (find_top "server_name" body) with [] => [""] | l => l end in
  let defaults := flat_map (fun d => if mem_str "default_server" (dargs d)
                                     then [("default_server", ctx_name http +++ "|" +++ listen_key (dargs d), "default_server")]
                                     else []) (find_top "listen" body) in
  let sn := nodup_ident (flat_map (fun l => map (fun n => ("server_name", ctx_name http +++ "|" +++ l, n)) names) listens) in
  let locs := flat_map (fun d => match location_key (dargs d) with
                                 | Some k => [("location", file, k)]
                                 | None => []
                                 end) (find_top "location" body) in
  (sn ++ nodup_ident defaults, dups locs).

Definition map_key_dups (file : string) (entries : list directive) : list ident :=
  dups (flat_map (fun d => let n := dname d in
                           if starts_with "~" n || String.eqb n "include" then [] else [("map_key", file, n)])
                 entries).

(* identifiers of the directives of one http{} or stream{} context: (global, local duplicates) *)
Definition ctx_idents (file : string) (http : bool) (ds : list directive) : list ident * list ident :=
  fold_right
    (fun d acc =>
       let '(g, l) := acc in
       match d with
       | Dir n a b =>
           if String.eqb n "upstream" then
             match a with
             | [u] => (("upstream", ctx_name http, u) ::
                       map (fun z => ("zone", "shm", ctx_name http +++ "-upstream:" +++ z))
                           (flat_map (fun z => match dargs z with x :: _ => [x] | [] => [] end)
                                     (find_top "zone" (children d))) ++ g, l)
             | _ => (g, l)
             end
           else if String.eqb n "match" then
             match a with [m] => (("match", ctx_name http, m) :: g, l) | _ => (g, l) end
           else if String.eqb n "limit_req_zone" then
             (map (fun z => ("zone", "shm", "limit_req:" +++ z)) (zone_args "zone=" a) ++ g, l)
           else if String.eqb n "limit_conn_zone" then
             (map (fun z => ("zone", "shm", "limit_conn:" +++ z)) (zone_args "zone=" a) ++ g, l)
           else if String.eqb n "keyval_zone" then
             (map (fun z => ("zone", "shm", ctx_name http +++ "-keyval:" +++ z)) (zone_args "zone=" a) ++ g, l)
           else if String.eqb n "proxy_cache_path" then
             (map (fun z => ("zone", "shm", "cache:" +++ z)) (zone_args "keys_zone=" a) ++ g, l)
           else if String.eqb n "server" then
             match b with
             | Some body => let '(sg, sl) := server_idents file http body in (sg ++ g, sl ++ l)
             | None => (g, l)
             end
           else if String.eqb n "map" then
             (g, map_key_dups file (children d) ++ l)
           else (g, l)
       end)
    ([], []) ds.

(* a zone identifier is kind:NAME; two zones clash when the NAMEs are equal whatever the kind, so
   the comparison key drops the kind and the report keeps both *)
Definition zone_name (i : ident) : ident :=
  match i with
  | (k, s, x) =>
      if String.eqb k "zone" then
        (k, s, (fix after (t : string) : string :=
                  match t with
                  | EmptyString => x
                  | String c r => if Ascii.eqb c ":" then r else after r
                  end) x)
      else i
  end.

Definition tree_idents (file : string) (ds : list directive) : list ident * list ident :=
  match fctx_of_file file with
  | CMapBody => ([], map_key_dups file ds)
  | CHttp => ctx_idents file true ds
  | CStream => ctx_idents file false ds
  | CMain =>
      let '(g1, l1) := ctx_idents file true (List.concat (blocks_top "http" ds)) in
      let '(g2, l2) := ctx_idents file false (List.concat (blocks_top "stream" ds)) in
      (g1 ++ g2, l1 ++ l2)
  end.

(* the same over already parsed files: (file name, forest) *)
Definition dup_idents_trees (files : list (string * list directive)) : list ident :=
  let '(g, l) := fold_right (fun f acc => let '(g, l) := tree_idents (fst f) (snd f) in (g ++ fst acc, l ++ snd acc))
                            ([], []) files in
  dups (map zone_name g) ++ l.

Definition parsed_files (files : list (string * string)) : list (string * list directive) :=
  flat_map (fun f => match parse_conf (snd f) with Some ds => [(fst f, ds)] | None => [] end) files.

Definition dup_idents (files : list (string * string)) : list ident :=
  dup_idents_trees (parsed_files files).
