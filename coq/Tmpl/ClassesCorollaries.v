(* Tmpl/ClassesCorollaries.v -- the per-site-kind statements (for Properties/C06.v), the model of
   Go's %q, and the single-site substitution theorem.  All statements are about ALL strings; the
   256-byte sweeps are done inside Coq by vm_compute and lifted with LexAux.forall_bytes.

     word_neutral_everywhere     a CWord value emits NO event at all (not even TokEnd) in a bare word,
                                 a variable, a double- or single-quoted word and at token start, and
                                 stays in a state of the same kind
     baretok_neutral_at_start    a non-empty CBareTok value read at token start emits no event and ends
                                 inside a bare word (QBare or QVar)
     baretok_neutral_in_word     a CBareTok value read inside a bare word (QBare or QVar) emits no
                                 event and stays inside it
     go_quote_quoted             forall s, in_class CQuoted (go_quote s)
     go_quote_neutral            forall s, run QBetween (go_quote s) = (QNeedSpace, [TokEnd])
     skeleton_subst_structural   exchanging two values of a class that is neutral in the state reached
                                 by the prefix does not change the structural events of the whole text,
                                 provided the suffix behaves alike from the possible end states *)
From Coq Require Import List String Ascii Bool Arith.
From NIC Require Import Lex.Lexer Tmpl.Syntax Tmpl.LexAux Tmpl.Classes Tmpl.ClassesProofs.
Import ListNotations.
Open Scope string_scope.
Open Scope list_scope.

Definition res_eqb (a b : lstate * list ev) : bool :=
  lstate_eqb (fst a) (fst b) && evs_eqb (snd a) (snd b).

Lemma res_eqb_eq : forall a b, res_eqb a b = true -> a = b.
Proof.
  intros [q1 e1] [q2 e2] H. unfold res_eqb in H. cbn [fst snd] in H.
  apply andb_true_iff in H. destruct H as [H1 H2].
  apply lstate_eqb_eq in H1. apply evs_eqb_eq in H2. now subst.
Qed.

(* ---------------------------------------------------------------- CWord *)

Definition word_step_b (c : ascii) : bool :=
  negb (word_byte c) ||
  (res_eqb (step QBetween c) (QBare, []) && res_eqb (step QBare c) (QBare, []) &&
   res_eqb (step QVar c) (QBare, []) && res_eqb (step QDQ c) (QDQ, []) &&
   res_eqb (step QSQ c) (QSQ, [])).

Lemma word_step_sweep : forallb word_step_b all_bytes = true.
Proof. vm_compute. reflexivity. Qed.

Lemma word_step : forall c, word_byte c = true ->
    step QBetween c = (QBare, []) /\ step QBare c = (QBare, []) /\ step QVar c = (QBare, []) /\
    step QDQ c = (QDQ, []) /\ step QSQ c = (QSQ, []).
Proof.
  intros c Hc. pose proof (forall_bytes _ word_step_sweep c) as H.
  unfold word_step_b in H. rewrite Hc in H. cbn [negb orb] in H.
  do 4 (apply andb_true_iff in H; destruct H as [H ?]).
  repeat split; now apply res_eqb_eq.
Qed.

Lemma word_fixed : forall q, (forall c, word_byte c = true -> step q c = (q, [])) ->
    forall s, str_forall word_byte s = true -> run q s = (q, []).
Proof.
  intros q Hq. induction s as [|c s IH]; intro H; [reflexivity|].
  cbn [str_forall] in H. apply andb_true_iff in H. destruct H as [Hc Hs].
  cbn [run]. rewrite (Hq c Hc), (IH Hs). reflexivity.
Qed.

Definition after_word (q : lstate) (s : string) : lstate :=
  match s with EmptyString => q | _ => QBare end.

Theorem word_neutral_everywhere : forall s, in_class CWord s ->
    run QBare s = (QBare, []) /\ run QDQ s = (QDQ, []) /\ run QSQ s = (QSQ, []) /\
    run QVar s = (after_word QVar s, []) /\ run QBetween s = (after_word QBetween s, []).
Proof.
  intros s H. unfold in_class in H. cbn [in_class_b] in H.
  assert (HB : forall s, str_forall word_byte s = true -> run QBare s = (QBare, [])).
  { apply word_fixed. intros c Hc. apply (word_step c Hc). }
  split; [now apply HB|].
  split; [apply word_fixed; [intros c Hc; apply (word_step c Hc)|assumption]|].
  split; [apply word_fixed; [intros c Hc; apply (word_step c Hc)|assumption]|].
  destruct s as [|c s]; [split; reflexivity|].
  cbn [str_forall] in H. apply andb_true_iff in H. destruct H as [Hc Hs].
  destruct (word_step c Hc) as (H1 & H2 & H3 & _).
  cbn [run after_word]. rewrite H1, H3, (HB s Hs). split; reflexivity.
Qed.

(* ---------------------------------------------------------------- CBareTok *)

Definition in_bare (q : lstate) : Prop := q = QBare \/ q = QVar.

Definition bare_step_b (c : ascii) : bool :=
  (negb (bare_rest c) ||
   ((res_eqb (step QBare c) (QBare, []) || res_eqb (step QBare c) (QVar, [])) &&
    (res_eqb (step QVar c) (QBare, []) || res_eqb (step QVar c) (QVar, [])))) &&
  (negb (bare_first c) ||
   (res_eqb (step QBetween c) (QBare, []) || res_eqb (step QBetween c) (QVar, []))).

Lemma bare_step_sweep : forallb bare_step_b all_bytes = true.
Proof. vm_compute. reflexivity. Qed.

Lemma res_or : forall r, res_eqb r (QBare, []) || res_eqb r (QVar, []) = true ->
    exists q', r = (q', []) /\ in_bare q'.
Proof.
  intros r H. apply orb_true_iff in H. destruct H as [H|H]; apply res_eqb_eq in H; subst r.
  - exists QBare. split; [reflexivity|now left].
  - exists QVar. split; [reflexivity|now right].
Qed.

Lemma bare_rest_step : forall c q, bare_rest c = true -> in_bare q ->
    exists q', step q c = (q', []) /\ in_bare q'.
Proof.
  intros c q Hc Hq. pose proof (forall_bytes _ bare_step_sweep c) as H.
  unfold bare_step_b in H. apply andb_true_iff in H. destruct H as [H _].
  rewrite Hc in H. cbn [negb orb] in H. apply andb_true_iff in H. destruct H as [Ha Hb].
  destruct Hq as [->| ->]; now apply res_or.
Qed.

Lemma bare_first_step : forall c, bare_first c = true ->
    exists q', step QBetween c = (q', []) /\ in_bare q'.
Proof.
  intros c Hc. pose proof (forall_bytes _ bare_step_sweep c) as H.
  unfold bare_step_b in H. apply andb_true_iff in H. destruct H as [_ H].
  rewrite Hc in H. cbn [negb orb] in H. now apply res_or.
Qed.

Lemma bare_rest_run : forall s q, str_forall bare_rest s = true -> in_bare q ->
    exists q', run q s = (q', []) /\ in_bare q'.
Proof.
  induction s as [|c s IH]; intros q H Hq.
  - exists q. split; [reflexivity|assumption].
  - cbn [str_forall] in H. apply andb_true_iff in H. destruct H as [Hc Hs].
    destruct (bare_rest_step c q Hc Hq) as (q1 & H1 & Hq1).
    destruct (IH q1 Hs Hq1) as (q2 & H2 & Hq2).
    exists q2. split; [|assumption]. cbn [run]. now rewrite H1, H2.
Qed.

Lemma bare_first_rest : forall c, bare_first c = true -> bare_rest c = true.
Proof. intros c H. unfold bare_first in H. apply andb_true_iff in H. tauto. Qed.

Theorem baretok_neutral_in_word : forall s q, in_class CBareTok s -> in_bare q ->
    exists q', run q s = (q', []) /\ in_bare q'.
Proof.
  intros s q H Hq. unfold in_class in H. cbn [in_class_b] in H.
  destruct s as [|c r]; [exists q; split; [reflexivity|assumption]|].
  cbn [first_rest] in H. apply andb_true_iff in H. destruct H as [Hc Hr].
  apply bare_rest_run; [|assumption]. cbn [str_forall]. now rewrite (bare_first_rest c Hc), Hr.
Qed.

Theorem baretok_neutral_at_start : forall s, in_class CBareTok s -> s <> EmptyString ->
    exists q', run QBetween s = (q', []) /\ in_bare q'.
Proof.
  intros s H Hne. unfold in_class in H. cbn [in_class_b] in H.
  destruct s as [|c r]; [now elim Hne|].
  cbn [first_rest] in H. apply andb_true_iff in H. destruct H as [Hc Hr].
  destruct (bare_first_step c Hc) as (q1 & H1 & Hq1).
  destruct (bare_rest_run r q1 Hr Hq1) as (q2 & H2 & Hq2).
  exists q2. split; [|assumption]. cbn [run]. now rewrite H1, H2.
Qed.

(* the empty CBareTok value leaves the lexer where it is *)
Lemma baretok_empty : in_class CBareTok EmptyString.
Proof. reflexivity. Qed.

(* ---------------------------------------------------------------- Go %q *)

Lemma q_st_app : forall quote a b esc,
    q_st quote esc (a ++ b)%string =
    match q_st quote esc a with Some e' => q_st quote e' b | None => None end.
Proof.
  induction a as [|c a IH]; intros b esc; cbn [append q_st]; [reflexivity|].
  destruct esc; [apply IH|].
  destruct (Ascii.eqb c ch_bs); [apply IH|].
  destruct (Ascii.eqb c quote); [reflexivity|apply IH].
Qed.

Definition gq_byte_ok (c : ascii) : bool :=
  match q_st ch_dq false (gq_byte c) with Some false => true | _ => false end.

Lemma gq_byte_sweep : forallb gq_byte_ok all_bytes = true.
Proof. vm_compute. reflexivity. Qed.

Lemma gq_byte_st : forall c, q_st ch_dq false (gq_byte c) = Some false.
Proof.
  intro c. pose proof (forall_bytes _ gq_byte_sweep c) as H. unfold gq_byte_ok in H.
  destruct (q_st ch_dq false (gq_byte c)) as [[|]|]; try discriminate. reflexivity.
Qed.

Lemma gq_body_st : forall s, q_st ch_dq false (gq_body s) = Some false.
Proof.
  induction s as [|c s IH]; [reflexivity|].
  cbn [gq_body]. rewrite q_st_app, gq_byte_st. exact IH.
Qed.

Theorem gq_body_dq : forall s, in_class CDQ (gq_body s).
Proof. intro s. unfold in_class, in_class_b, dq_scan, q_frag. now rewrite gq_body_st. Qed.

Theorem go_quote_quoted : forall s, in_class CQuoted (go_quote s).
Proof.
  intro s. unfold in_class, in_class_b, go_quote, quoted_b.
  rewrite Ascii.eqb_refl. cbn [andb]. apply q_scan_of_body. apply gq_body_st.
Qed.

Theorem go_quote_neutral : forall s, run QBetween (go_quote s) = (QNeedSpace, [TokEnd]).
Proof. intro s. apply quoted_neutral, go_quote_quoted. Qed.

(* ---------------------------------------------------------------- single-site substitution *)

(* [post] cannot tell the states of qs apart, as far as structure and end-of-file legality go *)
Definition post_agrees (qs : list lstate) (post : string) : Prop :=
  forall qa qb, In qa qs -> In qb qs ->
    structural (snd (run qa post)) = structural (snd (run qb post)) /\
    final_ok (fst (run qa post)) = final_ok (fst (run qb post)).

Theorem skeleton_subst_structural : forall c q0 pre q e0 qs s1 s2 post,
    run q0 pre = (q, e0) ->
    transfer c q = Some qs -> in_class c s1 -> in_class c s2 ->
    post_agrees qs post ->
    structural (snd (run q0 (pre ++ s1 ++ post))) = structural (snd (run q0 (pre ++ s2 ++ post))) /\
    final_ok (fst (run q0 (pre ++ s1 ++ post))) = final_ok (fst (run q0 (pre ++ s2 ++ post))).
Proof.
  intros c q0 pre q e0 qs s1 s2 post Hpre Ht H1 H2 Hpost.
  destruct (transfer_sound c q qs s1 Ht H1) as (q1 & e1 & R1 & N1 & I1).
  destruct (transfer_sound c q qs s2 Ht H2) as (q2 & e2 & R2 & N2 & I2).
  destruct (Hpost q1 q2 I1 I2) as [Hs Hf].
  rewrite !run_app_snd, !run_app_fst, Hpre. cbn [fst snd]. rewrite R1, R2. cbn [fst snd].
  rewrite !structural_app, N1, N2, Hs. split; [reflexivity|exact Hf].
Qed.

(* the same with the benign value fixed: what a check of one site against harmless text uses *)
Corollary subst_structural_from_start : forall c pre q e0 qs s1 s2 post,
    run QBetween pre = (q, e0) ->
    transfer c q = Some qs -> in_class c s1 -> in_class c s2 ->
    post_agrees qs post ->
    structural (snd (run QBetween (pre ++ s1 ++ post))) =
    structural (snd (run QBetween (pre ++ s2 ++ post))).
Proof. intros. eapply skeleton_subst_structural; eauto. Qed.
