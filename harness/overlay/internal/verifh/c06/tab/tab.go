//go:build verif

// Package tab holds the CLASS TABLES of property C06: which language of byte strings every
// string-typed value printed by the six NGINX configuration templates is supposed to belong to.
//
// The tables are consumed by
//   - the template translator internal/verifh/c06t, which turns every output action of the real
//     templates into `Site id <class>` terms of coq/gen/Templates.v, and
//   - the C06 harness internal/verifh/c06, which checks on real generator output that every string
//     of a produced version1/version2 config struct is a member of its declared class (Match).
//
// A class is written as the Coq term of type Tmpl.Syntax.cls it is emitted as:
//
//	CWord | CWordVar | CBareTok | CDQ | CSQ | CQuoted | CInt | CLit ["a"; "b"] | CLines | CEmpty
//
// (definitions: header comment of coq/Tmpl/Syntax.v; InClass below is the byte-exact Go copy).
//
// Keys of FieldClass: "<pkg>.<Type>.<Field>" of the LAST field selected by the template
// (e.g. "version2.Location.Path"); for the elements of a []string field "<...>.<Field>[]", for the
// keys / values of a map field "<...>.<Field>[key]" / "<...>.<Field>[val]".
//
// Values that are legitimately more than one token, or a user part inside fixed punctuation, have
// no single class; they get a SHAPE: a regular expression over literal text and plain classes
// (Pat).  The translator expands a shaped site into an ordinary sub-template
// (Text/Site/Seq/Choice/Star), so the Coq analysis needs no additional class.
//
// How the classes were chosen: for each field the place where the generator sets it
// (internal/configs/{virtualserver,ingress,transportserver,annotations,config_params,configmaps}.go)
// and the validator guarding its source (pkg/apis/configuration/validation/*.go,
// internal/k8s/validation.go, internal/configs/parsing_helpers.go) were read; the class is the
// one the validator/generator is SUPPOSED to guarantee.  The comment of each entry names that
// source.  Entries the author could not fully establish are repeated in Doubtful.
package tab

import (
	"regexp"
	"strings"
)

// Pat is a shape: a regular expression over literal text and plain classes.
type Pat struct {
	K     string // "T" literal text, "C" class leaf, "F" field reference, "S" sequence, "A" alternatives, "M" zero or more
	Text  string // K == "T": the text; K == "F": the field key whose class / shape stands here
	Class string // K == "C": Coq class term
	Kids  []Pat
}

// T is literal text.
func T(s string) Pat { return Pat{K: "T", Text: s} }

// C is a value of a plain class.
func C(c string) Pat { return Pat{K: "C", Class: c} }

// F stands for the class or shape declared for another field key (used in the shapes of helper
// functions, so that the class of a field is written down once).
func F(key string) Pat { return Pat{K: "F", Text: key} }

// Resolve replaces field references by the declarations they refer to (an undeclared key becomes
// the class CUnknown, which nothing matches).
func Resolve(p Pat) Pat {
	switch p.K {
	case "F":
		c, sh, ok := Lookup(p.Text)
		switch {
		case !ok:
			return C("CUnknown \"no class declared for " + p.Text + "\"")
		case sh != nil:
			return Resolve(*sh)
		}
		return C(c)
	case "S", "A", "M":
		k := make([]Pat, len(p.Kids))
		for i := range p.Kids {
			k[i] = Resolve(p.Kids[i])
		}
		return Pat{K: p.K, Kids: k}
	}
	return p
}

// Seq is concatenation.
func Seq(p ...Pat) Pat { return Pat{K: "S", Kids: p} }

// Alt is alternation.
func Alt(p ...Pat) Pat { return Pat{K: "A", Kids: p} }

// Many is zero or more repetitions.
func Many(p ...Pat) Pat { return Pat{K: "M", Kids: []Pat{Seq(p...)}} }

// Opt is zero or one.
func Opt(p ...Pat) Pat { return Alt(Seq(p...), T("")) }

// Lit builds the class term CLit [alts].
func Lit(alts ...string) string {
	q := make([]string, len(alts))
	for i, a := range alts {
		q[i] = `"` + strings.ReplaceAll(a, `"`, `""`) + `"`
	}
	return "CLit [" + strings.Join(q, "; ") + "]"
}

var litRe = regexp.MustCompile(`"((?:[^"]|"")*)"`)

// LitAlts returns the alternatives of a `CLit [...]` class term (nil, false for other classes).
func LitAlts(class string) ([]string, bool) {
	if !strings.HasPrefix(class, "CLit") {
		return nil, false
	}
	var out []string
	for _, m := range litRe.FindAllStringSubmatch(class, -1) {
		out = append(out, strings.ReplaceAll(m[1], `""`, `"`))
	}
	return out, true
}

func wordByte(b byte) bool {
	if b <= 32 || b == 127 {
		return false
	}
	switch b {
	case ';', '{', '}', '\\', '"', '\'', '#', '$':
		return false
	}
	return true
}

func bareByte(b byte) bool {
	switch b {
	case ' ', '\t', '\r', '\n', ';', '{', '\\':
		return false
	}
	return true
}

func quotedBody(s string, q byte) bool {
	for i := 0; i < len(s); i++ {
		switch s[i] {
		case q:
			return false
		case '\\':
			i++
			if i >= len(s) {
				return false
			}
		}
	}
	return true
}

// InClass decides membership of s in a plain class (the Go copy of the definitions in the header
// of coq/Tmpl/Syntax.v).  CLines is "any string" here: it is control, produced by helpers.
func InClass(class, s string) bool {
	switch class {
	case "CWord":
		for i := 0; i < len(s); i++ {
			if !wordByte(s[i]) {
				return false
			}
		}
		return true
	case "CWordVar":
		for i := 0; i < len(s); i++ {
			if !wordByte(s[i]) && s[i] != '$' {
				return false
			}
		}
		return true
	case "CBareTok":
		for i := 0; i < len(s); i++ {
			if !bareByte(s[i]) {
				return false
			}
		}
		if len(s) > 0 {
			switch s[0] {
			case '"', '\'', '#', '}':
				return false
			}
		}
		return true
	case "CDQ":
		return quotedBody(s, '"')
	case "CSQ":
		return quotedBody(s, '\'')
	case "CQuoted":
		return len(s) >= 2 && s[0] == '"' && s[len(s)-1] == '"' && quotedBody(s[1:len(s)-1], '"')
	case "CInt":
		t := strings.TrimPrefix(s, "-")
		if t == "" {
			return false
		}
		for i := 0; i < len(t); i++ {
			if t[i] < '0' || t[i] > '9' {
				return false
			}
		}
		return true
	case "CLines":
		return true
	case "CEmpty":
		return s == ""
	}
	if alts, ok := LitAlts(class); ok {
		for _, a := range alts {
			if a == s {
				return true
			}
		}
	}
	return false
}

// matchPat returns the set of end positions of matches of p against s starting at the positions
// in from (both as sorted, duplicate-free position lists).
func matchPat(p Pat, s string, from []int) []int {
	seen := map[int]bool{}
	var out []int
	add := func(e int) {
		if !seen[e] {
			seen[e] = true
			out = append(out, e)
		}
	}
	switch p.K {
	case "T":
		for _, i := range from {
			if strings.HasPrefix(s[i:], p.Text) {
				add(i + len(p.Text))
			}
		}
	case "C":
		for _, i := range from {
			for e := i; e <= len(s); e++ {
				if InClass(p.Class, s[i:e]) {
					add(e)
				}
			}
		}
	case "S":
		cur := from
		for _, k := range p.Kids {
			cur = matchPat(k, s, cur)
			if len(cur) == 0 {
				return nil
			}
		}
		return cur
	case "A":
		for _, k := range p.Kids {
			for _, e := range matchPat(k, s, from) {
				add(e)
			}
		}
	case "M":
		for _, i := range from {
			add(i)
		}
		frontier := from
		for len(frontier) > 0 {
			var next []int
			for _, e := range matchPat(p.Kids[0], s, frontier) {
				if !seen[e] {
					add(e)
					next = append(next, e)
				}
			}
			frontier = next
		}
	}
	return out
}

// MatchPat decides whether s belongs to the shape p.
func MatchPat(p Pat, s string) bool {
	p = Resolve(p)
	for _, e := range matchPat(p, s, []int{0}) {
		if e == len(s) {
			return true
		}
	}
	return false
}

// SnippetKey reports whether key names the elements of a snippet field ([]string field whose name
// contains Snippet: ServerSnippets, LocationSnippets, HTTPSnippets, StreamSnippets, Snippets).
// With snippets disabled (the setting of C06) these fields must be empty: class CEmpty.
func SnippetKey(key string) bool {
	if !strings.HasSuffix(key, "[]") {
		return false
	}
	return strings.Contains(key[strings.LastIndex(key, ".")+1:], "Snippet")
}

// Lookup returns the declaration for a field key: a plain class or a shape.
func Lookup(key string) (class string, shape *Pat, ok bool) {
	if SnippetKey(key) {
		return "CEmpty", nil, true
	}
	if p, ok := Shape[key]; ok {
		return "", &p, true
	}
	if c, ok := FieldClass[key]; ok {
		return c, nil, true
	}
	return "", nil, false
}

// Match decides whether value is a member of the class / shape declared for the field key.
// known is false when the key has no declaration.
func Match(key, value string) (ok, known bool) {
	c, p, known := Lookup(key)
	if !known {
		return false, false
	}
	if p != nil {
		return MatchPat(*p, value), true
	}
	return InClass(c, value), true
}

// ClassOf returns the plain class term declared for a field key, or "" when the key has a Shape
// (use Match for those) or no declaration.
// Weakness says how far the declaration of a field key can be relied on: "" = the validators /
// generator are believed to guarantee it; otherwise "known:<finding>", "suspect" or "doubtful".
func Weakness(key string) string {
	if f, ok := KnownWeak[key]; ok {
		return "known:" + f
	}
	if _, ok := Suspect[key]; ok {
		return "suspect"
	}
	for _, d := range Doubtful {
		if d == key {
			return "doubtful"
		}
	}
	return ""
}

func ClassOf(key string) string {
	if _, ok := Shape[key]; ok {
		return ""
	}
	if SnippetKey(key) {
		return "CEmpty"
	}
	return FieldClass[key]
}

// ---------------------------------------------------------------------------------------------
// TABLES
//
// Abbreviations in the comments: VAL = pkg/apis/configuration/validation, K8SVAL =
// internal/k8s/validation.go, PH = internal/configs/parsing_helpers.go, VS =
// internal/configs/virtualserver.go, ING = internal/configs/ingress.go, ANN =
// internal/configs/annotations.go, CM = internal/configs/configmaps.go, TS =
// internal/configs/transportserver.go.  "generated" = built by the controller from Kubernetes
// namespace/name (DNS-1123) and fixed text.  "time" = output of ParseTime/generateTime
// ([0-9yMwdhms]+), "size" = ParseSize language \d+[kKmM]?.
// ---------------------------------------------------------------------------------------------

const (
	word  = "CWord"
	wvar  = "CWordVar"
	bare  = "CBareTok"
	dq    = "CDQ"
	cint  = "CInt"
	quote = "CQuoted"
)

var (
	onOff      = Lit("on", "off")
	onOffEmpty = Lit("on", "off", "")
	logLevel   = Lit("info", "notice", "warn", "error", "")
	// a list of plain words separated by single spaces
	words = Seq(C(word), Many(T(" "), C(word)))
	// "<file> <destination>": two plain words (app protect log configuration + destination)
	twoWords = Seq(C(word), T(" "), C(word))
	// text with NGINX variables written ${name}: word (${word} word)*, or a plain $variable text
	varText = Alt(Seq(C(word), Many(T("${"), C(word), T("}"), C(word))), C(wvar))
	// nginx.org/limit-req-key: bare-word text, $name and ${name} in any order
	keyText = Many(Alt(C(bare), Seq(T("${"), C(word), T("}"))))
	// key of the `hash` load-balancing method
	hashKey = Alt(C(wvar), Seq(T("${"), C(word), T("}")))
	// "<number> <size>" of proxy_buffers, or empty (the site is guarded by {{if}})
	buffers = Opt(C(cint), T(" "), C(word))

	httpLB = Alt(
		C(Lit("", "least_conn", "ip_hash", "random", "random two", "random two least_conn",
			"random two least_time=header", "random two least_time=last_byte", "least_time header",
			"least_time last_byte", "least_time header inflight", "least_time last_byte inflight")),
		Seq(T("hash "), hashKey, Opt(T(" consistent"))))
	streamLB = Alt(
		C(Lit("", "least_conn", "random", "random two", "random two least_conn", "random least_conn",
			"least_time connect", "least_time first_byte", "least_time last_byte", "least_time last_byte inflight")),
		Seq(T("hash "), hashKey, Opt(T(" consistent"))))
)

// FieldClass: class of string-typed struct fields (see the package comment for the key format).
var FieldClass = map[string]string{
	// ------------------------------------------------------------------ version1 (Ingress)
	"version1.Ingress.Name":                        word,                                           // metadata.name (ING generateNginxCfg); also printed inside "..."
	"version1.Ingress.Namespace":                   word,                                           // metadata.namespace
	"version1.IngressNginxConfig.Keepalive":        "CWord",                                         // fmt.Sprint(cfgParams.Keepalive) when > 0, else "" (guarded by if)
	"version1.IngressNginxConfig.StaticSSLPath":    word,                                           // constant /etc/nginx/secrets; only an argument of makeSecretPath
	"version1.Server.SSLCertificate":               word,                                           // secret file path /etc/nginx/secrets/<ns>-<name> (configurator)
	"version1.Server.SSLCertificateKey":            word,                                           // same value
	"version1.BasicAuth.Secret":                    word,                                           // secret file path; annotation validated by IsDNS1123Subdomain
	"version1.BasicAuth.Realm":                     dq,                                             // K8SVAL realmFmtRegexp ^([^"$\\]|\\[^$])*$ ; printed with %q only
	"version1.JWTAuth.Key":                         word,                                           // secret file path
	"version1.JWTAuth.Realm":                       dq,                                             // K8SVAL validAnnotationValueRegex ^([^"$\\]|\\[^$])*$ ; printed inside "..."
	"version1.JWTAuth.Token":                       wvar,                                           // SUSPECT: K8SVAL jwtTokenValueFmt \$([^"$\\]|\\[^$])* lets space ; { } through; printed bare
	"version1.JWTAuth.RedirectLocationName":        word,                                           // generated @login_url_<ns>-<name>
	"version1.JWTRedirectLocation.Name":            word,                                           // generated, same string
	"version1.JWTRedirectLocation.LoginURL":        bare,                                           // SUSPECT: K8SVAL validateJWTLoginURLAnnotation = url.Parse + scheme + host only; printed bare
	"version1.LimitReq.Zone":                       word,                                           // generated <ns>/<name>
	"version1.LimitReq.LogLevel":                   logLevel,                                       // ANN: slices.Contains enum, default error
	"version1.LimitReqZone.Name":                   word,                                           // generated
	"version1.LimitReqZone.Rate":                   word,                                           // VAL validateLimitReqRateAnnotation + PH ParseRequestRate ^(\d+)(r/s|r/m)$ (Tmpl.Validators ing_rate, ing_rate_word)
	"version1.LimitReqZone.Size":                   word,                                           // VAL validateSizeAnnotation + PH ParseSize (size_word)
	"version1.Location.ClientMaxBodySize":          word,                                           // PH ParseOffset \d+[kKmMgG]? ; SUSPECT: validator trims, generator stores the raw annotation
	"version1.Location.ProxyBufferSize":            word,                                           // size; same trim mismatch
	"version1.Location.ProxyMaxTempFileSize":       word,                                           // size; same trim mismatch
	"version1.Location.ProxyConnectTimeout":        word,                                           // time (ParseTime output stored); ConfigMap value raw
	"version1.Location.ProxyReadTimeout":           word,                                           // time
	"version1.Location.ProxySendTimeout":           word,                                           // time
	"version1.Location.ProxySSLName":               word,                                           // generated <svc>.<ns>.svc
	"version1.Location.Rewrite":                    bare,                                           // PH pathRegexp ^/[^\s{};$\\]*$ (backslash excluded since d7c2e82, F27 fixed; ing_rewrite_safe); printed glued to the upstream name
	"version1.Location.ServiceName":                word,                                           // backend service name (DNS-1035 by the API server); printed inside "..."
	"version1.Server.AppProtectDosAccessLogDst":    word,                                           // stderr | syslog:server=<host:port>, dos validation anchored regexes
	"version1.Server.AppProtectDosAllowListPath":   word,                                           // generated file path; printed inside "..."
	"version1.Server.AppProtectDosEnable":          onOffEmpty,                                     // generated from a bool
	"version1.Server.AppProtectDosMonitorProtocol": Lit("http1", "http2", "grpc", "websocket", ""), // dos validation validMonitorProtocol
	"version1.Server.AppProtectDosMonitorURI":      word,                                           // SUSPECT: url.Parse + escaped-string only; printed bare (uri=...) AND inside "..."
	"version1.Server.AppProtectDosName":            dq,                                             // <ns>/<name>/<spec.name>, spec.name by ValidateEscapedString; inside "..."
	"version1.Server.AppProtectDosPolicyFile":      word,                                           // generated file path
	"version1.Server.AppProtectEnable":             onOffEmpty,                                     // ANN: bool annotation -> on/off
	"version1.Server.AppProtectLogEnable":          onOffEmpty,                                     // ANN: bool annotation -> on/off
	"version1.Server.AppProtectPolicy":             word,                                           // generated file path
	"version1.Server.Name":                         word,                                           // rule.host (DNS-1123 / wildcard by the API server)
	"version1.Server.StatusZone":                   word,                                           // rule.host
	"version1.Server.ServerTokens":                 dq,                                             // Plus: K8SVAL validAnnotationValueRegex; OSS: on/off (see PipelineClass); ConfigMap raw for Plus
	"version1.Server.ProxyHideHeaders[]":           word,                                           // K8SVAL validateHTTPHeadersAnnotation IsHTTPHeaderName after TrimSpace; generator does not trim
	"version1.Server.ProxyPassHeaders[]":           word,                                           // same
	"version1.Server.RealIPHeader":                 word,                                           // ConfigMap real-ip-header, raw
	"version1.Server.SetRealIPFrom[]":              word,                                           // ConfigMap set-real-ip-from, raw split on comma
	"version1.Upstream.Name":                       word,                                           // generated <ns>-<ing>-<host>-<svc>-<port>
	"version1.Upstream.UpstreamZoneSize":           word,                                           // size; trim mismatch; ConfigMap raw
	"version1.UpstreamServer.Address":              word,                                           // ip:port from EndpointSlices / externalName:port
	"version1.UpstreamServer.FailTimeout":          word,                                           // time; ConfigMap raw
	"version1.UpstreamServer.SlowStart":            word,                                           // time
	"version1.HealthCheck.UpstreamName":            word,                                           // generated
	"version1.HealthCheck.Scheme":                  Lit("http", "https"),                           // ToLower of the readinessProbe scheme (API server enum)
	"version1.HealthCheck.URI":                     bare,                                           // SUSPECT: readinessProbe httpGet.path of a Pod, not validated by the controller; printed bare uri=
	"version1.HealthCheck.Headers[key]":            word,                                           // readinessProbe header name (API server IsHTTPHeaderName)
	"version1.HealthCheck.Headers[val]":            dq,                                             // SUSPECT: readinessProbe header value, not validated; printed inside "..."

	// ------------------------------------------------------------------ version2 (VirtualServer)
	"version2.Upstream.Name":                        word,                                      // upstreamNamer vs_<ns>_<vs>_<upstream>; upstream name DNS-1035
	"version2.Upstream.FailTimeout":                 word,                                      // time; ConfigMap raw
	"version2.Upstream.SlowStart":                   word,                                      // time
	"version2.Upstream.UpstreamZoneSize":            word,                                      // ConfigMap upstream-zone-size raw (defaults 256k / 512k)
	"version2.UpstreamServer.Address":               word,                                      // ip:port / externalName:port / fixed unix socket
	"version2.Queue.Timeout":                        word,                                      // time
	"version2.SessionCookie.Name":                   word,                                      // VAL isCookieName ^[_A-Za-z0-9]+$
	"version2.SessionCookie.Domain":                 word,                                      // VAL IsDNS1123Subdomain (leading dot allowed)
	"version2.SessionCookie.Expires":                word,                                      // max | time; SUSPECT: raw value, timeRegexp allows white space between units
	"version2.SessionCookie.Path":                   bare,                                      // VAL pathFmt ^/[^\s{};\\]*$ ; printed path=...
	"version2.SessionCookie.SameSite":               word,                                      // VAL ToLower in {strict,lax,none}; template applies toLower
	"version2.KeyVal.Key":                           quote,                                     // generated, the double quotes are part of the value
	"version2.KeyVal.Variable":                      wvar,                                      // generated $vs_..._keyval_...
	"version2.KeyVal.ZoneName":                      word,                                      // generated
	"version2.KeyValZone.Name":                      word,                                      // generated
	"version2.KeyValZone.Size":                      word,                                      // constant 100k
	"version2.KeyValZone.State":                     word,                                      // generated /etc/nginx/state_files/<zone>.json
	"version2.SplitClient.Source":                   wvar,                                      // constant $request_id
	"version2.SplitClient.Variable":                 wvar,                                      // generated
	"version2.Distribution.Value":                   word,                                      // generated /internal_location_splits_N_split_i
	"version2.Distribution.Weight":                  word,                                      // <0..100>%
	"version2.Map.Source":                           wvar,                                      // $http_x / $cookie_x / $arg_x / whitelisted variables / generated; SUSPECT: rate-limit jwt claim
	"version2.Map.Variable":                         wvar,                                      // generated
	"version2.StatusMatch.Name":                     word,                                      // generated <upstream>_match
	"version2.Server.ServerName":                    word,                                      // VAL validateHost
	"version2.Server.StatusZone":                    word,                                      // spec.host
	"version2.Server.VSName":                        word,                                      // metadata
	"version2.Server.VSNamespace":                   word,                                      // metadata
	"version2.Server.ServerTokens":                  dq,                                        // on/off, or the raw ConfigMap server-tokens for Plus; always inside "..."
	"version2.Server.RealIPHeader":                  word,                                      // ConfigMap raw
	"version2.Server.SetRealIPFrom[]":               word,                                      // ConfigMap raw
	"version2.Server.Allow[]":                       word,                                      // VAL policy validateIPorCIDR
	"version2.Server.Deny[]":                        word,                                      // same
	"version2.Location.Allow[]":                     word,                                      // same
	"version2.Location.Deny[]":                      word,                                      // same
	"version2.TLSRedirect.BasedOn":                  Lit("$scheme", "$http_x_forwarded_proto"), // VS generateTLSRedirectConfig enum mapping
	"version2.InternalRedirectLocation.Destination": wvar,                                      // generated variable / internal location
	"version2.HealthCheck.Name":                     word,                                      // upstream name
	"version2.HealthCheck.URI":                      bare,                                      // VAL validatePath pathFmt; printed uri=...
	"version2.HealthCheck.Interval":                 word,                                      // time
	"version2.HealthCheck.Jitter":                   word,                                      // time
	"version2.HealthCheck.KeepaliveTime":            word,                                      // time
	"version2.HealthCheck.Match":                    word,                                      // generated
	"version2.HealthCheck.ProxyConnectTimeout":      word,                                      // time; ConfigMap fallback raw
	"version2.HealthCheck.ProxyReadTimeout":         word,                                      // time
	"version2.HealthCheck.ProxySendTimeout":         word,                                      // time
	"version2.HealthCheck.ProxyPass":                word,                                      // generated http(s)://<upstream>
	"version2.HealthCheck.GRPCPass":                 word,                                      // generated grpc(s)://<upstream>
	"version2.HealthCheck.GRPCService":              bare,                                      // SUSPECT: VAL validateGrpcService ^[^\s{};]*$ admits a backslash; printed bare before ;
	"version2.HealthCheck.Headers[key]":             word,                                      // VAL validateHeader IsHTTPHeaderName
	"version2.HealthCheck.Headers[val]":             dq,                                        // VAL isValidHeaderValue ^([^"$\\]|\\[^$])*$ ; inside "..."
	"version2.ErrorPageLocation.Name":               word,                                      // generated @error_page_i_j
	"version2.ErrorPageLocation.DefaultType":        dq,                                        // VAL validateActionReturnType ^([^;\{\}"\\]|\\.)*$ ; inside "..."
	"version2.ReturnLocation.Name":                  word,                                      // generated @return_n
	"version2.ReturnLocation.DefaultType":           dq,                                        // same validator
	"version2.Header.Name":                          word,                                      // IsHTTPHeaderName for proxy set/add headers, errorPage headers and (since 7a5e973, F52 fixed) action.return.headers (http_header_name_word)
	"version2.Header.Value":                         dq,                                        // escaped string (+ variable whitelist); action.return.headers: ValidateEscapedString since 7a5e973 (F52 fixed; escaped_dq_safe); inside "..."
	"version2.Return.Text":                          dq,                                        // VAL validateEscapedStringWithVariables; inside "..."
	"version2.ErrorPage.Name":                       dq,                                        // redirect URL (escaped string) or generated @name; inside "..."
	"version2.Location.ServiceName":                 word,                                      // upstream.service DNS-1035; inside "..."
	"version2.Location.VSRName":                     word,                                      // metadata
	"version2.Location.VSRNamespace":                word,                                      // metadata
	"version2.Location.ClientMaxBodySize":           word,                                      // offset; trim mismatch; ConfigMap raw
	"version2.Location.ProxyBufferSize":             word,                                      // size; trim mismatch
	"version2.Location.ProxyConnectTimeout":         word,                                      // time
	"version2.Location.ProxyReadTimeout":            word,                                      // time
	"version2.Location.ProxySendTimeout":            word,                                      // time
	"version2.Location.ProxyMaxTempFileSize":        word,                                      // ConfigMap raw only
	"version2.Location.ProxyNextUpstreamTimeout":    word,                                      // time
	"version2.Location.ProxyPass":                   wvar,                                      // generated http(s)://<upstream>[$request_uri]
	"version2.Location.ProxyPassRewrite":            bare,                                      // VAL validateActionProxyRewritePath pathFmt; printed glued to ProxyPass
	"version2.Location.GRPCPass":                    word,                                      // generated
	"version2.Location.InternalProxyPass":           word,                                      // constant http://unix:/var/lib/nginx/nginx-418-server.sock
	"version2.Location.ProxyHideHeaders[]":          word,                                      // IsHTTPHeaderName
	"version2.Location.ProxyPassHeaders[]":          word,                                      // IsHTTPHeaderName
	"version2.Location.ProxySSLName":                word,                                      // generated <svc>.<ns>.svc

	// ------------------------------------------------------------------ version2 (policies)
	"version2.APIKey.MapName":                    word, // generated; inside "..."
	"version2.APIKey.Header[]":                   word, // VAL policy IsHTTPHeaderName
	"version2.APIKey.Query[]":                    word, // SUSPECT: only ValidateEscapedString (space ; { } % \" pass); printed as ${arg_<q>} inside "..." and used as printf FORMAT
	"version2.AuthJWTClaimSet.Variable":          wvar, // generated $jwt_<ns>_<vs>_<claim>; SUSPECT: claim guarded by the CRD pattern only
	"version2.BasicAuth.Secret":                  word, // secret file path
	"version2.BasicAuth.Realm":                   dq,   // VAL validateRealm; printed with %q only
	"version2.Dos.AllowListPath":                 word, // generated; inside "..."
	"version2.Dos.ApDosAccessLogDest":            word, // stderr | syslog:server=host:port
	"version2.Dos.ApDosMonitorProtocol":          Lit("http1", "http2", "grpc", "websocket", ""),
	"version2.Dos.ApDosMonitorURI":               word,  // SUSPECT: url.Parse + escaped string; printed bare AND inside "..."
	"version2.Dos.ApDosPolicy":                   word,  // generated
	"version2.Dos.Enable":                        onOff, // internal/configs/dos.go: on/off whenever a Dos struct exists
	"version2.Dos.Name":                          dq,    // <ns>/<name>/<spec.name>; inside "..."
	"version2.EgressMTLS.Certificate":            word,  // secret file path
	"version2.EgressMTLS.CertificateKey":         word,
	"version2.EgressMTLS.Ciphers":                word,                                           // SUSPECT: no validator at all (VAL validateEgressMTLS ignores it); printed bare
	"version2.EgressMTLS.SSLName":                wvar,                                           // $proxy_host or DNS-1123 (VAL validateSSLName)
	"version2.EgressMTLS.TrustedCert":            word,                                           // generated
	"version2.IngressMTLS.ClientCert":            word,                                           // generated
	"version2.IngressMTLS.ClientCrl":             word,                                           // SUSPECT: /etc/nginx/secrets/ + crlFileName, crlFileName not validated
	"version2.IngressMTLS.VerifyClient":          Lit("on", "off", "optional", "optional_no_ca"), // VAL validateIngressMTLS
	"version2.JWTAuth.Key":                       word,                                           // <ns>/<policy name>
	"version2.JWTAuth.KeyCache":                  word,                                           // time; SUSPECT: raw value, white space between units passes validateTime
	"version2.JWTAuth.Realm":                     dq,                                             // VAL validateRealm; inside "..."
	"version2.JWTAuth.Secret":                    word,                                           // secret file path
	"version2.JWTAuth.Token":                     wvar,                                           // VAL validateJWTToken $(arg|http|cookie)_name
	"version2.JwksURI.JwksHost":                  word,                                           // url.Hostname, IsDNS1123Subdomain
	"version2.JwksURI.JwksPath":                  bare,                                           // SUSPECT: url.Path (percent-decoded), only non-empty is checked; printed bare
	"version2.JwksURI.JwksPort":                  word,                                           // digits or empty
	"version2.JwksURI.JwksScheme":                word,                                           // url scheme
	"version2.LimitReq.ZoneName":                 word,                                           // generated
	"version2.LimitReqOptions.LogLevel":          logLevel,                                       // VAL policy enum
	"version2.LimitReqZone.Rate":                 word,                                           // VAL validateRate ^[1-9]\d*r/[sSmM]$
	"version2.LimitReqZone.ZoneName":             word,                                           // generated
	"version2.LimitReqZone.ZoneSize":             word,                                           // size; trim mismatch
	"version2.OIDC.AuthEndpoint":                 dq,                                             // SUSPECT: VAL validateURL (url.Parse + host) lets a double quote through; inside "..."
	"version2.OIDC.TokenEndpoint":                dq,                                             // same
	"version2.OIDC.JwksURI":                      dq,                                             // same
	"version2.OIDC.EndSessionEndpoint":           dq,                                             // same
	"version2.OIDC.AuthExtraArgs":                dq,                                             // SUSPECT: url.ParseQuery only; inside "..."
	"version2.OIDC.ClientID":                     dq,                                             // VAL validateClientID ^([^"$\\]|\\[^$])*$
	"version2.OIDC.ClientSecret":                 dq,                                             // secrets.ValidateOIDCSecret ^([^"$\\\s]|\\[^$])*$
	"version2.OIDC.PostLogoutRedirectURI":        dq,                                             // SUSPECT: VAL validatePath pathFmt admits a double quote; inside "..."
	"version2.OIDC.RedirectURI":                  dq,                                             // same
	"version2.OIDC.Scope":                        dq,                                             // VAL validateOIDCScope range table (no space, dq, backslash)
	"version2.SSL.Certificate":                   word,                                           // secret file path
	"version2.SSL.CertificateKey":                word,
	"version2.VirtualServerConfig.StaticSSLPath": word,
	"version2.WAF.ApBundle":                      word,  // path.Join(bundle dir, IsQualifiedName)
	"version2.WAF.ApPolicy":                      word,  // generated
	"version2.WAF.Enable":                        onOff, // VS addWAFConfig: on/off whenever a WAF struct exists

	// ------------------------------------------------------------------ version2 (TransportServer)
	"version2.StreamUpstream.Name":                   word, // ts_<ns>_<name>_<upstream>
	"version2.StreamUpstreamServer.Address":          word,
	"version2.StreamUpstreamServer.FailTimeout":      word, // time
	"version2.StreamUpstreamBackupServer.Address":    word,
	"version2.StreamServer.ProxyConnectTimeout":      word, // time
	"version2.StreamServer.ProxyNextUpstreamTimeout": word, // time
	"version2.StreamServer.ProxyTimeout":             word, // time
	"version2.StreamServer.ProxyPass":                word, // generated
	"version2.StreamServer.StatusZone":               word, // listener name / host
	"version2.StreamServer.UnixSocket":               word, // generated unix:/var/lib/nginx/passthrough-<ns>_<name>.sock
	"version2.StreamServer.ServerName":               word, // VAL validateHost; printed by makeServerName inside "..."
	"version2.StreamSSL.Certificate":                 word,
	"version2.StreamSSL.CertificateKey":              word,
	"version2.TransportServerConfig.StaticSSLPath":   word,
	"version2.StreamHealthCheck.Interval":            word,               // time
	"version2.StreamHealthCheck.Jitter":              word,               // time
	"version2.StreamHealthCheck.Timeout":             word,               // time
	"version2.StreamHealthCheck.Match":               word,               // generated
	"version2.Match.Name":                            word,               // generated
	"version2.Match.Send":                            dq,                 // VAL validateMatchSend (escaped string + hex literals) on match.Send since c1888e6 (F62 fixed; escaped_dq_safe); inside "..."
	"version2.Match.Expect":                          dq,                 // VAL validateMatchExpect escaped string; inside "..."
	"version2.Match.ExpectRegexModifier":             Lit("", "~", "~*"), // TS generateTransportServerHealthCheck
	"version2.TLSPassthroughHostsConfig[key]":        word,               // TransportServer spec.host (VAL validateHost)
	"version2.TLSPassthroughHostsConfig[val]":        word,               // TS generateUnixSocket
}

// Shape: shapes for field keys, for helper functions ("func:<name>") and for pipelines
// ("pipe:<template base name>|<pipeline text>").
var Shape = map[string]Pat{
	// ---- fields that are legitimately several tokens
	"version1.Upstream.LBMethod":                  httpLB,                              // PH ParseLBMethod(ForPlus); SUSPECT: validateHashLBMethod does not look at the hash key
	"version2.Upstream.LBMethod":                  httpLB,                              // same parser through VAL validateUpstreamLBMethod; raw CRD value stored
	"version2.StreamUpstream.LoadBalancingMethod": streamLB,                            // KNOWN WEAK F29
	"version1.Upstream.StickyCookie":              Seq(C(bare), Many(T(" "), C(bare))), // KNOWN WEAK F28: cookie name and parameters
	"version1.Location.ProxyBuffers":              buffers,                             // PH ParseProxyBuffersSpec ^\d+ \d+[kKmM]?$
	"version2.Location.ProxyBuffers":              buffers,                             // VS generateBuffers "%v %v"
	"version1.Server.AppProtectLogConfs[]":        twoWords,                            // <logconf file> <destination>; SUSPECT: VAL appprotect_common.go regexes are unanchored
	"version2.WAF.ApLogConf[]":                    twoWords,                            // same validator
	"version1.Server.AppProtectDosLogConfFile":    Opt(C(word), T(" "), C(word)),       // generated file + validated destination (anchored)
	"version2.Dos.ApDosLogConf":                   Opt(C(word), T(" "), C(word)),
	"version2.ErrorPage.Codes":                    Seq(C(cint), Many(T(" "), C(cint))),               // VS: codes joined by a space
	"version2.StatusMatch.Code":                   Seq(Opt(T("! ")), C(word), Many(T(" "), C(word))), // VAL validateStatusMatch: [!] code|range ...
	"version2.Location.ProxyNextUpstream":         words,                                             // VAL validateNextUpstream enum words; SUSPECT: strings.Fields accepts any white space, raw value stored
	"version2.Location.ProxyIgnoreHeaders":        Opt(words),                                        // VS strings.Join(validated enum, " ")
	"version2.EgressMTLS.Protocols":               words,                                             // SUSPECT: no validator at all; default TLSv1 TLSv1.1 TLSv1.2
	"version2.AuthJWTClaimSet.Claim":              words,                                             // claim path with . replaced by a space; SUSPECT: CRD pattern only
	// NGINX map / split_clients parameters: a quoted string, one of the escaped special words, or a plain word
	"version2.Parameter.Value":  Alt(C(quote), C(Lit(`\default`, `\hostnames`, `\include`, `\volatile`)), C(word)), // VS generateValueForMatchesRouteMap "%s" of an escaped string; ~^0*1; default; SUSPECT: rate-limit jwt match
	"version2.Parameter.Result": Alt(C(quote), C(Lit(`''`)), varText),                                              // 0 / 1 / $variable / internal location / "" / '' / "client id" / Val<rate-limit key with ${var}>
	// rate-limit keys: text with ${var} references
	"version1.LimitReqZone.Key": keyText, // VAL limitReqKeyRegexp ^(\$\{\w+\}|\$\w+|[^\s;{}\\"'#$])+$ since 3e8e85f (F26 fixed; limit_req_key_bare_safe); default ${binary_remote_addr}
	"version2.LimitReqZone.Key": varText, // VAL validateRateLimitKey; SUSPECT: text outside ${...} is only an escaped string (space ; { } pass)
	// location paths
	"version1.Location.Path":                 Seq(Opt(T("= ")), C(bare)),                                    // KNOWN WEAK F06; ING generateIngressPath prefixes "= " for pathType Exact
	"version2.Location.Path":                 Alt(C(bare), Seq(T("~ "), C(quote)), Seq(T("~* "), C(quote))), // VS generatePath quotes regex paths; SUSPECT: regex routes with action redirect/return keep the raw path
	"version2.InternalRedirectLocation.Path": Alt(C(bare), Seq(T("~ "), C(bare)), Seq(T("~* "), C(bare))),   // raw route path; SUSPECT: regex route paths are escaped strings, not bare tokens
	"version2.Location.Rewrites[]": Alt(
		Seq(T("^ "), C(wvar), Opt(T(" break"))),       // ^ $request_uri break / ^ $request_uri_no_args
		Seq(C(quote), T(" "), C(quote), T(" break"))), // "^path" "rewrite" break; VS generateRewrites strips the modifier and LEADING blanks only (TrimLeft since 0fa6833, F66 fixed): the expression stays an escaped string; SUSPECT only for a prefix / exact path holding a double quote (F53a)

	// ---- helper functions
	// version2/template_helper.go makeServerName: `server_name "<ServerName>";` or empty
	"func:makeServerName": Opt(T(`server_name "`), F("version2.StreamServer.ServerName"), T(`";`)),
	// version2/template_helper.go makeHeaderQueryValue: "${http_<lower(header), - -> _>}...${arg_<query>}..."
	// (ToLower and ReplaceAll - _ keep a CWord a CWord)
	"func:makeHeaderQueryValue": Seq(T(`"`), Many(T("${http_"), F("version2.APIKey.Header[]"), T("}")),
		Many(T("${arg_"), F("version2.APIKey.Query[]"), T("}")), T(`"`)),
	// version1/template_helper.go makeLocationPath / makePathWithRegex: the path bare, or
	// `~ "^path"`, `~* "^path"`, `= "path"` when nginx.org/path-regex is set (K8SVAL validatePath:
	// an escaped string without white space and ; , hence CDQ inside the quotes)
	"func:makeLocationPath": Alt(F("version1.Location.Path"),
		Seq(T(`~ "^`), C(dq), T(`"`)), Seq(T(`~* "^`), C(dq), T(`"`)), Seq(T(`= "`), C(dq), T(`"`))),
	// version1/template_helper.go generateProxySetHeaders: zero or more lines
	// `\n\t\tproxy_set_header <name> $http_<name lower, - -> _>;` or `... <name> %q;`; the name is
	// checked against ^[-A-Za-z0-9]+$ inside the helper on every path before it is printed
	"func:generateProxySetHeaders": Many(T("\n\t\tproxy_set_header "), C(word), T(" "),
		Alt(Seq(T("$http_"), C(word)), C(quote)), T(";")),

	// ---- pipelines
	// `makeLocationPath ... | printf` uses the PATH as a printf format.  The generic rule of the
	// translator refuses this for the quoted alternatives (CDQ is not closed under Sprintf with no
	// operands: the path /a%\"{ becomes ~ "^/a%!\(MISSING)"{" and leaves the quotes).  That is a
	// defect of the template, recorded in Suspect; the site gets the shape it is MEANT to have so
	// that the remaining analysis is not blocked.  Delete these two entries to fail closed.
	"pipe:nginx.ingress.tmpl|makeLocationPath $location $.Ingress.Annotations | printf":      F("func:makeLocationPath"),
	"pipe:nginx-plus.ingress.tmpl|makeLocationPath $location $.Ingress.Annotations | printf": F("func:makeLocationPath"),
}

// FuncClass: class of the output of a template helper function when printed directly.
var FuncClass = map[string]string{
	// version2/template_helper.go buildListenDirective: complete `listen [ip:]port [ssl] [proxy_protocol] [udp];\n`
	// lines built from strconv.Itoa ports, bools and listener addresses validated by
	// VAL globalconfiguration.go IsValidIPv4Address / IsValidIPv6Address (no zone, hence no %)
	"makeHTTPListener":      "CLines",
	"makeHTTPSListener":     "CLines",
	"makeTransportListener": "CLines",
	// commonhelpers.MakeOnOffFromBool
	"makeOnOffFromBool": onOff,
	// makeSecretPath: rule in the translator (join of the byte-set classes of path and variable)
	// toLower, toUpper, trim: rule in the translator (class preserving)
	// replaceAll, split, makeResolver, ...: not used by the six templates; Unknown if they appear
}

// PipelineClass: overrides keyed by "<template base name>|<pipeline text as printed by parse>".
var PipelineClass = map[string]string{
	// OSS Ingress template prints server_tokens bare.  Without NGINX Plus the value can only be
	// on/off: ANN parseAnnotations / CM ParseConfigMap keep a non-boolean value only when isPlus,
	// K8SVAL validateServerTokensAnnotation requires a boolean; default "on".
	"nginx.ingress.tmpl|$server.ServerTokens": onOff,
}

// Doubtful: field keys whose class the author could not fully establish from the validators of
// /repo (the class given is the one the site needs).
var Doubtful = []string{
	// values taken RAW from the ConfigMap (administrator supplied, no validation in CM ParseConfigMap)
	"version1.Server.RealIPHeader", "version1.Server.SetRealIPFrom[]", "version2.Server.RealIPHeader",
	"version2.Server.SetRealIPFrom[]", "version2.Upstream.UpstreamZoneSize", "version2.Location.ProxyMaxTempFileSize",
	"version1.Server.ServerTokens", "version2.Server.ServerTokens", // Plus: raw ConfigMap server-tokens inside "..."
	// ConfigMap fallbacks stored raw for fields that are normalised when they come from an annotation / CRD
	"version1.Location.ProxyConnectTimeout", "version1.Location.ProxyReadTimeout", "version1.Location.ProxySendTimeout",
	"version1.UpstreamServer.FailTimeout", "version2.Upstream.FailTimeout", "version2.Location.ProxyConnectTimeout",
	"version2.Location.ProxyReadTimeout", "version2.Location.ProxySendTimeout",
	// guaranteed by the Kubernetes API server only (no check in /repo)
	"version1.UpstreamServer.Address", "version2.UpstreamServer.Address", "version2.StreamUpstreamServer.Address",
	"version2.StreamUpstreamBackupServer.Address", "version1.Server.Name", "version1.Server.StatusZone",
	"version1.Upstream.Name", "version1.HealthCheck.Scheme", "version1.HealthCheck.Headers[key]",
	// validator trims white space, generator stores the untrimmed value (leading/trailing white space possible)
	"version1.Location.ClientMaxBodySize", "version1.Location.ProxyBufferSize", "version1.Location.ProxyMaxTempFileSize",
	"version1.Upstream.UpstreamZoneSize", "version1.Server.ProxyHideHeaders[]", "version1.Server.ProxyPassHeaders[]",
	"version2.Location.ClientMaxBodySize", "version2.Location.ProxyBufferSize", "version2.LimitReqZone.ZoneSize",
	"version2.SessionCookie.Expires", "version2.JWTAuth.KeyCache", "version2.Location.ProxyNextUpstream",
	"version2.Upstream.LBMethod", "version2.StreamUpstream.LoadBalancingMethod",
	"version1.Location.ProxyBuffers", "version2.Location.ProxyBuffers", // ParseProxyBuffersSpec / validateSize trim, the raw value is stored
	// with nginx.org/path-regex the path is only an escaped string (fine inside the quotes the helper adds)
	"version1.Location.Path",
}

// KnownWeak: fields that do NOT in fact satisfy the class their site needs (recorded defects of
// /repo); classified with the class the site needs; value = finding id.
var KnownWeak = map[string]string{
	"version1.Upstream.StickyCookie":              "F28",
	"version2.StreamUpstream.LoadBalancingMethod": "F29",
	"version1.Location.Path":                      "F06",
}

// Suspect: fields / pipelines for which READING the validators suggests that a structural byte
// can reach the site (not yet reproduced on the real code; candidates for the adversarial corpus
// of the C06 harness).  Classified with the class the site needs.
var Suspect = map[string]string{
	"version1.JWTAuth.Token":                  "nginx.com/jwt-token: regex \\$([^\"$\\\\]|\\\\[^$])* admits space ; { }; printed bare token=...  e.g. `$cookie_x; return 403`",
	"version1.JWTRedirectLocation.LoginURL":   "nginx.com/jwt-login-url: url.Parse + scheme + host only; printed bare `return 302 X;`  e.g. `https://h/x; return 200 pwn`",
	"version1.Server.AppProtectDosMonitorURI": "DosProtectedResource apDosMonitor.uri: url.Parse + escaped string; printed bare uri=X when protocol/timeout set  e.g. `h/x; app_protect_dos_enable off`",
	"version2.Dos.ApDosMonitorURI":            "same as version1.Server.AppProtectDosMonitorURI",
	"version1.Server.AppProtectLogConfs[]":    "app-protect-security-log-destination: unanchored regexes in VAL appprotect_common.go; e.g. `/dev/null; app_protect_enable off`",
	"version2.WAF.ApLogConf[]":                "waf securityLog logDest: same unanchored regexes",
	"version1.Upstream.LBMethod":              "nginx.org/lb-method `hash <key>`: key only split on 0x20; TAB ; { } pass  e.g. `hash $uri;x`",
	"version2.Upstream.LBMethod":              "upstream lb-method `hash <key>`: same parser, raw CRD value printed",
	"version1.HealthCheck.URI":                "Pod readinessProbe httpGet.path is printed bare uri=X without any check",
	"version1.HealthCheck.Headers[val]":       "Pod readinessProbe header value printed inside \"...\" without any check",
	"version2.HealthCheck.GRPCService":        "^[^\\s{};]*$ admits a trailing backslash which swallows the terminating ;",
	"version2.Location.Path":                  "regex route with action.redirect / action.return keeps the raw path (VS generateLocationForRedirect/Return), e.g. `~ [0-9a-z]{4}`",
	"version2.InternalRedirectLocation.Path":  "raw route path for matches/splits; regex paths are escaped strings",
	"version2.Location.Rewrites[]":            "VS generateRewrites: an internal non-regex (prefix / exact) path may hold a double quote inside the quoted rewrite (F53a); the trailing-blank trim of regex paths is repaired (F66, 0fa6833)",
	"version2.Map.Source":                     "rate-limit condition.jwt.claim guarded by the CRD schema pattern only (; { } backslash pass)",
	"version2.Map.Variable":                   "same (rl group variable built from the claim)",
	"version2.Parameter.Value":                "rate-limit condition.jwt.match printed bare, CRD pattern only",
	"version2.Parameter.Result":               "rate-limit `Val`+key / match printed bare",
	"version2.AuthJWTClaimSet.Claim":          "rate-limit condition.jwt.claim, CRD pattern only",
	"version2.AuthJWTClaimSet.Variable":       "same",
	"version2.APIKey.Query[]":                 "apiKey suppliedIn.query: escaped string only; inside \"${arg_X}\" and through printf-as-format (`%\\\"` leaves the quotes)",
	"version2.EgressMTLS.Ciphers":             "egressMTLS.ciphers has no validator; printed bare  e.g. `DEFAULT; return 200 x`",
	"version2.EgressMTLS.Protocols":           "egressMTLS.protocols has no validator; printed bare",
	"version2.IngressMTLS.ClientCrl":          "ingressMTLS.crlFileName has no validator; printed bare after /etc/nginx/secrets/",
	"version2.JwksURI.JwksPath":               "jwt.jwksURI path (percent-decoded by url.Parse) printed bare  e.g. `https://idp/k; return 200 x`",
	"version2.LimitReqZone.Key":               "rateLimit.key: text outside ${...} is only an escaped string  e.g. `${binary_remote_addr} zone=z:1m rate=1r/s; }`",
	"version2.OIDC.AuthEndpoint":              "validateURL = url.Parse + host check; path/query may hold a double quote; printed inside \"...\"",
	"version2.OIDC.TokenEndpoint":             "same",
	"version2.OIDC.JwksURI":                   "same",
	"version2.OIDC.EndSessionEndpoint":        "same",
	"version2.OIDC.AuthExtraArgs":             "url.ParseQuery only; double quote and backslash pass; printed inside \"...\"",
	"version2.OIDC.PostLogoutRedirectURI":     "validatePath pathFmt admits a double quote; printed inside \"...\"",
	"version2.OIDC.RedirectURI":               "same",
	"pipe:makeLocationPath | printf":          "v1 templates use the location path as a printf FORMAT: % sequences are rewritten (/a%20b -> /a%!b(MISSING)) and with path-regex `%\\\"` leaves the quotes",
}
