(* C13 -- evaluation of the model and of the decidable specification on the cases the
   harness observed on the implementation.  No proofs here. *)
From Coq Require Import List ZArith String Ascii Bool.
From NIC Require Import Base.Bytes Verify.Model.
Import ListNotations.
Open Scope Z_scope.

Definition sched_of (script : list resp) (tail : resp) : nat -> resp :=
  fun i => nth i script tail.

(* observed outcome of a wait: (true, idx) = acknowledged after request idx; (false, _) = failed *)
Definition outcome_matches (o : outcome) (obs_ok : bool) (obs_idx : Z) : bool :=
  match o with
  | Acked k => obs_ok && (Z.of_nat k =? obs_idx)
  | TimedOut _ => negb obs_ok
  | OutOfFuel => false
  end.

Definition fuel_for (timeout : Z) : nat := Z.to_nat (timeout + 100).

(* the model outcome is robust when moving the deadline by +-slack does not change its kind/index *)
Definition same_outcome (a b : outcome) : bool :=
  match a, b with
  | Acked i, Acked j => Nat.eqb i j
  | TimedOut _, TimedOut _ => true
  | _, _ => false
  end.

Definition robust (script : list resp) (tail : resp) (e timeout : Z) : bool :=
  let s := sched_of script tail in
  let f := fuel_for (timeout + 140) in
  same_outcome (wait f s e (timeout - 100) 0 0) (wait f s e timeout 0 0) &&
  same_outcome (wait f s e (timeout + 40) 0 0) (wait f s e timeout 0 0).

(* S: the decidable specification on the implementation's own outcome, independent of [wait]:
   an acknowledgement must come from an exact 200 answer that no earlier answer preceded with the
   same version, and that answer must have been REQUESTED before the deadline (the scripted latencies are
   lower bounds of the real ones, so the model clock never runs ahead of the real one; 60 ms of slack): a
   version that shows up only after the configured time is a failed reload, however few polls it took;
   a failure must not have skipped a matching answer that was requested at least 40 ms before the deadline. *)
Definition is_match (e : Z) (r : resp) : bool :=
  match classify r with Some v => v =? e | None => false end.

Fixpoint first_match (e : Z) (s : nat -> resp) (i n : nat) : option nat :=
  match n with
  | O => None
  | S n' => if is_match e (s i) then Some i else first_match e s (S i) n'
  end.

Definition spec_ok (script : list resp) (tail : resp) (e timeout : Z) (obs_ok : bool) (obs_idx : Z) : bool :=
  let s := sched_of script tail in
  let horizon := (List.length script + 2)%nat in
  if obs_ok then
    (0 <=? obs_idx) && is_match e (s (Z.to_nat obs_idx)) &&
    match first_match e s 0 horizon with
    | Some k => (Z.of_nat k =? obs_idx) && (start_time s 0 k <? timeout + 60)
    | None => false
    end
  else
    match first_match e s 0 horizon with
    | Some k => negb (start_time s 0 k <? timeout - 40)
    | None => true
    end.

(* result code per wait case: [id; model agrees; spec holds; robust; branch tag] *)
Definition tag_of (o : outcome) : Z :=
  match o with Acked _ => 1 | TimedOut _ => 2 | OutOfFuel => 3 end.

Definition wait_case (id : Z) (script : list resp) (tail : resp) (e timeout : Z)
           (obs_ok : bool) (obs_idx : Z) : list Z :=
  let o := wait (fuel_for timeout) (sched_of script tail) e timeout 0 0 in
  [id; if outcome_matches o obs_ok obs_idx then 1 else 0;
   if spec_ok script tail e timeout obs_ok obs_idx then 1 else 0;
   if robust script tail e timeout then 1 else 0; tag_of o].

(* reload sequences: observed (result code, counter, file bytes) per step;
   codes: 0 ok, 1 shell failed, 2 not confirmed *)
Definition code_of (r : reload_result) : Z :=
  match r with ReloadOk => 0 | ReloadShellFailed => 1 | ReloadNotConfirmed => 2 end.

Fixpoint reload_steps (timeout : Z) (ot : bool) (m : mgr)
         (steps : list (bool * list resp * resp)) (obs : list (Z * Z * string)) : bool * bool :=
  (* returns (model agrees on every step, spec: versions strictly increase and the file carries them) *)
  match steps, obs with
  | [], [] => (true, true)
  | (ok, script, tail) :: rest, (ocode, over, ofile) :: orest =>
      let '(m', v, res) := reload timeout (fuel_for timeout) m ok (sched_of script tail) in
      let agree := (code_of res =? ocode) && (v =? over) && String.eqb (version_conf v ot) ofile in
      (* S: the counter grew, the file carries it, and a reload reported ok was preceded by an
         exact answer for that version (the first one, requested before the deadline: whatever happened to
         the manager before -- it may have gone through Start -- the CONFIGURED timeout bounds every reload) *)
      let spec := (version m <? over) && String.eqb (version_conf over ot) ofile &&
                  (if ocode =? 0 then
                     ok && match first_match over (sched_of script tail) 0 (List.length script + 2) with
                           | Some k => start_time (sched_of script tail) 0 k <? timeout + 60 | None => false end
                   else true) in
      let '(a, s) := reload_steps timeout ot {| version := over |} rest orest in
      (agree && a, spec && s)
  | _, _ => (false, false)
  end.

Definition reload_case (id timeout : Z) (ot : bool)
           (steps : list (bool * list resp * resp)) (obs : list (Z * Z * string)) : list Z :=
  let '(a, s) := reload_steps timeout ot {| version := 0 |} steps obs in
  [id; if a then 1 else 0; if s then 1 else 0; 1; Z.of_nat (List.length steps)].

(* api guard: observed (called, header as a string) *)
Definition api_case (id v : Z) (check : resp) (called : bool) (header : string) : list Z :=
  let act := plus_update {| version := v |} check in
  let agree := match act with
               | ApiCall h => called && String.eqb header (show_Z h)
               | ApiSkippedWithError => negb called
               end in
  (* S: a call implies a 200 check that carried exactly the current version *)
  let spec := if called then
                match check with Http st _ _ => (st =? 200) && String.eqb header (show_Z v) | _ => false end
              else true in
  [id; if agree then 1 else 0; if spec then 1 else 0; 1;
   match act with ApiCall _ => 1 | _ => 2 end].

Definition conf_case (id v : Z) (ot : bool) (file : string) : list Z :=
  [id; if String.eqb (version_conf v ot) file then 1 else 0; 1; 1; if ot then 1 else 2].

(* Plus API pushes, connection affinity: every write request reached a worker whose configuration version is the
   version NGINX is at (pairs: version of the serving worker, current version) *)
Definition plusconn_case (id : Z) (ws : list (Z * Z)) : list Z :=
  [id; 1; if forallb (fun p => fst p =? snd p) ws then 1 else 0; 1; 0].
