(* C15 -- Refs/Model.v : executable model of the two traversals that C15 couples.

   FORWARD  ([consulted]): which (kind, key) dependencies flow into the extended resource
            that internal/k8s/controller.go createIngressEx / createMergeableIngresses /
            createVirtualServerEx and transport_server.go createTransportServerEx build
            (secretStore.GetSecret, svcLister.GetByKey + GetServiceEndpointSlices,
            policyLister.GetByKey, appProtectConfiguration.GetAppResource,
            dosConfiguration.GetValidDosEx), each tagged with the position of the reference.
   BACKWARD ([finds], [reaches], [event_reaches]): internal/k8s/reference_checkers.go (all five
            methods of all checkers), Configuration.findResourcesForResourceReference,
            findPoliciesForSecret / getWAFPoliciesForAppProtect{Policy,LogConf}, the
            secret -> policy -> resource hop of syncSecret, the filters of syncEndpointSlices.

   Keys are the strings the Go code builds (ns + "/" + name); nothing is assumed about the
   reference strings found inside a resource.  No proofs in this file. *)
From Coq Require Import List String Ascii Bool.
Import ListNotations.
Open Scope string_scope.
Open Scope list_scope.

(* ------------------------------------------------------------------ strings *)

Fixpoint contains (c : ascii) (s : string) : bool :=
  match s with
  | EmptyString => false
  | String a r => Ascii.eqb a c || contains c r
  end.

Definition slash : ascii := "/"%char.
Definition comma : ascii := ","%char.

(* strings.Split(s, sep) for a one-byte separator *)
Fixpoint split_on (c : ascii) (s : string) : list string :=
  match s with
  | EmptyString => [EmptyString]
  | String a r =>
      if Ascii.eqb a c then EmptyString :: split_on c r
      else match split_on c r with
           | [] => [String a EmptyString]
           | h :: t => String a h :: t
           end
  end.

Definition key (ns name : string) : string := String.append ns (String.append "/" name).

(* appprotectcommon.ParseResourceReferenceAnnotation, appprotectdos.getNsName and the
   inlined `if !strings.Contains(ref, "/")` of addWAFPolicyRefs / isMatchingResourceRef *)
Definition nsname (defns ref : string) : string :=
  if contains slash ref then ref else key defns ref.

Definition nonempty (s : string) : bool := negb (String.eqb s "").

(* what the API server guarantees of the namespace and the name of an existing object:
   here only that they contain neither '/' nor ',' *)
Definition valid_name (s : string) : Prop := contains slash s = false /\ contains comma s = false.
Definition valid_nameb (s : string) : bool := negb (contains slash s) && negb (contains comma s).

(* ------------------------------------------------------------------ dependencies *)

Inductive kind := KSecret | KService | KEndpoints | KPolicy | KApPolicy | KApLogConf | KDos
                | KDosPolicy | KDosLogConf.   (* APDosPolicy / APDosLogConf, one hop behind a DosProtectedResource *)

Definition kind_eqb (a b : kind) : bool :=
  match a, b with
  | KSecret, KSecret | KService, KService | KEndpoints, KEndpoints | KPolicy, KPolicy
  | KApPolicy, KApPolicy | KApLogConf, KApLogConf | KDos, KDos
  | KDosPolicy, KDosPolicy | KDosLogConf, KDosLogConf => true
  | _, _ => false
  end.

Definition dep := (kind * string)%type.

Definition dep_eqb (a b : dep) : bool := kind_eqb (fst a) (fst b) && String.eqb (snd a) (snd b).

(* where in a resource the reference sits *)
Inductive pos :=
| PIngTLS | PIngBasic | PIngJWT | PIngApPolicy | PIngApLogConf | PIngDos
| PIngDefaultBackend | PIngPathBackend
| PVsTLS | PVsPolicy | PVsRoutePolicy | PVsrSubroutePolicy
| PPolicySecret | PPolicyAp                     (* one hop further: Policy -> Secret / App Protect *)
| PDosHop                                       (* one hop further: DosProtectedResource -> APDosPolicy / APDosLogConf *)
| PVsDos | PVsRouteDos | PVsrSubrouteDos
| PVsUpstream | PVsUpstreamBackup | PVsrUpstream | PVsrUpstreamBackup
| PTsTLS | PTsUpstream | PTsUpstreamBackup.

Definition pos_tag (p : pos) : nat :=
  match p with
  | PIngTLS => 1 | PIngBasic => 2 | PIngJWT => 3 | PIngApPolicy => 4 | PIngApLogConf => 5 | PIngDos => 6
  | PIngDefaultBackend => 7 | PIngPathBackend => 8
  | PVsTLS => 9 | PVsPolicy => 10 | PVsRoutePolicy => 11 | PVsrSubroutePolicy => 12
  | PPolicySecret => 13 | PPolicyAp => 14
  | PVsDos => 15 | PVsRouteDos => 16 | PVsrSubrouteDos => 17
  | PVsUpstream => 18 | PVsUpstreamBackup => 19 | PVsrUpstream => 20 | PVsrUpstreamBackup => 21
  | PTsTLS => 22 | PTsUpstream => 23 | PTsUpstreamBackup => 24
  | PDosHop => 25
  end.

Definition cdep := (pos * dep)%type.

(* ------------------------------------------------------------------ controller flags *)

Record env := {
  plus : bool;             (* lbc.isNginxPlus = Configuration.isPlus (both from input.IsNginxPlus) *)
  ap_enabled : bool;       (* lbc.appProtectEnabled *)
  dos_enabled : bool;      (* lbc.appProtectDosEnabled *)
  vsr_backup_fix : bool;   (* false = /repo without fixes/F19a.diff; true = with it:
                              the backup Service of a VirtualServerRoute upstream is looked up in the
                              route's namespace and IsReferencedByVirtualServerRoute matches it.
                              The harness determines the three fix flags by probing the real functions. *)
  backup_ep_fix : bool;    (* fixes/F19c.diff: virtualServerRequiresEndpointsUpdate also matches upstream.Backup *)
  slice_delete_fix : bool  (* fixes/F19b.diff: the delete handler of EndpointSlices also queues the Service
                              the slice belonged to (when it still exists) *)
}.

(* ------------------------------------------------------------------ resource skeletons *)

Record polref := { pr_name : string; pr_ns : string }.           (* conf_v1.PolicyReference *)

Record upstream := {                                               (* conf_v1.Upstream *)
  u_service : string; u_backup : string; u_backup_port : bool (* BackupPort != nil *);
  u_subselector : bool (* len(Subselector) > 0 *); u_use_cluster_ip : bool }.

Record route := { rt_policies : list polref; rt_dos : string }.   (* conf_v1.Route: Policies, Dos *)

Record vsroute := {                                                (* conf_v1.VirtualServerRoute *)
  vsr_ns : string; vsr_subroutes : list route; vsr_upstreams : list upstream }.

Record vserver := {                                                (* conf_v1.VirtualServer + its routes *)
  vs_ns : string; vs_tls : option string (* Spec.TLS != nil -> Secret *);
  vs_policies : list polref; vs_dos : string;
  vs_upstreams : list upstream; vs_routes : list route; vs_vsrs : list vsroute }.

Record tsupstream := { tu_service : string; tu_backup : string; tu_backup_port : bool }.

Record tserver := { ts_ns : string; ts_tls : option string; ts_upstreams : list tsupstream }.

Record ipath := { ip_valid : bool (* validMinionPaths == nil || validMinionPaths[path] *); ip_svc : string }.
Record irule := { ir_host_valid : bool (* validHosts[rule.Host] *);
                  ir_paths : option (list ipath) (* None: rule.HTTP == nil *) }.

Record ingress := {                                                (* networking.Ingress *)
  i_ns : string;
  i_tls : list string;                   (* Spec.TLS[*].SecretName *)
  i_basic : option string;               (* nginx.org/basic-auth-secret *)
  i_jwt : option string;                 (* nginx.com/jwt-key *)
  i_ap_policy : option string;           (* appprotect.f5.com/app-protect-policy *)
  i_ap_logconf : option string;          (* appprotect.f5.com/app-protect-security-log *)
  i_ap_logdst : option string;           (* appprotect.f5.com/app-protect-security-log-destination *)
  i_dos : option string;                 (* appprotectdos.f5.com/app-protect-dos-resource *)
  i_use_cluster_ip : bool;               (* nginx.org/use-cluster-ip == "true" *)
  i_default : option string;             (* Spec.DefaultBackend.Service.Name *)
  i_rules : list irule }.

Inductive resource :=
| RIngress (i : ingress)                                  (* IngressConfiguration, !IsMaster *)
| RMergeable (master : ingress) (minions : list ingress)  (* IngressConfiguration, IsMaster *)
| RVS (v : vserver)                                       (* VirtualServerConfiguration *)
| RTS (t : tserver).                                      (* TransportServerConfiguration *)

(* validateMinionSpec rejects a minion that has spec.tls: an attached minion has none *)
Definition resource_wfb (r : resource) : bool :=
  match r with
  | RMergeable _ ms => forallb (fun m => match i_tls m with [] => true | _ => false end) ms
  | _ => true
  end.

(* ------------------------------------------------------------------ cluster (what the look-ups return) *)

Record waf := {                                            (* conf_v1.WAF *)
  w_ap_policy : string;
  w_seclog : option string;                                (* SecurityLog != nil -> ApLogConf *)
  w_seclogs : option (list string) }.                      (* SecurityLogs != nil -> [ApLogConf] *)

Record policy := {                                         (* conf_v1.Policy *)
  p_ns : string; p_name : string;
  p_valid : bool;                                          (* validation.ValidatePolicy(...) == nil (oracle) *)
  p_class_ok : bool;                                       (* lbc.HasCorrectIngressClass(policy) (oracle) *)
  p_jwt : option (string * bool);                          (* JWTAuth: Secret, JwksURI != "" *)
  p_basic : option string;                                 (* BasicAuth.Secret *)
  p_ingress_mtls : option string;                          (* IngressMTLS.ClientCertSecret *)
  p_egress_mtls : option (string * string);                (* EgressMTLS: TLSSecret, TrustedCertSecret *)
  p_oidc : option string;                                  (* OIDC.ClientSecret *)
  p_apikey : option string;                                (* APIKey.ClientSecret *)
  p_waf : option waf }.

Inductive svckind := SvcPods | SvcExternalName.

Record dosprot := {                                        (* v1beta1.DosProtectedResource in appprotectdos.Configuration *)
  d_ns : string; d_name : string;
  d_valid : bool;                                          (* ValidateDosProtectedResource == nil (oracle) *)
  d_policy : string;                                       (* Spec.ApDosPolicy *)
  d_logconf : option string }.                             (* Spec.DosSecurityLog != nil -> ApDosLogConf *)

Record cluster := {
  cl_policies : list policy;                               (* the policy store *)
  cl_secrets_ok : list string;                             (* keys with secretStore.GetSecret(key).Error == nil *)
  cl_ap_ok : list dep;                                     (* (KApPolicy|KApLogConf, key) with GetAppResource err == nil;
                                                              (KDosPolicy|KDosLogConf, key) stored and valid in
                                                              appprotectdos.Configuration (getPolicy / getLogConf err == nil) *)
  cl_services : list (string * svckind);                   (* the service store: key -> kind *)
  cl_dos : list dosprot }.                                 (* Configuration.dosProtectedResource *)

Definition dos_key (d : dosprot) : string := key (d_ns d) (d_name d).
Definition lookup_dos (cl : cluster) (k : string) : option dosprot :=
  find (fun d => String.eqb (dos_key d) k) (cl_dos cl).

Definition mem (k : string) (l : list string) : bool := existsb (String.eqb k) l.
Definition secret_ok (cl : cluster) (k : string) : bool := mem k (cl_secrets_ok cl).
Definition ap_ok (cl : cluster) (d : dep) : bool := existsb (dep_eqb d) (cl_ap_ok cl).
Definition svc_of (cl : cluster) (k : string) : option svckind :=
  match find (fun e => String.eqb (fst e) k) (cl_services cl) with Some e => Some (snd e) | None => None end.

Definition policy_key (p : policy) : string := key (p_ns p) (p_name p).

(* policyLister.GetByKey *)
Definition lookup_policy (cl : cluster) (k : string) : option policy :=
  find (fun p => String.eqb (policy_key p) k) (cl_policies cl).

(* getAllPolicies: every stored policy that passes ValidatePolicy *)
Definition all_policies (cl : cluster) : list policy := filter p_valid (cl_policies cl).

(* ------------------------------------------------------------------ FORWARD: consulted *)

(* the loops `for _, pol := range policies { ... if err != nil { return err } }` *)
Fixpoint take_until_fail {A : Type} (ok : A -> bool) (l : list A) : list A :=
  match l with
  | [] => []
  | x :: r => if ok x then x :: take_until_fail ok r else [x]
  end.

Definition polref_key (owner : string) (r : polref) : string :=
  key (if String.eqb (pr_ns r) "" then owner else pr_ns r) (pr_name r).

(* getPolicies: the policies that are found, of the right class and valid *)
Definition get_policies (cl : cluster) (refs : list polref) (owner : string) : list policy :=
  flat_map (fun r => match lookup_policy cl (polref_key owner r) with
                     | Some p => if p_class_ok p && p_valid p then [p] else []
                     | None => []
                     end) refs.

Definition jwt_keys (pols : list policy) : list string :=
  flat_map (fun p => match p_jwt p with
                     | Some (s, jwks) => if jwks then [] else [key (p_ns p) s]
                     | None => [] end) pols.
Definition basic_keys (pols : list policy) : list string :=
  flat_map (fun p => match p_basic p with Some s => [key (p_ns p) s] | None => [] end) pols.
Definition oidc_keys (pols : list policy) : list string :=
  flat_map (fun p => match p_oidc p with Some s => [key (p_ns p) s] | None => [] end) pols.
Definition apikey_keys (pols : list policy) : list string :=
  flat_map (fun p => match p_apikey p with Some s => [key (p_ns p) s] | None => [] end) pols.
Definition egress_keys (pols : list policy) : list string :=
  flat_map (fun p => match p_egress_mtls p with
                     | Some (t, c) => (if nonempty t then [key (p_ns p) t] else []) ++
                                      (if nonempty c then [key (p_ns p) c] else [])
                     | None => [] end) pols.
(* addIngressMTLSSecretRefs returns after the first policy that has IngressMTLS *)
Definition ingress_mtls_keys (pols : list policy) : list string :=
  match flat_map (fun p => match p_ingress_mtls p with Some s => [key (p_ns p) s] | None => [] end) pols with
  | [] => []
  | k :: _ => [k]
  end.

Definition waf_items (p : policy) : list dep :=
  match p_waf p with
  | None => []
  | Some w =>
      (if nonempty (w_ap_policy w) then [(KApPolicy, nsname (p_ns p) (w_ap_policy w))] else []) ++
      (match w_seclog w, w_seclogs w with
       | Some l, None => if nonempty l then [(KApLogConf, nsname (p_ns p) l)] else []
       | _, _ => [] end) ++
      (match w_seclogs w with
       | Some ls => flat_map (fun l => if nonempty l then [(KApLogConf, nsname (p_ns p) l)] else []) ls
       | None => [] end)
  end.

Definition sec (ks : list string) : list cdep := map (fun k => (PPolicySecret, (KSecret, k))) ks.

(* the add*SecretRefs / addWAFPolicyRefs calls made for one list of fetched policies;
   [spec] = the VirtualServer.Spec.Policies call site, the only one with addIngressMTLSSecretRefs *)
Definition policy_hops (cl : cluster) (spec : bool) (pols : list policy) : list cdep :=
  sec (take_until_fail (secret_ok cl) (jwt_keys pols)) ++
  sec (take_until_fail (secret_ok cl) (basic_keys pols)) ++
  (if spec then sec (ingress_mtls_keys pols) else []) ++
  sec (take_until_fail (secret_ok cl) (egress_keys pols)) ++
  sec (take_until_fail (secret_ok cl) (oidc_keys pols)) ++
  sec (take_until_fail (secret_ok cl) (apikey_keys pols)) ++
  map (fun d => (PPolicyAp, d)) (take_until_fail (ap_ok cl) (flat_map waf_items pols)).

Definition policy_deps (cl : cluster) (p : pos) (spec : bool) (refs : list polref) (owner : string) : list cdep :=
  map (fun r => (p, (KPolicy, polref_key owner r))) refs ++
  policy_hops cl spec (get_policies cl refs owner).

(* appprotectdos.Configuration.GetValidDosEx(owner, ref): the DosProtectedResource, and when it is stored and
   valid its APDosPolicy, and when that is usable its APDosLogConf (each `return nil, err` stops the chain) *)
Definition dos_hop_items (d : dosprot) : list dep :=
  (if nonempty (d_policy d) then [(KDosPolicy, nsname (d_ns d) (d_policy d))] else []) ++
  (match d_logconf d with
   | Some l => if nonempty l then [(KDosLogConf, nsname (d_ns d) l)] else []
   | None => [] end).

Definition dos_hops (cl : cluster) (k : string) : list cdep :=
  match lookup_dos cl k with
  | Some d => if d_valid d then map (fun x => (PDosHop, x)) (take_until_fail (ap_ok cl) (dos_hop_items d)) else []
  | None => []
  end.

Definition dos_chain (cl : cluster) (p : pos) (owner ref : string) : list cdep :=
  (p, (KDos, nsname owner ref)) :: dos_hops cl (nsname owner ref).

Definition dos_dep (cl : cluster) (p : pos) (owner dos : string) : list cdep :=
  if nonempty dos then dos_chain cl p owner dos else [].

(* the endpoints of Service [k] flow into the resource only when the Service exists and has
   pod endpoints.  Assumption (stated in the evidence): an ExternalName Service has no
   EndpointSlices (the endpoint-slice controller of Kubernetes creates none). *)
Definition endpoints_dep (cl : cluster) (p : pos) (k : string) : list cdep :=
  match svc_of cl k with Some SvcPods => [(p, (KEndpoints, k))] | _ => [] end.

(* one Upstream of a VirtualServer (ns = bns) or of a VirtualServerRoute (ns = the route's
   namespace; bns = the namespace generateBackupEndpoints uses) *)
Definition upstream_deps (cl : cluster) (pu pb : pos) (ns bns : string) (u : upstream) : list cdep :=
  (pu, (KService, key ns (u_service u))) ::
  (if u_use_cluster_ip u then [] else endpoints_dep cl pu (key ns (u_service u))) ++
  (if nonempty (u_backup u) && u_backup_port u
   then (pb, (KService, key bns (u_backup u))) :: endpoints_dep cl pb (key bns (u_backup u))
   else []).

Definition route_deps (cl : cluster) (pp pd : pos) (owner : string) (r : route) : list cdep :=
  policy_deps cl pp false (rt_policies r) owner ++ dos_dep cl pd owner (rt_dos r).

Definition vsr_deps (e : env) (cl : cluster) (vns : string) (r : vsroute) : list cdep :=
  flat_map (route_deps cl PVsrSubroutePolicy PVsrSubrouteDos (vsr_ns r)) (vsr_subroutes r) ++
  flat_map (upstream_deps cl PVsrUpstream PVsrUpstreamBackup (vsr_ns r)
              (if vsr_backup_fix e then vsr_ns r else vns)) (vsr_upstreams r).

(* createVirtualServerEx *)
Definition consulted_vs (e : env) (cl : cluster) (v : vserver) : list cdep :=
  (match vs_tls v with
   | Some s => if nonempty s then [(PVsTLS, (KSecret, key (vs_ns v) s))] else []
   | None => [] end) ++
  policy_deps cl PVsPolicy true (vs_policies v) (vs_ns v) ++
  dos_dep cl PVsDos (vs_ns v) (vs_dos v) ++
  flat_map (upstream_deps cl PVsUpstream PVsUpstreamBackup (vs_ns v) (vs_ns v)) (vs_upstreams v) ++
  flat_map (route_deps cl PVsRoutePolicy PVsRouteDos (vs_ns v)) (vs_routes v) ++
  flat_map (vsr_deps e cl (vs_ns v)) (vs_vsrs v).

(* createTransportServerEx *)
Definition ts_upstream_deps (cl : cluster) (ns : string) (u : tsupstream) : list cdep :=
  (PTsUpstream, (KService, key ns (tu_service u))) :: endpoints_dep cl PTsUpstream (key ns (tu_service u)) ++
  (if nonempty (tu_backup u) && tu_backup_port u
   then (PTsUpstreamBackup, (KService, key ns (tu_backup u))) :: endpoints_dep cl PTsUpstreamBackup (key ns (tu_backup u))
   else []).

Definition consulted_ts (cl : cluster) (t : tserver) : list cdep :=
  flat_map (ts_upstream_deps cl (ts_ns t)) (ts_upstreams t) ++
  (match ts_tls t with
   | Some s => if nonempty s then [(PTsTLS, (KSecret, key (ts_ns t) s))] else []
   | None => [] end).

(* one Ingress backend: the Service, and its endpoints unless nginx.org/use-cluster-ip *)
Definition backend_deps (cl : cluster) (p : pos) (i : ingress) (svc : string) : list cdep :=
  (p, (KService, key (i_ns i) svc)) ::
  (if i_use_cluster_ip i then [] else endpoints_dep cl p (key (i_ns i) svc)).

(* createIngressEx.  [minion]: createIngressEx also fetches the App Protect / DoS resources named
   by a minion's annotations, but the configurator only reads Master.AppProtectPolicy /
   AppProtectLogs / DosEx (internal/configs/configurator.go addOrUpdateMergeableIngress), so for
   a minion they do not flow into the generated configuration and are not dependencies. *)
Definition consulted_ing (e : env) (cl : cluster) (minion : bool) (i : ingress) : list cdep :=
  map (fun s => (PIngTLS, (KSecret, key (i_ns i) s))) (i_tls i) ++
  (match i_basic i with Some s => [(PIngBasic, (KSecret, key (i_ns i) s))] | None => [] end) ++
  (if plus e then
     (match i_jwt i with Some s => [(PIngJWT, (KSecret, key (i_ns i) s))] | None => [] end) ++
     (if ap_enabled e && negb minion then
        (match i_ap_policy i with Some v => [(PIngApPolicy, (KApPolicy, nsname (i_ns i) v))] | None => [] end) ++
        (match i_ap_logconf i, i_ap_logdst i with
         | Some v, Some d =>
             let confs := split_on comma v in
             if Nat.eqb (List.length confs) (List.length (split_on comma d))
             then map (fun x => (PIngApLogConf, x))
                      (take_until_fail (ap_ok cl) (map (fun c => (KApLogConf, nsname (i_ns i) c)) confs))
             else []
         | _, _ => [] end)
      else []) ++
     (if dos_enabled e && negb minion then
        (match i_dos i with Some v => dos_chain cl PIngDos (i_ns i) v | None => [] end)
      else [])
   else []) ++
  (match i_default i with Some s => backend_deps cl PIngDefaultBackend i s | None => [] end) ++
  flat_map (fun r =>
    if ir_host_valid r then
      match ir_paths r with
      | Some ps => flat_map (fun p => if ip_valid p then backend_deps cl PIngPathBackend i (ip_svc p) else []) ps
      | None => [] end
    else []) (i_rules i).

(* createExtendedResources for one Resource of the Configuration *)
Definition consulted (e : env) (cl : cluster) (r : resource) : list cdep :=
  match r with
  | RIngress i => consulted_ing e cl false i
  | RMergeable m ms => consulted_ing e cl false m ++ flat_map (consulted_ing e cl true) ms
  | RVS v => consulted_vs e cl v
  | RTS t => consulted_ts cl t
  end.

(* ------------------------------------------------------------------ BACKWARD: reference checkers *)

Record checker := {                                        (* resourceReferenceChecker *)
  ck_ing : string -> string -> ingress -> bool;
  ck_minion : string -> string -> ingress -> bool;
  ck_vs : string -> string -> vserver -> bool;
  ck_vsr : string -> string -> vsroute -> bool;
  ck_ts : string -> string -> tserver -> bool }.

Definition opt_is (o : option string) (s : string) : bool :=
  match o with Some v => String.eqb v s | None => false end.

(* secretReferenceChecker *)
Definition secret_annotations (e : env) (name : string) (i : ingress) : bool :=
  (plus e && opt_is (i_jwt i) name) || opt_is (i_basic i) name.

Definition secret_checker (e : env) : checker := {|
  ck_ing := fun ns name i =>
    String.eqb (i_ns i) ns && (mem name (i_tls i) || secret_annotations e name i);
  ck_minion := fun ns name i => String.eqb (i_ns i) ns && secret_annotations e name i;
  ck_vs := fun ns name v => String.eqb (vs_ns v) ns && opt_is (vs_tls v) name;
  ck_vsr := fun _ _ _ => false;
  ck_ts := fun ns name t => String.eqb (ts_ns t) ns && opt_is (ts_tls t) name |}.

(* serviceReferenceChecker{hasClusterIP} *)
Definition ing_services (name : string) (i : ingress) : bool :=
  opt_is (i_default i) name ||
  existsb (fun r => match ir_paths r with
                    | Some ps => existsb (fun p => String.eqb (ip_svc p) name) ps
                    | None => false end) (i_rules i).

Definition service_checker (e : env) (has_cluster_ip : bool) : checker := {|
  ck_ing := fun ns name i => String.eqb (i_ns i) ns && ing_services name i;
  ck_minion := fun ns name i => String.eqb (i_ns i) ns && ing_services name i;
  ck_vs := fun ns name v =>
    String.eqb (vs_ns v) ns &&
    existsb (fun u => negb (has_cluster_ip && u_use_cluster_ip u) &&
                      (String.eqb (u_service u) name || String.eqb (u_backup u) name)) (vs_upstreams v);
  ck_vsr := fun ns name r =>
    String.eqb (vsr_ns r) ns &&
    existsb (fun u => negb (has_cluster_ip && u_use_cluster_ip u) &&
                      (String.eqb (u_service u) name ||
                       (vsr_backup_fix e && String.eqb (u_backup u) name))) (vsr_upstreams r);
  ck_ts := fun ns name t =>
    String.eqb (ts_ns t) ns &&
    existsb (fun u => String.eqb (tu_service u) name || String.eqb (tu_backup u) name) (ts_upstreams t) |}.

(* isPolicyReferenced + policyReferenceChecker *)
Definition is_policy_referenced (refs : list polref) (owner ns name : string) : bool :=
  existsb (fun r => String.eqb (pr_name r) name &&
                    String.eqb (if String.eqb (pr_ns r) "" then owner else pr_ns r) ns) refs.

Definition policy_checker : checker := {|
  ck_ing := fun _ _ _ => false;
  ck_minion := fun _ _ _ => false;
  ck_vs := fun ns name v =>
    is_policy_referenced (vs_policies v) (vs_ns v) ns name ||
    existsb (fun r => is_policy_referenced (rt_policies r) (vs_ns v) ns name) (vs_routes v);
  ck_vsr := fun ns name r =>
    existsb (fun s => is_policy_referenced (rt_policies s) (vsr_ns r) ns name) (vsr_subroutes r);
  ck_ts := fun _ _ _ => false |}.

(* `res == namespace+"/"+name || (namespace == owner && res == name)` *)
Definition ref_matches (owner ns name res : string) : bool :=
  String.eqb res (key ns name) || (String.eqb ns owner && String.eqb res name).

(* appProtectResourceReferenceChecker{annotation} *)
Definition ap_checker (sel : ingress -> option string) : checker := {|
  ck_ing := fun ns name i =>
    match sel i with
    | Some v => existsb (ref_matches (i_ns i) ns name) (split_on comma v)
    | None => false end;
  ck_minion := fun _ _ _ => false;
  ck_vs := fun _ _ _ => false;
  ck_vsr := fun _ _ _ => false;
  ck_ts := fun _ _ _ => false |}.

(* dosResourceReferenceChecker *)
Definition dos_checker : checker := {|
  ck_ing := fun ns name i =>
    match i_dos i with Some v => ref_matches (i_ns i) ns name v | None => false end;
  ck_minion := fun _ _ _ => false;
  ck_vs := fun ns name v =>
    ref_matches (vs_ns v) ns name (vs_dos v) ||
    existsb (fun r => ref_matches (vs_ns v) ns name (rt_dos r)) (vs_routes v);
  ck_vsr := fun ns name r => existsb (fun s => ref_matches (vsr_ns r) ns name (rt_dos s)) (vsr_subroutes r);
  ck_ts := fun _ _ _ => false |}.

(* Configuration.findResourcesForResourceReference, for one resource of c.hosts / c.listenerHosts *)
Definition finds (c : checker) (ns name : string) (r : resource) : bool :=
  match r with
  | RIngress i => ck_ing c ns name i
  | RMergeable m ms => ck_ing c ns name m || existsb (ck_minion c ns name) ms
  | RVS v => ck_vs c ns name v || existsb (ck_vsr c ns name) (vs_vsrs v)
  | RTS t => ck_ts c ns name t
  end.

(* findPoliciesForSecret (the else-if chain returns the policy as soon as one clause matches) *)
Definition policy_mentions_secret (ns name : string) (p : policy) : bool :=
  String.eqb (p_ns p) ns &&
  (opt_is (p_ingress_mtls p) name ||
   (match p_jwt p with Some (s, _) => String.eqb s name | None => false end) ||
   opt_is (p_basic p) name ||
   (match p_egress_mtls p with Some (t, c) => String.eqb t name || String.eqb c name | None => false end) ||
   opt_is (p_oidc p) name ||
   opt_is (p_apikey p) name).

Definition policies_for_secret (cl : cluster) (ns name : string) : list policy :=
  filter (policy_mentions_secret ns name) (all_policies cl).

(* isMatchingResourceRef *)
Definition matching_ref (owner ref k : string) : bool := String.eqb (nsname owner ref) k.

(* getWAFPoliciesForAppProtectPolicy / getWAFPoliciesForAppProtectLogConf *)
Definition waf_policies_for (cl : cluster) (k : kind) (ky : string) : list policy :=
  filter (fun p => match p_waf p with
                   | None => false
                   | Some w =>
                       match k with
                       | KApPolicy => matching_ref (p_ns p) (w_ap_policy w) ky
                       | KApLogConf =>
                           (match w_seclog w with Some l => matching_ref (p_ns p) l ky | None => false end) ||
                           (match w_seclogs w with Some ls => existsb (fun l => matching_ref (p_ns p) l ky) ls | None => false end)
                       | _ => false
                       end
                   end) (all_policies cl).

Definition via_policies (pols : list policy) (r : resource) : bool :=
  existsb (fun p => finds policy_checker (p_ns p) (p_name p) r) pols.

(* GetDosProtectedThatReferencedDosPolicy / ...DosLogConf: every stored DosProtectedResource (valid or not) whose
   reference is the key as it stands or the key once the resource's namespace is put in front.  AddOrUpdatePolicy /
   DeletePolicy (and the LogConf twins) re-evaluate those resources and processAppProtectDosChanges regenerates what
   FindResourcesForAppProtectDosProtected returns for each of them. *)
Definition dos_ref_matches (d : dosprot) (ref ky : string) : bool :=
  String.eqb ky ref || String.eqb ky (key (d_ns d) ref).

Definition dos_referencing (cl : cluster) (k : kind) (ky : string) : list dosprot :=
  filter (fun d => match k with
                   | KDosPolicy => dos_ref_matches d (d_policy d) ky
                   | KDosLogConf => match d_logconf d with Some l => dos_ref_matches d l ky | None => false end
                   | _ => false
                   end) (cl_dos cl).

Definition via_dos (ds : list dosprot) (r : resource) : bool :=
  existsb (fun d => finds dos_checker (d_ns d) (d_name d) r) ds.

(* virtualServerRequiresEndpointsUpdate / ingressRequiresEndpointsUpdate /
   mergeableIngressRequiresEndpointsUpdate; TransportServers are always updated *)
Definition ing_requires_update (svc : string) (i : ingress) : bool :=
  negb (i_use_cluster_ip i) && ing_services svc i.

Definition upstream_requires_update (e : env) (svc : string) (u : upstream) : bool :=
  (String.eqb (u_service u) svc && negb (u_use_cluster_ip u)) ||
  (backup_ep_fix e && String.eqb (u_backup u) svc).

Definition requires_endpoints_update (e : env) (svc : string) (r : resource) : bool :=
  match r with
  | RIngress i => ing_requires_update svc i
  | RMergeable m ms => existsb (ing_requires_update svc) ms || ing_requires_update svc m
  | RVS v =>
      existsb (upstream_requires_update e svc) (vs_upstreams v) ||
      existsb (fun r => existsb (upstream_requires_update e svc) (vsr_upstreams r)) (vs_vsrs v)
  | RTS _ => true
  end.

(* which resources a sync function regenerates when the object (k, ns/name) is added or changed:
   syncSecret (FindResourcesForSecret + getPoliciesForSecret -> FindResourcesForPolicy),
   syncService, syncEndpointSlices (FindResourcesForService then the *RequiresEndpointsUpdate filter),
   syncPolicy, processAppProtectChanges, processAppProtectDosChanges.
   For a resource that is alone in its class this is exact; with several resources
   syncEndpointSlices updates all found ones as soon as one requires it (so this is a lower bound). *)
Definition reaches (e : env) (cl : cluster) (k : kind) (ns name : string) (r : resource) : bool :=
  match k with
  | KSecret => finds (secret_checker e) ns name r || via_policies (policies_for_secret cl ns name) r
  | KService => finds (service_checker e false) ns name r
  | KEndpoints => finds (service_checker e false) ns name r && requires_endpoints_update e name r
  | KPolicy => finds policy_checker ns name r
  | KApPolicy => finds (ap_checker i_ap_policy) ns name r || via_policies (waf_policies_for cl KApPolicy (key ns name)) r
  | KApLogConf => finds (ap_checker i_ap_logconf) ns name r || via_policies (waf_policies_for cl KApLogConf (key ns name)) r
  | KDos => finds dos_checker ns name r
  | KDosPolicy | KDosLogConf => via_dos (dos_referencing cl k (key ns name)) r
  end.

(* Everything the Configuration serves.  Configuration.findResourcesForResourceReference walks c.hosts
   and c.listenerHosts and asks the checker about every resource independently of all the others (kind,
   namespace, name or host of one resource never hide another one); the sync functions then regenerate
   exactly the resources found.  (For EndpointSlices this is a lower bound, see [reaches].) *)
Definition found_set (c : checker) (ns name : string) (served : list resource) : list resource :=
  filter (finds c ns name) served.

Definition reached_set (e : env) (cl : cluster) (k : kind) (ns name : string) (served : list resource) : list resource :=
  filter (reaches e cl k ns name) served.

(* ------------------------------------------------------------------ events *)

Inductive op := Add | Update | Delete.

(* The informer handlers enqueue every add and delete, and an update only when their filter lets it
   through: a Service when hasServiceChanges (a port name/number or an ExternalName changed), a Policy /
   DosProtectedResource / App Protect resource when the spec differs, a Secret / EndpointSlice when the
   objects differ.  [relevant] is that verdict, an explicit argument.  The sync functions compute the
   affected resources before looking at existence, except syncEndpointSlices, which returns early
   when the EndpointSlice is gone; with fixes/F19b.diff the delete handler also queues the Service of the
   slice if it is still in the store, and syncService regenerates everything FindResourcesForService
   returns (no endpoints filter). *)
Definition event_reaches (e : env) (cl : cluster) (k : kind) (o : op) (relevant : bool)
           (ns name : string) (r : resource) : bool :=
  match k, o with
  | KEndpoints, Delete =>
      slice_delete_fix e &&
      (match svc_of cl (key ns name) with Some _ => true | None => false end) &&
      finds (service_checker e false) ns name r
  | _, Update => relevant && reaches e cl k ns name r
  | _, _ => reaches e cl k ns name r
  end.

(* ------------------------------------------------------------------ the positions the code gets wrong *)

(* (F19a) the backup Service of a VirtualServerRoute upstream: looked up by createVirtualServerEx
   (in the VirtualServer's namespace), ignored by IsReferencedByVirtualServerRoute;
   (F19c) the endpoints of a backup Service with pods of a VirtualServer(Route) upstream:
   virtualServerRequiresEndpointsUpdate only looks at upstream.Service. *)
Definition refuted_pos (e : env) (p : pos) (k : kind) : bool :=
  match p, k with
  | PVsrUpstreamBackup, KService => negb (vsr_backup_fix e)
  | PVsUpstreamBackup, KEndpoints => negb (backup_ep_fix e)
  | PVsrUpstreamBackup, KEndpoints => negb (backup_ep_fix e && vsr_backup_fix e)
  | _, _ => false
  end.

(* ------------------------------------------------------------------ field inventory *)

(* Every string-typed field of conf_v1.VirtualServer / VirtualServerRoute / TransportServer / Policy
   whose name contains Secret, Service, Backup, Policy, Policies, LogConf, Dos or Namespace (reflection,
   type-qualified), and every Ingress annotation the controller reads to find another object.  The
   model above was written against exactly this list; the harness recomputes it from the Go types on
   every run and the check fails when the two differ.  [true] = modelled as a reference above,
   [false] = looked at and found not to name a Kubernetes object. *)
Definition inventory : list (string * bool) := [
  ("APIKey.ClientSecret", true);
  ("BasicAuth.Secret", true);
  ("EgressMTLS.TLSSecret", true);
  ("EgressMTLS.TrustedCertSecret", true);
  ("HealthCheck.GRPCService", false);
  ("IngressMTLS.ClientCertSecret", true);
  ("JWTAuth.Secret", true);
  ("OIDC.ClientSecret", true);
  ("PolicyReference.Name", true);
  ("PolicyReference.Namespace", true);
  ("Route.Dos", true);
  ("SecurityLog.ApLogConf", true);
  ("TLS.Secret", true);
  ("TransportServerTLS.Secret", true);
  ("TransportServerUpstream.Backup", true);
  ("TransportServerUpstream.Service", true);
  ("Upstream.Backup", true);
  ("Upstream.Service", true);
  ("VirtualServerSpec.Dos", true);
  ("WAF.ApPolicy", true);
  ("annotation:appprotect.f5.com/app-protect-policy", true);
  ("annotation:appprotect.f5.com/app-protect-security-log", true);
  ("annotation:appprotectdos.f5.com/app-protect-dos-resource", true);
  ("annotation:nginx.com/jwt-key", true);
  ("annotation:nginx.org/basic-auth-secret", true)
].
