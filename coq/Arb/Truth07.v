(* C05 truth proof, part 7: which objects the builders make resources of, and which of them are applied *)
From Coq Require Import List ZArith String Ascii Bool Lia.
From NIC Require Import Base.SMap Arb.Types Arb.Model Arb.Spec Arb.WinsProofs Arb.InvProofs Arb.OwnerProofs
     Arb.ListenerProofs Arb.ClassProofs Arb.ChangeProofs Arb.ReportProofs Arb.ComposeProofs Arb.Cases Arb.ShadowProofs Arb.ShadowAttrs.
From NIC Require Import Arb.Truth01 Arb.Truth02 Arb.Truth03 Arb.Truth04 Arb.Truth05 Arb.Truth06.
Import ListNotations.
Open Scope string_scope.
Open Scope Z_scope.

(* what the validators guarantee about the objects that are stored *)
Definition objs_wf (c : cfg) (o : objs) : Prop :=
  (forall k i, In (k, i) (o_ings o) -> is_master i = true -> exists h, i_hosts i = [h]) /\
  (forall k i, In (k, i) (o_ings o) -> is_minion i = true -> i_paths i <> []) /\
  (forall k v, In (k, v) (o_vss o) -> v_host v <> "") /\
  (forall k r, In (k, r) (o_vsrs o) -> m_uid (r_meta r) <> "") /\
  (forall k t, In (k, t) (o_tss o) -> is_passthrough t = true -> tls_passthrough c = true).

Definition ev_wf (c : cfg) (e : event) : Prop :=
  match e with
  | EIng i true true => (is_master i = true -> exists h, i_hosts i = [h]) /\ (is_minion i = true -> i_paths i <> [])
  | EVS v true true => v_host v <> ""
  | EVSR r true true => m_uid (r_meta r) <> ""
  | ETS t true true => is_passthrough t = true -> tls_passthrough c = true
  | _ => True
  end.

Lemma objs_wf_event c o e : ev_wf c e -> objs_wf c o -> objs_wf c (apply_event o e).
Proof.
  intros He (W1 & W2 & W3 & W4 & W5).
  destruct e as [i cls valid|k|v cls valid|k|r cls valid|k|t cls valid|k|ls x|]; cbn [apply_event]; unfold objs_wf; cbn [o_ings o_vss o_vsrs o_tss];
    repeat split; eauto; intros k0 x0 Hin; unfold upd in Hin;
    try (apply in_remove in Hin; eauto; fail).
  - destruct cls, valid; cbn [andb] in Hin; try (apply in_remove in Hin; eauto; fail).
    apply in_insert in Hin. destruct Hin as [[_ ->]|Hin]; [exact (proj1 He)|eauto].
  - destruct cls, valid; cbn [andb] in Hin; try (apply in_remove in Hin; eauto; fail).
    apply in_insert in Hin. destruct Hin as [[_ ->]|Hin]; [exact (proj2 He)|eauto].
  - destruct cls, valid; cbn [andb] in Hin; try (apply in_remove in Hin; eauto; fail).
    apply in_insert in Hin. destruct Hin as [[_ ->]|Hin]; [exact He|eauto].
  - destruct cls, valid; cbn [andb] in Hin; try (apply in_remove in Hin; eauto; fail).
    apply in_insert in Hin. destruct Hin as [[_ ->]|Hin]; [exact He|eauto].
  - destruct cls, valid; cbn [andb] in Hin; try (apply in_remove in Hin; eauto; fail).
    apply in_insert in Hin. destruct Hin as [[_ ->]|Hin]; [exact He|eauto].
Qed.

Lemma objs_wf_after c es : Forall (ev_wf c) es -> objs_wf c (objs_after es).
Proof.
  intros He. unfold objs_after.
  assert (H0 : objs_wf c objs0) by (repeat split; intros ? ? []).
  revert He. generalize objs0 H0. induction es as [|e r IH]; intros o Ho Hev; cbn [fold_left]; [exact Ho|].
  inversion Hev; subst. apply IH; [|assumption]. apply objs_wf_event; assumption.
Qed.
