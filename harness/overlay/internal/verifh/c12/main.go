//go:build verif

// Correspondence harness for C12: a recording nginx.Manager (content-based changed flags like
// LocalManager.configContentsChanged, failures injected at chosen call indices) under the real
// Configurator (family "cfg") and under the real LoadBalancerController.sync (family "ctl").
// Every case is written as one JSON line: the generated input and the projected observables.
package main

import (
	"bytes"
	"errors"
	"fmt"
	"os"
	"sort"

	"github.com/nginx/kubernetes-ingress/internal/configs"
	"github.com/nginx/kubernetes-ingress/internal/k8s/secrets"
	"github.com/nginx/kubernetes-ingress/internal/nginx"
	"github.com/nginx/kubernetes-ingress/internal/verifh/vh"
	conf_v1 "github.com/nginx/kubernetes-ingress/pkg/apis/configuration/v1"
	networking "k8s.io/api/networking/v1"
	meta_v1 "k8s.io/apimachinery/pkg/apis/meta/v1"
)

// ---------------------------------------------------------------- recording manager

// Ev is one call at the nginx.Manager boundary, projected.
type Ev struct {
	E      string `json:"e"` // w | d | r | a | en | dis
	K      string `json:"k,omitempty"`
	N      string `json:"n,omitempty"`
	C      bool   `json:"c,omitempty"`      // w: content changed; d: file existed
	Endp   bool   `json:"endp,omitempty"`   // r: isEndpointsUpdate
	Stream bool   `json:"stream,omitempty"` // a
	OK     bool   `json:"ok,omitempty"`     // r, a
}

var errInjectedReload = errors.New("verif: injected reload failure")
var errInjectedAPI = errors.New("verif: injected API failure")

type recMgr struct {
	*nginx.FakeManager
	files        map[string][]byte
	log          []Ev
	nrel, napi   int
	rfail, afail map[int]bool
}

func newRecMgr(rfail, afail []int) *recMgr {
	m := &recMgr{FakeManager: nginx.NewFakeManager("/etc/nginx"), files: map[string][]byte{}, rfail: map[int]bool{}, afail: map[int]bool{}}
	for _, i := range rfail {
		m.rfail[i] = true
	}
	for _, i := range afail {
		m.afail[i] = true
	}
	return m
}

func (m *recMgr) write(k, prefix, name string, content []byte) bool {
	key := prefix + name
	old, ok := m.files[key]
	changed := !ok || !bytes.Equal(old, content)
	m.files[key] = append([]byte(nil), content...)
	m.log = append(m.log, Ev{E: "w", K: k, N: name, C: changed})
	return changed
}

func (m *recMgr) del(k, prefix, name string) {
	key := prefix + name
	_, ok := m.files[key]
	delete(m.files, key)
	m.log = append(m.log, Ev{E: "d", K: k, N: name, C: ok})
}

func (m *recMgr) CreateMainConfig(content []byte) bool { return m.write("main", "m:", "", content) }
func (m *recMgr) CreateConfig(name string, content []byte) bool {
	return m.write("conf", "c:", name, content)
}
func (m *recMgr) DeleteConfig(name string) { m.del("conf", "c:", name) }
func (m *recMgr) CreateStreamConfig(name string, content []byte) bool {
	return m.write("stream", "s:", name, content)
}
func (m *recMgr) DeleteStreamConfig(name string) { m.del("stream", "s:", name) }
func (m *recMgr) CreateTLSPassthroughHostsConfig(content []byte) bool {
	return m.write("tls", "t:", "", content)
}

func (m *recMgr) Reload(isEndpointsUpdate bool) error {
	i := m.nrel
	m.nrel++
	if m.rfail[i] {
		m.log = append(m.log, Ev{E: "r", Endp: isEndpointsUpdate, OK: false})
		return errInjectedReload
	}
	m.log = append(m.log, Ev{E: "r", Endp: isEndpointsUpdate, OK: true})
	return nil
}

func (m *recMgr) api(stream bool, upstream string) error {
	i := m.napi
	m.napi++
	if m.afail[i] {
		m.log = append(m.log, Ev{E: "a", Stream: stream, N: upstream, OK: false})
		return errInjectedAPI
	}
	m.log = append(m.log, Ev{E: "a", Stream: stream, N: upstream, OK: true})
	return nil
}

func (m *recMgr) UpdateServersInPlus(upstream string, _ []string, _ nginx.ServerConfig) error {
	return m.api(false, upstream)
}

func (m *recMgr) UpdateStreamServersInPlus(upstream string, _ []string) error {
	return m.api(true, upstream)
}

func (m *recMgr) take() []Ev {
	l := m.log
	m.log = nil
	if l == nil {
		l = []Ev{}
	}
	return l
}

// ---------------------------------------------------------------- generated resources

// Res is a generated resource: its shape is fixed by its name (see pool), its content by (SV, EV).
// File, Ver, Apis and Weights are what the model is given; they are computed here by the
// harness's own formulas, never read back from the code under test.
type Res struct {
	Kind    string     `json:"kind"` // ing | merge | vs | ts
	Name    string     `json:"name"`
	SV      int        `json:"sv"` // spec variant
	EV      int        `json:"ev"` // endpoints variant
	File    string     `json:"file"`
	Ver     int        `json:"ver"`
	Apis    [][]string `json:"apis"`
	Weights int        `json:"weights"`
}

type shape struct {
	nup     int
	split   bool
	minions int
}

var pool = map[string]map[string]shape{
	"ing":   {"a": {nup: 1}, "b": {nup: 2}, "c": {nup: 3}},
	"merge": {"m": {minions: 1}, "n": {minions: 2}},
	"vs":    {"v": {nup: 1}, "w": {nup: 2, split: true}, "x": {nup: 2}},
	"ts":    {"t": {nup: 1}, "u": {nup: 2}},
}

func poolNames(kind string) []string {
	var out []string
	for n := range pool[kind] {
		out = append(out, n)
	}
	sort.Strings(out)
	return out
}

const ns = "default"

func fileOf(kind, name string) string {
	switch kind {
	case "vs":
		return "vs_" + ns + "_" + name
	case "ts":
		return "ts_" + ns + "_" + name
	}
	return ns + "-" + name
}

func keyOf(name string) string { return ns + "/" + name }

// fill computes the model-side fields of a resource.
func fill(r *Res, plus, dynw bool) {
	sh := pool[r.Kind][r.Name]
	r.File = fileOf(r.Kind, r.Name)
	r.Ver = r.SV*100 + r.EV
	r.Apis = [][]string{}
	r.Weights = 0
	switch r.Kind {
	case "ing":
		g := []string{}
		for i := 0; i < sh.nup; i++ {
			g = append(g, fmt.Sprintf("%s-%s-%s.example.com-%s-svc%d-80", ns, r.Name, r.Name, r.Name, i))
		}
		r.Apis = append(r.Apis, g)
	case "merge":
		for j := 0; j < sh.minions; j++ {
			mn := fmt.Sprintf("%s-min%d", r.Name, j)
			r.Apis = append(r.Apis, []string{fmt.Sprintf("%s-%s-%s.example.com-%s-svc-80", ns, mn, r.Name, mn)})
		}
	case "vs":
		g := []string{}
		for i := 0; i < sh.nup; i++ {
			g = append(g, fmt.Sprintf("vs_%s_%s_u%d", ns, r.Name, i))
		}
		r.Apis = append(r.Apis, g)
		if sh.split && dynw {
			r.Weights = 1
		}
	case "ts":
		g := []string{}
		for i := 0; i < sh.nup; i++ {
			g = append(g, fmt.Sprintf("ts_%s_%s_u%d", ns, r.Name, i))
		}
		r.Apis = append(r.Apis, g)
	}
}

func ingress(name, host string, sv int, typ string, paths []string, svcs []string) *networking.Ingress {
	ann := map[string]string{"kubernetes.io/ingress.class": "nginx"}
	if typ != "master" {
		ann["nginx.org/proxy-connect-timeout"] = fmt.Sprintf("%ds", 10+sv)
	} else {
		ann["nginx.org/client-max-body-size"] = fmt.Sprintf("%dm", 1+sv)
	}
	if typ != "" {
		ann["nginx.org/mergeable-ingress-type"] = typ
	}
	rule := networking.IngressRule{Host: host}
	http := &networking.HTTPIngressRuleValue{}
	for i, p := range paths {
		http.Paths = append(http.Paths, networking.HTTPIngressPath{
			Path: p,
			Backend: networking.IngressBackend{Service: &networking.IngressServiceBackend{
				Name: svcs[i], Port: networking.ServiceBackendPort{Number: 80}}},
		})
	}
	if len(paths) > 0 {
		rule.IngressRuleValue = networking.IngressRuleValue{HTTP: http}
	}
	return &networking.Ingress{
		ObjectMeta: meta_v1.ObjectMeta{Name: name, Namespace: ns, Annotations: ann},
		Spec:       networking.IngressSpec{Rules: []networking.IngressRule{rule}},
	}
}

func endpointsFor(ev, i int) []string {
	out := []string{fmt.Sprintf("10.%d.%d.1:80", ev, i)}
	if ev%2 == 1 {
		out = append(out, fmt.Sprintf("10.%d.%d.2:80", ev, i))
	}
	return out
}

func buildIng(r Res) *configs.IngressEx {
	sh := pool["ing"][r.Name]
	host := r.Name + ".example.com"
	var paths, svcs []string
	eps := map[string][]string{}
	for i := 0; i < sh.nup; i++ {
		paths = append(paths, fmt.Sprintf("/p%d", i))
		svc := fmt.Sprintf("%s-svc%d", r.Name, i)
		svcs = append(svcs, svc)
		eps[svc+"80"] = endpointsFor(r.EV, i)
	}
	return &configs.IngressEx{
		Ingress:          ingress(r.Name, host, r.SV, "", paths, svcs),
		Endpoints:        eps,
		ExternalNameSvcs: map[string]bool{},
		ValidHosts:       map[string]bool{host: true},
		SecretRefs:       map[string]*secrets.SecretReference{},
	}
}

func buildMerge(r Res) *configs.MergeableIngresses {
	sh := pool["merge"][r.Name]
	host := r.Name + ".example.com"
	master := &configs.IngressEx{
		Ingress:          ingress(r.Name, host, r.SV, "master", nil, nil),
		Endpoints:        map[string][]string{},
		ExternalNameSvcs: map[string]bool{},
		ValidHosts:       map[string]bool{host: true},
		SecretRefs:       map[string]*secrets.SecretReference{},
	}
	var minions []*configs.IngressEx
	for j := 0; j < sh.minions; j++ {
		mn := fmt.Sprintf("%s-min%d", r.Name, j)
		p := fmt.Sprintf("/m%d", j)
		svc := mn + "-svc"
		minions = append(minions, &configs.IngressEx{
			Ingress:          ingress(mn, host, r.SV, "minion", []string{p}, []string{svc}),
			Endpoints:        map[string][]string{svc + "80": endpointsFor(r.EV, j)},
			ExternalNameSvcs: map[string]bool{},
			ValidHosts:       map[string]bool{host: true},
			ValidMinionPaths: map[string]bool{p: true},
			SecretRefs:       map[string]*secrets.SecretReference{},
		})
	}
	return &configs.MergeableIngresses{Master: master, Minions: minions}
}

func buildVS(r Res) *configs.VirtualServerEx {
	sh := pool["vs"][r.Name]
	vs := &conf_v1.VirtualServer{
		ObjectMeta: meta_v1.ObjectMeta{Name: r.Name, Namespace: ns},
		Spec:       conf_v1.VirtualServerSpec{Host: r.Name + ".vs.example.com"},
	}
	eps := map[string][]string{}
	for i := 0; i < sh.nup; i++ {
		un := fmt.Sprintf("u%d", i)
		svc := fmt.Sprintf("%s-svc%d", r.Name, i)
		vs.Spec.Upstreams = append(vs.Spec.Upstreams, conf_v1.Upstream{
			Name: un, Service: svc, Port: 80, ProxyConnectTimeout: fmt.Sprintf("%ds", 10+r.SV)})
		eps[fmt.Sprintf("%s/%s:80", ns, svc)] = endpointsFor(r.EV, i)
	}
	if sh.split {
		vs.Spec.Routes = []conf_v1.Route{{Path: "/", Splits: []conf_v1.Split{
			{Weight: 90 - r.SV, Action: &conf_v1.Action{Pass: "u0"}},
			{Weight: 10 + r.SV, Action: &conf_v1.Action{Pass: "u1"}},
		}}}
	} else {
		for i := 0; i < sh.nup; i++ {
			vs.Spec.Routes = append(vs.Spec.Routes, conf_v1.Route{Path: fmt.Sprintf("/r%d", i),
				Action: &conf_v1.Action{Pass: fmt.Sprintf("u%d", i)}})
		}
	}
	return &configs.VirtualServerEx{VirtualServer: vs, Endpoints: eps, ExternalNameSvcs: map[string]bool{},
		HTTPPort: 80, HTTPSPort: 443}
}

func buildTS(r Res) *configs.TransportServerEx {
	sh := pool["ts"][r.Name]
	ts := &conf_v1.TransportServer{
		ObjectMeta: meta_v1.ObjectMeta{Name: r.Name, Namespace: ns},
		Spec: conf_v1.TransportServerSpec{
			Listener:           conf_v1.TransportServerListener{Name: "tcp-" + r.Name, Protocol: "TCP"},
			UpstreamParameters: &conf_v1.UpstreamParameters{ConnectTimeout: fmt.Sprintf("%ds", 10+r.SV)},
			Action:             &conf_v1.TransportServerAction{Pass: "u0"},
		},
	}
	eps := map[string][]string{}
	for i := 0; i < sh.nup; i++ {
		un := fmt.Sprintf("u%d", i)
		svc := fmt.Sprintf("%s-svc%d", r.Name, i)
		ts.Spec.Upstreams = append(ts.Spec.Upstreams, conf_v1.TransportServerUpstream{Name: un, Service: svc, Port: 5000 + i})
		eps[fmt.Sprintf("%s/%s:%d", ns, svc, 5000+i)] = endpointsFor(r.EV, i)
	}
	port := 9000
	if r.Name == "u" {
		port = 9001
	}
	return &configs.TransportServerEx{TransportServer: ts, Endpoints: eps, ListenerPort: port,
		ExternalNameSvcs: map[string]bool{}, PodsByIP: map[string]string{}}
}

func extended(rs []Res) configs.ExtendedResources {
	var x configs.ExtendedResources
	for _, r := range rs {
		switch r.Kind {
		case "ing":
			x.IngressExes = append(x.IngressExes, buildIng(r))
		case "merge":
			x.MergeableIngresses = append(x.MergeableIngresses, buildMerge(r))
		case "vs":
			x.VirtualServerExes = append(x.VirtualServerExes, buildVS(r))
		case "ts":
			x.TransportServerExes = append(x.TransportServerExes, buildTS(r))
		}
	}
	return x
}

// ---------------------------------------------------------------- operations (family cfg)

type Op struct {
	Op     string   `json:"op"`
	Kind   string   `json:"kind,omitempty"`
	Res    *Res     `json:"res,omitempty"`
	Rs     []Res    `json:"rs,omitempty"`
	Always bool     `json:"always,omitempty"`
	Name   string   `json:"name,omitempty"`
	File   string   `json:"file,omitempty"`
	Skip   bool     `json:"skip,omitempty"`
	MV     int      `json:"mv,omitempty"`
	Flag   bool     `json:"flag,omitempty"`
	Names  []string `json:"names,omitempty"`
	Files  []string `json:"files,omitempty"`
}

type OpObs struct {
	Log     []Ev   `json:"log"`
	Err     string `json:"err"` // none | reload | other
	Enabled bool   `json:"enabled"`
	Panic   string `json:"panic,omitempty"`
}

type Case struct {
	Fam   string `json:"fam"` // cfg | ctl
	ID    int    `json:"id"`
	Class string `json:"class"`
	Plus  bool   `json:"plus"`
	DynW  bool   `json:"dynw"`
	Ops   []Op   `json:"ops,omitempty"`
	Tasks []Task `json:"tasks,omitempty"`
	RFail []int  `json:"rfail"`
	AFail []int  `json:"afail"`
	Obs   any    `json:"obs"`
}

func errClass(errs ...error) string {
	cls := "none"
	for _, e := range errs {
		if e == nil {
			continue
		}
		if errors.Is(e, errInjectedReload) {
			cls = "reload"
		} else if cls == "none" {
			cls = "other"
		}
	}
	return cls
}

func keys(names []string) []string {
	var out []string
	for _, n := range names {
		out = append(out, keyOf(n))
	}
	return out
}

func applyOp(cnf *configs.Configurator, m *recMgr, o Op) (obs OpObs) {
	defer func() {
		if p := recover(); p != nil {
			obs = OpObs{Log: m.take(), Err: "panic", Enabled: cnf.VerifC12ReloadsEnabled(), Panic: fmt.Sprint(p)}
		}
	}()
	var errs []error
	pre := []Ev{}
	switch o.Op {
	case "add":
		var err error
		switch o.Res.Kind {
		case "ing":
			_, err = cnf.AddOrUpdateIngress(buildIng(*o.Res))
		case "merge":
			_, err = cnf.AddOrUpdateMergeableIngress(buildMerge(*o.Res))
		case "vs":
			_, err = cnf.AddOrUpdateVirtualServer(buildVS(*o.Res))
		case "ts":
			_, err = cnf.AddOrUpdateTransportServer(buildTS(*o.Res))
		}
		errs = append(errs, err)
	case "addvss":
		_, err := cnf.AddOrUpdateVirtualServers(extended(o.Rs).VirtualServerExes)
		errs = append(errs, err)
	case "addres":
		_, err := cnf.AddOrUpdateResources(extended(o.Rs), o.Always)
		errs = append(errs, err)
	case "del":
		var err error
		switch o.Kind {
		case "ing", "merge":
			err = cnf.DeleteIngress(keyOf(o.Name), o.Skip)
		case "vs":
			err = cnf.DeleteVirtualServer(keyOf(o.Name), o.Skip)
		case "ts":
			err = cnf.DeleteTransportServer(keyOf(o.Name))
		}
		errs = append(errs, err)
	case "endp":
		var err error
		x := extended(o.Rs)
		switch o.Kind {
		case "ing":
			err = cnf.UpdateEndpoints(x.IngressExes)
		case "merge":
			err = cnf.UpdateEndpointsMergeableIngress(x.MergeableIngresses)
		case "vs":
			err = cnf.UpdateEndpointsForVirtualServers(x.VirtualServerExes)
		case "ts":
			err = cnf.UpdateEndpointsForTransportServers(x.TransportServerExes)
		}
		errs = append(errs, err)
	case "enable":
		cnf.EnableReloads()
		pre = append(pre, Ev{E: "en"})
	case "disable":
		cnf.DisableReloads()
		pre = append(pre, Ev{E: "dis"})
	case "updateconfig":
		cnf.CfgParams.MainWorkerConnections = fmt.Sprintf("%d", 1024+o.MV)
		_, err := cnf.UpdateConfig(extended(o.Rs))
		errs = append(errs, err)
	case "reloadbatch":
		errs = append(errs, cnf.ReloadForBatchUpdates(o.Flag))
	case "updatevss":
		errs = append(errs, cnf.UpdateVirtualServers(extended(o.Rs).VirtualServerExes, keys(o.Names))...)
	case "updatetss":
		errs = append(errs, cnf.UpdateTransportServers(extended(o.Rs).TransportServerExes, keys(o.Names))...)
	case "batchdel":
		if o.Kind == "vs" {
			errs = append(errs, cnf.BatchDeleteVirtualServers(keys(o.Names))...)
		} else {
			errs = append(errs, cnf.BatchDeleteIngresses(keys(o.Names))...)
		}
	default:
		return OpObs{Log: []Ev{}, Err: "other", Panic: "unknown op " + o.Op}
	}
	return OpObs{Log: append(pre, m.take()...), Err: errClass(errs...), Enabled: cnf.VerifC12ReloadsEnabled()}
}

func repoDir() string {
	if d := os.Getenv("VERIF_REPO"); d != "" {
		return d
	}
	return "/repo"
}

func runCfg(c *Case) {
	m := newRecMgr(c.RFail, c.AFail)
	cnf, err := configs.VerifC12NewConfigurator(repoDir(), m, c.Plus, c.DynW)
	if err != nil {
		c.Obs = map[string]string{"error": err.Error()}
		return
	}
	obs := []OpObs{}
	for _, o := range c.Ops {
		obs = append(obs, applyOp(cnf, m, o))
	}
	c.Obs = obs
}

// ---------------------------------------------------------------- generator (family cfg)

type gen struct {
	r          *vh.Rng
	plus, dynw bool
	sv, ev     map[string]int // last variants given per kind/name: lets updates repeat content on purpose
}

func (g *gen) res(kind string) Res {
	name := vh.Pick(g.r, poolNames(kind))
	id := kind + "/" + name
	sv, ev := g.sv[id], g.ev[id]
	if g.r.Chance(2, 5) {
		sv = g.r.Intn(4)
	}
	if g.r.Chance(1, 4) {
		ev = g.r.Intn(4)
	}
	g.sv[id], g.ev[id] = sv, ev
	r := Res{Kind: kind, Name: name, SV: sv, EV: ev}
	fill(&r, g.plus, g.dynw)
	return r
}

// endpoints variant of the stored spec: only the endpoints move
func (g *gen) endpRes(kind string) Res {
	name := vh.Pick(g.r, poolNames(kind))
	id := kind + "/" + name
	ev := g.ev[id]
	if g.r.Chance(3, 4) {
		ev = g.r.Intn(4)
	}
	g.ev[id] = ev
	r := Res{Kind: kind, Name: name, SV: g.sv[id], EV: ev}
	fill(&r, g.plus, g.dynw)
	return r
}

func (g *gen) distinct(kind string, n int, f func(string) Res) []Res {
	seen := map[string]bool{}
	var out []Res
	for i := 0; i < n; i++ {
		r := f(kind)
		if seen[r.Name] {
			continue
		}
		seen[r.Name] = true
		out = append(out, r)
	}
	return out
}

func (g *gen) mixed() []Res {
	var out []Res
	for _, k := range []string{"ing", "merge", "vs", "ts"} {
		if g.r.Chance(1, 2) {
			out = append(out, g.distinct(k, 1+g.r.Intn(2), g.res)...)
		}
	}
	return out
}

func (g *gen) names(kind string) ([]string, []string) {
	var ns_, fs []string
	seen := map[string]bool{}
	for i := 0; i < 1+g.r.Intn(2); i++ {
		n := vh.Pick(g.r, poolNames(kind))
		if seen[n] {
			continue
		}
		seen[n] = true
		ns_ = append(ns_, n)
		fs = append(fs, fileOf(kind, n))
	}
	return ns_, fs
}

var kinds = []string{"ing", "merge", "vs", "ts"}

func (g *gen) op() Op {
	switch x := g.r.Intn(100); {
	case x < 22:
		r := g.res(vh.Pick(g.r, kinds))
		return Op{Op: "add", Res: &r}
	case x < 27:
		return Op{Op: "addvss", Rs: g.distinct("vs", 1+g.r.Intn(2), g.res)}
	case x < 39:
		return Op{Op: "addres", Rs: g.mixed(), Always: g.r.Chance(1, 3)}
	case x < 49:
		k := vh.Pick(g.r, kinds)
		n := vh.Pick(g.r, poolNames(k))
		return Op{Op: "del", Kind: k, Name: n, File: fileOf(k, n), Skip: g.r.Chance(1, 8)}
	case x < 67:
		k := vh.Pick(g.r, kinds)
		return Op{Op: "endp", Kind: k, Rs: g.distinct(k, 1+g.r.Intn(2), g.endpRes)}
	case x < 74:
		return Op{Op: "enable"}
	case x < 79:
		return Op{Op: "disable"}
	case x < 84:
		return Op{Op: "updateconfig", MV: g.r.Intn(3), Rs: g.mixed()}
	case x < 88:
		return Op{Op: "reloadbatch", Flag: g.r.Chance(2, 3)}
	case x < 92:
		ns_, fs := g.names("vs")
		return Op{Op: "updatevss", Rs: g.distinct("vs", g.r.Intn(2), g.res), Names: ns_, Files: fs}
	case x < 96:
		ns_, fs := g.names("ts")
		return Op{Op: "updatetss", Rs: g.distinct("ts", g.r.Intn(2), g.res), Names: ns_, Files: fs}
	default:
		k := vh.Pick(g.r, []string{"vs", "ing"})
		ns_, fs := g.names(k)
		return Op{Op: "batchdel", Kind: k, Names: ns_, Files: fs}
	}
}

func pickFails(r *vh.Rng, horizon int, num, den int) []int {
	out := []int{}
	for i := 0; i < horizon; i++ {
		if r.Chance(num, den) {
			out = append(out, i)
		}
	}
	return out
}

func genCfg(r *vh.Rng, id int) Case {
	c := Case{Fam: "cfg", ID: id, Plus: r.Chance(1, 2), DynW: r.Chance(1, 2)}
	g := &gen{r: r, plus: c.Plus, dynw: c.DynW, sv: map[string]int{}, ev: map[string]int{}}
	n := 4 + r.Intn(27)
	switch id % 4 {
	case 0:
		c.Class = "nofault"
		c.RFail, c.AFail = []int{}, []int{}
	case 1:
		c.Class = "reloadfault"
		c.RFail, c.AFail = pickFails(r, 40, 1, 4), []int{}
	case 2:
		c.Class = "apifault"
		c.Plus = true
		g.plus = true
		c.RFail, c.AFail = []int{}, pickFails(r, 60, 1, 3)
	default:
		c.Class = "bothfault"
		c.RFail, c.AFail = pickFails(r, 40, 1, 3), pickFails(r, 60, 1, 4)
	}
	// most histories leave the start-up window early, some never
	enableAt := r.Intn(4)
	if r.Chance(1, 10) {
		enableAt = -1
	}
	for i := 0; i < n; i++ {
		if i == enableAt {
			c.Ops = append(c.Ops, Op{Op: "enable"})
			continue
		}
		c.Ops = append(c.Ops, g.op())
	}
	return c
}

// fixed cases: the witnesses of the refutation theorems and the corner cases the property names
func corpusCfg() []Case {
	mk := func(kind, name string, sv, ev int, plus, dynw bool) *Res {
		r := Res{Kind: kind, Name: name, SV: sv, EV: ev}
		fill(&r, plus, dynw)
		return &r
	}
	var out []Case
	// F15: AddOrUpdateVirtualServer with weight updates inside the start-up window
	out = append(out, Case{Class: "corpus-weights-held", Plus: true, DynW: true, RFail: []int{}, AFail: []int{},
		Ops: []Op{{Op: "add", Res: mk("vs", "w", 0, 0, true, true)}, {Op: "add", Res: mk("ing", "a", 0, 0, true, true)}}})
	// ... and inside a window opened by DisableReloads
	out = append(out, Case{Class: "corpus-weights-held", Plus: false, DynW: true, RFail: []int{}, AFail: []int{},
		Ops: []Op{{Op: "enable"}, {Op: "add", Res: mk("ing", "a", 0, 0, false, true)}, {Op: "disable"},
			{Op: "add", Res: mk("vs", "w", 1, 0, false, true)}, {Op: "del", Kind: "ing", Name: "a", File: fileOf("ing", "a")}, {Op: "enable"}, {Op: "reloadbatch", Flag: true}}})
	// the same without dynamic weights: no weight updates, the window holds
	out = append(out, Case{Class: "corpus-noweights-held", Plus: false, DynW: false, RFail: []int{}, AFail: []int{},
		Ops: []Op{{Op: "add", Res: mk("vs", "w", 0, 0, false, false)}, {Op: "enable"}, {Op: "reloadbatch", Flag: true}}})
	// a failed reload at every position of a short history
	for f := 0; f < 4; f++ {
		out = append(out, Case{Class: "corpus-reloadfail", Plus: false, DynW: false, RFail: []int{f}, AFail: []int{},
			Ops: []Op{{Op: "enable"}, {Op: "add", Res: mk("ing", "a", 0, 0, false, false)}, {Op: "add", Res: mk("ts", "t", 0, 0, false, false)},
				{Op: "del", Kind: "ing", Name: "a", File: fileOf("ing", "a")}, {Op: "batchdel", Kind: "vs", Names: []string{"v"}, Files: []string{fileOf("vs", "v")}}}})
	}
	// Plus endpoints: API ok / first call fails / second call fails -> fall back to reload
	for _, af := range [][]int{{}, {0}, {1}, {0, 1, 2}} {
		out = append(out, Case{Class: "corpus-plus-endp", Plus: true, DynW: false, RFail: []int{}, AFail: af,
			Ops: []Op{{Op: "enable"}, {Op: "add", Res: mk("ing", "b", 0, 0, true, false)},
				{Op: "endp", Kind: "ing", Rs: []Res{*mk("ing", "b", 0, 1, true, false)}},
				{Op: "endp", Kind: "merge", Rs: []Res{*mk("merge", "n", 0, 1, true, false)}},
				{Op: "endp", Kind: "ts", Rs: []Res{*mk("ts", "u", 0, 2, true, false)}},
				{Op: "endp", Kind: "vs", Rs: []Res{*mk("vs", "x", 0, 1, true, false), *mk("vs", "v", 0, 1, true, false)}}}})
	}
	// content comparison: AddOrUpdateResources with unchanged content does not reload
	out = append(out, Case{Class: "corpus-unchanged", Plus: false, DynW: false, RFail: []int{}, AFail: []int{},
		Ops: []Op{{Op: "enable"}, {Op: "addres", Rs: []Res{*mk("ing", "a", 0, 0, false, false), *mk("ts", "t", 0, 0, false, false)}},
			{Op: "addres", Rs: []Res{*mk("ing", "a", 0, 0, false, false), *mk("ts", "t", 0, 0, false, false)}},
			{Op: "addres", Rs: []Res{*mk("ing", "a", 0, 0, false, false)}, Always: true},
			{Op: "addres", Rs: []Res{*mk("ing", "a", 1, 0, false, false)}}}})
	for i := range out {
		out[i].Fam = "cfg"
		out[i].ID = i
	}
	return out
}

// ---------------------------------------------------------------- main

func main() {
	a := vh.ParseArgs()
	w, err := vh.NewWriter(a.Out)
	if err != nil {
		fmt.Fprintln(os.Stderr, err)
		os.Exit(2)
	}
	defer w.Close()
	var cases []Case
	if a.Replay != "" {
		if err := vh.ReadReplay(a.Replay, &cases); err != nil {
			fmt.Fprintln(os.Stderr, err)
			os.Exit(2)
		}
	} else {
		cases = append(cases, corpusCfg()...)
		cases = append(cases, corpusCtl()...)
		for i := range cases {
			cases[i].ID = i
		}
		base := vh.NewRng(a.Seed)
		nctl := a.N / 3
		for i := 0; i < a.N-nctl; i++ {
			cases = append(cases, genCfg(base.Fork(uint64(i)), len(cases)))
		}
		for i := 0; i < nctl; i++ {
			cases = append(cases, genCtl(base.Fork(uint64(1_000_000+i)), len(cases)))
		}
	}
	for i := range cases {
		c := &cases[i]
		c.Obs = nil
		switch c.Fam {
		case "cfg":
			runCfg(c)
		case "ctl":
			runCtl(c)
		default:
			c.Obs = map[string]string{"error": "unknown family " + c.Fam}
		}
		w.Emit(c)
	}
}

// ---------------------------------------------------------------- family ctl (stub, filled in below)

type Task struct {
	Kind string `json:"kind"`
}

func corpusCtl() []Case              { return nil }
func genCtl(r *vh.Rng, id int) Case { return genCfg(r, id) }
func runCtl(c *Case)                 { c.Obs = map[string]string{"error": "ctl family not built"} }
