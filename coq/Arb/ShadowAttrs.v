(* C03, attribute half: every key the data plane was told about is configured from the attributes the resource
   has now.  Together with ShadowProofs (the key half) this gives: replaying the batches the controller hands to
   the configurator yields exactly GetResources of the final state, attributes included. *)
From Coq Require Import List ZArith String Ascii Bool Lia.
From NIC Require Import Base.SMap Arb.Types Arb.Model Arb.Spec Arb.WinsProofs Arb.InvProofs Arb.OwnerProofs
     Arb.ListenerProofs Arb.ClassProofs Arb.ChangeProofs Arb.ReportProofs Arb.ComposeProofs Arb.Cases Arb.ShadowProofs.
Import ListNotations.
Open Scope string_scope.
Open Scope Z_scope.


(* ===== part 1 ===== *)

(* ---------- the value of a key after a batch ---------- *)

(* the resource of the last addOrUpdate about k *)
Fixpoint upd_res (k : string) (cs : list change) (acc : option resource) : option resource :=
  match cs with
  | [] => acc
  | x :: r => upd_res k r (if String.eqb (ckey x) k && negb (is_delete x) then Some (c_res x) else acc)
  end.

Lemma upd_res_acc k : forall cs acc, upd_res k cs acc = match upd_res k cs None with Some r => Some r | None => acc end.
Proof.
  induction cs as [|x r IH]; intros acc; cbn [upd_res]; [reflexivity|].
  rewrite (IH (if String.eqb (ckey x) k && negb (is_delete x) then Some (c_res x) else acc)),
          (IH (if String.eqb (ckey x) k && negb (is_delete x) then Some (c_res x) else None)).
  destruct (upd_res k r None); [reflexivity|]. destruct (String.eqb (ckey x) k && negb (is_delete x)); reflexivity.
Qed.

Lemma upd_res_none_iff k cs : upd_res k cs None = None <-> has_upd k cs = false.
Proof.
  induction cs as [|x r IH]; cbn [upd_res has_upd existsb]; [tauto|]. fold (has_upd k r).
  rewrite upd_res_acc. destruct (String.eqb (ckey x) k && negb (is_delete x)); cbn [orb].
  - destruct (upd_res k r None); split; discriminate.
  - destruct (upd_res k r None) eqn:E; [split; [discriminate|]; intros H; apply IH in H; discriminate|]. tauto.
Qed.

Lemma lookup_apply_change sh c k : wf sh ->
  lookup k (apply_change sh c) =
  if String.eqb (ckey c) k then (if is_delete c then None else Some (attrs (c_res c))) else lookup k sh.
Proof.
  intros W. unfold apply_change, is_delete, ckey. destruct (String.eqb (rkey (c_res c)) k) eqn:He.
  - apply String.eqb_eq in He. subst k. destruct (c_op c); [apply lookup_remove_eq; exact W|apply lookup_insert_eq].
  - apply String.eqb_neq in He. destruct (c_op c); [apply lookup_remove_neq|apply lookup_insert_neq]; congruence.
Qed.

Lemma has_del_after_upd_false k : forall l, deletes_first l true = true -> has_del k l = false.
Proof.
  induction l as [|x l IHl]; [reflexivity|]. cbn [deletes_first has_del existsb]. unfold is_delete.
  destruct (c_op x); [cbn; discriminate|]. intros Hx. rewrite andb_false_r. cbn. apply IHl. exact Hx.
Qed.

(* with removals first: the value under k after the batch *)
Lemma lookup_after_batch : forall cs sh k b, wf sh -> deletes_first cs b = true ->
  lookup k (fold_left apply_change cs sh) =
  match upd_res k cs None with
  | Some r => Some (attrs r)
  | None => if has_del k cs then None else lookup k sh
  end.
Proof.
  induction cs as [|c r IH]; intros sh k b W Hd; cbn [fold_left upd_res has_del existsb]; [reflexivity|].
  fold (has_del k r). cbn [deletes_first] in Hd.
  assert (Hd' : exists b', deletes_first r b' = true).
  { destruct (c_op c); [apply andb_true_iff in Hd; exists b; tauto|exists true; exact Hd]. }
  destruct Hd' as [b' Hd'].
  rewrite (IH (apply_change sh c) k b' (wf_apply_change sh c W) Hd').
  rewrite (upd_res_acc k r (if String.eqb (ckey c) k && negb (is_delete c) then Some (c_res c) else None)).
  destruct (upd_res k r None) as [r0|] eqn:Hu; [reflexivity|].
  rewrite (lookup_apply_change sh c k W).
  destruct (String.eqb (ckey c) k) eqn:He; cbn [andb orb].
  - unfold is_delete in *. destruct (c_op c) eqn:Hop; cbn [negb].
    + destruct (has_del k r); reflexivity.
    + rewrite (has_del_after_upd_false k r Hd). reflexivity.
  - reflexivity.
Qed.

(* ---------- upd_res through the pipeline ---------- *)

Lemma upd_res_app k a b : upd_res k (a +++ b) None = match upd_res k b None with Some r => Some r | None => upd_res k a None end.
Proof.
  revert b. induction a as [|x a IH]; intros b; cbn [app upd_res].
  - destruct (upd_res k b None); reflexivity.
  - rewrite upd_res_acc, (upd_res_acc k a), IH.
    destruct (upd_res k b None); [reflexivity|]. destruct (upd_res k a None); reflexivity.
Qed.

Lemma upd_res_in k : forall cs r, upd_res k cs None = Some r -> exists c, In c cs /\ ckey c = k /\ is_delete c = false /\ c_res c = r.
Proof.
  induction cs as [|x l IH]; intros r H; cbn [upd_res] in H; [discriminate|]. rewrite upd_res_acc in H.
  destruct (upd_res k l None) as [r0|] eqn:E.
  - inversion H; subst. destruct (IH r eq_refl) as (c & Hc & Hx). exists c. split; [right; exact Hc|exact Hx].
  - destruct (String.eqb (ckey x) k && negb (is_delete x)) eqn:Hb; [|discriminate]. inversion H; subst.
    apply andb_true_iff in Hb. destruct Hb as [H1 H2]. exists x. split; [left; reflexivity|].
    split; [apply String.eqb_eq; exact H1|]. split; [apply negb_true_iff; exact H2|reflexivity].
Qed.

(* a batch with at most one change per key: the update about k is the only candidate *)
Lemma upd_res_unique k : forall cs c, (forall c1 c2, In c1 cs -> In c2 cs -> ckey c1 = ckey c2 -> c1 = c2) ->
  In c cs -> ckey c = k -> is_delete c = false -> upd_res k cs None = Some (c_res c).
Proof.
  intros cs c Hun Hin Hk Hnd.
  destruct (upd_res k cs None) as [r|] eqn:E.
  - destruct (upd_res_in k cs r E) as (c' & Hc' & Hk' & _ & Hr). rewrite (Hun c c' Hin Hc' (eq_trans Hk (eq_sym Hk'))). congruence.
  - apply upd_res_none_iff in E. assert (has_upd k cs = true) by (apply has_upd_true; exists c; auto). congruence.
Qed.


(* ===== part 2 ===== *)

Lemma in_repoint res cs ch : In ch (repoint res cs) ->
  exists c0, In c0 cs /\ c_op ch = c_op c0 /\
             c_res ch = match lookup (ckey c0) res with Some r => r | None => c_res c0 end.
Proof.
  unfold repoint. intros H. apply in_map_iff in H. destruct H as (c0 & Heq & Hc0). exists c0. split; [exact Hc0|].
  unfold ckey. destruct (lookup (rkey (c_res c0)) res); subst ch; cbn; auto.
Qed.

(* what a (squashed, re-pointed) host batch does to one key, in terms of the old and the new host map *)
Definition same_place (old new : smap resource) (k : string) : Prop :=
  exists h o n, lookup h old = Some o /\ lookup h new = Some n /\ rkey o = k /\ rkey n = k /\
                ~ In h (updated_hosts old new).

Lemma host_batch_values (old new res : smap resource) (k : string) :
  coherent old -> coherent new ->
  (forall k0 r, lookup k0 res = Some r -> rkey r = k0) ->
  (forall h n, lookup h new = Some n -> lookup (rkey n) res = Some n) ->
  let cs := repoint res (squash (raw_changes old new)) in
  match upd_res k cs None with
  | Some r => exists h, lookup h new = Some r /\ rkey r = k
  | None => has_del k cs = false -> key_in old k -> same_place old new k
  end.
Proof.
  intros CO CN Hk Hres cs. pose proof (raw_df old new) as Hdf.
  destruct (upd_res k cs None) as [r|] eqn:Hu.
  - destruct (upd_res_in k cs r Hu) as (ch & Hch & Hkc & Hnd & Hr). unfold cs in Hch.
    apply in_repoint in Hch. destruct Hch as (c0 & Hc0 & Hop & Hcr).
    assert (Hnd0 : is_delete c0 = false) by (unfold is_delete in *; rewrite <- Hop; exact Hnd).
    apply squash_in in Hc0.
    assert (Hu0 : has_upd (ckey c0) (raw_changes old new) = true) by (apply has_upd_true; exists c0; auto).
    apply raw_upd in Hu0. destruct Hu0 as (h & n & Hn & Hkn & _).
    (* the re-pointed resource is the value of the new map under that key *)
    pose proof (Hres h n Hn) as Hrn. rewrite Hkn in Hrn. rewrite Hrn in Hcr.
    assert (ckey ch = ckey c0).
    { unfold ckey at 1. rewrite Hcr. rewrite <- Hkn. reflexivity. }
    exists h. rewrite <- Hr, Hcr. split; [exact Hn|]. rewrite Hkn. congruence.
  - intros Hd Hko. apply upd_res_none_iff in Hu.
    destruct (has_repoint res (squash (raw_changes old new)) k Hk) as [E1 E2]. fold cs in E1, E2.
    rewrite E1 in Hu. rewrite E2 in Hd. rewrite (squash_has_upd k _ Hdf) in Hu.
    assert (Hkn : key_in new k).
    { apply (hosts_keys_after old new CO CN k). right. split; [exact Hd|exact Hko]. }
    destruct Hkn as (h & n & Hn & Hkk).
    assert (Hnu : ~ In h (updated_hosts old new) /\ ~ In h (added_keys old new)).
    { split; intros Hin; assert (has_upd k (raw_changes old new) = true) by (apply raw_upd; exists h, n; auto); congruence. }
    destruct Hnu as [Hnu Hna].
    destruct (lookup h old) as [o|] eqn:Ho.
    2:{ exfalso. apply Hna. apply in_added. split; [congruence|exact Ho]. }
    pose proof (not_updated_equal old new h o n (coh_wf _ CN) Ho Hn Hnu) as Heq.
    exists h, o, n. repeat split; auto. rewrite (is_equal_rkey _ _ Heq). exact Hkk.
Qed.


(* ===== part 3 ===== *)

(* ---------- K3: the API server moves the generation with every spec change ---------- *)

(* between two object sets: objects with the same name, UID, generation (and, for an Ingress, annotations) are
   the same object *)
Definition k3_objs (o1 o2 : objs) : Prop :=
  (forall k1 k2 a b, In (k1, a) (o_ings o1) -> In (k2, b) (o_ings o2) -> meta_eq_ann (i_meta a) (i_meta b) = true -> a = b) /\
  (forall k1 k2 a b, In (k1, a) (o_vss o1) -> In (k2, b) (o_vss o2) -> meta_eq (v_meta a) (v_meta b) = true -> a = b) /\
  (forall k1 k2 a b, In (k1, a) (o_vsrs o1) -> In (k2, b) (o_vsrs o2) -> meta_eq (r_meta a) (r_meta b) = true -> a = b) /\
  (forall k1 k2 a b, In (k1, a) (o_tss o1) -> In (k2, b) (o_tss o2) -> meta_eq (t_meta a) (t_meta b) = true -> a = b).

(* with the cert-manager conversion switched on: the routes converted from challenge Ingresses carry namespace, name
   and generation only, so for them "same meta means same route" has to be assumed about the Ingresses they come
   from; and a stored VirtualServerRoute has a UID, which a converted one has not *)
Definition cm_objs (c : cfg) (o1 o2 : objs) : Prop :=
  cert_manager c = false \/
  ((forall k r, In (k, r) (o_vsrs o1) -> m_uid (r_meta r) <> "") /\ (forall k r, In (k, r) (o_vsrs o2) -> m_uid (r_meta r) <> "") /\
   (forall k1 k2 a b, In (k1, a) (o_ings o1) -> In (k2, b) (o_ings o2) ->
      meta_eq (r_meta (challenge_vsr a)) (r_meta (challenge_vsr b)) = true -> challenge_vsr a = challenge_vsr b)).

Definition kc (c : cfg) (o1 o2 : objs) : Prop := k3_objs o1 o2 /\ cm_objs c o1 o2.

Lemma all2_map_eq {A B} (g : A -> B) (f : B -> B -> bool) : forall l1 l2,
  all2 (fun x y => f (g x) (g y)) l1 l2 = true ->
  (forall x y, In x l1 -> In y l2 -> f (g x) (g y) = true -> g x = g y) ->
  map g l1 = map g l2.
Proof.
  induction l1 as [|a l1 IH]; intros [|b l2] H Hp; cbn [all2] in H; try discriminate; [reflexivity|].
  apply andb_true_iff in H. destruct H as [H1 H2]. cbn [map]. f_equal.
  - apply Hp; [left; reflexivity|left; reflexivity|exact H1].
  - apply IH; [exact H2|]. intros x y Hx Hy. apply Hp; right; assumption.
Qed.

Lemma challenge_none c vss is_ : cert_manager c = false -> challenge_vsrs c vss is_ = [].
Proof.
  intros Hc. unfold challenge_vsrs. apply filter_map_nil. intros [k i] _. cbn [snd]. unfold converted. rewrite Hc. cbn.
  rewrite andb_false_r. reflexivity.
Qed.

Lemma build_minions_ext is1 is2 h : minions_of is1 h = minions_of is2 h -> build_minions is1 h = build_minions is2 h.
Proof. intros E. unfold build_minions. rewrite E. reflexivity. Qed.

Section Shape.
  Variables (c : cfg).
  Hypothesis Hcm : cert_manager c = false.

  (* the shape of a resource that buildHostsAndResources returns *)
  Lemma res_shape (o : objs) k r : lookup k (b_res (build c (o_ings o) (o_vss o) (o_vsrs o) (o_tss o) (o_gc o))) = Some r ->
    match r with
    | RIng ic => (exists k0, In (k0, ic_ing ic) (o_ings o)) /\ ic_master ic = is_master (ic_ing ic) /\
                 ic_minions ic = (if is_master (ic_ing ic) then fst (build_minions (o_ings o) (host0 (ic_ing ic))) else [])
    | RVS vc => (exists k0, In (k0, vc_vs vc) (o_vss o)) /\
                vc_vsrs vc = fst (build_vsrs (o_vsrs o) (vc_vs vc) (v_routes (vc_vs vc)))
    | RTS tc => exists k0, In (k0, tc_ts tc) (o_tss o)
    end.
  Proof.
    unfold build. destruct (run_claims host_warning [] (all_claims c (o_ings o) (o_vss o) (o_tss o))) as [hs claim_ws].
    cbn [b_res]. intros Hl. apply of_list_lookup_in in Hl.
    apply in_app_or in Hl. destruct Hl as [H|H]; [|apply in_app_or in H; destruct H as [H|H]].
    - apply in_filter_map in H. destruct H as ([k0 i] & Hi & Hf). cbn [snd] in Hf.
      destruct (ing_claims_hosts c (o_vss o) i); [|discriminate].
      destruct (is_master i) eqn:Hm.
      + destruct (build_minions (o_ings o) (host0 i)) as [mins cw] eqn:Hb. inversion Hf; subst. cbn [ic_ing ic_master ic_minions].
        rewrite Hm. split; [exists k0; exact Hi|]. split; [reflexivity|]. rewrite Hb. reflexivity.
      + inversion Hf; subst. cbn [ic_ing ic_master ic_minions]. rewrite Hm. split; [exists k0; exact Hi|]. auto.
    - apply in_map_iff in H. destruct H as ([k0 v] & Hf & Hv). cbn [snd] in Hf.
      destruct (build_vsrs (o_vsrs o) v (v_routes v)) as [rl w] eqn:Hb. rewrite (challenge_none c _ _ Hcm) in Hf. cbn [filter] in Hf.
      rewrite app_nil_r in Hf.
      destruct (build_vs_cfg_proj (o_gc o) v rl w) as [P1 P2].
      inversion Hf; subst. cbn [vc_vs vc_vsrs]. rewrite P1, P2. split; [exists k0; exact Hv|]. rewrite Hb. reflexivity.
    - destruct (tls_passthrough c); [|destruct H].
      apply in_filter_map in H. destruct H as ([k0 t] & Ht & Hf). cbn [snd] in Hf.
      destruct (is_passthrough t); inversion Hf; subst. exists k0. exact Ht.
  Qed.

  Lemma minions_stored is_ h m : In m (fst (build_minions is_ h)) -> exists k0, In (k0, mc_ing m) is_.
  Proof.
    intros Hm. assert (In (mc_ing m) (minions_of is_ h)) by (rewrite <- build_minions_list; apply in_map; exact Hm).
    apply minions_of_exact in H. destruct H as (k0 & Hk & _). exists k0. exact Hk.
  Qed.

  Lemma vsrs_stored rs v x : In x (fst (build_vsrs rs v (v_routes v))) -> exists k0, In (k0, x) rs.
  Proof.
    intros Hx. apply vsrs_exact in Hx. destruct Hx as (p & q & _ & _ & Hl & _). apply lookup_In in Hl. eauto.
  Qed.

End Shape.

(* the routes of a VirtualServer resource in general: the referenced stored routes, then the converted challenge
   Ingresses of its host *)
Lemma res_shape_g c (o : objs) k r : lookup k (b_res (build c (o_ings o) (o_vss o) (o_vsrs o) (o_tss o) (o_gc o))) = Some r ->
  match r with
  | RIng ic => (exists k0, In (k0, ic_ing ic) (o_ings o)) /\ ic_master ic = is_master (ic_ing ic) /\
               ic_minions ic = (if is_master (ic_ing ic) then fst (build_minions (o_ings o) (host0 (ic_ing ic))) else [])
  | RVS vc => (exists k0, In (k0, vc_vs vc) (o_vss o)) /\
              vc_vsrs vc = fst (build_vsrs (o_vsrs o) (vc_vs vc) (v_routes (vc_vs vc))) +++
                           filter (fun r0 => String.eqb (v_host (vc_vs vc)) (r_host r0)) (challenge_vsrs c (o_vss o) (o_ings o))
  | RTS tc => exists k0, In (k0, tc_ts tc) (o_tss o)
  end.
Proof.
  unfold build. destruct (run_claims host_warning [] (all_claims c (o_ings o) (o_vss o) (o_tss o))) as [hs claim_ws].
  cbn [b_res]. intros Hl. apply of_list_lookup_in in Hl.
  apply in_app_or in Hl. destruct Hl as [H|H]; [|apply in_app_or in H; destruct H as [H|H]].
  - apply in_filter_map in H. destruct H as ([k0 i] & Hi & Hf). cbn [snd] in Hf.
    destruct (ing_claims_hosts c (o_vss o) i); [|discriminate].
    destruct (is_master i) eqn:Hm.
    + destruct (build_minions (o_ings o) (host0 i)) as [mins cw] eqn:Hb. inversion Hf; subst. cbn [ic_ing ic_master ic_minions].
      rewrite Hm. split; [exists k0; exact Hi|]. split; [reflexivity|]. rewrite Hb. reflexivity.
    + inversion Hf; subst. cbn [ic_ing ic_master ic_minions]. rewrite Hm. split; [exists k0; exact Hi|]. auto.
  - apply in_map_iff in H. destruct H as ([k0 v] & Hf & Hv). cbn [snd] in Hf.
    destruct (build_vsrs (o_vsrs o) v (v_routes v)) as [rl w] eqn:Hb.
    destruct (build_vs_cfg_proj (o_gc o) v (rl +++ filter (fun r0 => String.eqb (v_host v) (r_host r0)) (challenge_vsrs c (o_vss o) (o_ings o))) w) as [P1 P2].
    inversion Hf; subst. cbn [vc_vs vc_vsrs]. rewrite P1, P2. split; [exists k0; exact Hv|]. rewrite Hb. reflexivity.
  - destruct (tls_passthrough c); [|destruct H].
    apply in_filter_map in H. destruct H as ([k0 t] & Ht & Hf). cbn [snd] in Hf.
    destruct (is_passthrough t); inversion Hf; subst. exists k0. exact Ht.
Qed.

Lemma challenge_in c vss is_ x : In x (challenge_vsrs c vss is_) -> cert_manager c = true /\ exists k i, In (k, i) is_ /\ x = challenge_vsr i.
Proof.
  unfold challenge_vsrs. intros H. apply in_filter_map in H. destruct H as ([k i] & Hi & Hf). cbn [snd] in Hf.
  destruct (negb (is_minion i) && converted c vss i) eqn:E; [|discriminate]. inversion Hf; subst.
  apply andb_true_iff in E. destruct E as [_ E]. unfold converted in E. apply andb_true_iff in E. destruct E as [E _]. apply andb_true_iff in E. destruct E as [E _].
  split; [exact E|eauto].
Qed.

Section TwoBuilds.
  Variables (c : cfg) (o1 o2 : objs).
  Hypothesis Hok1 : objs_ok o1.
  Hypothesis Hok2 : objs_ok o2.
  Hypothesis KC : kc c o1 o2.
  Let K := proj1 KC.
  Let B1 := build c (o_ings o1) (o_vss o1) (o_vsrs o1) (o_tss o1) (o_gc o1).
  Let B2 := build c (o_ings o2) (o_vss o2) (o_vsrs o2) (o_tss o2) (o_gc o2).

  (* IsEqual between a resource of the old build and one of the new build means equal attributes, except for
     the listener binding of a VirtualServer, which the diff compares separately *)
  Lemma is_equal_attrs k1 k2 ra rb :
    lookup k1 (b_res B1) = Some ra -> lookup k2 (b_res B2) = Some rb -> is_equal ra rb = true ->
    match ra, rb with
    | RVS x, RVS y => vc_vs x = vc_vs y /\ vc_vsrs x = vc_vsrs y
    | _, _ => attrs ra = attrs rb
    end.
  Proof.
    intros L1 L2 He. destruct K as (Ki & Kv & Kr & Kt).
    pose proof (res_shape_g c o1 _ _ L1) as S1. pose proof (res_shape_g c o2 _ _ L2) as S2.
    destruct ra as [x|x|x], rb as [y|y|y]; try discriminate He.
    - destruct S1 as [(ka & Ia) [Ma Na]]. destruct S2 as [(kb & Ib) [Mb Nb]].
      pose proof (is_equal_valid_hosts x y He) as Hvh.
      cbn [is_equal] in He. apply andb_true_iff in He. destruct He as [He Hmin]. apply andb_true_iff in He. destruct He as [He Hmas].
      apply andb_true_iff in He. destruct He as [Hmeta _].
      assert (Ei : ic_ing x = ic_ing y) by (exact (Ki _ _ _ _ Ia Ib Hmeta)).
      assert (Em : ic_minions x = ic_minions y).
      { rewrite Na, Nb in Hmin. rewrite Na, Nb. rewrite Ei in Hmin |- *.
        destruct (is_master (ic_ing y)); [|reflexivity].
        f_equal. apply build_minions_ext. rewrite <- !build_minions_list.
        apply (all2_map_eq mc_ing (fun a b => meta_eq_ann (i_meta a) (i_meta b))); [exact Hmin|].
        intros m n Hm Hn Hmn. destruct (minions_stored _ _ _ Hm) as (k3 & I3). destruct (minions_stored _ _ _ Hn) as (k4 & I4).
        exact (Ki _ _ _ _ I3 I4 Hmn). }
      cbn [attrs]. rewrite Ei, Em, Hvh, Ma, Mb, Ei. reflexivity.
    - destruct S1 as [(ka & Ia) Na]. destruct S2 as [(kb & Ib) Nb].
      cbn [is_equal] in He. apply andb_true_iff in He. destruct He as [Hmeta Hrs].
      assert (Ev : vc_vs x = vc_vs y) by (exact (Kv _ _ _ _ Ia Ib Hmeta)). split; [exact Ev|].
      rewrite <- (map_id (vc_vsrs x)), <- (map_id (vc_vsrs y)).
      apply (all2_map_eq (fun r : vsroute => r) (fun a b => meta_eq (r_meta a) (r_meta b))); [exact Hrs|].
      intros m n Hm Hn Hmn. rewrite Na in Hm. rewrite Nb in Hn.
      apply in_app_or in Hm. apply in_app_or in Hn.
      assert (Huid : meta_eq (r_meta m) (r_meta n) = true -> m_uid (r_meta m) = m_uid (r_meta n)).
      { unfold meta_eq. intros E. apply andb_true_iff in E. destruct E as [E _]. apply andb_true_iff in E. destruct E as [_ E]. apply String.eqb_eq in E. exact E. }
      destruct Hm as [Hm|Hm], Hn as [Hn|Hn].
      + destruct (vsrs_stored _ _ _ Hm) as (k3 & I3). destruct (vsrs_stored _ _ _ Hn) as (k4 & I4). exact (Kr _ _ _ _ I3 I4 Hmn).
      + exfalso. apply filter_In in Hn. destruct Hn as [Hn _]. destruct (challenge_in _ _ _ _ Hn) as (Hct & kk & ii & _ & ->).
        destruct (proj2 KC) as [Hoff|(U1 & _ & _)]; [congruence|].
        destruct (vsrs_stored _ _ _ Hm) as (k3 & I3). apply (U1 _ _ I3). rewrite (Huid Hmn). reflexivity.
      + exfalso. apply filter_In in Hm. destruct Hm as [Hm _]. destruct (challenge_in _ _ _ _ Hm) as (Hct & kk & ii & _ & ->).
        destruct (proj2 KC) as [Hoff|(_ & U2 & _)]; [congruence|].
        destruct (vsrs_stored _ _ _ Hn) as (k4 & I4). apply (U2 _ _ I4). rewrite <- (Huid Hmn). reflexivity.
      + apply filter_In in Hm. destruct Hm as [Hm _]. apply filter_In in Hn. destruct Hn as [Hn _].
        destruct (challenge_in _ _ _ _ Hm) as (Hct & ka' & ia & Iia & ->). destruct (challenge_in _ _ _ _ Hn) as (_ & kb' & ib & Iib & ->).
        destruct (proj2 KC) as [Hoff|(_ & _ & CH)]; [congruence|]. exact (CH _ _ _ _ Iia Iib Hmn).
    - destruct S1 as (ka & Ia). destruct S2 as (kb & Ib).
      cbn [is_equal] in He. apply andb_true_iff in He. destruct He as [He H6]. apply andb_true_iff in He. destruct He as [He H4].
      apply andb_true_iff in He. destruct He as [Hmeta Hp].
      assert (Et : tc_ts x = tc_ts y) by (exact (Kt _ _ _ _ Ia Ib Hmeta)).
      apply Z.eqb_eq in Hp. apply String.eqb_eq in H4, H6. cbn [attrs]. rewrite Et, Hp, H4, H6. reflexivity.
  Qed.
End TwoBuilds.


(* ===== part 4 ===== *)

(* a VirtualServer host that the diff does not list as updated has kept its listener binding *)
Lemma not_updated_vs_binding old new h x y : wf new ->
  lookup h old = Some (RVS x) -> lookup h new = Some (RVS y) -> ~ In h (updated_hosts old new) ->
  vc_http_port x = vc_http_port y /\ vc_https_port x = vc_https_port y /\ vc_http4 x = vc_http4 y /\
  vc_http6 x = vc_http6 y /\ vc_https4 x = vc_https4 y /\ vc_https6 x = vc_https6 y.
Proof.
  intros W Ho Hn Hni.
  assert (Hall : forall l, In h l -> In (h, RVS y) new -> (forall kv, In kv new -> True) -> True) by auto.
  unfold updated_hosts in Hni. rewrite in_flat_map in Hni.
  assert (Hf : ~ In h (match lookup h old with
                        | None => []
                        | Some orr => if negb (is_equal orr (RVS y)) then [h]
                                      else match RVS y, orr with
                                           | RVS n, RVS o =>
                                               (if negb (vc_http_port n =? vc_http_port o) || negb (vc_https_port n =? vc_https_port o) then [h] else []) +++
                                               (if negb (String.eqb (vc_http4 n) (vc_http4 o)) then [h] else []) +++
                                               (if negb (String.eqb (vc_http6 n) (vc_http6 o)) then [h] else []) +++
                                               (if negb (String.eqb (vc_https4 n) (vc_https4 o)) then [h] else []) +++
                                               (if negb (String.eqb (vc_https6 n) (vc_https6 o)) then [h] else [])
                                           | _, _ => [] end
                        end)).
  { intros Hin. apply Hni. exists (h, RVS y). split; [apply lookup_In; exact Hn|exact Hin]. }
  rewrite Ho in Hf. destruct (negb (is_equal (RVS x) (RVS y))); [exfalso; apply Hf; left; reflexivity|].
  rewrite !in_app_iff in Hf.
  destruct (vc_http_port y =? vc_http_port x) eqn:E1; [|exfalso; apply Hf; left; cbn; left; reflexivity].
  destruct (vc_https_port y =? vc_https_port x) eqn:E2; [|exfalso; apply Hf; left; cbn; left; reflexivity].
  destruct (String.eqb (vc_http4 y) (vc_http4 x)) eqn:E3; [|exfalso; apply Hf; right; left; left; reflexivity].
  destruct (String.eqb (vc_http6 y) (vc_http6 x)) eqn:E4; [|exfalso; apply Hf; right; right; left; left; reflexivity].
  destruct (String.eqb (vc_https4 y) (vc_https4 x)) eqn:E5; [|exfalso; apply Hf; right; right; right; left; left; reflexivity].
  destruct (String.eqb (vc_https6 y) (vc_https6 x)) eqn:E6; [|exfalso; apply Hf; right; right; right; right; left; reflexivity].
  apply Z.eqb_eq in E1, E2. apply String.eqb_eq in E3, E4, E5, E6. repeat split; congruence.
Qed.

Definition key_val (H : smap resource) (k : string) (r : resource) : Prop := exists h, lookup h H = Some r /\ rkey r = k.

(* the same key at the same place in the host maps of two consecutive states carries the same attributes *)
Lemma same_place_attrs c o1 o2 k :
  objs_ok o1 -> objs_ok o2 -> kc c o1 o2 ->
  same_place (hosts_of_objs c o1) (hosts_of_objs c o2) k ->
  forall r1, key_val (hosts_of_objs c o1) k r1 ->
  exists r2, key_val (hosts_of_objs c o2) k r2 /\ attrs r1 = attrs r2.
Proof.
  intros Hok1 Hok2 KC (h & o & n & Ho & Hn & Hko & Hkn & Hnu) r1 (h1 & Hr1 & Hk1).
  pose proof (coherent_hosts_of_objs c o1 Hok1) as CO. pose proof (coherent_hosts_of_objs c o2 Hok2) as CN.
  assert (r1 = o) by (apply (coh_same _ CO h1 h r1 o Hr1 Ho); congruence). subst r1.
  pose proof (not_updated_equal _ _ h o n (coh_wf _ CN) Ho Hn Hnu) as Heq.
  exists n. split; [exists h; auto|].
  unfold hosts_of_objs in Ho, Hn.
  pose proof (b_hosts_res _ _ _ _ _ _ _ _ Ho) as L1. pose proof (b_hosts_res _ _ _ _ _ _ _ _ Hn) as L2.
  pose proof (is_equal_attrs c o1 o2 KC _ _ o n L1 L2 Heq) as Ha.
  destruct o as [x|x|x], n as [y|y|y]; try discriminate Heq; try exact Ha.
  destruct Ha as [Ev Er].
  fold (hosts_of_objs c o1) in Ho. fold (hosts_of_objs c o2) in Hn.
  destruct (not_updated_vs_binding _ _ h x y (coh_wf _ CN) Ho Hn Hnu) as (P1 & P2 & P3 & P4 & P5 & P6).
  cbn [attrs]. rewrite Ev, Er, P1, P2, P3, P4, P5, P6. reflexivity.
Qed.

(* listener hosts: IsEqual of two TransportServer configurations plus K3 means equal attributes *)
Lemma same_place_attrs_l o1 o2 k :
  objs_ok o1 -> objs_ok o2 -> k3_objs o1 o2 ->
  same_place (smap_map RTS (lhosts_of_objs o1)) (smap_map RTS (lhosts_of_objs o2)) k ->
  forall r1, key_val (smap_map RTS (lhosts_of_objs o1)) k r1 ->
  exists r2, key_val (smap_map RTS (lhosts_of_objs o2)) k r2 /\ attrs r1 = attrs r2.
Proof.
  intros Hok1 Hok2 K (h & o & n & Ho & Hn & Hko & Hkn & Hnu) r1 (h1 & Hr1 & Hk1).
  pose proof (coherent_lhosts_of_objs o1 Hok1) as CO. pose proof (coherent_lhosts_of_objs o2 Hok2) as CN.
  assert (r1 = o) by (apply (coh_same _ CO h1 h r1 o Hr1 Ho); congruence). subst r1.
  pose proof (not_updated_equal _ _ h o n (coh_wf _ CN) Ho Hn Hnu) as Heq.
  exists n. split; [exists h; auto|].
  rewrite lookup_smap_map in Ho, Hn.
  destruct (lookup h (lhosts_of_objs o1)) as [x|] eqn:L1; [|discriminate]. destruct (lookup h (lhosts_of_objs o2)) as [y|] eqn:L2; [|discriminate].
  cbn in Ho, Hn. inversion Ho; inversion Hn; subst o n.
  destruct (lhosts_ts_listener o1 h x L1) as [(ka & Ia) _]. destruct (lhosts_ts_listener o2 h y L2) as [(kb & Ib) _].
  destruct K as (_ & _ & _ & Kt).
  cbn [is_equal] in Heq. apply andb_true_iff in Heq. destruct Heq as [He H6]. apply andb_true_iff in He. destruct He as [He H4].
  apply andb_true_iff in He. destruct He as [Hmeta Hp].
  assert (Et : tc_ts x = tc_ts y) by (exact (Kt _ _ _ _ Ia Ib Hmeta)).
  apply Z.eqb_eq in Hp. apply String.eqb_eq in H4, H6. cbn [attrs]. rewrite Et, Hp, H4, H6. reflexivity.
Qed.

(* a squashed batch without re-pointing (listener hosts) *)
Lemma squash_batch_values (old new : smap resource) (k : string) :
  coherent old -> coherent new ->
  let cs := squash (raw_changes old new) in
  match upd_res k cs None with
  | Some r => exists h, lookup h new = Some r /\ rkey r = k
  | None => has_del k cs = false -> key_in old k -> same_place old new k
  end.
Proof.
  intros CO CN cs. pose proof (raw_df old new) as Hdf.
  destruct (upd_res k cs None) as [r|] eqn:Hu.
  - destruct (upd_res_in k cs r Hu) as (ch & Hch & Hkc & Hnd & Hr). unfold cs in Hch. apply squash_in in Hch.
    assert (Hu0 : exists h n, lookup h new = Some n /\ c_res ch = n).
    { unfold raw_changes, create_changes in Hch. apply in_app_or in Hch. destruct Hch as [Hc|Hc].
      - exfalso. apply in_app_or in Hc. destruct Hc as [Hc|Hc]; apply in_filter_map in Hc; destruct Hc as (h & _ & Hf).
        + destruct (lookup h old); inversion Hf; subst; discriminate.
        + destruct (lookup h old) as [o|]; [|discriminate]. destruct (lookup h new) as [n|]; [|discriminate].
          destruct (negb (String.eqb (rkey o) (rkey n))); inversion Hf; subst; discriminate.
      - apply in_app_or in Hc. destruct Hc as [Hc|Hc]; apply in_filter_map in Hc; destruct Hc as (h & _ & Hf);
          destruct (lookup h new) as [n|] eqn:Hn; inversion Hf; subst; exists h, n; auto. }
    destruct Hu0 as (h & n & Hn & Hcn). exists h. rewrite <- Hr, Hcn. split; [exact Hn|]. rewrite <- Hcn. exact Hkc.
  - intros Hd Hko. apply upd_res_none_iff in Hu. unfold cs in Hu, Hd.
    rewrite (squash_has_upd k _ Hdf) in Hu.
    assert (Hkn : key_in new k).
    { apply (hosts_keys_after old new CO CN k). right. split; [exact Hd|exact Hko]. }
    destruct Hkn as (h & n & Hn & Hkk).
    assert (Hnu : ~ In h (updated_hosts old new) /\ ~ In h (added_keys old new)).
    { split; intros Hin; assert (has_upd k (raw_changes old new) = true) by (apply raw_upd; exists h, n; auto); congruence. }
    destruct Hnu as [Hnu Hna].
    destruct (lookup h old) as [o|] eqn:Ho.
    2:{ exfalso. apply Hna. apply in_added. split; [congruence|exact Ho]. }
    pose proof (not_updated_equal old new h o n (coh_wf _ CN) Ho Hn Hnu) as Heq.
    exists h, o, n. repeat split; auto. rewrite (is_equal_rkey _ _ Heq). exact Hkk.
Qed.


(* ===== part 5 ===== *)

(* ---------- upd_res through validation-error attachment and removals-first ordering ---------- *)

Lemma upd_res_attach_error k0 : forall cs cs' k, attach_error k0 cs = Some cs' -> upd_res k cs' None = upd_res k cs None.
Proof.
  induction cs as [|x l IH]; intros cs' k H; cbn [attach_error] in H; [discriminate|].
  destruct (String.eqb (rkey (c_res x)) k0).
  - inversion H; subst. cbn [upd_res]. unfold ckey, is_delete. cbn. reflexivity.
  - destruct (attach_error k0 l) as [l'|] eqn:Hl; [|discriminate]. inversion H; subst.
    cbn [upd_res]. rewrite (upd_res_acc k l'), (upd_res_acc k l), (IH l' k eq_refl). reflexivity.
Qed.

Lemma upd_res_wve b k0 u out k : upd_res k (snd (fst (with_validation_error b k0 u out))) None = upd_res k (snd (fst out)) None.
Proof.
  destruct out as [[s cs] ps]. unfold with_validation_error. destruct b; [|reflexivity].
  destruct (attach_error k0 cs) as [cs'|] eqn:Ha; cbn [fst snd]; [|reflexivity]. exact (upd_res_attach_error k0 cs cs' k Ha).
Qed.

Lemma upd_res_filter_nondel k : forall cs acc, upd_res k (filter (fun c => negb (is_delete c)) cs) acc = upd_res k cs acc.
Proof.
  induction cs as [|x l IH]; intros acc; cbn [filter upd_res]; [reflexivity|].
  destruct (is_delete x) eqn:E; cbn [negb].
  - rewrite andb_false_r. apply IH.
  - cbn [upd_res]. rewrite E. apply IH.
Qed.

Lemma upd_res_filter_del k : forall cs acc, upd_res k (filter is_delete cs) acc = acc.
Proof.
  induction cs as [|x l IH]; intros acc; cbn [filter upd_res]; [reflexivity|].
  destruct (is_delete x) eqn:E; [|apply IH]. cbn [upd_res]. rewrite E, andb_false_r. apply IH.
Qed.

Lemma upd_res_odf k cs : upd_res k (order_deletes_first cs) None = upd_res k cs None.
Proof.
  unfold order_deletes_first. rewrite upd_res_app, upd_res_filter_nondel, upd_res_filter_del.
  destruct (upd_res k cs None); reflexivity.
Qed.

(* ---------- the combination, at the level of values ---------- *)

Lemma vals_combine (sh : smap resource) (cs : list change) (b : bool)
      (VOh VOl VNh VNl : string -> resource -> Prop) (uh ul : string -> option resource) (dh dl : string -> bool) :
  wf sh -> deletes_first cs b = true ->
  (forall k a, lookup k sh = Some a -> (exists r, VOh k r /\ a = attrs r) \/ (exists r, VOl k r /\ a = attrs r)) ->
  (forall k, upd_res k cs None = match uh k with Some r => Some r | None => ul k end) ->
  (forall k, has_del k cs = dh k || dl k) ->
  (forall k r, uh k = Some r -> VNh k r) -> (forall k r, ul k = Some r -> VNl k r) ->
  (forall k r, uh k = None -> dh k = false -> VOh k r -> exists r2, VNh k r2 /\ attrs r = attrs r2) ->
  (forall k r, ul k = None -> dl k = false -> VOl k r -> exists r2, VNl k r2 /\ attrs r = attrs r2) ->
  forall k a, lookup k (fold_left apply_change cs sh) = Some a ->
              (exists r, VNh k r /\ a = attrs r) \/ (exists r, VNl k r /\ a = attrs r).
Proof.
  intros W Hdf Hsh Hu Hd Huh Hul Hkh Hkl k a H.
  rewrite (lookup_after_batch cs sh k b W Hdf), Hu, Hd in H.
  destruct (uh k) as [r|] eqn:Eh.
  - inversion H; subst. left. exists r. split; [apply Huh; exact Eh|reflexivity].
  - destruct (ul k) as [r|] eqn:El.
    + inversion H; subst. right. exists r. split; [apply Hul; exact El|reflexivity].
    + destruct (dh k) eqn:Dh; [discriminate|]. destruct (dl k) eqn:Dl; [discriminate|]. cbn in H.
      destruct (Hsh k a H) as [(r & Hr & ->)|(r & Hr & ->)].
      * destruct (Hkh k r Eh Dh Hr) as (r2 & H2 & E). left. exists r2. split; [exact H2|exact E].
      * destruct (Hkl k r El Dl Hr) as (r2 & H2 & E). right. exists r2. split; [exact H2|exact E].
Qed.

Definition vals_are (c : cfg) (o : objs) (sh : smap resource) : Prop :=
  forall k a, lookup k sh = Some a ->
    (exists r, key_val (hosts_of_objs c o) k r /\ a = attrs r) \/
    (exists r, key_val (smap_map RTS (lhosts_of_objs o)) k r /\ a = attrs r).

Lemma key_val_in H k r : key_val H k r -> key_in H k.
Proof. intros (h & Hl & Hk). exists h, r. auto. Qed.

(* the batch of rebuildHosts, as a function of the old and the new host map *)
Lemma rebuild_hosts_batch c s :
  snd (fst (rebuild_hosts c s)) =
  repoint (b_res (build c (ings s) (vss s) (vsrs s) (tss s) (gc s)))
          (squash (raw_changes (hosts s) (hosts_of_objs c (objs_of_state s)))).
Proof. reflexivity. Qed.

Lemma rebuild_listeners_batch s :
  snd (fst (rebuild_listeners s)) =
  squash (raw_changes (smap_map RTS (lhosts s)) (smap_map RTS (lhosts_of_objs (objs_of_state s)))).
Proof.
  unfold rebuild_listeners. cbn [fst snd]. unfold raw_changes. rewrite (updated_lhosts_as_hosts (lhosts s) _). reflexivity.
Qed.

Section Step.
  Variables (c : cfg).

  (* hosts part of a batch: what it says about one key *)
  Lemma hosts_part s1 o : hosts s1 = hosts_of_objs c o -> objs_ok o -> objs_ok (objs_of_state s1) -> kc c o (objs_of_state s1) ->
    let cs := snd (fst (rebuild_hosts c s1)) in
    (forall k r, upd_res k cs None = Some r -> key_val (hosts_of_objs c (objs_of_state s1)) k r) /\
    (forall k r, upd_res k cs None = None -> has_del k cs = false -> key_val (hosts_of_objs c o) k r ->
                 exists r2, key_val (hosts_of_objs c (objs_of_state s1)) k r2 /\ attrs r = attrs r2).
  Proof.
    intros Hh Hok Hok1 K cs.
    assert (CO : coherent (hosts s1)) by (rewrite Hh; apply coherent_hosts_of_objs; exact Hok).
    assert (CN : coherent (hosts_of_objs c (objs_of_state s1))) by (apply coherent_hosts_of_objs; exact Hok1).
    set (R := b_res (build c (ings s1) (vss s1) (vsrs s1) (tss s1) (gc s1))).
    assert (Hk : forall k0 r, lookup k0 R = Some r -> rkey r = k0) by (intros k0 r H; exact (b_res_key _ _ _ _ _ _ _ _ H)).
    assert (Hres : forall h n, lookup h (hosts_of_objs c (objs_of_state s1)) = Some n -> lookup (rkey n) R = Some n).
    { intros h n H. exact (b_hosts_res _ _ _ _ _ _ _ _ H). }
    split.
    - intros k r Hu. pose proof (host_batch_values (hosts s1) _ R k CO CN Hk Hres) as Hv. cbn zeta in Hv.
      unfold cs in Hu. rewrite rebuild_hosts_batch in Hu. fold R in Hu. rewrite Hu in Hv. destruct Hv as (h & Hl & Hkk). exists h. auto.
    - intros k r Hu Hd Hkv. pose proof (host_batch_values (hosts s1) _ R k CO CN Hk Hres) as Hv. cbn zeta in Hv.
      unfold cs in Hu, Hd. rewrite rebuild_hosts_batch in Hu, Hd. fold R in Hu, Hd. rewrite Hu in Hv.
      rewrite Hh in Hv. apply (same_place_attrs c o (objs_of_state s1) k Hok Hok1 K); [|exact Hkv].
      apply Hv; [rewrite <- Hh; exact Hd|apply key_val_in with r; exact Hkv].
  Qed.

  Lemma listeners_part s1 o : lhosts s1 = lhosts_of_objs o -> objs_ok o -> objs_ok (objs_of_state s1) -> kc c o (objs_of_state s1) ->
    let cs := snd (fst (rebuild_listeners s1)) in
    (forall k r, upd_res k cs None = Some r -> key_val (smap_map RTS (lhosts_of_objs (objs_of_state s1))) k r) /\
    (forall k r, upd_res k cs None = None -> has_del k cs = false -> key_val (smap_map RTS (lhosts_of_objs o)) k r ->
                 exists r2, key_val (smap_map RTS (lhosts_of_objs (objs_of_state s1))) k r2 /\ attrs r = attrs r2).
  Proof.
    intros Hl Hok Hok1 K cs.
    assert (CO : coherent (smap_map RTS (lhosts s1))) by (rewrite Hl; apply coherent_lhosts_of_objs; exact Hok).
    assert (CN : coherent (smap_map RTS (lhosts_of_objs (objs_of_state s1)))) by (apply coherent_lhosts_of_objs; exact Hok1).
    split.
    - intros k r Hu. pose proof (squash_batch_values _ _ k CO CN) as Hv. cbn zeta in Hv.
      unfold cs in Hu. rewrite rebuild_listeners_batch in Hu. rewrite Hu in Hv. destruct Hv as (h & Hlk & Hkk). exists h. auto.
    - intros k r Hu Hd Hkv. pose proof (squash_batch_values _ _ k CO CN) as Hv. cbn zeta in Hv.
      unfold cs in Hu, Hd. rewrite rebuild_listeners_batch in Hu, Hd. rewrite Hu in Hv. rewrite Hl in Hv, Hd.
      apply (same_place_attrs_l o (objs_of_state s1) k Hok Hok1 (proj1 K)); [|exact Hkv].
      apply Hv; [exact Hd|apply key_val_in with r; exact Hkv].
  Qed.
End Step.


(* ===== part 6 ===== *)

Section Step.
  Variables (c : cfg).

  Lemma vals_rebuild_hosts s1 o sh cs :
    hosts s1 = hosts_of_objs c o -> objs_ok o -> objs_ok (objs_of_state s1) -> kc c o (objs_of_state s1) ->
    lhosts_of_objs (objs_of_state s1) = lhosts_of_objs o ->
    wf sh -> vals_are c o sh ->
    deletes_first cs false = true ->
    (forall k, upd_res k cs None = upd_res k (snd (fst (rebuild_hosts c s1))) None) ->
    (forall k, has_del k cs = has_del k (snd (fst (rebuild_hosts c s1)))) ->
    vals_are c (objs_of_state s1) (fold_left apply_change cs sh).
  Proof.
    intros Hh Hok Hok1 K Hl W Hv Hdf Hu Hd.
    destruct (hosts_part c s1 o Hh Hok Hok1 K) as [P1 P2].
    unfold vals_are. intros k a H.
    apply (vals_combine sh cs false
             (key_val (hosts_of_objs c o)) (key_val (smap_map RTS (lhosts_of_objs o)))
             (key_val (hosts_of_objs c (objs_of_state s1))) (key_val (smap_map RTS (lhosts_of_objs (objs_of_state s1))))
             (fun k => upd_res k (snd (fst (rebuild_hosts c s1))) None) (fun _ => None)
             (fun k => has_del k (snd (fst (rebuild_hosts c s1)))) (fun _ => false) W Hdf Hv) with (k := k); auto.
    - intros k0. rewrite Hu. destruct (upd_res k0 (snd (fst (rebuild_hosts c s1))) None); reflexivity.
    - intros k0. rewrite Hd, orb_false_r. reflexivity.
    - intros k0 r E. discriminate.
    - intros k0 r _ _ Hr. exists r. rewrite Hl. auto.
  Qed.

  Lemma vals_rebuild_ts s1 o sh cs :
    hosts s1 = hosts_of_objs c o -> lhosts s1 = lhosts_of_objs o -> objs_ok o -> objs_ok (objs_of_state s1) ->
    kc c o (objs_of_state s1) ->
    (tls_passthrough c = false -> hosts_of_objs c (objs_of_state s1) = hosts_of_objs c o) ->
    wf sh -> vals_are c o sh ->
    deletes_first cs false = true ->
    (forall k, upd_res k cs None = upd_res k (snd (fst (rebuild_ts c s1))) None) ->
    (forall k, has_del k cs = has_del k (snd (fst (rebuild_ts c s1)))) ->
    vals_are c (objs_of_state s1) (fold_left apply_change cs sh).
  Proof.
    intros Hh Hl Hok Hok1 K Hind W Hv Hdf Hu Hd.
    destruct (listeners_part c s1 o Hl Hok Hok1 K) as [L1 L2].
    pose proof (objs_rebuild_listeners s1) as Eo.
    assert (Eh : hosts (fst (fst (rebuild_listeners s1))) = hosts s1) by reflexivity.
    unfold rebuild_ts in Hu, Hd.
    destruct (rebuild_listeners s1) as [[s2 c1] p1] eqn:RL. cbn [fst snd] in *.
    unfold vals_are. intros k a H.
    destruct (tls_passthrough c) eqn:Hp.
    - assert (Hh2 : hosts s2 = hosts_of_objs c o) by (rewrite Eh; exact Hh).
      assert (Hok2 : objs_ok (objs_of_state s2)) by (rewrite Eo; exact Hok1).
      assert (K2 : kc c o (objs_of_state s2)) by (rewrite Eo; exact K).
      destruct (hosts_part c s2 o Hh2 Hok Hok2 K2) as [P1 P2]. rewrite Eo in P1, P2.
      destruct (rebuild_hosts c s2) as [[s3 c2] p2] eqn:RH. cbn [fst snd] in *.
      apply (vals_combine sh cs false
               (key_val (hosts_of_objs c o)) (key_val (smap_map RTS (lhosts_of_objs o)))
               (key_val (hosts_of_objs c (objs_of_state s1))) (key_val (smap_map RTS (lhosts_of_objs (objs_of_state s1))))
               (fun k => upd_res k c2 None) (fun k => upd_res k c1 None)
               (fun k => has_del k c2) (fun k => has_del k c1) W Hdf Hv) with (k := k); auto.
      + intros k0. rewrite Hu, upd_res_odf, upd_res_app. reflexivity.
      + intros k0. rewrite Hd, has_del_odf, has_del_app. apply orb_comm.
    - apply (vals_combine sh cs false
               (key_val (hosts_of_objs c o)) (key_val (smap_map RTS (lhosts_of_objs o)))
               (key_val (hosts_of_objs c (objs_of_state s1))) (key_val (smap_map RTS (lhosts_of_objs (objs_of_state s1))))
               (fun _ => None) (fun k => upd_res k c1 None)
               (fun _ => false) (fun k => has_del k c1) W Hdf Hv) with (k := k); auto.
      + intros k0 r E. discriminate.
      + intros k0 r _ _ Hr. exists r. rewrite (Hind eq_refl). auto.
  Qed.

  Lemma vals_rebuild_gc s1 o sh :
    hosts s1 = hosts_of_objs c o -> lhosts s1 = lhosts_of_objs o -> objs_ok o -> objs_ok (objs_of_state s1) ->
    kc c o (objs_of_state s1) ->
    wf sh -> vals_are c o sh ->
    vals_are c (objs_of_state s1) (fold_left apply_change (snd (fst (rebuild_gc c s1))) sh).
  Proof.
    intros Hh Hl Hok Hok1 K W Hv.
    destruct (listeners_part c s1 o Hl Hok Hok1 K) as [L1 L2].
    pose proof (objs_rebuild_listeners s1) as Eo.
    assert (Eh : hosts (fst (fst (rebuild_listeners s1))) = hosts s1) by reflexivity.
    pose proof (rebuild_gc_deletes_first c s1) as Hdf. unfold batch_of in Hdf.
    unfold rebuild_gc in *.
    destruct (rebuild_listeners s1) as [[s2 c1] p1] eqn:RL. cbn [fst snd] in *.
    assert (Hh2 : hosts s2 = hosts_of_objs c o) by (rewrite Eh; exact Hh).
    assert (Hok2 : objs_ok (objs_of_state s2)) by (rewrite Eo; exact Hok1).
    assert (K2 : kc c o (objs_of_state s2)) by (rewrite Eo; exact K).
    destruct (hosts_part c s2 o Hh2 Hok Hok2 K2) as [P1 P2]. rewrite Eo in P1, P2.
    destruct (rebuild_hosts c s2) as [[s3 c2] p2] eqn:RH. cbn [fst snd] in *.
    unfold vals_are. intros k a H.
    apply (vals_combine sh _ false
             (key_val (hosts_of_objs c o)) (key_val (smap_map RTS (lhosts_of_objs o)))
             (key_val (hosts_of_objs c (objs_of_state s1))) (key_val (smap_map RTS (lhosts_of_objs (objs_of_state s1))))
             (fun k => upd_res k c2 None) (fun k => upd_res k c1 None)
             (fun k => has_del k c2) (fun k => has_del k c1) W Hdf Hv) with (k := k); auto.
    - intros k0. rewrite upd_res_odf, upd_res_app. reflexivity.
    - intros k0. rewrite has_del_odf, has_del_app. apply orb_comm.
  Qed.
End Step.


(* ===== part 7 ===== *)

Lemma wve_vals b k u out kk :
  upd_res kk (snd (fst (with_validation_error b k u out))) None = upd_res kk (snd (fst out)) None /\
  has_del kk (snd (fst (with_validation_error b k u out))) = has_del kk (snd (fst out)).
Proof. split; [apply upd_res_wve|exact (proj2 (has_wve b k u out kk))]. Qed.

Section Step.
  Variables (c : cfg).

  Lemma step_vals s e sh :
    fn_inv c s -> objs_ok (objs_of_state s) -> kc c (objs_of_state s) (apply_event (objs_of_state s) e) ->
    wf sh -> vals_are c (objs_of_state s) sh ->
    vals_are c (apply_event (objs_of_state s) e) (fold_left apply_change (snd (fst (step c s e))) sh).
  Proof.
    intros [Hh Hl] Hok K W Hv.
    pose proof (objs_ok_event _ e Hok) as Hok'.
    destruct e as [i cls valid|k|v cls valid|k|r cls valid|k|t cls valid|k|ls x|]; cbn [step].
    - set (s1 := set_ings s _).
      assert (Eo : objs_of_state s1 = apply_event (objs_of_state s) (EIng i cls valid)) by reflexivity.
      rewrite <- Eo in *. pose proof (rebuild_hosts_deletes_first c s1) as Hdf. unfold batch_of in Hdf.
      apply (vals_rebuild_hosts c s1 (objs_of_state s) sh); auto.
      + exact (wve_deletes_first _ _ _ _ Hdf).
      + intros k. exact (proj1 (wve_vals _ _ _ _ k)).
      + intros k. exact (proj2 (wve_vals _ _ _ _ k)).
    - destruct (mem k (ings s)) eqn:Hm.
      + set (s1 := set_ings s _).
        assert (Eo : objs_of_state s1 = apply_event (objs_of_state s) (EDelIng k)) by reflexivity.
        rewrite <- Eo in *. pose proof (rebuild_hosts_deletes_first c s1) as Hdf. unfold batch_of in Hdf.
        apply (vals_rebuild_hosts c s1 (objs_of_state s) sh); auto.
      + cbn [fst snd fold_left]. apply mem_false_lookup in Hm.
        unfold vals_are, hosts_of_objs, lhosts_of_objs in *. cbn [apply_event o_ings o_vss o_vsrs o_tss o_gc objs_of_state] in *.
        rewrite (remove_absent k (ings s) Hm). exact Hv.
    - set (s1 := set_vss s _).
      assert (Eo : objs_of_state s1 = apply_event (objs_of_state s) (EVS v cls valid)) by reflexivity.
      rewrite <- Eo in *. pose proof (rebuild_hosts_deletes_first c s1) as Hdf. unfold batch_of in Hdf.
      apply (vals_rebuild_hosts c s1 (objs_of_state s) sh); auto.
      + exact (wve_deletes_first _ _ _ _ Hdf).
      + intros k. exact (proj1 (wve_vals _ _ _ _ k)).
      + intros k. exact (proj2 (wve_vals _ _ _ _ k)).
    - destruct (mem k (vss s)) eqn:Hm.
      + set (s1 := set_vss s _).
        assert (Eo : objs_of_state s1 = apply_event (objs_of_state s) (EDelVS k)) by reflexivity.
        rewrite <- Eo in *. pose proof (rebuild_hosts_deletes_first c s1) as Hdf. unfold batch_of in Hdf.
        apply (vals_rebuild_hosts c s1 (objs_of_state s) sh); auto.
      + cbn [fst snd fold_left]. apply mem_false_lookup in Hm.
        unfold vals_are, hosts_of_objs, lhosts_of_objs in *. cbn [apply_event o_ings o_vss o_vsrs o_tss o_gc objs_of_state] in *.
        rewrite (remove_absent k (vss s) Hm). exact Hv.
    - set (s1 := set_vsrs s _).
      assert (Eo : objs_of_state s1 = apply_event (objs_of_state s) (EVSR r cls valid)) by reflexivity.
      rewrite <- Eo in *. pose proof (rebuild_hosts_deletes_first c s1) as Hdf. unfold batch_of in Hdf.
      destruct (rebuild_hosts c s1) as [[s2 cs] ps] eqn:RH. cbn [fst snd] in *.
      replace cs with (snd (fst (rebuild_hosts c s1))) by (rewrite RH; reflexivity).
      apply (vals_rebuild_hosts c s1 (objs_of_state s) sh); auto. rewrite RH. exact Hdf.
    - destruct (mem k (vsrs s)) eqn:Hm.
      + set (s1 := set_vsrs s _).
        assert (Eo : objs_of_state s1 = apply_event (objs_of_state s) (EDelVSR k)) by reflexivity.
        rewrite <- Eo in *. pose proof (rebuild_hosts_deletes_first c s1) as Hdf. unfold batch_of in Hdf.
        apply (vals_rebuild_hosts c s1 (objs_of_state s) sh); auto.
      + cbn [fst snd fold_left]. apply mem_false_lookup in Hm.
        unfold vals_are, hosts_of_objs, lhosts_of_objs in *. cbn [apply_event o_ings o_vss o_vsrs o_tss o_gc objs_of_state] in *.
        rewrite (remove_absent k (vsrs s) Hm). exact Hv.
    - set (s1 := set_tss s _).
      assert (Eo : objs_of_state s1 = apply_event (objs_of_state s) (ETS t cls valid)) by reflexivity.
      rewrite <- Eo in *. pose proof (rebuild_ts_deletes_first c s1) as Hdf. unfold batch_of in Hdf.
      apply (vals_rebuild_ts c s1 (objs_of_state s) sh); auto.
      + intros Hp. apply hosts_indep_tss; auto.
      + exact (wve_deletes_first _ _ _ _ Hdf).
      + intros k. exact (proj1 (wve_vals _ _ _ _ k)).
      + intros k. exact (proj2 (wve_vals _ _ _ _ k)).
    - destruct (mem k (tss s)) eqn:Hm.
      + set (s1 := set_tss s _).
        assert (Eo : objs_of_state s1 = apply_event (objs_of_state s) (EDelTS k)) by reflexivity.
        rewrite <- Eo in *. pose proof (rebuild_ts_deletes_first c s1) as Hdf. unfold batch_of in Hdf.
        apply (vals_rebuild_ts c s1 (objs_of_state s) sh); auto.
        intros Hp. apply hosts_indep_tss; auto.
      + cbn [fst snd fold_left]. apply mem_false_lookup in Hm.
        unfold vals_are, hosts_of_objs, lhosts_of_objs in *. cbn [apply_event o_ings o_vss o_vsrs o_tss o_gc objs_of_state] in *.
        rewrite (remove_absent k (tss s) Hm). exact Hv.
    - set (s1 := set_gc s _).
      assert (Eo : objs_of_state s1 = apply_event (objs_of_state s) (EGC ls x)) by reflexivity.
      rewrite <- Eo in *. apply (vals_rebuild_gc c s1 (objs_of_state s) sh); auto.
    - set (s1 := set_gc s _).
      assert (Eo : objs_of_state s1 = apply_event (objs_of_state s) EDelGC) by reflexivity.
      rewrite <- Eo in *. apply (vals_rebuild_gc c s1 (objs_of_state s) sh); auto.
  Qed.
End Step.

(* ---------- K3 as a hypothesis on the history ---------- *)

(* the API server moves the generation with every spec change, and a UID is never reused: among the objects the
   history ever stores, the same namespace/name, UID, generation (and annotations, for an Ingress) mean the same
   object *)
Definition k3_hist (E : list event) : Prop :=
  (forall a b, In (EIng a true true) E -> In (EIng b true true) E -> meta_eq_ann (i_meta a) (i_meta b) = true -> a = b) /\
  (forall a b, In (EVS a true true) E -> In (EVS b true true) E -> meta_eq (v_meta a) (v_meta b) = true -> a = b) /\
  (forall a b, In (EVSR a true true) E -> In (EVSR b true true) E -> meta_eq (r_meta a) (r_meta b) = true -> a = b) /\
  (forall a b, In (ETS a true true) E -> In (ETS b true true) E -> meta_eq (t_meta a) (t_meta b) = true -> a = b).

Definition allowed (E : list event) (o : objs) : Prop :=
  (forall k i, In (k, i) (o_ings o) -> In (EIng i true true) E) /\
  (forall k v, In (k, v) (o_vss o) -> In (EVS v true true) E) /\
  (forall k r, In (k, r) (o_vsrs o) -> In (EVSR r true true) E) /\
  (forall k t, In (k, t) (o_tss o) -> In (ETS t true true) E).

Lemma allowed_event E o e : allowed E o -> In e E -> allowed E (apply_event o e).
Proof.
  intros (A1 & A2 & A3 & A4) He.
  assert (U : forall (A : Type) (mk : A -> event) (m : smap A) k0 (x : A) cls valid k x0,
             (forall k v, In (k, v) m -> In (mk v) E) ->
             (cls = true -> valid = true -> In (mk x) E) ->
             In (k, x0) (upd (cls && valid) k0 x m) -> In (mk x0) E).
  { intros A mk m k0 x cls valid k x0 Hm Hx Hin. unfold upd in Hin. destruct (cls && valid) eqn:Hb.
    - apply andb_true_iff in Hb. destruct Hb as [-> ->]. apply in_insert in Hin. destruct Hin as [[_ ->]|Hin]; [auto|eauto].
    - apply in_remove in Hin. eauto. }
  destruct e as [i cls valid|k|v cls valid|k|r cls valid|k|t cls valid|k|ls x|]; cbn [apply_event]; unfold allowed; cbn [o_ings o_vss o_vsrs o_tss];
    repeat split; auto; intros k0 x0 Hin.
  - apply (U _ (fun i => EIng i true true) _ _ _ _ _ _ _ A1) in Hin; auto. intros -> ->. exact He.
  - apply in_remove in Hin. eauto.
  - apply (U _ (fun i => EVS i true true) _ _ _ _ _ _ _ A2) in Hin; auto. intros -> ->. exact He.
  - apply in_remove in Hin. eauto.
  - apply (U _ (fun i => EVSR i true true) _ _ _ _ _ _ _ A3) in Hin; auto. intros -> ->. exact He.
  - apply in_remove in Hin. eauto.
  - apply (U _ (fun i => ETS i true true) _ _ _ _ _ _ _ A4) in Hin; auto. intros -> ->. exact He.
  - apply in_remove in Hin. eauto.
Qed.

Lemma allowed_k3 E o1 o2 : k3_hist E -> allowed E o1 -> allowed E o2 -> k3_objs o1 o2.
Proof.
  intros (K1 & K2 & K3 & K4) (A1 & A2 & A3 & A4) (B1 & B2 & B3 & B4). repeat split.
  - intros k1 k2 a b Ha Hb. apply K1; [exact (A1 _ _ Ha)|exact (B1 _ _ Hb)].
  - intros k1 k2 a b Ha Hb. apply K2; [exact (A2 _ _ Ha)|exact (B2 _ _ Hb)].
  - intros k1 k2 a b Ha Hb. apply K3; [exact (A3 _ _ Ha)|exact (B3 _ _ Hb)].
  - intros k1 k2 a b Ha Hb. apply K4; [exact (A4 _ _ Ha)|exact (B4 _ _ Hb)].
Qed.

(* the cert-manager side of the hypothesis on the history: stored routes have UIDs; challenge Ingresses that are
   converted into routes with the same namespace, name and generation are converted into the same route *)
Definition cm_hist (c : cfg) (E : list event) : Prop :=
  cert_manager c = false \/
  ((forall r, In (EVSR r true true) E -> m_uid (r_meta r) <> "") /\
   (forall a b, In (EIng a true true) E -> In (EIng b true true) E ->
      meta_eq (r_meta (challenge_vsr a)) (r_meta (challenge_vsr b)) = true -> challenge_vsr a = challenge_vsr b)).

Lemma allowed_cm c E o1 o2 : cm_hist c E -> allowed E o1 -> allowed E o2 -> cm_objs c o1 o2.
Proof.
  intros [H|(U & CH)] (A1 & _ & A3 & _) (B1 & _ & B3 & _); [left; exact H|right]. repeat split.
  - intros k r Hin. exact (U _ (A3 _ _ Hin)).
  - intros k r Hin. exact (U _ (B3 _ _ Hin)).
  - intros k1 k2 a b Ha Hb. exact (CH a b (A1 _ _ Ha) (B1 _ _ Hb)).
Qed.

Lemma shadow_run_vals c E : cm_hist c E -> k3_hist E -> forall es s sh,
  (forall e, In e es -> In e E) -> allowed E (objs_of_state s) ->
  fn_inv c s -> objs_ok (objs_of_state s) ->
  wf sh -> vals_are c (objs_of_state s) sh ->
  vals_are c (objs_of_state (fold_left (step_state c) es s)) (shadow_run c s sh es).
Proof.
  intros HC HK. induction es as [|e r IH]; intros s sh Hsub Hal Hf Hok W Hv; cbn [fold_left shadow_run]; [exact Hv|].
  assert (Hal' : allowed E (apply_event (objs_of_state s) e)) by (apply allowed_event; [exact Hal|apply Hsub; left; reflexivity]).
  apply IH.
  - intros e0 He0. apply Hsub. right; exact He0.
  - rewrite step_objs. exact Hal'.
  - apply fn_inv_step. exact Hf.
  - rewrite step_objs. apply objs_ok_event. exact Hok.
  - apply wf_fold_apply. exact W.
  - rewrite step_objs. apply step_vals; auto. exact (conj (allowed_k3 E _ _ HK Hal Hal') (allowed_cm c E _ _ HC Hal Hal')).
Qed.


(* ===== part 8 ===== *)

(* the resource GetResources returns under a key is the one the host map or the listener map holds under it *)
Lemma get_resources_key_val c s k r : fn_inv c s -> objs_ok (objs_of_state s) -> roles_ok (objs_of_state s) ->
  lookup k (get_resources s) = Some r ->
  key_val (hosts_of_objs c (objs_of_state s)) k r \/ key_val (smap_map RTS (lhosts_of_objs (objs_of_state s))) k r.
Proof.
  intros [Hh Hl] Hok Hr H. unfold get_resources in H. apply of_list_lookup_in in H. apply in_app_iff in H.
  destruct H as [H|H]; apply in_map_iff in H; destruct H as ([h x] & Heq & Hin); cbn [snd] in Heq; inversion Heq; subst.
  - left. exists h. split; [|reflexivity]. rewrite <- Hh. apply In_lookup; [|exact Hin].
    rewrite Hh. unfold hosts_of_objs. apply wf_b_hosts.
  - right. exists h. split; [|reflexivity]. rewrite lookup_smap_map.
    assert (W : wf (lhosts s)) by (rewrite Hl; unfold lhosts_of_objs; apply wf_lb_hosts).
    pose proof (In_lookup _ _ _ W Hin) as L. rewrite Hl in L. rewrite L. reflexivity.
Qed.

Lemma key_val_unique c o k r1 r2 : objs_ok o -> roles_ok o ->
  key_val (hosts_of_objs c o) k r1 \/ key_val (smap_map RTS (lhosts_of_objs o)) k r1 ->
  key_val (hosts_of_objs c o) k r2 \/ key_val (smap_map RTS (lhosts_of_objs o)) k r2 ->
  r1 = r2.
Proof.
  intros Hok Hr [(h1 & L1 & K1)|(h1 & L1 & K1)] [(h2 & L2 & K2)|(h2 & L2 & K2)].
  - apply (coh_same _ (coherent_hosts_of_objs c o Hok) h1 h2); auto. congruence.
  - exfalso. apply (disjoint_roles c o k Hok Hr); [exists h1, r1|exists h2, r2]; auto.
  - exfalso. apply (disjoint_roles c o k Hok Hr); [exists h2, r2|exists h1, r1]; auto.
  - apply (coh_same _ (coherent_lhosts_of_objs o Hok) h1 h2); auto. congruence.
Qed.

Theorem applied_configuration_is_current c es :
  cm_hist c es -> Forall ev_role es -> k3_hist es ->
  forall k, lookup k (shadow_run c init [] es) = option_map attrs (lookup k (get_resources (run c es))).
Proof.
  intros HC He HK k.
  assert (Hok0 : objs_ok (objs_of_state init)).
  { unfold objs_ok; cbn. repeat split; try constructor; intros ? ? []. }
  assert (Hr0 : roles_ok (objs_of_state init)) by (intros k0 t []).
  assert (Hal0 : allowed es (objs_of_state init)) by (repeat split; intros ? ? []).
  assert (Hv0 : vals_are c (objs_of_state init) []) by (intros k0 a H; discriminate H).
  pose proof (shadow_run_vals c es HC HK es init [] (fun e H => H) Hal0 (fn_inv_init c) Hok0 wf_nil Hv0) as Hv.
  fold (run c es) in Hv.
  pose proof (applied_keys_are_active c es He k) as Hkeys.
  assert (Hok : objs_ok (objs_of_state (run c es))) by (rewrite run_objs; apply objs_after_ok).
  assert (Hr : roles_ok (objs_of_state (run c es))).
  { clear -He Hr0. unfold run. revert He. generalize init Hr0. induction es as [|e r IH]; intros s Hs Hev; cbn [fold_left]; [exact Hs|].
    inversion Hev; subst. apply IH; [|assumption]. rewrite step_objs. apply roles_ok_event; assumption. }
  destruct (lookup k (shadow_run c init [] es)) as [a|] eqn:Ls.
  - destruct (lookup k (get_resources (run c es))) as [r|] eqn:Lg.
    + cbn [option_map]. f_equal. destruct (Hv k a Ls) as [(r1 & Kv & ->)|(r1 & Kv & ->)]; f_equal;
        apply (key_val_unique c (objs_of_state (run c es)) k); auto;
        apply (get_resources_key_val c _ k r (run_fn_inv c es) Hok Hr Lg).
    + exfalso. assert (Hin : In k (keys (shadow_run c init [] es))) by (apply in_keys_lookup; congruence).
      apply Hkeys in Hin. apply in_keys_lookup in Hin. congruence.
  - destruct (lookup k (get_resources (run c es))) as [r|] eqn:Lg; [|reflexivity].
    exfalso. assert (Hin : In k (keys (get_resources (run c es)))) by (apply in_keys_lookup; congruence).
    apply Hkeys in Hin. apply in_keys_lookup in Hin. congruence.
Qed.
