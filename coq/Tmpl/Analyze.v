(* Tmpl/Analyze.v -- semantics of the abstract templates of Tmpl/Syntax.v and the abstract
   interpreter over SETS of tokenizer states.  DEFINITIONS ONLY (soundness: AnalyzeProofs.v).

   SEMANTICS.  One rendering of a template is recorded by a trace:
     trace := TText | TSite v | TSeq a b | TLeft a | TRight b | TStar l
     fits t tr           tr has the shape of t (which arm of each Choice, how many rounds of each Star)
     render t tr         the text produced: Text s -> s, Site -> the recorded value v, ...
     values_ok t tr      every recorded site value is in the class of its site
     same_control t a b  a and b make the same control choices (same arms, same numbers of rounds);
                         site values may differ, EXCEPT at sites of class CLines and CLit, where they
                         must be equal: those values are chosen by the controller (helper output, enum
                         and bool tables), they are control, not user text
   ANALYSIS.
     analyze_diag t Q : diag     Q = the set of DFA states the template may be entered in
        Text s      every state of Q is run over s: no Err, QErr never reached, and all runs emit the
                    SAME structural events; result = the set of end states
        Site id c   c = CLit alts: every literal is treated like a Text (from all of Q), results united
                    (the empty list of alternatives is refused);
                    otherwise Classes.site_transfer c q (tabulated: site_transfer_fast) must be defined for every q of Q (the value
                    is neutral there; CLines: only at QBetween), results united
        Seq a b     composition
        Choice a b  both arms from Q, union of the results (arms are different control choices and need
                    not agree)
        Star a      least fixpoint: iterate Q := Q + analyze a Q until nothing is added (fuel 12: there
                    are 11 states)
     diag := DOk Q' | DSite id c q | DText s q1 q2 | DStar
        DSite id c q     the value of site id (class c) is not neutral in the reachable state q
        DText s q1 q2    the literal text s behaves differently from q1 and q2 (q1 = q2: it produces a
                         lexical error from that state)
        DStar            no fixpoint within the fuel (cannot happen with 11 states; kept for totality)
     analyze t Q := Some Q' iff analyze_diag t Q = DOk Q'
     failing_site d      the site id named by a diagnosis, if any *)
From Coq Require Import List String Ascii Bool.
From NIC Require Import Lex.Lexer Tmpl.Syntax Tmpl.LexAux Tmpl.Classes.
Import ListNotations.
Open Scope string_scope.
Open Scope list_scope.

(* ---------------------------------------------------------------- traces *)

Inductive trace :=
| TText
| TSite (v : string)
| TSeq (a b : trace)
| TLeft (a : trace)
| TRight (b : trace)
| TStar (l : list trace).

Definition concat_str (l : list string) : string := fold_right append EmptyString l.

Definition is_control (c : cls) : bool :=
  match c with CLines => true | CLit _ => true | _ => false end.

Fixpoint fits (t : tmpl) (tr : trace) : Prop :=
  match t with
  | Text _ => match tr with TText => True | _ => False end
  | Site _ _ => match tr with TSite _ => True | _ => False end
  | Seq a b => match tr with TSeq x y => fits a x /\ fits b y | _ => False end
  | Choice a b => match tr with TLeft x => fits a x | TRight y => fits b y | _ => False end
  | Star a => match tr with TStar l => Forall (fits a) l | _ => False end
  end.

Fixpoint render (t : tmpl) (tr : trace) : string :=
  match t with
  | Text s => s
  | Site _ _ => match tr with TSite v => v | _ => EmptyString end
  | Seq a b => match tr with TSeq x y => (render a x ++ render b y)%string | _ => EmptyString end
  | Choice a b => match tr with TLeft x => render a x | TRight y => render b y | _ => EmptyString end
  | Star a => match tr with TStar l => concat_str (map (render a) l) | _ => EmptyString end
  end.

Fixpoint values_ok (t : tmpl) (tr : trace) : Prop :=
  match t with
  | Text _ => True
  | Site _ c => match tr with TSite v => in_class c v | _ => True end
  | Seq a b => match tr with TSeq x y => values_ok a x /\ values_ok b y | _ => True end
  | Choice a b => match tr with TLeft x => values_ok a x | TRight y => values_ok b y | _ => True end
  | Star a => match tr with TStar l => Forall (values_ok a) l | _ => True end
  end.

Fixpoint same_control (t : tmpl) (t1 t2 : trace) : Prop :=
  match t with
  | Text _ => match t1, t2 with TText, TText => True | _, _ => False end
  | Site _ c =>
      match t1, t2 with
      | TSite v1, TSite v2 => if is_control c then v1 = v2 else True
      | _, _ => False
      end
  | Seq a b =>
      match t1, t2 with
      | TSeq x1 y1, TSeq x2 y2 => same_control a x1 x2 /\ same_control b y1 y2
      | _, _ => False
      end
  | Choice a b =>
      match t1, t2 with
      | TLeft x1, TLeft x2 => same_control a x1 x2
      | TRight y1, TRight y2 => same_control b y1 y2
      | _, _ => False
      end
  | Star a =>
      match t1, t2 with
      | TStar l1, TStar l2 => Forall2 (same_control a) l1 l2
      | _, _ => False
      end
  end.

(* ---------------------------------------------------------------- the analysis *)

Inductive diag :=
| DOk (Q : list lstate)
| DSite (id : nat) (c : cls) (q : lstate)
| DText (s : string) (q1 q2 : lstate)
| DStar.

(* run s from every state of Q; ref = the first state seen and its structural events *)
Fixpoint text_all (s : string) (ref : option (lstate * list ev)) (Q acc : list lstate) : diag :=
  match Q with
  | [] => DOk (norm_st acc)
  | q :: r =>
      let (q', e) := run q s in
      if no_err e && negb (lstate_eqb q' QErr) then
        match ref with
        | None => text_all s (Some (q, structural e)) r (q' :: acc)
        | Some (q0, e0) =>
            if evs_eqb (structural e) e0 then text_all s ref r (q' :: acc) else DText s q0 q
        end
      else DText s q q
  end.

Fixpoint site_all (id : nat) (c : cls) (Q acc : list lstate) : diag :=
  match Q with
  | [] => DOk (norm_st acc)
  | q :: r =>
      match site_transfer_fast c q with
      | Some qs => site_all id c r (qs ++ acc)
      | None => DSite id c q
      end
  end.

Fixpoint lit_all (id : nat) (c : cls) (alts : list string) (Q acc : list lstate) : diag :=
  match alts with
  | [] => DOk (norm_st acc)
  | a :: r =>
      match text_all a None Q [] with
      | DOk Qa => lit_all id c r Q (Qa ++ acc)
      | DText _ _ q2 => DSite id c q2
      | d => d
      end
  end.

Definition analyze_site (id : nat) (c : cls) (Q : list lstate) : diag :=
  match c with
  | CLit alts =>
      match alts with
      | [] => DSite id c (hd QErr Q)
      | _ => lit_all id c alts Q []
      end
  | _ => site_all id c Q []
  end.

Fixpoint star_loop (f : list lstate -> diag) (fuel : nat) (Q : list lstate) : diag :=
  match fuel with
  | O => DStar
  | S n =>
      match f Q with
      | DOk Q' => if subset_st Q' Q then DOk Q else star_loop f n (union_st Q Q')
      | d => d
      end
  end.

Fixpoint analyze_diag (t : tmpl) (Q : list lstate) : diag :=
  match t with
  | Text s => text_all s None Q []
  | Site id c => analyze_site id c Q
  | Seq a b =>
      match analyze_diag a Q with
      | DOk Q1 => analyze_diag b Q1
      | d => d
      end
  | Choice a b =>
      match analyze_diag a Q with
      | DOk Qa =>
          match analyze_diag b Q with
          | DOk Qb => DOk (union_st Qa Qb)
          | d => d
          end
      | d => d
      end
  | Star a => star_loop (analyze_diag a) 12 (norm_st Q)
  end.

Definition analyze (t : tmpl) (Q : list lstate) : option (list lstate) :=
  match analyze_diag t Q with DOk Q' => Some Q' | _ => None end.

Definition failing_site (d : diag) : option nat :=
  match d with DSite id _ _ => Some id | _ => None end.

(* the whole-file obligation: entered between tokens, every rendering ends where a file may end *)
Definition file_ok (t : tmpl) : bool :=
  match analyze t [QBetween] with
  | Some Q' => forallb final_ok Q'
  | None => false
  end.
