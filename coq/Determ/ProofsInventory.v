(* Determ/ProofsInventory.v -- the obligation that ties the coverage table to the source as it is NOW:
   gen/MapRanges.v is regenerated from the repository by the translator on every run and this
   file is recompiled against it. *)
From Coq Require Import List String Bool Arith.
From NIC Require Import Determ.Model Determ.ProofsTable gen.MapRanges.
Import ListNotations.

Lemma inventory_checked : check_inventory MapRanges.sites MapRanges.nondet_uses = true.
Proof. vm_compute. reflexivity. Qed.

(* every map-range site the translator found is covered by named theorems of the table ... *)
Theorem every_site_covered : forall s, In s MapRanges.sites -> covered s = true.
Proof.
  pose proof inventory_checked as H. unfold check_inventory in H.
  repeat (apply andb_true_iff in H; destruct H as [H ?]).
  apply forallb_forall. exact H.
Qed.

(* ... there is no source of nondeterminism other than map ranges in the three packages ... *)
Theorem no_other_nondeterminism : forall n, In n MapRanges.nondet_uses -> nd_allowed n = true.
Proof.
  pose proof inventory_checked as H. unfold check_inventory in H.
  repeat (apply andb_true_iff in H; destruct H as [H ?]).
  apply forallb_forall. assumption.
Qed.

(* ... and the table has no entry the source no longer has *)
Theorem no_stale_entry : stale MapRanges.sites = [].
Proof. vm_compute. reflexivity. Qed.
